"""C06 — NBLAST scores equal the published definition.

Oracle: the harness finds each query point's nearest target point by brute force (numpy), computes the absolute
tangent dot product (scaled by sqrt(alpha product) when alpha is used); model/Nblast.v (digitize, table lookup on
the tables regenerated from the CSV files, summation, normalisation, combination) evaluates the score in Coq; the
result is compared with navis.nblast / nblast_allbyall entry by entry."""
from fractions import Fraction

import numpy as np
import pandas as pd

from vlib import coqio
from vlib.coqio import term
from vlib.framework import guarded

GEN = ['Gen_Smat.v']
RULE = ('lists of 1-4 dotprops (1-60 points, k in 1..20, float32/float64 points, clouds overlapping / far apart / coincident) x '
        'scores in forward/mean/min/max/both x normalized x use_alpha x smat in {auto, custom DataFrame, v1, callable} x limit_dist '
        '(values 1e-6 away from bin boundaries; a separate boundary stream uses exactly representable values). '
        'one evaluation = one (query, target) matrix entry; non-trivial = query and target differ and share at least one bin transition; '
        'distinct = distinct (points, params).')
ASSUMPTIONS = ['nearest neighbours and tangent dot products are computed by brute force in the harness (oracle); KD-trees are trusted to agree',
               'float summation error: scores compared with relative tolerance 1e-9; "exactly 1" and "never above 1" are checked bit-exactly on navis\' output',
               'v1 / callable score functions are evaluated in Python (the model sees them as opaque per-point scores)']


def mk_dps(rng, n_dp):
    import navis
    out = []
    base = rng.normal(size=3) * 5
    for j in range(n_dp):
        npts = int(rng.choice([1, 2, 3, 5, 8, 13, 21, 34, 60]))
        spread = float(rng.choice([0.5, 3, 12, 40]))
        centre = base + rng.normal(size=3) * float(rng.choice([0, 1, 10, 60]))
        pts = centre + rng.normal(size=(npts, 3)) * spread
        if rng.random() < 0.15 and out:
            pts = np.array(out[-1].points[:max(1, min(npts, len(out[-1].points)))], dtype=float)   # coincident cloud
        dtype = np.float32 if rng.random() < 0.3 else np.float64
        pts = pts.astype(dtype)
        k = int(rng.integers(1, 21))
        dp = navis.make_dotprops(pts, k=min(k, max(1, len(pts))))
        dp.id = 100 + j
        dp.units = '1 micron' if rng.random() < 0.7 else None
        if rng.random() < 0.2 and len(pts) > 1:
            # the usual workflow: data in nm, kd-tree already built (any earlier query), then converted in place
            dp = navis.make_dotprops((pts.astype(np.float64) * 1000), k=min(k, max(1, len(pts))))
            dp.id = 100 + j
            dp.units = '1 nm'
            _ = dp.kdtree
            dp /= 1000
            dp.units = '1 micron'
        out.append(dp)
    return out


def oracle(q, t, use_alpha, limit):
    """per query point: (dist, scaled |dot|) via brute force"""
    P, Qp = np.asarray(q.points, dtype=np.float64), np.asarray(t.points, dtype=np.float64)
    D = np.sqrt(((P[:, None, :] - Qp[None, :, :]) ** 2).sum(axis=2))
    idx = D.argmin(axis=1)
    d = D[np.arange(len(P)), idx]
    vq, vt = np.asarray(q.vect, dtype=np.float64), np.asarray(t.vect, dtype=np.float64)
    dots = np.abs((vq * vt[idx]).sum(axis=1))
    second = np.sort(D, axis=1)[:, 1] if D.shape[1] > 1 else np.full(len(P), np.inf)
    ambiguous = bool(np.any(np.abs(second - d) < 1e-9 * np.maximum(1, d)) and D.shape[1] > 1)
    if use_alpha:
        dots = dots * np.sqrt(np.asarray(q.alpha, dtype=np.float64) * np.asarray(t.alpha, dtype=np.float64)[idx])
    if limit is not None:
        far = d >= limit
        d = np.where(far, limit, d)
        dots = np.where(far, 0.0, dots)
    return d, dots, ambiguous


def near_boundary(vals, bounds, tol=1e-6):
    vals = np.asarray(vals, dtype=float)
    return any(np.any(np.abs(vals - b) <= tol * max(1.0, abs(b))) for b in bounds)


def boundary_stream(ctx, navis, rng, tabs):
    """distances and dot products EXACTLY on bin boundaries (and just inside the outer bins): the half-open side of the intervals
    decides the cell.  Points are 1000 apart along x so that every query point's nearest target point is its partner."""
    exprs, follow = [], []
    for ci in range(ctx.n(16, 160)):
        kind = str(rng.choice(['fcwb', 'custom-right', 'custom-left']))
        if kind == 'fcwb':
            db, tb, right, cells = tabs['fcwb']
            smat_arg, sm_term = 'auto', 'fcwb'
        else:
            right = kind == 'custom-right'
            db = sorted(float(v) for v in rng.choice(np.arange(1, 40) * 0.5, size=4, replace=False))
            tb = sorted(float(v) for v in rng.choice(np.arange(1, 16) * 0.0625, size=3, replace=False))
            cells = (rng.normal(size=(5, 4)).round(3) + 2).tolist()
            lab = (lambda a, b: '(%r,%r]' % (a, b)) if right else (lambda a, b: '[%r,%r)' % (a, b))
            de = [0.0] + list(db) + [1000.0]; te = [0.0] + list(tb) + [1.0]
            smat_arg = pd.DataFrame(cells, index=[lab(a, b) for a, b in zip(de[:-1], de[1:])], columns=[lab(a, b) for a, b in zip(te[:-1], te[1:])])
            sm_term = '{| dist_b := %s; dot_b := %s; sm_right := %s; sm_cells := %s |}' % (
                term([Fraction(b) for b in db]), term([Fraction(b) for b in tb]), term(right), term([[Fraction(float(c)) for c in r] for r in cells]))
        n = int(rng.integers(3, 12))
        dvals = [float(v) for v in rng.choice(list(db) + [0.0, float(db[-1]) * 4], size=n)]
        tvals = [float(v) for v in rng.choice(list(tb) + [0.0, 1.0], size=n)]
        qp = np.array([[1000.0 * i, 0.0, 0.0] for i in range(n)])
        tp = np.array([[1000.0 * i, dvals[i], 0.0] for i in range(n)])
        qv = np.tile([1.0, 0.0, 0.0], (n, 1))
        tv = np.array([[tvals[i], 0.0, 1.0] for i in range(n)])      # |<qv, tv>| = tvals[i] exactly (vectors are used as given)
        q = navis.Dotprops(qp, k=None, vect=qv, alpha=np.ones(n), units='1 micron'); q.id = 1
        t = navis.Dotprops(tp, k=None, vect=tv, alpha=np.ones(n), units='1 micron'); t.id = 2
        d, dots, amb = oracle(q, t, False, None)
        desc = dict(stream='boundary', table=kind, right_closed=bool(right), dist=dvals, dot=tvals)
        ctx.case(('boundary', kind, str(dvals), str(tvals)), nontrivial=True, sample=desc if ci < 2 else None)
        ctx.count('boundary:' + kind)
        if [float(x) for x in d] != dvals or [float(x) for x in dots] != tvals:
            ctx.count('skipped:boundary-not-exact')
            continue
        st, m = guarded(navis.nblast, q, t, scores='forward', normalized=False, use_alpha=False, smat=smat_arg, n_cores=1, progress=False)
        if st != 'ok':
            ctx.violation('nblast raised on the boundary stream', desc, m)
            continue
        exprs.append('qout (raw_score (%s) %s)' % (sm_term, term([(Fraction(a), Fraction(b)) for a, b in zip(dvals, tvals)])))
        follow.append((desc, float(np.asarray(m.values if hasattr(m, 'values') else m).ravel()[0])))
    out = coqio.eval_terms('C06b', ['model.Dist', 'model.Nblast', 'gen.Gen_Smat', 'proofs.NblastProofs'], exprs, shard=120) if exprs else []
    for (desc, got), (a, b) in zip(follow, out):
        want = float(Fraction(a, b))
        if abs(got - want) > 1e-9 * max(1.0, abs(want)):
            ctx.violation('a distance / dot product exactly on a bin boundary selects the wrong cell (half-open side of the intervals)', desc, dict(impl=got, model=want))


def _v1_published(dist, dots, sigma=10.0):
    """the 'v1' score as published (Kohl et al. 2013): sqrt(|u.v| * exp(-d^2 / (2 sigma^2))), evaluated here, not by navis"""
    dist = np.asarray(dist, dtype=float); dots = np.asarray(dots, dtype=float)
    return np.sqrt(np.abs(dots) * np.exp(-dist ** 2 / (2.0 * sigma ** 2)))


def run(ctx):
    import navis
    from translate import smat as tsm
    navis.set_loggers('ERROR')
    navis.set_pbars(hide=True)
    rng = ctx.rng
    N = ctx.n(70, 1200)
    tabs = {}
    for name, fn in (('fcwb', 'smat_fcwb.csv'), ('fcwb_alpha', 'smat_alpha_fcwb.csv')):
        db, tb, right, cells = tsm.table(fn)
        tabs[name] = (db, tb, right, [[float(c) for c in r] for r in cells])
    boundary_stream(ctx, navis, rng, tabs)
    jobs = []
    for ci in range(N):
        dps = mk_dps(rng, int(rng.integers(1, 5)))
        use_alpha = bool(rng.random() < 0.3)
        normalized = bool(rng.random() < 0.7)
        scores = str(rng.choice(['forward', 'forward', 'mean', 'min', 'max', 'both']))
        smat_kind = str(rng.choice(['auto', 'auto', 'auto', 'custom', 'v1', 'callable']))
        limit = None if rng.random() < 0.7 else float(rng.choice([2.0, 10.0, 35.0]))
        allbyall = bool(rng.random() < 0.3)
        params = dict(use_alpha=use_alpha, normalized=normalized, scores=scores, smat=smat_kind, limit_dist=limit, allbyall=allbyall)
        if smat_kind == 'auto':
            tab = tabs['fcwb_alpha' if use_alpha else 'fcwb']
            smat_arg = 'auto'
            sm_term = 'fcwb_alpha' if use_alpha else 'fcwb'
        elif smat_kind == 'custom':
            nb_d, nb_t = int(rng.integers(2, 6)), int(rng.integers(2, 5))
            db = sorted(float(v) for v in rng.choice(np.arange(1, 60) * 0.5, size=nb_d - 1, replace=False))
            tb = sorted(float(v) for v in rng.choice(np.arange(1, 16) * 0.0625, size=nb_t - 1, replace=False))
            cells = rng.normal(size=(nb_d, nb_t)).round(3) + 2
            right = bool(rng.integers(2))
            def lab(a, b):
                return '(%r,%r]' % (a, b) if right else '[%r,%r)' % (a, b)
            de = [0.0] + db + [1000.0]; te = [0.0] + tb + [1.0]
            df = pd.DataFrame(cells, index=[lab(a, b) for a, b in zip(de[:-1], de[1:])], columns=[lab(a, b) for a, b in zip(te[:-1], te[1:])])
            smat_arg = df
            tab = (db, tb, right, cells.tolist())
            sm_term = '{| dist_b := %s; dot_b := %s; sm_right := %s; sm_cells := %s |}' % (
                term([Fraction(b) for b in db]), term([Fraction(b) for b in tb]), term(right), term([[Fraction(float(c)) for c in r] for r in cells]))
        elif smat_kind == 'v1':
            smat_arg, tab, sm_term = 'v1', None, None
        else:
            fn_ = lambda d, dp: np.asarray(dp) * np.exp(-np.asarray(d) / 7.0)
            smat_arg, tab, sm_term = fn_, None, None
        kw = dict(scores=scores, normalized=normalized, use_alpha=use_alpha, smat=smat_arg, limit_dist=limit, n_cores=1, progress=False)
        nl = navis.NeuronList(dps)
        variant = str(rng.choice(['same-list', 'same-list', 'shifted-ids', 'smart', 'smart'])) if not allbyall and sm_term is not None and scores != 'both' else 'same-list'
        params['variant'] = variant
        if variant == 'shifted-ids' and len(dps) >= 2:
            # query = all but the last, target = all but the first, and the target ids are those of the QUERY list: id collisions
            # between different neurons (ids only have to be unique within a list)
            qd, td = dps[:-1], [d.copy() for d in dps[1:]]
            for d_, q_ in zip(td, qd):
                d_.id = q_.id
            st, m = guarded(navis.nblast, navis.NeuronList(qd), navis.NeuronList(td), **kw)
            if st == 'ok':
                st2, ref = guarded(navis.nblast, navis.NeuronList(qd), navis.NeuronList(dps[1:]), **kw)
                ctx.count('variant:colliding-ids')
                if st2 == 'ok' and not np.allclose(np.asarray(m.values, dtype=float), np.asarray(ref.values, dtype=float), rtol=1e-9, atol=1e-12, equal_nan=True):
                    ctx.violation('NBLAST scores depend on the neurons\' ids (query and target lists with colliding ids)', dict(params=params, ids=[d.id for d in qd]),
                                  dict(with_colliding_ids=np.asarray(m.values).tolist(), with_distinct_ids=np.asarray(ref.values).tolist()))
            continue
        if variant == 'smart':
            # nblast_smart with a score threshold below every possible score re-runs every pair in full: must equal nblast
            st, m = guarded(navis.nblast_smart, nl, nl, t=-1e9, criterion='score', scores=scores, normalized=normalized, use_alpha=use_alpha,
                            smat=smat_arg, limit_dist=limit, n_cores=1, progress=False)
            st2, ref = guarded(navis.nblast, nl, nl, **kw)
            ctx.count('variant:smart')
            if st == 'ok' and st2 == 'ok' and not np.allclose(np.asarray(m.values, dtype=float), np.asarray(ref.values, dtype=float), rtol=1e-6, atol=1e-9, equal_nan=True):
                ctx.violation('nblast_smart with every pair re-scored differs from nblast', dict(params=params), dict(smart=np.asarray(m.values).tolist(), nblast=np.asarray(ref.values).tolist()))
            continue
        if allbyall:
            st, m = guarded(navis.nblast_allbyall, nl, **{k: v for k, v in kw.items() if k != 'scores'})
            params['scores'] = scores = 'forward'
        else:
            st, m = guarded(navis.nblast, nl, nl, **kw)
        desc = dict(params=params, dotprops=[dict(id=d.id, n=len(d.points), k=d.k, dtype=str(d.points.dtype), units=str(d.units)) for d in dps],
                    points=[np.asarray(d.points, dtype=float).round(4).tolist() for d in dps] if sum(len(d.points) for d in dps) <= 12 else 'omitted')
        if st != 'ok':
            ctx.violation('nblast raised', desc, m, key='C06:alpha-undefined-k1' if use_alpha and any(d.k == 1 or len(d.points) < 2 or not np.all(np.isfinite(d.alpha)) for d in dps) else None)
            continue
        # oracle data and expected raw scores
        n = len(dps)
        exprs, meta, skip = [], [], False
        exp_py = {}
        for i in range(n):
            for j in range(n):
                d, dots, amb = oracle(dps[i], dps[j], use_alpha, limit)
                if tab is not None and (near_boundary(d, tab[0]) or near_boundary(dots, tab[1])):
                    skip = True
                if amb and i != j:
                    skip = True
                if sm_term is not None:
                    exprs.append('qout (raw_score (%s) %s)' % (sm_term, term([(Fraction(float(a)), Fraction(float(b))) for a, b in zip(d, dots)])))
                else:
                    if smat_kind == 'v1':
                        exp_py[(i, j)] = float(np.sum(_v1_published(d, dots)))
                    else:
                        exp_py[(i, j)] = float(np.sum(smat_arg(d, dots)))
            if sm_term is not None:
                if use_alpha:
                    a = np.asarray(dps[i].alpha, dtype=np.float64)
                    exprs.append('qout (self_hit_alpha (%s) %s)' % (sm_term, term([Fraction(float(np.sqrt(v * v))) for v in a])))
                else:
                    exprs.append('qout (self_hit (%s) %d%%nat)' % (sm_term, len(dps[i].points)))
            else:
                if use_alpha:
                    a = np.asarray(dps[i].alpha, dtype=np.float64)
                    dd, dt = np.zeros(len(a)), np.sqrt(a * a)
                else:
                    dd, dt = np.zeros(len(dps[i].points)), np.ones(len(dps[i].points))
                exp_py[('self', i)] = float(np.sum(_v1_published(dd, dt))) if smat_kind == 'v1' else float(np.sum(smat_arg(dd, dt)))
        if skip:
            ctx.count('skipped:near-boundary-or-nn-tie')
            continue
        jobs.append(dict(desc=desc, exprs=exprs, exp_py=exp_py, m=m, n=n, params=params, ids=[d.id for d in dps], allbyall=allbyall))
    flat = [e for j in jobs for e in j['exprs']]
    out = coqio.eval_terms('C06', ['model.Dist', 'model.Nblast', 'gen.Gen_Smat', 'proofs.NblastProofs'], flat, shard=120) if flat else []
    k = 0
    for j in jobs:
        r = out[k:k + len(j['exprs'])]
        k += len(j['exprs'])
        compare(ctx, j, r)


def compare(ctx, j, r):
    n, params, m, desc = j['n'], j['params'], j['m'], j['desc']
    raw, selfhit = {}, {}
    if j['exprs']:
        it = iter(r)
        for i in range(n):
            for t in range(n):
                a, b = next(it)
                raw[(i, t)] = float(Fraction(a, b))
            a, b = next(it)
            selfhit[i] = float(Fraction(a, b))
    else:
        for key, v in j['exp_py'].items():
            if key[0] == 'self':
                selfhit[key[1]] = v
            else:
                raw[key] = v
    def fwd(i, t):
        if params['normalized']:
            return raw[(i, t)] / selfhit[i] if selfhit[i] != 0 else float('nan')
        return raw[(i, t)]
    ids = j['ids']
    both = params['scores'] == 'both'
    # labels follow input order and carry the ids
    cols = [int(c) for c in m.columns]
    rows = [tuple(x) if isinstance(x, tuple) else int(x) for x in m.index]
    want_rows = [(i_, s) for i_ in ids for s in ('forward', 'reverse')] if both else ids
    if cols != ids or rows != want_rows:
        ctx.violation('rows/columns do not follow the input order / carry the neurons\' ids', desc, dict(index=str(rows), columns=cols))
        return
    vals = m.values
    for i in range(n):
        for t in range(n):
            f_, r_ = fwd(i, t), fwd(t, i)
            mode = params['scores']
            if both:
                exp = [f_, r_]
                got = [float(vals[2 * i, t]), float(vals[2 * i + 1, t])]
            else:
                exp = [dict(forward=f_, mean=(f_ + r_) / 2, min=min(f_, r_), max=max(f_, r_))[mode]]
                got = [float(vals[i, t])]
            nontriv = i != t
            ctx.case((desc['points'] if desc['points'] != 'omitted' else str(desc['dotprops']), str(params), i, t), nontrivial=nontriv,
                     sample=dict(params=params, dotprops=desc['dotprops']) if i == 0 and t == 1 else None)
            ctx.count('smat:' + params['smat'])
            ctx.count('scores:' + mode)
            for g, e in zip(got, exp):
                if e != e:
                    continue
                tol = 1e-9 if params['smat'] in ('auto', 'custom') else 1e-5   # continuous score functions see float32 tangent round-off
                if abs(g - e) > tol * max(1.0, abs(e)):
                    ctx.violation('NBLAST score differs from the definition', dict(desc, query=ids[i], target=ids[t]), dict(impl=g, model=e))
                    return
            # bit-exact claims
            if params['normalized'] and i == t and mode in ('forward', 'mean', 'min', 'max') and got[0] != 1.0 and selfhit[i] != 0 \
                    and params['smat'] in ('auto', 'custom') and not params['use_alpha']:
                ctx.violation('self-score is not exactly 1', dict(desc, query=ids[i]), dict(impl=repr(got[0])))
                return
            if params['normalized'] and params['smat'] == 'auto' and max(got) > 1.0:
                ctx.violation('normalised score exceeds 1', dict(desc, query=ids[i], target=ids[t]), dict(impl=repr(max(got))),
                              key='C06:alpha-exceeds-one' if params['use_alpha'] else None)
                return
