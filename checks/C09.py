"""C09 — results are independent of cores, job partitioning and completion order.

Controlled executor: from the harness (no source hooks) the partition functions of navis.nbl.nblast_funcs are
replaced by forced (rows, cols), ProcessPoolExecutor by an inline executor and as_completed by a chosen
permutation; the assembled score matrix is compared with the single-job result.  Mapping over NeuronLists is run
serially and through an order-preserving inline pool with every chunk size.  The thorough tier adds real
process pools.  The Coq model's array_split is compared with numpy's for every (n, k) used."""
import concurrent.futures as cf
import itertools

import numpy as np
import pandas as pd

from vlib import coqio, forest as F
from vlib.coqio import term
from vlib.framework import guarded

RULE = ('lists of 1-7 dotprops x every (rows, cols) in 1..len+1 (quick: sampled) x random permutations of job completion (all permutations '
        'for <= 4 jobs) for nblast / nblast_allbyall / nblast_smart, scores in forward/mean; NeuronList mapping (apply and decorated navis '
        'functions with per-neuron arguments, omit_failures) serial vs inline pool for chunk sizes 1..N; array_split(n, k) model vs numpy. '
        'thorough: real spawn pools for n_cores in 2,3,4,8. non-trivial = at least 2 jobs; distinct = distinct (lists, partition, permutation).')
ASSUMPTIONS = ['OS scheduling, pickling and memory pressure are not modelled; real-pool runs (thorough tier) sample them',
               'the inline executor runs each submitted job to completion before the next (futures are complete when as_completed sees them)']


class InlineExecutor:
    def __init__(self, *a, **kw):
        pass

    def __enter__(self):
        return self

    def __exit__(self, *a):
        return False

    def submit(self, fn, *a, **kw):
        f = cf.Future()
        try:
            f.set_result(fn(*a, **kw))
        except BaseException as e:  # noqa
            f.set_exception(e)
        return f


class InlinePool:
    """Order-preserving stand-in for pathos ProcessingPool."""
    def __init__(self, *a, **kw):
        self.chunks = []

    def __enter__(self):
        return self

    def __exit__(self, *a):
        return False

    def imap(self, fn, items, chunksize=1):
        items = list(items)
        for i in range(0, len(items), max(1, int(chunksize))):
            for it in items[i:i + max(1, int(chunksize))]:
                yield fn(it)


def mk_dps(rng, n):
    import navis
    out = []
    for j in range(n):
        pts = rng.normal(size=(int(rng.integers(4, 25)), 3)) * 4 + rng.normal(size=3) * 3
        dp = navis.make_dotprops(pts, k=3)
        dp.id = 10 + j
        dp.units = '1 micron'
        out.append(dp)
    return navis.NeuronList(out)


def run(ctx):
    import navis
    import navis.nbl.nblast_funcs as nf
    import navis.core.core_utils as cu
    navis.set_loggers('ERROR')
    navis.set_pbars(hide=True)
    rng = ctx.rng
    saved = (nf.find_batch_partition, nf.find_optimal_partition, nf.ProcessPoolExecutor, nf.as_completed, cu.ProcessingPool)
    splits = set()
    try:
        nf.ProcessPoolExecutor = InlineExecutor
        # ---------------- NBLAST ----------------
        for ci in range(ctx.n(14, 150)):
            nq, nt = int(rng.integers(1, 7)), int(rng.integers(1, 7))
            q, t = mk_dps(rng, nq), mk_dps(rng, nt)
            for d in t:
                d.id += 100
            fn_name = str(rng.choice(['nblast', 'nblast', 'allbyall', 'smart', 'smart_aba']))
            scores = str(rng.choice(['forward', 'mean', 'min', 'max'] + (['both'] if fn_name == 'nblast' else []))) if fn_name != 'allbyall' else 'forward'
            if fn_name in ('allbyall', 'smart_aba'):
                t, nt = q, nq
            def call(n_cores):
                if fn_name == 'nblast':
                    return navis.nblast(q, t, scores=scores, n_cores=n_cores, progress=False)
                if fn_name == 'allbyall':
                    return navis.nblast_allbyall(q, n_cores=n_cores, progress=False)
                if fn_name == 'smart_aba':       # all-by-all shortcut of nblast_smart (target=None)
                    return navis.nblast_smart(q, scores=scores, n_cores=n_cores, progress=False)
                return navis.nblast_smart(q, t, scores=scores, n_cores=n_cores, progress=False)
            st0, base = guarded(call, 1)
            if st0 != 'ok':
                ctx.violation('%s raised with n_cores=1' % fn_name, dict(function=fn_name, nq=nq, nt=nt, scores=scores), base,
                              key='C09:smart-crash' if fn_name.startswith('smart') else None)
                continue
            # partitions navis can actually choose: at most one job row per query and one job column per target
            parts = [(r, c) for r in range(1, nq + 1) for c in range(1, nt + 1) if r * c > 1]
            if not parts:
                continue
            for pi in rng.permutation(len(parts))[:ctx.n(3, 20)]:
                rows, cols = parts[int(pi)]
                splits.add((nq, rows)); splits.add((nt, cols))
                njobs = rows * cols
                perms = list(itertools.permutations(range(njobs))) if njobs <= 4 and not ctx.quick() else \
                    [tuple(int(v) for v in rng.permutation(njobs)) for _ in range(ctx.n(2, 6))]
                for perm in perms:
                    nf.find_batch_partition = lambda *a, **kw: (rows, cols)
                    nf.find_optimal_partition = lambda *a, **kw: (rows, cols)
                    def ordered(futs, perm=perm):
                        futs = list(futs)
                        order = [p for p in perm if p < len(futs)] + [i for i in range(len(futs)) if i not in perm]
                        return iter([futs[i] for i in order])
                    nf.as_completed = ordered
                    st, res = guarded(call, 2)
                    desc = dict(function=fn_name, n_queries=nq, n_targets=nt, scores=scores, rows=rows, cols=cols, completion_order=list(perm))
                    ctx.case((fn_name, nq, nt, scores, rows, cols, perm, ci), nontrivial=njobs >= 2, sample=desc if ci < 2 else None)
                    ctx.count('nblast:' + fn_name)
                    if st != 'ok':
                        ctx.violation('%s raised for a forced job partition' % fn_name, desc, res, key='C09:both-multijob-crash' if scores == 'both' and njobs > 1 else None)
                        break
                    if list(res.index) != list(base.index) or list(res.columns) != list(base.columns):
                        ctx.violation('rows/columns not in input order under a forced partition', desc, dict(index=[str(i) for i in res.index], columns=[str(c) for c in res.columns]))
                        break
                    a, b = np.asarray(res.values, dtype=float), np.asarray(base.values, dtype=float)
                    if a.shape != b.shape or not np.array_equal(np.isnan(a), np.isnan(b)) or np.nanmax(np.abs(a - b), initial=0) > 1e-12:
                        ctx.violation('score matrix depends on job partition / completion order', desc,
                                      dict(partitioned=a.tolist(), single_job=b.tolist()))
                        break
        # ---------------- array_split: model vs numpy ----------------
        nf.find_batch_partition, nf.find_optimal_partition, nf.ProcessPoolExecutor, nf.as_completed, _ = saved
        pairs = sorted(splits | {(n, k) for n in range(0, 9) for k in range(1, 6)})
        out = coqio.eval_terms('C09', ['model.JobGrid'], ['map (fun p => array_split (fst p) (snd p)) %s%%nat' % term(pairs).replace('[', '[').replace('(', '(')])
        for (n, k), chunks in zip(pairs, out[0]):
            want = [list(map(int, c)) for c in np.array_split(np.arange(n), k)]
            ctx.case(('array_split', n, k), nontrivial=n > k > 1)
            ctx.count('array_split')
            if [list(c) for c in chunks] != want:
                ctx.mismatch('model array_split differs from numpy.array_split', dict(n=n, k=k), dict(model=chunks, numpy=want))
        # ---------------- mapping over NeuronLists ----------------
        cu.ProcessingPool = InlinePool
        for ci in range(ctx.n(25, 300)):
            nn = int(rng.integers(1, 8))
            nl = navis.NeuronList([F.mk_neuron(F.gen_forest(rng, 3, 25, roots=1, lattice=False, zero_edges=False), name='n%d' % j, nid=j + 1) for j in range(nn)])
            which = str(rng.choice(['apply', 'prune_twigs', 'prune_at_depth', 'omit', 'omit_inplace', 'method', 'shared_positional']))
            chunk = int(rng.integers(1, nn + 2))
            desc = dict(case=which, n=nn, chunksize=chunk)
            if which == 'apply':
                f = lambda x, k=1: (x.id, x.n_nodes * k)
                ks = [int(v) for v in rng.integers(1, 5, size=nn)]
                ser = guarded(nl.apply, f)
                par = guarded(nl.apply, f, parallel=True, n_cores=2)
                exp = [(n.id, n.n_nodes) for n in nl]
                ok = ser[0] == 'ok' and par[0] == 'ok' and list(ser[1]) == exp and list(par[1]) == exp
                detail = dict(serial=str(ser[1])[:300], parallel=str(par[1])[:300], expected=exp)
            elif which == 'prune_twigs':
                sizes = [float(v) for v in rng.uniform(0.5, 15, size=nn)]
                if nn == 1:
                    sizes = sizes[0]
                ser = guarded(nl.apply, navis.prune_twigs, size=sizes, inplace=False)
                par = guarded(nl.apply, navis.prune_twigs, size=sizes, inplace=False, parallel=True, n_cores=2)
                ind = [guarded(navis.prune_twigs, n, size=s, inplace=False) for n, s in zip(nl, sizes if nn > 1 else [sizes])]
                tab = lambda r: [sorted(int(i) for i in n.nodes.node_id.values) for n in r]
                ok = ser[0] == 'ok' and par[0] == 'ok' and all(i[0] == 'ok' for i in ind) and tab(ser[1]) == tab(par[1]) == tab([i[1] for i in ind]) \
                    and [n.id for n in ser[1]] == [n.id for n in nl] == [n.id for n in par[1]]
                detail = dict(sizes=sizes, serial=str(ser[1])[:200], parallel=str(par[1])[:200])
            elif which == 'prune_at_depth':
                src = [int(n.nodes.node_id.values[int(rng.integers(n.n_nodes))]) for n in nl]
                ser = guarded(navis.prune_at_depth, nl, depth=6.5, source=src, inplace=False)
                par = guarded(navis.prune_at_depth, nl, depth=6.5, source=src, inplace=False, parallel=True, n_cores=2)
                ind = [guarded(navis.prune_at_depth, n, depth=6.5, source=s, inplace=False) for n, s in zip(nl, src)]
                tab = lambda r: [sorted(int(i) for i in n.nodes.node_id.values) for n in r]
                if nn == 1:
                    ok = True   # a single source for a single neuron is not zipped
                else:
                    ok = ser[0] == 'ok' and par[0] == 'ok' and all(i[0] == 'ok' for i in ind) and tab(ser[1]) == tab(par[1]) == tab([i[1] for i in ind])
                detail = dict(sources=src, serial=str(ser[1])[:200], parallel=str(par[1])[:200])
            elif which == 'omit_inplace':
                # a decorated function run in place with omit_failures: the list itself ends up holding the survivors only,
                # identically serial and parallel (a non-existent `source` makes prune_at_depth fail for that neuron)
                src = [int(n.nodes.node_id.values[0]) for n in nl]
                badix = sorted(int(v) for v in rng.choice(nn, size=int(rng.integers(0, nn)), replace=False)) if nn > 1 else []
                for b_ in badix:
                    src[b_] = 10 ** 9
                mk_ = lambda: navis.NeuronList([n.copy() for n in nl])
                a_, b_nl = mk_(), mk_()
                ser = guarded(navis.prune_at_depth, a_, depth=6.5, source=src, inplace=True, omit_failures=True)
                par = guarded(navis.prune_at_depth, b_nl, depth=6.5, source=src, inplace=True, omit_failures=True, parallel=True, n_cores=2)
                exp = [n.id for j, n in enumerate(nl) if j not in badix]
                ok = nn == 1 or (ser[0] == 'ok' and par[0] == 'ok' and [n.id for n in a_] == exp and [n.id for n in b_nl] == exp)
                detail = dict(failing_positions=badix, serial=[n.id for n in a_], parallel=[n.id for n in b_nl], expected=exp)
            elif which == 'shared_positional':
                # a SHARED (not per-neuron) sequence argument given positionally, whose length happens to equal the number of neurons:
                # every neuron receives the whole sequence
                sel = [1, 2, 3, 4, 5, 6, 7][:nn] if rng.random() < 0.7 else [1, 2]
                ser = guarded(lambda: navis.prune_by_strahler(nl, list(sel), inplace=False))
                par = guarded(lambda: navis.prune_by_strahler(nl, list(sel), inplace=False, parallel=True, n_cores=2))
                ind = [guarded(lambda n=n: navis.prune_by_strahler(n, list(sel), inplace=False)) for n in nl]
                tab = lambda r: [(n.id, sorted(int(i) for i in n.nodes.node_id.values)) for n in (r if hasattr(r, 'neurons') else [r])]
                ok = ser[0] == 'ok' and par[0] == 'ok' and all(i[0] == 'ok' for i in ind) and tab(ser[1]) == tab(par[1]) == [t for i in ind for t in tab(i[1])]
                detail = dict(to_prune=sel, serial=str(tab(ser[1]) if ser[0] == 'ok' else ser[1])[:300], individually=str([t for i in ind if i[0] == 'ok' for t in tab(i[1])])[:300])
            elif which == 'method':
                # NeuronList METHOD calls are dispatched to each neuron's own bound method, serially and in parallel
                ser = guarded(lambda: nl.prune_by_strahler(1, inplace=False))
                par = guarded(lambda: nl.prune_by_strahler(1, inplace=False, parallel=True, n_cores=2))
                ind = [guarded(lambda n=n: n.prune_by_strahler(1, inplace=False)) for n in nl]
                tab = lambda r: [(n.id, sorted(int(i) for i in n.nodes.node_id.values)) for n in r]
                ok = ser[0] == 'ok' and par[0] == 'ok' and all(i[0] == 'ok' for i in ind) and tab(ser[1]) == tab(par[1]) == tab([i[1] for i in ind])
                detail = dict(serial=str(ser[1])[:200], parallel=str(par[1])[:200])
            else:
                bad = set(int(v) for v in rng.choice(np.arange(1, nn + 1), size=int(rng.integers(0, nn + 1)), replace=False))
                def f(x):
                    if x.id in bad:
                        raise ValueError('boom')
                    return x.id
                ser = guarded(nl.apply, f, omit_failures=True)
                par = guarded(nl.apply, f, omit_failures=True, parallel=True, n_cores=2)
                exp = [n.id for n in nl if n.id not in bad]
                ok = ser[0] == 'ok' and par[0] == 'ok' and list(ser[1]) == exp and list(par[1]) == exp
                detail = dict(failing=sorted(bad), serial=str(ser[1])[:200], parallel=str(par[1])[:200], expected=exp)
            ctx.case((which, nn, chunk, ci), nontrivial=nn >= 2)
            ctx.count('map:' + which)
            if not ok:
                ctx.violation('mapping over a NeuronList: results not in list order / arguments mismatched / failures not isolated', desc, detail)
    finally:
        nf.find_batch_partition, nf.find_optimal_partition, nf.ProcessPoolExecutor, nf.as_completed, cu.ProcessingPool = saved
    if not ctx.quick():
        real_pools(ctx, navis, rng)


def real_pools(ctx, navis, rng):
    q, t = mk_dps(rng, 5), mk_dps(rng, 4)
    for d in t:
        d.id += 100
    base = navis.nblast(q, t, n_cores=1, progress=False)
    for nc in (2, 3, 4, 8):
        st, res = guarded(navis.nblast, q, t, n_cores=nc, progress=False)
        ctx.case(('realpool', nc), nontrivial=True)
        ctx.count('real_pool')
        if st != 'ok' or np.abs(res.values - base.values).max() > 1e-12 or list(res.index) != list(base.index):
            ctx.violation('nblast with a real process pool differs from the single-core result', dict(n_cores=nc), str(res)[:500])
