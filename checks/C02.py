"""C02 — derived views always agree with the current node table.

Proof side: abstract cache machine (model/Cache.v) + obligations recomputed from the source by
translate/cache.py (gen/Gen_Cache.v, proofs/CacheObl.v).
Correspondence: random interleavings of cache-warming reads, navis operations (in place or not) and direct
edits of x.nodes; after each step ONE randomly chosen view is read first and compared with the same view
of a neuron freshly constructed from the current node table; then two more views are read."""
import numpy as np
import pandas as pd

from vlib import forest as F, skelops
from vlib.framework import guarded

GEN = ['Gen_Cache.v']
RULE = ('random forests (2-30 nodes) x histories of 2-10 steps drawn from {warm a view, navis op (catalogue of vlib/skelops.py, '
        'inplace at random), direct edit (move a node, change a parent link, replace the table, append rows)}; '
        'after every step a random view among graph/igraph/segments/small_segments/geodesic_matrix/cable_length/'
        'adjacency_matrix/simple/subtrees (and root/leaf/branch sets after navis ops) is read FIRST and compared with a fresh neuron. '
        'One evaluation = one compared read; non-trivial = the history contained an edit or op before the read and a warmed cache; '
        'distinct = distinct (table, history suffix, view).')
ASSUMPTIONS = ['a cache installed by an operation (Carry in the machine: subgraph carried over by subset, graph edited in step by reroot) '
               'describes the table the operation leaves behind - this is exactly what the correspondence run tests',
               'root/leaf/branch sets after DIRECT edits are not claimed by the property and not checked']

VIEWS = ['graph', 'igraph', 'segments', 'small_segments', 'geodesic_matrix', 'cable_length', 'adjacency_matrix', 'simple', 'subtrees']
TYPED = ['root', 'leafs', 'branch_points']


def read_view(x, v):
    if v == 'graph':
        g = x.graph
        return (sorted(int(n) for n in g.nodes), sorted((int(a), int(b), float(d['weight'])) for a, b, d in g.edges(data=True)))
    if v == 'igraph':
        g = x.igraph
        ids = g.vs['node_id']
        return (sorted(int(n) for n in ids), sorted((int(ids[e.source]), int(ids[e.target]), float(e['weight'])) for e in g.es))
    if v == 'segments':
        return sorted(tuple(int(i) for i in s) for s in x.segments)
    if v == 'small_segments':
        return sorted(tuple(int(i) for i in s) for s in x.small_segments)
    if v == 'geodesic_matrix':
        m = x.geodesic_matrix
        idx = [int(i) for i in m.index]
        cols = [int(i) for i in m.columns]
        vals = m.values
        return sorted((idx[i], cols[j], float(vals[i, j])) for i in range(len(idx)) for j in range(len(cols)))
    if v == 'cable_length':
        return float(x.cable_length)
    if v == 'adjacency_matrix':
        m = x.adjacency_matrix
        idx = [int(i) for i in m.index]
        cols = [int(i) for i in m.columns]
        vals = m.values
        return sorted((idx[i], cols[j]) for i, j in zip(*np.nonzero(vals)))
    if v == 'simple':
        s = x.simple
        return sorted((int(a), int(b), round(float(cx), 9), round(float(cy), 9), round(float(cz), 9)) for a, b, cx, cy, cz in
                      zip(s.nodes.node_id.values, s.nodes.parent_id.values, s.nodes.x.values, s.nodes.y.values, s.nodes.z.values))
    if v == 'subtrees':
        return sorted(tuple(sorted(int(i) for i in c)) for c in x.subtrees)
    if v == 'root':
        return sorted(int(i) for i in x.root)
    if v == 'leafs':
        return sorted(int(i) for i in x.leafs.node_id.values)
    if v == 'branch_points':
        return sorted(int(i) for i in x.branch_points.node_id.values)
    raise ValueError(v)


def fresh(x):
    import navis
    cols = [c for c in x.nodes.columns if c != 'type']
    return navis.TreeNeuron(x.nodes[cols].copy(deep=True), soma=None)


def direct_edit(rng, x):
    """Edit or replace x.nodes directly. Returns a description, keeps the table a valid forest."""
    nd = x.nodes
    ids = [int(i) for i in nd.node_id.values]
    kind = str(rng.choice(['move', 'move', 'detach', 'attach', 'replace', 'replace_shuffled']))
    if kind == 'move':
        i = int(rng.integers(len(ids)))
        col = str(rng.choice(['x', 'y', 'z']))
        x.nodes.loc[x.nodes.index[i], col] += float(rng.choice([1.5, -2.25, 7.0]))
        return dict(edit='move', node=ids[i], col=col)
    if kind == 'detach':
        nr = np.nonzero(nd.parent_id.values >= 0)[0]
        if len(nr):
            i = int(nr[int(rng.integers(len(nr)))])
            x.nodes.loc[x.nodes.index[i], 'parent_id'] = -1
            return dict(edit='detach', node=ids[i])
        kind = 'replace'
    if kind == 'attach':
        roots = [int(r) for r in nd.node_id.values[nd.parent_id.values < 0]]
        if len(roots) > 1:
            r = roots[int(rng.integers(len(roots)))]
            # attach root r below a node of another fragment
            comp = {}
            par = dict(zip(ids, [int(p) for p in nd.parent_id.values]))
            def root_of(i):
                while par[i] >= 0:
                    i = par[i]
                return i
            others = [i for i in ids if root_of(i) != r]
            tgt = others[int(rng.integers(len(others)))]
            x.nodes.loc[x.nodes.node_id == r, 'parent_id'] = tgt
            return dict(edit='attach', node=r, to=tgt)
        kind = 'replace'
    # replace the whole table through the setter
    f = F.gen_forest(rng, 2, 25)
    df = F.forest_df(f)
    if kind == 'replace_shuffled':
        df = df.sample(frac=1, random_state=int(rng.integers(1 << 30))).reset_index(drop=True)
    x.nodes = df
    return dict(edit='replace', forest=f)


def run(ctx):
    import navis
    navis.set_loggers('ERROR')
    navis.set_pbars(hide=True)
    rng = ctx.rng
    H = ctx.n(140, 3000)
    maxsteps = ctx.n(8, 20)
    ops = [o for o in skelops.STRUCTURAL if o not in ('break_fragments', 'stitch', 'combine')]
    for h in range(H):
        f = F.gen_forest(rng, 2, ctx.n(30, 60))
        be = str(rng.choice(['fastcore', 'fastcore', 'igraph', 'nx']))
        with F.backend(be):
            x = F.mk_neuron(f, soma=None)
            hist = []
            warmed = set()
            if rng.random() < 0.5:
                for v in ('graph', 'igraph', 'segments'):
                    if guarded(read_view, x, v)[0] == 'ok':
                        warmed.add(v)
                hist.append(dict(step='warm', views=['graph', 'igraph', 'segments']))
            dirty = False
            typed_stale = set()   # id() of objects whose last modification was a direct edit (root/leaf/branch sets not claimed)
            relatives = []      # objects the current neuron was derived from / produced together with (inputs left behind, other halves)
            for k in range(int(rng.integers(2, maxsteps + 1))):
                kind = str(rng.choice(['warm', 'op', 'op', 'edit', 'rejected', 'edit+rewrap'] + (['relative', 'relative'] if relatives else [])))
                if relatives and hist and hist[-1].get('step') == 'op' and not hist[-1].get('inplace') and rng.random() < 0.35:
                    kind = 'relative'
                after_direct = False
                if len(x.nodes) < 2:
                    kind = 'edit'
                if kind == 'relative':
                    # an in-place operation (or a direct edit) on a RELATIVE must not reach the views of the current neuron
                    ri = int(rng.integers(len(relatives)))
                    r = relatives[ri]
                    if len(r.nodes) < 2:
                        continue
                    inpl = [o for o in ops if skelops.OPS[o].inplace_kw]
                    if rng.random() < 0.5:      # operations that edit a cached graph in place
                        inpl = [o for o in inpl if 'reroot' in o] or inpl
                    name = inpl[int(rng.integers(len(inpl)))]
                    op = skelops.OPS[name]
                    if rng.random() < 0.25:
                        st, d = guarded(direct_edit, rng, r)
                        typed_stale.add(id(r))
                        hist.append(dict(step='relative-direct', relative=ri, **{k2: v2 for k2, v2 in (d.items() if st == 'ok' else []) if k2 != 'forest'}))
                    else:
                        st, p = guarded(op.gen, rng, r)
                        if st != 'ok' or p is None:
                            continue
                        st, _ = guarded(op.apply, r, p, True)
                        hist.append(dict(step='relative-op', relative=ri, op=name, params=p, inplace=True, status=st))
                    ctx.count('relative:' + name)
                    # fall through: the current neuron's table is unchanged, every view must still describe it; then the relative itself
                    for obj, what in ((x, 'current neuron after an in-place operation on a relative'), (r, 'relative after its own in-place operation')):
                        st0, fr0 = guarded(fresh, obj)
                        if st0 != 'ok':
                            continue
                        for v in list(TYPED) + [VIEWS[int(i)] for i in rng.choice(len(VIEWS), size=3, replace=False)] + ['graph']:
                            if v in TYPED and id(obj) in typed_stale:
                                continue
                            s1, got = guarded(read_view, obj, v)
                            s2, want = guarded(read_view, fr0, v)
                            ctx.case((F.table_of(obj), str(hist[-3:]), v, what), nontrivial=True)
                            ctx.count('view-relative:' + v)
                            if s1 == 'ok' and s2 == 'ok' and not same(got, want):
                                ctx.violation('cached view differs from a freshly constructed neuron (' + what + ')',
                                              dict(start=f, backend=be, history=list(hist), view=v), dict(got=short(got), fresh=short(want)))
                                break
                        # the reads above went through the stale check, which re-classifies the nodes: from here on the
                        # root / leaf / branch sets of this object are claimed again (unless its LAST step was a direct edit)
                        if not (obj is r and hist[-1]['step'] == 'relative-direct'):
                            typed_stale.discard(id(obj))
                    continue
                if kind == 'rejected':
                    # an operation that REJECTS its arguments (raises) must leave the neuron as usable as before: in particular unlocked
                    which = str(rng.choice(['reroot-missing-node', 'reroot-no-soma', 'subset-garbage']))
                    bad_id = int(max(int(v) for v in x.nodes.node_id.values) + 12345)
                    if which == 'reroot-missing-node':
                        st, _r = guarded(navis.reroot_skeleton, x, bad_id, inplace=True)
                    elif which == 'reroot-no-soma':
                        st, _r = guarded(lambda: x.reroot(x.soma, inplace=True))
                    else:
                        st, _r = guarded(navis.subset_neuron, x, 'not a subset', inplace=True)
                    hist.append(dict(step='rejected-op', call=which, status=st))
                    ctx.count('rejected:' + which)
                    if st == 'ok':
                        dirty = True
                    kind = 'edit'      # and the table is then edited directly: every view must follow
                if kind == 'edit+rewrap':
                    # a direct edit that is NOT followed by a read, then the neuron is re-wrapped in its own class: the new object
                    # must not inherit caches computed before the edit
                    st, d = guarded(direct_edit, rng, x)
                    if st != 'ok':
                        ctx.obligation('harness:direct_edit', False, str(d))
                        return
                    hist.append(dict(step='direct', **{k2: v2 for k2, v2 in d.items() if k2 != 'forest'}))
                    how = str(rng.choice(['TreeNeuron(x)', 'Neuron(x)', 'x.copy()']))
                    st, y_ = guarded((lambda: navis.TreeNeuron(x)) if how == 'TreeNeuron(x)' else (lambda: navis.core.Neuron(x)) if how == 'Neuron(x)' else (lambda: x.copy()))
                    hist.append(dict(step='rewrap', how=how, status=st))
                    ctx.count('rewrap:' + how)
                    if st != 'ok':
                        ctx.violation('re-wrapping a directly edited neuron raised', dict(start=f, backend=be, history=list(hist)), y_)
                        break
                    typed_stale.add(id(y_))
                    relatives.append(x); relatives = relatives[-3:]
                    typed_stale.add(id(x))
                    x = y_
                    dirty = True
                    after_direct = True
                    kind = 'verify-only'
                if kind == 'warm':
                    vs = [VIEWS[int(i)] for i in rng.choice(len(VIEWS), size=int(rng.integers(1, 4)), replace=False)]
                    for v in vs:
                        st, _ = guarded(read_view, x, v)
                        if st == 'ok':
                            warmed.add(v)
                    hist.append(dict(step='warm', views=vs))
                    continue
                if kind == 'op':
                    name = ops[int(rng.integers(len(ops)))]
                    op = skelops.OPS[name]
                    st, p = guarded(op.gen, rng, x)
                    if st != 'ok' or p is None:
                        continue
                    inplace = bool(rng.integers(2)) if op.inplace_kw else False
                    st, res = guarded(op.apply, x, p, inplace)
                    hist.append(dict(step='op', op=name, params=p, inplace=inplace, status=st))
                    ctx.count('op:' + name)
                    if st == 'ok' and not inplace:
                        # the input left behind: its table is unchanged, so every (possibly cached) view must still describe it
                        st0, fr0 = guarded(fresh, x)
                        for v in (sorted(warmed) if warmed else []):
                            s1, got = guarded(read_view, x, v)
                            s2, want = guarded(read_view, fr0, v) if st0 == 'ok' else ('skip', None)
                            ctx.case((F.table_of(x), str(hist[-3:]), v, 'input-left-behind'), nontrivial=bool(warmed))
                            ctx.count('view-of-input:' + v)
                            if s1 == 'ok' and s2 == 'ok' and not same(got, want):
                                ctx.violation('a cached view of the INPUT of a non-inplace operation no longer matches its (unchanged) node table',
                                              dict(start=f, backend=be, history=list(hist), view=v), dict(got=short(got), fresh=short(want)))
                                break
                    if st == 'ok':
                        nxt = res[0] if isinstance(res, list) else res
                        if inplace or nxt is None:
                            nxt = x
                        if hasattr(nxt, 'neurons'):
                            nxt = nxt[0]
                        if len(nxt.nodes) == 0:
                            break
                        typed_stale.discard(id(nxt))
                        if nxt is not x:
                            relatives.append(x)
                        if isinstance(res, list):
                            relatives.extend(o for o in res[1:] if hasattr(o, 'nodes') and o is not nxt and len(o.nodes))
                        relatives = relatives[-3:]
                        x = nxt
                    dirty = True
                elif kind == 'verify-only':
                    pass
                else:
                    st, d = guarded(direct_edit, rng, x)
                    if st != 'ok':
                        ctx.obligation('harness:direct_edit', False, str(d))
                        return
                    hist.append(dict(step='direct', **{k2: v2 for k2, v2 in d.items() if k2 != 'forest'}))
                    ctx.count('edit:' + d['edit'])
                    typed_stale.add(id(x))
                    dirty = True
                    after_direct = True
                # ---- read one random view first, then two more, compare with a fresh neuron
                # after a navis operation the root / leaf / branch sets are read FIRST (reading a cached view re-classifies the nodes
                # and would repair a wrong `type` column before it is looked at), then three random views
                order = ([] if after_direct else list(TYPED)) + [VIEWS[int(i)] for i in rng.choice(len(VIEWS), size=3, replace=False)]
                st, fr = guarded(fresh, x)
                if st != 'ok':
                    ctx.violation('cannot construct a fresh neuron from the current table', dict(start=f, backend=be, history=hist), fr)
                    break
                for n_read, v in enumerate(order):
                    s1, got = guarded(read_view, x, v)
                    s2, want = guarded(read_view, fr, v)
                    desc = dict(start=f, backend=be, history=list(hist), view=v, read_position=n_read)
                    ctx.case((F.table_of(x), str(hist[-3:]), v), nontrivial=dirty and bool(warmed),
                             sample=dict(history=hist, view=v) if len(hist) < 4 else None)
                    ctx.count('view:' + v)
                    if s1 != s2:
                        if s2 == 'ok':
                            ctx.violation('view raises on the operated neuron but not on a fresh one', desc, got)
                        continue
                    if s1 != 'ok':
                        continue
                    if not same(got, want):
                        ctx.violation('cached view differs from a freshly constructed neuron', desc, dict(got=short(got), fresh=short(want)))
                        break

    # ---- lineages: y derived from x by a non-inplace operation (views of x warm), then x edited IN PLACE: nothing of y may move
    inpl = [o for o in ops if skelops.OPS[o].inplace_kw]
    for h in range(ctx.n(160, 3000)):
        f = F.gen_forest(rng, 2, ctx.n(30, 60))
        be = str(rng.choice(['fastcore', 'igraph', 'nx', 'nx']))
        with F.backend(be):
            x = F.mk_neuron(f, soma=None)
            for v in ('graph', 'igraph', 'segments', 'geodesic_matrix'):
                guarded(read_view, x, v)
            name = ops[int(rng.integers(len(ops)))] if rng.random() < 0.5 else str(rng.choice(['cut_distal', 'cut_proximal', 'subset', 'reroot']))
            op = skelops.OPS[name]
            st, p = guarded(op.gen, rng, x)
            if st != 'ok' or p is None:
                continue
            st, res = guarded(op.apply, x, p, False)
            if st != 'ok':
                continue
            ys = [o for o in (res if isinstance(res, list) else [res]) if o is not None]
            ys = [o[0] if hasattr(o, 'neurons') and len(o) else o for o in ys]
            ys = [o for o in ys if hasattr(o, 'nodes') and o is not x and len(o.nodes) > 0][:2]
            if not ys or len(x.nodes) < 2:
                continue
            hist = [dict(step='warm', views=['graph', 'igraph', 'segments', 'geodesic_matrix']), dict(step='op', op=name, params=p, inplace=False)]
            if rng.random() < 0.5:
                for y in ys:
                    guarded(read_view, y, 'graph')
                hist.append(dict(step='warm-derived', views=['graph']))
            cand = [o for o in inpl if 'reroot' in o] if rng.random() < 0.6 else inpl
            name2 = cand[int(rng.integers(len(cand)))]
            op2 = skelops.OPS[name2]
            st, p2 = guarded(op2.gen, rng, x)
            if st != 'ok' or p2 is None:
                continue
            st, _ = guarded(op2.apply, x, p2, True)
            hist.append(dict(step='op-on-parent', op=name2, params=p2, inplace=True, status=st))
            ctx.count('lineage:%s>%s' % (name, name2))
            for obj, what in [(y, 'object derived earlier from the neuron that was then edited in place') for y in ys] + [(x, 'the neuron edited in place')]:
                st0, fr0 = guarded(fresh, obj)
                if st0 != 'ok':
                    continue
                bad = False
                for v in list(TYPED) + ['graph', 'igraph', 'segments', 'geodesic_matrix', 'cable_length', 'simple']:
                    s1, got = guarded(read_view, obj, v)
                    s2, want = guarded(read_view, fr0, v)
                    ctx.case((F.table_of(obj), str(hist[1:]), v, what), nontrivial=True, sample=dict(history=hist, view=v) if h < 2 else None)
                    ctx.count('view-lineage:' + v)
                    if s1 == 'ok' and s2 == 'ok' and not same(got, want):
                        ctx.violation('cached view differs from a freshly constructed neuron (' + what + ')',
                                      dict(start=f, backend=be, history=hist, view=v), dict(got=short(got), fresh=short(want)))
                        bad = True
                        break
                if bad:
                    break


def same(a, b):
    if isinstance(a, float):
        return a == b or abs(a - b) <= 1e-9 * max(1, abs(b))
    if isinstance(a, tuple) and len(a) == 2 and isinstance(a[1], list):
        return a[0] == b[0] and same_list(a[1], b[1])
    if isinstance(a, list):
        return same_list(a, b)
    return a == b


def same_list(a, b):
    if len(a) != len(b):
        return False
    for u, v in zip(a, b):
        if u == v:
            continue
        if isinstance(u, tuple) and len(u) == len(v) and u[:-1] == v[:-1] and isinstance(u[-1], float):
            if u[-1] == v[-1] or (u[-1] != u[-1] and v[-1] != v[-1]) or abs(u[-1] - v[-1]) <= 1e-9 * max(1, abs(v[-1])):
                continue
        return False
    return True


def short(v):
    s = repr(v)
    return s if len(s) < 1500 else s[:1500] + '...'
