"""C12 — pruning keeps exactly the nodes its criterion defines.

navis' pruned node tables (and connector tables) are compared for equality with model/Prune.v evaluated in
Coq on the same forest, exact edge lengths and parameters (default backend; backend agreement is C04)."""
from fractions import Fraction

import numpy as np

from vlib import coqio, forest as F
from vlib.coqio import term, Raw
from vlib.framework import guarded
from checks.C05 import weights

RULE = ('random branched forests (float stream, generic coordinates so thresholds are away from ties; lattice stream with half-integer '
        'thresholds) x {prune_twigs(size, recursive in False/True/1/2, mask None / union of whole twigs + other nodes), '
        'prune_twigs(exact=True), prune_by_strahler(every int in -4..4, lists, ranges, slices; relocate_connectors both), '
        'prune_at_depth(source, depth), longest_neurite(n int/slice, inverse)}. non-trivial = forest has a branch point; '
        'distinct = distinct (table, coordinates, op, params).')
ASSUMPTIONS = ['edge lengths are supplied by the harness; square roots are not computed in Coq',
               'masks that cut through a twig are not generated: the property only fixes the meaning of twigs that lie in the mask',
               'Strahler indices used by prune_by_strahler are the model\'s (model/Strahler.v); their agreement with navis is checked here and in C17']


def tbl(f):
    return '(mk %s)' % term(list(zip(f['ids'], f['parents'])))


def run(ctx):
    import navis
    navis.set_loggers('ERROR')
    navis.set_pbars(hide=True)
    rng = ctx.rng
    N = ctx.n(380, 3000)
    nmax = ctx.n(30, 80)
    jobs = []
    for ci in range(N):
        lattice = bool(rng.random() < 0.35)
        kind = str(rng.choice(['twigs', 'twigs', 'exact', 'strahler', 'strahler', 'depth', 'longest']))
        if kind == 'strahler' and rng.random() < 0.5:
            # deep binary trees: Strahler orders up to 4, so that non-contiguous selections leave kept nodes between removed ones
            f = F.gen_forest(rng, 15, max(16, nmax), lattice=lattice, zero_edges=False, shape='binary')
        else:
            f = F.gen_forest(rng, 3, nmax, lattice=lattice, zero_edges=False,
                             shape=str(rng.choice(['rrt', 'rrt', 'caterpillar', 'binary', 'star', 'isolated+tree'])))
        w = weights(f, lattice)
        if any(v == 0 for v in w.values()):
            continue
        ids = f['ids']
        T = tbl(f)
        W = term(sorted(w.items()))
        cn = F.gen_connectors(rng, f)
        be = str(rng.choice(['fastcore', 'fastcore', 'fastcore', 'igraph', 'nx']))
        ctx.count('backend:' + be)
        with F.backend(be):
            x = F.mk_neuron(f, connectors=cn)
            prev_conn = sorted((int(c), int(n)) for c, n in zip(cn.connector_id.values, cn.node_id.values)) if cn is not None else []
            nt = F.nontrivial(f)
            desc = dict(forest=f, lattice=lattice, op=kind, backend=be)
            size = float(rng.integers(0, 12)) + 0.5 if lattice else float(rng.uniform(0.1, 40))
            if kind == 'twigs':
                rec = [False, True, 1, 2, 1, 2, 3][int(rng.integers(7))]
                if rec is not False and rec is not True and len(w) > 0 and rng.random() < 0.7:
                    # integer recursion depths matter when pruning uncovers new short twigs: thresholds worth a few edges
                    size = float(np.percentile([float(v) for v in w.values()], 75)) * float(rng.choice([1.5, 2.5, 4.0]))
                    if lattice:
                        size = float(int(size)) + 0.5
                use_mask = rng.random() < 0.35
                mask = None
                if use_mask:
                    # union of whole twigs (computed by a throw-away walk) + random non-twig nodes
                    par = dict(zip(ids, f['parents']))
                    nch = {i: 0 for i in ids}
                    for p in f['parents']:
                        if p >= 0:
                            nch[p] += 1
                    tw_nodes, mask = set(), set()
                    for i in ids:
                        if nch[i] == 0 and par[i] >= 0:
                            tw, j = [], i
                            while j >= 0 and nch[j] < 2:
                                tw.append(j)
                                j = par[j]
                            if j >= 0:
                                tw_nodes.update(tw)
                                if rng.random() < 0.5:
                                    mask.update(tw)
                    mask.update(i for i in ids if i not in tw_nodes and rng.random() < 0.5)
                    mask = sorted(mask)
                p = dict(size=size, recursive=rec, mask=mask)
                desc.update(params=p)
                marg = None if mask is None else (np.array(mask, dtype=np.int64) if rng.random() < 0.5 or not mask else np.isin(x.nodes.node_id.values, mask))
                if mask is not None and len(mask) == 0:
                    marg = np.zeros(len(ids), dtype=bool)
                st, res = guarded(navis.prune_twigs, x, size=size, recursive=rec, mask=marg, inplace=bool(rng.integers(2)))
                rounds = 'None' if rec is True else '(Some %d%%nat)' % (0 if rec is False else int(rec))
                mterm = 'None' if mask is None else '(Some %s)' % term(mask)
                jobs.append(dict(desc=desc, nt=nt, key=(str(f['ids']), str(f['xyz']), kind, str(p)),
                                 exprs=['(out (prune_twigs %s %s %s %s %s), partial_mask_met %s %s %s %s %s, chain_mask_met %s %s %s %s %s)' % ((rounds, T, W, term(Fraction(size)), mterm) * 3)],
                                 cmp=_cmp_table(st, res, x)))
            elif kind == 'exact':
                p = dict(size=size)
                desc.update(params=p)
                orig = {int(i): np.array(c, dtype=float) for i, c in zip(ids, f['xyz'])}
                st, res = guarded(navis.prune_twigs, x, size=size, exact=True, inplace=False)
                jobs.append(dict(desc=desc, nt=nt, key=(str(f['ids']), str(f['xyz']), kind, str(p)),
                                 exprs=['map (fun p => (fst p, qout (snd p))) (exact_plan %s %s %s)' % (T, W, term(Fraction(size)))],
                                 cmp=_cmp_exact(st, res, orig, dict(zip(ids, f['parents'])))))
            elif kind == 'strahler':
                sel_kind = int(rng.integers(4))
                if f['shape'] == 'binary' and rng.random() < 0.5:
                    sel_kind = 4
                if sel_kind == 4:      # the tips AND a higher order, not the orders in between: kept nodes lose their parents
                    l = [[1, 3], [3, 1], [1, 4], [1, 2, 4], [1, 3, 4], [2, 4]][int(rng.integers(6))]
                    arg, sel = l, 'SList %s' % term(l)
                elif sel_kind == 0:
                    k = int(rng.integers(-4, 5))
                    arg, sel = k, 'SInt %s' % term(k)
                elif sel_kind == 1:
                    l = sorted(set(int(v) for v in rng.integers(1, 5, size=int(rng.integers(1, 4)))))
                    if rng.random() < 0.3:
                        l = l[::-1]
                    arg, sel = l, 'SList %s' % term(l)
                elif sel_kind == 2:
                    a = int(rng.integers(1, 4)); b = a + int(rng.integers(0, 3))
                    arg, sel = range(a, b), 'SRange %s %s' % (term(a), term(b))
                else:
                    a = [None, 0, 1, -1, -2, 2][int(rng.integers(6))]; b = [None, -1, 1, 2, 3, -2][int(rng.integers(6))]
                    arg = slice(a, b)
                    sel = 'SSlice %s %s' % ('None' if a is None else '(Some %s)' % term(a), 'None' if b is None else '(Some %s)' % term(b))
                reloc = bool(rng.integers(2))
                # reroot_soma=True with the soma away from the root: indices, pruning and connector relocation all refer to the REROOTED tree
                soma = None
                nonroot_ = [i for i, q in zip(ids, f['parents']) if q >= 0]
                if sum(1 for q in f['parents'] if q < 0) == 1 and nonroot_ and rng.random() < 0.35:
                    soma = int(nonroot_[int(rng.integers(len(nonroot_)))])
                    x.soma = soma
                    T = '(run [OReroot %s] %s)' % (term(soma), T)
                p = dict(to_prune=str(arg), relocate_connectors=reloc, reroot_soma=soma is not None, soma=soma)
                desc.update(params=p)
                st_si, si = guarded(lambda: {int(i): int(s) for i, s in zip(*[navis.strahler_index(x.copy() if soma is None else navis.reroot_skeleton(x, soma, inplace=False)).nodes[c].values for c in ('node_id', 'strahler_index')])})
                st, res = guarded(navis.prune_by_strahler, x, to_prune=arg, reroot_soma=soma is not None, force_strahler_update=True,
                                  relocate_connectors=reloc, inplace=bool(rng.integers(2)))
                SI = '(strahler_all false [] %s)' % T
                maxsi = '(zmaxl (map snd %s))' % SI
                jobs.append(dict(desc=desc, nt=nt, key=(str(f['ids']), str(f['parents']), kind, str(p)),
                                 exprs=[SI,
                                        'match selected (%s) %s with Some s => Some (out (prune_by_si %s %s s)) | None => None end' % (sel, maxsi, T, SI),
                                        'match selected (%s) %s with Some s => relocate_connectors %s (ids (prune_by_si %s %s s)) %s | None => [] end'
                                        % (sel, maxsi, T, T, SI, term(prev_conn))],
                                 cmp=_cmp_strahler(st, res, x, (st_si, si), reloc, prev_conn)))
            elif kind == 'depth':
                src = int(ids[int(rng.integers(len(ids)))]) if rng.random() < 0.6 else None
                p = dict(depth=size, source=src)
                desc.update(params=p)
                route = 'method' if rng.random() < 0.35 else 'function'
                p['route'] = route
                if route == 'method':
                    st, res = guarded(lambda: (lambda ip: (lambda r_: x if ip else r_)(x.prune_at_depth(size, source=src, inplace=ip)))(bool(rng.integers(2))))
                else:
                    st, res = guarded(navis.prune_at_depth, x, depth=size, source=src, inplace=bool(rng.integers(2)))
                src_m = src if src is not None else int(x.root[0])
                jobs.append(dict(desc=desc, nt=nt, key=(str(f['ids']), str(f['xyz']), kind, str(p)),
                                 exprs=['out (prune_at_depth %s %s %s %s)' % (T, W, term(src_m), term(Fraction(size)))],
                                 cmp=_cmp_table(st, res, x)))
            else:
                if lattice:
                    continue   # ties between equally long neurites are not ordered by the property
                nseg = int(rng.integers(1, 4))
                use_slice = rng.random() < 0.3
                inverse = bool(rng.random() < 0.3)
                if use_slice:
                    lo = int(rng.integers(0, 2)); hi = lo + int(rng.integers(1, 3))
                    arg = slice(lo, hi)
                else:
                    lo, hi, arg = 0, nseg, nseg
                p = dict(n=str(arg), inverse=inverse)
                desc.update(params=p)
                # isolated nodes are zero-length segments whose mutual order is unspecified: skip when they would be selected
                st, res = guarded(navis.longest_neurite, x, n=arg, reroot_soma=False, from_root=True, inverse=inverse, inplace=bool(rng.integers(2)))
                jobs.append(dict(desc=desc, nt=nt, key=(str(f['ids']), str(f['xyz']), kind, str(p)),
                                 exprs=['(out (longest_neurite %s %s %d%%nat %d%%nat %s), map (fun s => qout (seg_length %s s)) (long_segments %s %s))'
                                        % (T, W, lo, hi, term(inverse), W, T, W)],
                                 cmp=_cmp_longest(st, res, x, lo, hi)))
    flat = [e for j in jobs for e in j['exprs']]
    res = coqio.eval_terms('C12', ['model.Forest', 'model.Ops', 'model.Dist', 'model.Segments', 'model.Prune', 'model.Strahler'], flat, shard=100)
    pos = 0
    for j in jobs:
        r = res[pos:pos + len(j['exprs'])]
        pos += len(j['exprs'])
        ctx.case(j['key'], nontrivial=j['nt'], sample=j['desc'] if j['desc']['forest']['n'] < 8 else None)
        ctx.count('op:' + j['desc']['op'])
        ctx.count('stream:' + ('lattice' if j['desc']['lattice'] else 'float'))
        j['cmp'](ctx, j['desc'], r)


def _rows(x):
    return [(int(a), int(b)) for a, b in zip(x.nodes.node_id.values, x.nodes.parent_id.values)]


def _cmp_table(st, res, x):
    def cmp(ctx, desc, r):
        if st != 'ok':
            ctx.violation('%s raised' % desc['op'], desc, res)
            return
        got = _rows(res)
        partial = False
        rows0 = r[0]
        chain = False
        if isinstance(rows0, tuple) and len(rows0) == 3 and isinstance(rows0[1], bool):
            # (table, some round met a terminal branch only partly inside the mask, some round met an unbranched fragment with a masked tip)
            rows0, partial, chain = rows0
        exp = [tuple(a) for a in rows0]
        if sorted(a for a, _ in got) != sorted(a for a, _ in exp):
            diff = set(a for a, _ in got) ^ set(a for a, _ in exp)
            key = None
            if desc['op'] == 'twigs' and desc['params'].get('mask') is not None:
                # known: with a mask the compiled backend treats unmasked nodes as twig terminators, so masked
                # nodes of a fragment WITHOUT any branch point are removed although it has no terminal branch
                f = desc['forest']
                par = dict(zip(f['ids'], f['parents']))
                nch = {}
                for p_ in f['parents']:
                    nch[p_] = nch.get(p_, 0) + 1
                def root_of(i):
                    while par[i] >= 0:
                        i = par[i]
                    return i
                branched_roots = set(root_of(i) for i in f['ids'] if nch.get(i, 0) >= 2)
                only_removed = not (set(a for a, _ in got) - set(a for a, _ in exp))
                if all(root_of(i) not in branched_roots for i in diff) or (chain and only_removed and all(i in set(desc['params']['mask']) for i in diff)):
                    key = 'C12:twigs-mask-unbranched-fragment'
                elif partial:
                    key = 'C12:twigs-mask-partial-twig'
            ctx.violation('%s does not keep exactly the nodes its criterion defines' % desc['op'], desc,
                          dict(impl_only=sorted(set(a for a, _ in got) - set(a for a, _ in exp)), model_only=sorted(set(a for a, _ in exp) - set(a for a, _ in got))), key=key)
        elif got != exp:
            ctx.violation('%s changed ids/parent links of kept nodes' % desc['op'], desc, dict(impl=got, model=exp))
    return cmp


def _cmp_exact(st, res, orig, par):
    def cmp(ctx, desc, r):
        if st != 'ok':
            n_leaf = sum(1 for i in par if i not in set(par.values()) and par[i] >= 0)
            ctx.violation('prune_twigs(exact=True) raised', desc, res, key='C12:exact-scalar-distal' if 'bool' in str(res) or 'scalar' in str(res) or 'reset_index' in str(res) else None)
            return
        plan = {int(i): float(Fraction(q[0], q[1])) for i, q in r[0]}
        got = {int(i): np.array([a, b, c]) for i, a, b, c in zip(res.nodes.node_id.values, res.nodes.x.values, res.nodes.y.values, res.nodes.z.values)}
        near_tie = [i for i, fr in plan.items() if 0 < fr < 1e-6 or 1 - 1e-6 < fr <= 1]
        if near_tie:
            return
        if set(got) != set(plan):
            ctx.violation('exact pruning does not remove exactly `size` of cable from every tip (node set)', desc,
                          dict(impl_only=sorted(set(got) - set(plan)), model_only=sorted(set(plan) - set(got))))
            return
        for i, fr in plan.items():
            want = orig[i] if fr == 0 else orig[i] + (orig[par[i]] - orig[i]) * fr
            if np.abs(got[i] - want).max() > 1e-6 * max(1.0, np.abs(want).max()):
                ctx.violation('exact pruning moved a tip to the wrong place / moved a node it should not', desc,
                              dict(node=i, impl=got[i].tolist(), expected=want.tolist(), fraction=fr))
                return
    return cmp


def _cmp_strahler(st, res, x, si, reloc, prev_conn):
    def cmp(ctx, desc, r):
        msi, mtab, mconn = r
        st_si, isi = si
        msi = {int(a): int(b) for a, b in msi}
        if st_si == 'ok' and isi != msi:
            bad = [(i, isi[i], msi[i]) for i in msi if isi.get(i) != msi[i]]
            ctx.violation('strahler_index differs from the Strahler recurrence', desc, dict(first=bad[:5]))
            return
        if mtab is None:
            if st == 'ok':
                ctx.violation('prune_by_strahler accepted a selection the specification rejects', desc)
            return
        if st != 'ok':
            ctx.violation('prune_by_strahler raised', desc, res)
            return
        got = _rows(res)
        exp = [tuple(a) for a in mtab.v]
        if got != exp:
            ctx.violation('prune_by_strahler does not keep exactly the nodes whose index is not selected', desc, dict(impl=got, model=exp))
            return
        ic = sorted((int(c), int(n)) for c, n in zip(res.connectors.connector_id.values, res.connectors.node_id.values)) if res.connectors is not None and len(res.connectors) else []
        kept = set(a for a, _ in exp)
        if reloc:
            want = sorted(tuple(c) for c in mconn)
        else:
            want = sorted(c for c in prev_conn if c[1] in kept)
        if ic != want:
            ctx.violation('connectors on removed nodes are not dropped / moved to the nearest surviving ancestor', desc, dict(impl=ic, expected=want))
    return cmp


def _cmp_longest(st, res, x, lo, hi):
    def cmp(ctx, desc, r):
        mtab, lens = r[0]
        lens = [Fraction(a, b) for a, b in lens]
        sel = lens[lo:hi]
        # ambiguous when a selected/unselected boundary falls between equally long segments (e.g. isolated nodes)
        if hi < len(lens) and lo < hi and len(lens) > hi - 1 >= 0 and lens[hi - 1] == lens[hi]:
            return
        if lo > 0 and lo < len(lens) and lens[lo - 1] == lens[lo]:
            return
        if st != 'ok':
            ctx.violation('longest_neurite raised', desc, res)
            return
        got = _rows(res)
        exp = [tuple(a) for a in mtab]
        if sorted(got) != sorted(exp):
            ctx.violation('longest_neurite does not keep exactly the n longest greedy root-to-tip paths (or their complement)', desc, dict(impl=got, model=exp))
    return cmp
