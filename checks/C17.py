"""C17 — morphometrics obey their defining recurrences and path counts (backend drawn per case: fastcore / igraph / networkx)."""
import math

import numpy as np
import pandas as pd

from vlib import coqio, forest as F
from vlib.coqio import term
from vlib.framework import guarded

RULE = ('random forests incl. branching roots, several roots, isolated nodes (3-40 nodes) with 0-14 synapses (several per node, '
        'none pre / none post) x strahler_index(method in standard/greedy, to_ignore leaves, min_twig_size), '
        'synapse_flow_centrality(3 modes), bending_flow, flow_centrality, segregation_index extremes/range, tortuosity, segment_analysis. '
        'non-trivial = forest has a branch point; distinct = distinct (table, synapses, function, params).')
ASSUMPTIONS = ['segregation index in [0,1] and tortuosity >= 1 are checked numerically on outputs (no theorem: they need Jensen / the triangle inequality over R)']


def synapses(rng, f, kind):
    ids = f['ids']
    k = int(rng.integers(1, 15))
    nodes = [int(ids[int(rng.integers(len(ids)))]) for _ in range(k)]
    if kind == 'nopre':
        types = [1] * k
    elif kind == 'nopost':
        types = [0] * k
    else:
        types = [int(v) for v in rng.integers(0, 2, size=k)]
    pos = dict(zip(ids, f['xyz']))
    xyz = np.array([pos[n] for n in nodes], dtype=float)
    df = pd.DataFrame({'connector_id': np.arange(k) + 1, 'node_id': np.array(nodes, dtype=np.int64), 'x': xyz[:, 0], 'y': xyz[:, 1], 'z': xyz[:, 2],
                       'type': np.array(types, dtype=np.int64)})
    return df, [n for n, t in zip(nodes, types) if t == 0], [n for n, t in zip(nodes, types) if t == 1]


def col(x, name):
    return {int(i): (None if v != v else int(v)) for i, v in zip(x.nodes.node_id.values, x.nodes[name].values)}


def run(ctx):
    import navis
    navis.set_loggers('ERROR')
    navis.set_pbars(hide=True)
    rng = ctx.rng
    N = ctx.n(200, 3000)
    jobs = []
    for ci in range(N):
        f = F.gen_forest(rng, 3, ctx.n(40, 100), lattice=False, zero_edges=False,
                         shape=str(rng.choice(['rrt', 'rrt', 'binary', 'star', 'caterpillar', 'isolated+tree'])))
        if rng.random() < 0.2:
            # node id 0 (valid, and falsy) on an ordinary un-branched node: swap labels with a slab node
            nch_ = {}
            for p_ in f['parents']:
                nch_[p_] = nch_.get(p_, 0) + 1
            slabs_ = [i_ for i_, p_ in zip(f['ids'], f['parents']) if p_ >= 0 and nch_.get(i_, 0) == 1]
            if slabs_:
                a_ = int(slabs_[int(rng.integers(len(slabs_)))])
                m_ = {a_: 0, 0: a_}
                f['ids'] = [m_.get(i_, i_) for i_ in f['ids']]
                f['parents'] = [m_.get(p_, p_) if p_ >= 0 else -1 for p_ in f['parents']]
        ids = f['ids']
        T = '(mk %s)' % term(list(zip(f['ids'], f['parents'])))
        nt = F.nontrivial(f)
        be = str(rng.choice(['fastcore', 'fastcore', 'fastcore', 'igraph', 'nx']))
        ctx.count('backend:' + be)
        kind = str(rng.choice(['strahler', 'strahler', 'sfc', 'sfc', 'bending', 'leafflow', 'misc']))
        if kind == 'strahler' and rng.random() < 0.4:
            be = str(rng.choice(['igraph', 'nx']))        # the pure-Python Strahler sweep (forks with three or more equal children: star shapes)
        with F.backend(be):
            desc = dict(forest=f, op=kind, backend=be)
            if kind == 'strahler':
                method = str(rng.choice(['standard', 'greedy']))
                par = dict(zip(ids, f['parents']))
                leaves = [i for i in ids if i not in set(f['parents']) and par[i] >= 0]
                ign = [int(v) for v in rng.choice(leaves, size=int(rng.integers(0, min(3, len(leaves)) + 1)), replace=False)] if leaves and rng.random() < 0.4 else []
                mts = [None, None, 2, 3, 4][int(rng.integers(5))]
                p = dict(method=method, to_ignore=ign, min_twig_size=mts)
                desc.update(params=p)
                x = F.mk_neuron(f)
                st, res = guarded(lambda: col(navis.strahler_index(x.copy(), method=method, to_ignore=list(ign), min_twig_size=mts), 'strahler_index'))
                jobs.append(dict(desc=desc, nt=nt, key=(str(ids), str(f['parents']), kind, str(p)),
                                 exprs=['strahler_all_mts %s %s %d%%nat %s' % (term(method == 'greedy'), term(ign), mts or 0, T),
                                        'short_twig_leaves %s %d%%nat' % (T, mts or 0)],
                                 cmp=_cmp_strahler(st, res, f, ign)))
            elif kind in ('sfc', 'bending'):
                skind = str(rng.choice(['mixed', 'mixed', 'mixed', 'nopre', 'nopost']))
                if kind == 'bending':
                    skind = 'mixed'
                cn, pre, post = synapses(rng, f, skind)
                x = F.mk_neuron(f, connectors=cn)
                if kind == 'sfc':
                    mode = str(rng.choice(['centrifugal', 'centripetal', 'sum']))
                    p = dict(mode=mode, pre=pre, post=post)
                    desc.update(params=p)
                    st, res = guarded(lambda: col(navis.synapse_flow_centrality(x, mode=mode, inplace=False) if False else _sfc(navis, x, mode), 'synapse_flow_centrality'))
                    code = {'centrifugal': 0, 'centripetal': 1, 'sum': 2}[mode]
                    jobs.append(dict(desc=desc, nt=nt, key=(str(ids), str(f['parents']), kind, str(p)),
                                     exprs=['synapse_flow %d %s %s %s' % (code, T, term(pre), term(post))],
                                     cmp=_cmp_nodes(st, res, 'synapse_flow_centrality', 'post->pre path count (with the fork rule)')))
                else:
                    if not pre or not post:
                        continue
                    p = dict(pre=pre, post=post)
                    desc.update(params=p)
                    st, res = guarded(lambda: col(_bend(navis, x), 'bending_flow'))
                    jobs.append(dict(desc=desc, nt=nt, key=(str(ids), str(f['parents']), kind, str(p)),
                                     exprs=['map (fun r => (rid r, bending_at %s %s %s (rid r))) (filter (fun r => Nat.leb 2 (nchildren %s (rid r))) %s)'
                                            % (T, term(pre), term(post), T, T)],
                                     cmp=_cmp_nodes(st, res, 'bending_flow', 'post->pre paths turning at the branch point', subset=True)))
            elif kind == 'leafflow':
                if not any(p >= 0 for p in f['parents']):
                    continue   # no tips at all
                x = F.mk_neuron(f)
                desc.update(params={})
                st, res = guarded(lambda: col(_lf(navis, x), 'flow_centrality'))
                jobs.append(dict(desc=desc, nt=nt, key=(str(ids), str(f['parents']), kind),
                                 exprs=['leaf_flow %s' % T, 'leaf_flow_impl false %s' % T, 'leaf_flow_impl true %s' % T,
                                        'map (fun r => (rid r, leaf_raw_impl false %s (rid r))) %s' % (T, T), 'map (fun r => (rid r, leaf_raw_impl true %s (rid r))) %s' % (T, T)],
                                 cmp=_cmp_leafflow(st, res, f)))
            else:
                # segregation index, tortuosity, segment_analysis: numeric checks on outputs
                x = F.mk_neuron(f)
                comps = [dict(presynapses=int(a), postsynapses=int(b)) for a, b in rng.integers(0, 9, size=(int(rng.integers(2, 6)), 2))]
                if sum(c['presynapses'] + c['postsynapses'] for c in comps) == 0:
                    comps[0]['presynapses'] = 3
                sep = [dict(presynapses=int(a), postsynapses=0) if i % 2 else dict(presynapses=0, postsynapses=int(a)) for i, a in enumerate(rng.integers(1, 9, size=int(rng.integers(2, 6))))]
                ident = [dict(presynapses=int(2 * m), postsynapses=int(3 * m)) for m in rng.integers(1, 6, size=int(rng.integers(2, 6)))]
                ctx.case((str(comps), 'seg'), nontrivial=True)
                ctx.count('op:segregation_index')
                # neurons with postsynapses only / presynapses only: every compartment has the same (pure) mixture -> 0
                onlypost = [dict(presynapses=0, postsynapses=int(a)) for a in rng.integers(1, 9, size=int(rng.integers(2, 5)))]
                onlypre = [dict(presynapses=int(a), postsynapses=0) for a in rng.integers(1, 9, size=int(rng.integers(2, 5)))]
                for name, cs, want in (('random', comps, None), ('separated', sep, 1.0), ('identical', ident, 0.0), ('identical (post only)', onlypost, 0.0), ('identical (pre only)', onlypre, 0.0)):
                    st, v = guarded(navis.morpho.mmetrics.segregation_index, [dict(c) for c in cs])
                    d = dict(op='segregation_index', compartments=cs, kind=name)
                    if st != 'ok':
                        ctx.violation('segregation_index raised', d, v)
                    elif not (-1e-9 <= v <= 1 + 1e-9):
                        ctx.violation('segregation index outside [0, 1]', d, v)
                    elif want is not None and abs(v - want) > 1e-9:
                        ctx.violation('segregation index is not %s for a %s mixture' % (want, name), d, v)
                if len(ids) >= 2 and any(p >= 0 for p in f['parents']):
                    st, tv = guarded(navis.tortuosity, x)
                    d = dict(desc, op='tortuosity')
                    ctx.case((str(ids), str(f['xyz']), 'tort'), nontrivial=nt)
                    ctx.count('op:tortuosity')
                    if st != 'ok':
                        ctx.violation('tortuosity raised', d, tv)
                    elif not (tv >= 1 - 1e-9):
                        ctx.violation('tortuosity below 1', d, float(tv))
                    # straight chain
                    n = int(rng.integers(2, 9))
                    dvec = rng.normal(size=3)
                    ts = np.sort(rng.uniform(0, 10, size=n))
                    sf = dict(ids=list(range(1, n + 1)), parents=[-1] + list(range(1, n)), xyz=[tuple(float(v) for v in dvec * t_) for t_ in ts])
                    if len(set(ts)) == n:
                        st, tv = guarded(navis.tortuosity, F.mk_neuron(sf))
                        if st != 'ok' or abs(tv - 1) > 1e-9:
                            ctx.violation('tortuosity of a straight segment is not 1', dict(op='tortuosity', forest=sf), tv if st != 'ok' else float(tv))
                    # straight chains with integer-typed coordinates (signed and unsigned voxel coordinates)
                    iv = rng.integers(0, 4, size=3); iv[int(rng.integers(3))] += 1
                    steps_ = np.cumsum(rng.integers(1, 5, size=n))
                    for dt_ in (np.int32, np.uint16, np.float32):
                        sn = F.mk_neuron(dict(ids=list(range(1, n + 1)), parents=[-1] + list(range(1, n)), xyz=[tuple(int(v) for v in iv * t_ + 3) for t_ in steps_[::-1]]))
                        for c_ in 'xyz':
                            sn.nodes[c_] = sn.nodes[c_].values.astype(dt_)
                        st, tv = guarded(navis.tortuosity, sn)
                        ctx.count('op:tortuosity:' + np.dtype(dt_).name)
                        if st != 'ok' or abs(tv - 1) > 1e-6:
                            ctx.violation('tortuosity of a straight segment is not 1', dict(op='tortuosity', dtype=np.dtype(dt_).name, xyz=sn.nodes[['x', 'y', 'z']].values.tolist()), tv if st != 'ok' else float(tv))
                    st, sa = guarded(navis.segment_analysis, x)
                    d = dict(desc, op='segment_analysis')
                    ctx.case((str(ids), str(f['xyz']), 'sa'), nontrivial=nt)
                    ctx.count('op:segment_analysis')
                    if st != 'ok':
                        ctx.violation('segment_analysis raised', d, sa)
                    else:
                        tot, cab = float(sa['length'].sum()), float(x.cable_length)
                        if abs(tot - cab) > 1e-5 * max(1, cab):   # cable_length is float32-accurate under the compiled backend
                            ctx.violation('per-segment lengths do not sum to the cable length', d, dict(sum=tot, cable=cab))
    flat = [e for j in jobs for e in j['exprs']]
    res = coqio.eval_terms('C17', ['model.Forest', 'model.Dist', 'model.Prune', 'model.Strahler', 'model.Flow'], flat, shard=80)
    pos = 0
    for j in jobs:
        r = res[pos:pos + len(j['exprs'])]
        pos += len(j['exprs'])
        ctx.case(j['key'], nontrivial=j['nt'], sample=j['desc'] if j['desc']['forest']['n'] < 8 else None)
        ctx.count('op:' + j['desc']['op'])
        j['cmp'](ctx, j['desc'], r)


def _sfc(navis, x, mode):
    y = x.copy()
    navis.synapse_flow_centrality(y, mode=mode)
    return y


def _bend(navis, x):
    y = x.copy()
    navis.bending_flow(y)
    return y


def _lf(navis, x):
    y = x.copy()
    navis.flow_centrality(y)
    return y


def _cmp_nodes(st, res, name, what, subset=False):
    def cmp(ctx, desc, r):
        if st != 'ok':
            ctx.violation('%s raised' % name, desc, res)
            return
        model = {int(a): int(b) for a, b in r[0]}
        bad = [(i, res.get(i), v) for i, v in model.items() if res.get(i) != v]
        if bad:
            # known (same defect as C04:sfc-python-forest-totals): without navis-fastcore the synapse totals are taken over the whole
            # neuron instead of the node's fragment, so skeletons with several fragments get larger counts
            key = None
            if name == 'synapse_flow_centrality' and desc.get('backend') in ('igraph', 'nx') and sum(1 for p_ in desc['forest']['parents'] if p_ < 0) > 1:
                key = 'C17:sfc-python-forest-totals'
            ctx.violation('%s differs from the %s' % (name, what), desc, dict(first=bad[:6], n=len(bad)), key=key)
    return cmp


def _cmp_leafflow(st, res, f):
    def cmp(ctx, desc, r):
        if st != 'ok':
            ctx.violation('flow_centrality raised', desc, res)
            return
        model = {int(a): int(b) for a, b in r[0]}
        bad = [i for i, v in model.items() if res.get(i) != v]
        if not bad:
            return
        # known findings, keyed EXACTLY: the implementation's values equal the executable variant model/Flow.v leaf_flow_impl
        # (terminal segments report 0; with several fragments the tips of all fragments are used as the total)
        # at a root with several children the implementation reports the value copied along ONE of the segments ending there
        kids = {}
        for i_, p_ in zip(f['ids'], f['parents']):
            kids.setdefault(p_, []).append(i_)
        broots = [i_ for i_, p_ in zip(f['ids'], f['parents']) if p_ < 0 and len(kids.get(i_, [])) >= 2]
        def agrees(var, raw):
            var = {int(a): int(b) for a, b in var}
            raw = {int(a): int(b) for a, b in raw}
            return all((res.get(i) in set(raw[c] for c in kids[i])) if i in broots else (res.get(i) == v) for i, v in var.items())
        key = None
        if agrees(r[1], r[3]):
            key = 'C17:leaf-flow-terminal-segments'
        elif sum(1 for p in f['parents'] if p < 0) > 1 and agrees(r[2], r[4]):
            key = 'C17:leaf-flow-forest-global-total'
        ctx.violation('flow_centrality differs from the tip-to-tip path count', desc,
                      dict(first=[(i, res.get(i), model[i]) for i in bad[:6]], n=len(bad)), key=key)
    return cmp


def _cmp_strahler(st, res, f, ign_given):
    def cmp(ctx, desc, r):
        if st != 'ok':
            ctx.violation('strahler_index raised', desc, res)
            return
        model = {int(a): int(b) for a, b in r[0]}
        ign = list(ign_given) + [int(v) for v in r[1]]      # min_twig_size adds the leaves of too-short twigs
        bad = [i for i, v in model.items() if res.get(i) != v]
        if not bad:
            return
        # known: with ignored twigs the compiled backend reports index 0 (never a valid Strahler index) on ignored twigs
        # that hang off a root and on forks all of whose children are ignored; ancestors of such nodes inherit the error
        par = dict(zip(f['ids'], f['parents']))
        zero = set(i for i, v in res.items() if v == 0)
        tainted = set()
        for z in zero:
            j = z
            while j >= 0 and j not in tainted:
                tainted.add(j)
                j = par[j]
        nch = {}
        for p_ in f['parents']:
            nch[p_] = nch.get(p_, 0) + 1
        for lf in ign:       # ignored twigs take the (tainted) index of the node they hang off
            tw, j = [], lf
            while j >= 0 and nch.get(j, 0) < 2:
                tw.append(j)
                j = par[j]
            if j in tainted:
                tainted.update(tw)
        key = 'C17:ignored-twig-index-zero' if ign and zero and all(i in tainted for i in bad) else None
        ctx.violation('strahler_index differs from the Strahler recurrence', desc,
                      dict(first=[(i, res.get(i), model[i]) for i in bad[:6]], n=len(bad)), key=key)
    return cmp
