"""C04 — results do not depend on the compute backend (fastcore / igraph / networkx).

Every observable listed in the property is computed under the three configurations navis selects at run time
(utils.fastcore set; = None with config.use_igraph True; = None with use_igraph False) on the same random forest
and the canonical results are compared pairwise (label-keyed, order-insensitive among ties)."""
import numpy as np
import pandas as pd

from vlib import forest as F
from vlib.framework import guarded
from checks.C17 import synapses

GEN = ['Gen_Dispatch.v']
RULE = ('random forests (any labelling incl. id 0 and > 2^32, several roots, isolated nodes, branching roots, chains, zero-length edges) x '
        'observables {small_segments, segments, connected components, geodesic_matrix (directed/weight/from_/limit), dist_between, distal_to, '
        'strahler_index (methods, to_ignore), prune_twigs, cable_length, parent_dist, synapse_flow_centrality (3 modes), reroot, cut, heal, subset} '
        'each evaluated under the three backend configurations and compared pairwise. '
        'non-trivial = forest has a branch point or >= 2 roots; distinct = distinct (table, coordinates, observable, params).')
ASSUMPTIONS = ['navis-fastcore is an external compiled package: it is tied to the two Python code paths ONLY by this comparison',
               'float32 arithmetic inside fastcore: distances are compared with relative tolerance 1e-5']
BACKENDS = ['fastcore', 'igraph', 'nx']


def canon_float(v):
    v = float(v)
    return None if v != v or v in (float('inf'), float('-inf')) else v


def close(a, b, tol=1e-5):
    if a is None or b is None:
        return a is None and b is None
    return abs(a - b) <= tol * max(1.0, abs(a), abs(b))


def same(a, b):
    if isinstance(a, dict) and isinstance(b, dict):
        return a.keys() == b.keys() and all(same(a[k], b[k]) for k in a)
    if isinstance(a, (list, tuple)) and isinstance(b, (list, tuple)):
        return len(a) == len(b) and all(same(x, y) for x, y in zip(a, b))
    if isinstance(a, float) or isinstance(b, float):
        return close(None if a is None else float(a), None if b is None else float(b))
    return a == b


def observables(rng, f, x_factory):
    """list of (name, params, fn(x) -> canonical value)"""
    import navis
    ids = f['ids']
    obs = []
    obs.append(('small_segments', {}, lambda x: sorted(tuple(int(i) for i in s) for s in x.small_segments)))
    obs.append(('segments', {}, lambda x: (sorted(len(s) for s in x.segments), sorted(int(i) for s in x.segments for i in s[:-1] if len(s) > 1))))
    obs.append(('connected_components', {}, lambda x: sorted(tuple(sorted(int(i) for i in c)) for c in navis.graph.graph_utils._connected_components(x))))
    directed = bool(rng.integers(2)); weight = 'weight' if rng.random() < 0.5 else None
    frm = sorted(set(int(v) for v in rng.choice(ids, size=min(len(ids), 6), replace=True))) if rng.random() < 0.6 else None
    limit = [None, 3.5, 40.5][int(rng.integers(3))]
    def geo(x):
        kw = dict(directed=directed, weight=weight, from_=frm)
        if limit is not None:
            kw['limit'] = limit
        m = navis.geodesic_matrix(x, **kw)
        idx = [int(i) for i in m.index]; cols = [int(i) for i in m.columns]
        return {(a, b): canon_float(m.values[i, j]) for i, a in enumerate(idx) for j, b in enumerate(cols)}
    obs.append(('geodesic_matrix', dict(directed=directed, weight=weight, from_=frm, limit=limit), geo))
    a, b = int(ids[int(rng.integers(len(ids)))]), int(ids[int(rng.integers(len(ids)))])
    obs.append(('dist_between', dict(a=a, b=b), lambda x: canon_float(navis.dist_between(x, a, b))))
    A = sorted(set(int(v) for v in rng.choice(ids, size=min(len(ids), 4), replace=False)))
    B = sorted(set(int(v) for v in rng.choice(ids, size=min(len(ids), 4), replace=False)))
    def dt(x):
        r = navis.distal_to(x, A, B)
        if isinstance(r, (bool, np.bool_)):
            return [[bool(r)]]
        return [[bool(r.loc[p, q]) for q in B] for p in A]
    obs.append(('distal_to', dict(a=A, b=B), dt))
    method = str(rng.choice(['standard', 'greedy']))
    par = dict(zip(ids, f['parents']))
    leaves = [i for i in ids if i not in set(f['parents']) and par[i] >= 0]
    ign = [int(v) for v in rng.choice(leaves, size=min(len(leaves), 2), replace=False)] if leaves and rng.random() < 0.3 else []
    mts = [None, None, 3, 4][int(rng.integers(4))]
    def si(x):
        y = x.copy()
        navis.strahler_index(y, method=method, to_ignore=list(ign), min_twig_size=mts)
        return {int(i): int(v) for i, v in zip(y.nodes.node_id.values, y.nodes.strahler_index.values)}
    obs.append(('strahler_index', dict(method=method, to_ignore=ign, min_twig_size=mts), si))
    size = float(rng.choice([0.5, 2.5, 6.5, 15.5])); rec = [False, True][int(rng.integers(2))]
    # integer-lattice forests have integer edge lengths: thresholds that are EXACTLY a twig's length (ties) are legitimate inputs
    xyz_ = np.array(f['xyz'], dtype=float)
    if np.all(xyz_ == np.round(xyz_)) and rng.random() < 0.6:
        par_ = dict(zip(f['ids'], f['parents'])); pos_ = dict(zip(f['ids'], xyz_))
        lens = sorted(set(float(np.linalg.norm(pos_[i] - pos_[p])) for i, p in par_.items() if p >= 0))
        ints = [v for v in lens if v == int(v) and v > 0]
        if ints:
            size = float(rng.choice(ints)) * float(rng.choice([1, 1, 2]))
    obs.append(('prune_twigs', dict(size=size, recursive=rec),
                lambda x: sorted(int(i) for i in navis.prune_twigs(x, size=size, recursive=rec, inplace=False).nodes.node_id.values)))
    obs.append(('cable_length', {}, lambda x: float(navis.morpho.cable_length(x))))
    # cable length under a node mask (boolean array / callable): edges leaving the mask are not counted, whatever the backend
    msk = [bool(v) for v in rng.random(len(ids)) < 0.6]
    if not any(msk):
        msk[0] = True
    mkind = str(rng.choice(['array', 'callable']))
    mset = set(i for i, m_ in zip(ids, msk) if m_)
    obs.append(('cable_length(mask)', dict(mask=[i for i in ids if i in mset], given_as=mkind),
                lambda x: float(navis.morpho.cable_length(x, mask=(np.array([int(i) in mset for i in x.nodes.node_id.values]) if mkind == 'array'
                                                                     else (lambda nd: nd.node_id.isin(mset).values))))))
    obs.append(('parent_dist', {}, lambda x: {int(i): float(v) for i, v in zip(x.nodes.node_id.values, navis.morpho.mmetrics.parent_dist(x, root_dist=0))}))
    mode = str(rng.choice(['centrifugal', 'centripetal', 'sum']))
    def sfc(x):
        y = x.copy()
        navis.synapse_flow_centrality(y, mode=mode)
        return {int(i): int(v) for i, v in zip(y.nodes.node_id.values, y.nodes.synapse_flow_centrality.values)}
    obs.append(('synapse_flow_centrality', dict(mode=mode), sfc))
    r = int(ids[int(rng.integers(len(ids)))])
    obs.append(('reroot', dict(new_root=r), lambda x: F.table_of(navis.reroot_skeleton(x, r, inplace=False))))
    rs = [int(v) for v in rng.choice(ids, size=min(len(ids), 3), replace=False)]
    obs.append(('reroot(several)', dict(new_roots=rs), lambda x: F.table_of(navis.reroot_skeleton(x, rs, inplace=False))))
    obs.append(('reroot(several, method, in place)', dict(new_roots=rs), lambda x: (lambda y: (y.reroot(rs, inplace=True), F.table_of(y))[1])(x.copy())))
    nonroot = [i for i in ids if par[i] >= 0]
    if nonroot and sum(1 for p in f['parents'] if p < 0) == 1:
        c = int(nonroot[int(rng.integers(len(nonroot)))])
        obs.append(('cut', dict(where=c), lambda x: [F.table_of(p) for p in navis.cut_skeleton(x, c, ret='both')]))
    if sum(1 for p in f['parents'] if p < 0) > 1:
        def heal(x):
            y = navis.heal_skeleton(x, inplace=False)
            pos = dict(zip(f['ids'], np.array(f['xyz'], dtype=float)))
            old = set(frozenset((i, p)) for i, p in zip(f['ids'], f['parents']) if p >= 0)
            new = [frozenset((int(i), int(p))) for i, p in zip(y.nodes.node_id.values, y.nodes.parent_id.values) if p >= 0]
            added = [e for e in new if e not in old]
            return (len(new), round(float(sum(np.linalg.norm(pos[tuple(e)[0]] - pos[tuple(e)[1]]) for e in added)), 6), len(y.root))
        obs.append(('heal', {}, heal))
    S = sorted(set(int(v) for v in rng.choice(ids, size=int(rng.integers(1, len(ids) + 1)), replace=False)))
    obs.append(('subset', dict(subset=S), lambda x: F.table_of(navis.subset_neuron(x, S, inplace=False))))
    return obs


def run(ctx):
    import navis
    navis.set_loggers('ERROR')
    navis.set_pbars(hide=True)
    rng = ctx.rng
    N = ctx.n(90, 1500)
    for ci in range(N):
        lattice = bool(rng.random() < 0.5)
        f = F.gen_forest(rng, 1, ctx.n(30, 80), lattice=lattice)
        nt = F.nontrivial(f)
        cn, pre, post = synapses(rng, f, str(rng.choice(['mixed', 'mixed', 'nopre', 'nopost'])))
        obs = observables(rng, f, None)
        for name, params, fn in obs:
            results = {}
            for be in BACKENDS:
                with F.backend(be):
                    x = F.mk_neuron(f, connectors=cn.copy())
                    results[be] = guarded(fn, x)
            ctx.case((str(f['ids']), str(f['parents']), str(f['xyz']) if name in ('geodesic_matrix', 'dist_between', 'prune_twigs', 'cable_length', 'cable_length(mask)', 'parent_dist', 'heal') else '', name, str(params)),
                     nontrivial=nt, sample=dict(forest=f, observable=name, params=params) if f['n'] < 6 else None)
            ctx.count('observable:' + name)
            desc = dict(forest=f, synapses=dict(pre=pre, post=post), observable=name, params=params)
            oks = {be: r for be, r in results.items() if r[0] == 'ok'}
            if len(oks) not in (0, 3):
                bad = {be: r[1] for be, r in results.items() if r[0] != 'ok'}
                ctx.violation('%s works under some backends and raises under others' % name, desc,
                              dict(raises={k: str(v)[:300] for k, v in bad.items()}), key=known_key(name, params, f, results, 'raise'))
                continue
            if not oks:
                continue
            base = oks['fastcore'][1]
            for be in ('igraph', 'nx'):
                if not same(base, oks[be][1]):
                    ctx.violation('%s differs between backends' % name, desc,
                                  dict(fastcore=short(base), **{be: short(oks[be][1])}), key=known_key(name, params, f, results, 'diff'))
                    break


def short(v):
    s = repr(v)
    return s if len(s) < 1200 else s[:1200] + '...'


def known_key(name, params, f, results, how):
    """Classify differences that are recorded as known findings (each keyed by function + input shape)."""
    par = dict(zip(f['ids'], f['parents']))
    nch = {}
    for p in f['parents']:
        nch[p] = nch.get(p, 0) + 1
    branching_root = any(par[i] < 0 and nch.get(i, 0) >= 2 for i in f['ids'])
    def root_of(i):
        while par[i] >= 0:
            i = par[i]
        return i
    branched_roots = set(root_of(i) for i in f['ids'] if nch.get(i, 0) >= 2)
    unbranched_fragment = any(par[i] >= 0 and root_of(i) not in branched_roots for i in f['ids'])
    if name == 'strahler_index' and how == 'diff' and (params.get('to_ignore') or params.get('min_twig_size')):
        fc = results['fastcore'][1] if results['fastcore'][0] == 'ok' else {}
        if any(v == 0 for v in fc.values()):
            return 'C04:strahler-ignored-twig-index-zero'
    if name == 'synapse_flow_centrality' and sum(1 for p in f['parents'] if p < 0) > 1:
        return 'C04:sfc-python-forest-totals'
    return None
