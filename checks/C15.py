"""C15 — coordinate arithmetic and units keep physical quantities consistent."""
import pickle
from fractions import Fraction

import numpy as np
import pandas as pd

from vlib import coqio, forest as F
from vlib.coqio import term
from vlib.framework import guarded

RULE = ('neurons of every type (skeleton with connectors/radius, mesh, dotprops, voxels) x scalar / per-axis factors (powers of two and small '
        'integers: exact; generic: 1e-12) and offsets x unit spellings (nm, nanometer, "8 nm", micron(s), um, micrometer, pint objects, '
        'numbers, None, per-axis triples) x target units; map_units and string-valued distances; every non-scaling operation keeps '
        'units/name/id. non-trivial = per-axis factor or non-trivial units; distinct = distinct (type, coordinates, operation, parameters).')
ASSUMPTIONS = ['pint parses unit strings (trusted); the harness compares units by converting them to nanometres']
NM = {'nm': 1.0, 'nanometer': 1.0, '1 nm': 1.0, '8 nm': 8.0, 'um': 1000.0, 'micron': 1000.0, 'microns': 1000.0, 'micrometer': 1000.0, '1000 nm': 1000.0,
      '2 um': 2000.0, 'mm': 1e6, '500 um': 5e5}


def unit_nm(x):
    """per-axis unit magnitudes in nm (None if dimensionless)"""
    u = x.units_xyz
    if u.dimensionless:
        return None, [float(v) for v in np.atleast_1d(u.magnitude)]
    return 'nm', [float(v) for v in np.atleast_1d(u.to('nm').magnitude)]


def mk_objects(rng, navis):
    f = F.gen_forest(rng, 3, 20, roots=1, lattice=True, zero_edges=False)
    cn = F.gen_connectors(rng, f, 5)
    sk = F.mk_neuron(f, connectors=cn, radius=rng.integers(1, 5, size=len(f['ids'])).astype(float), name='sk', nid=11)
    verts = rng.integers(-8, 9, size=(8, 3)).astype(float)
    faces = np.array([[0, 1, 2], [1, 2, 3], [2, 3, 4], [4, 5, 6], [5, 6, 7], [0, 2, 4]])
    me = navis.MeshNeuron((verts, faces), name='me', id=12)
    dp = navis.make_dotprops(rng.integers(-8, 9, size=(12, 3)).astype(float), k=3)
    dp.name, dp.id = 'dp', 13
    # meshes and dotprops carry connectors too (one of them off the vertex / point set)
    import pandas as pd
    kcn = int(rng.integers(1, 5))
    cm = rng.integers(-8, 9, size=(kcn, 3)).astype(float)
    me.connectors = pd.DataFrame(dict(connector_id=np.arange(kcn) + 50, vertex_id=rng.integers(0, len(verts), size=kcn), x=cm[:, 0], y=cm[:, 1], z=cm[:, 2], type=np.zeros(kcn, dtype=np.int64)))
    cd = rng.integers(-8, 9, size=(kcn, 3)).astype(float)
    dp.connectors = pd.DataFrame(dict(connector_id=np.arange(kcn) + 70, point_id=rng.integers(0, 12, size=kcn), x=cd[:, 0], y=cd[:, 1], z=cd[:, 2], type=np.zeros(kcn, dtype=np.int64)))
    vx = navis.VoxelNeuron(rng.integers(0, 5, size=(4, 5, 6)).astype(np.uint8), name='vx', id=14)
    return dict(skeleton=sk, mesh=me, dotprops=dp, voxels=vx)


def coords(x, kind):
    if kind == 'skeleton':
        return x.nodes[['x', 'y', 'z']].values.astype(float)
    if kind == 'mesh':
        return np.asarray(x.vertices, dtype=float)
    if kind == 'dotprops':
        return np.asarray(x.points, dtype=float)
    return np.asarray(x.voxels, dtype=float) * np.asarray(x.units_xyz.magnitude, dtype=float) + np.asarray(x.offset, dtype=float) if hasattr(x, 'offset') else None


def run(ctx):
    import navis
    import pint
    navis.set_loggers('ERROR')
    navis.set_pbars(hide=True)
    rng = ctx.rng
    exprs, follow = [], []
    # ---------------- A: arithmetic ----------------
    for ci in range(ctx.n(60, 800)):
        objs = mk_objects(rng, navis)
        kind = str(rng.choice(['skeleton', 'skeleton', 'mesh', 'dotprops']))
        x = objs[kind]
        uspell = str(rng.choice(['nm', '8 nm', 'um', '2 um', 'peraxis', 'none']))
        if uspell == 'peraxis':
            x.units = ['4 nm', '4 nm', '40 nm']
        elif uspell != 'none':
            x.units = uspell
        per_axis = bool(rng.random() < 0.4)
        exact = bool(rng.random() < 0.7)
        fac = [float(v) for v in (rng.choice([0.25, 0.5, 2, 4, 8, 3, 5], size=3) if exact else rng.uniform(0.3, 7, size=3))]
        if not per_axis:
            fac = [fac[0]] * 3
        off = [float(v) for v in rng.integers(-6, 7, size=3)]
        if not per_axis:
            off = [off[0]] * 3
        opname = str(rng.choice(['mul', 'div', 'add', 'sub']))
        if kind == 'skeleton' and per_axis and opname in ('mul', 'div'):
            arg = np.array(fac + [fac[0]])       # x/y/z + radius
        elif per_axis:
            arg = np.array(fac if opname in ('mul', 'div') else off)
        else:
            arg = fac[0] if opname in ('mul', 'div') else off[0]
        c0 = coords(x, kind)
        u0 = unit_nm(x)
        cn0 = x.connectors[['x', 'y', 'z']].values.astype(float).copy() if kind in ('skeleton', 'mesh', 'dotprops') and x.has_connectors else None
        r0 = x.nodes.radius.values.astype(float).copy() if kind == 'skeleton' else None
        phys0 = None
        op = dict(mul=lambda a, b: a * b, div=lambda a, b: a / b, add=lambda a, b: a + b, sub=lambda a, b: a - b)[opname]
        gw0 = None
        if kind == 'skeleton':       # graphs built BEFORE the operation: lengths measured on the result must be the result's own
            gw0 = float(sum(d_['weight'] for _, _, d_ in x.graph.edges(data=True)))
            _ = x.igraph
        st, y = guarded(op, x, arg)
        desc = dict(kind=kind, units=uspell, op=opname, arg=np.asarray(arg).tolist(), per_axis=per_axis)
        ctx.case((kind, uspell, opname, str(desc['arg']), str(c0[:2].tolist())), nontrivial=per_axis or uspell not in ('none', 'nm'),
                 sample=desc if ci < 3 else None)
        ctx.count('arith:%s:%s' % (kind, opname))
        if st != 'ok':
            ctx.violation('arithmetic raised', desc, y)
            continue
        c1 = coords(y, kind)
        u1 = unit_nm(y)
        if not np.array_equal(coords(x, kind), c0) or (cn0 is not None and not np.array_equal(x.connectors[['x', 'y', 'z']].values.astype(float), cn0)):
            ctx.violation('arithmetic modified its input', desc)
        tol = 0 if exact else 1e-12
        k3 = np.array(fac)
        want = dict(mul=c0 * k3, div=c0 / k3, add=c0 + np.array(off), sub=c0 - np.array(off))[opname]
        if np.abs(c1 - want).max() > tol * max(1, np.abs(want).max()):
            ctx.violation('coordinates are not transformed as the operation prescribes', desc, dict(got=c1[:3].tolist(), want=want[:3].tolist()))
            continue
        if cn0 is not None:
            wantc = dict(mul=cn0 * k3, div=cn0 / k3, add=cn0 + np.array(off), sub=cn0 - np.array(off))[opname]
            gotc = y.connectors[['x', 'y', 'z']].values.astype(float)
            if np.abs(gotc - wantc).max() > tol * max(1, np.abs(wantc).max()):
                ctx.violation('connectors are not transformed consistently with the nodes', desc, dict(got=gotc[:3].tolist(), want=wantc[:3].tolist()))
        if r0 is not None:
            gr = y.nodes.radius.values.astype(float)
            wr = r0 * fac[0] if opname == 'mul' else r0 / fac[0] if opname == 'div' else r0
            if np.abs(gr - wr).max() > tol * max(1, np.abs(wr).max()):
                ctx.violation('radii are not scaled with the coordinates / changed by an offset', desc, dict(got=gr[:3].tolist(), want=wr[:3].tolist()))
        # units: inverse scaling
        wu = [u / f_ for u, f_ in zip(u0[1], fac)] if opname == 'mul' else [u * f_ for u, f_ in zip(u0[1], fac)] if opname == 'div' else u0[1]
        if u1[0] != u0[0] or max(abs(a - b) for a, b in zip(u1[1], wu)) > 1e-9 * max(wu):
            ctx.violation('units are not rescaled inversely to the coordinates', desc, dict(before=u0, after=u1, expected=wu))
            continue
        # model (exact stream): representative point through Coq
        if exact and opname in ('mul', 'div'):
            p = c0[0]
            X = '{| node := %s; conn := %s; radius := %s; units := %s |}' % (
                _v3(p), _v3(cn0[0] if cn0 is not None else p), term(Fraction(float(r0[0])) if r0 is not None else Fraction(1)), _v3(u0[1]))
            fn = 'nmul' if opname == 'mul' else 'ndiv'
            exprs.append('let y := %s %s %s %s in (qout (ax (node y)), qout (ay (node y)), qout (az (node y)), qout (ax (units y)), qout (az (units y)), qout (radius y))'
                         % (fn, X, _v3(fac), term(Fraction(fac[0]))))
            follow.append((desc, c1[0], u1[1], (y.nodes.radius.values[0] if r0 is not None else None)))
        # x * k / k restores x
        if opname in ('mul', 'add'):
            inv = dict(mul=lambda a, b: a / b, add=lambda a, b: a - b)[opname]
            st2, z = guarded(inv, y, arg)
            if st2 != 'ok' or np.abs(coords(z, kind) - c0).max() > 1e-12 * max(1, np.abs(c0).max()) or \
                    max(abs(a - b) for a, b in zip(unit_nm(z)[1], u0[1])) > 1e-9 * max(u0[1]):
                ctx.violation('x %s k %s k does not restore x' % (('*', '/') if opname == 'mul' else ('+', '-')), desc)
        # physical cable length / bounding box unchanged by scaling
        if kind == 'skeleton' and opname in ('mul', 'div') and not per_axis and u0[1] and u1[1]:
            cab0_, cab1_ = float(navis.morpho.cable_length(x)) * u0[1][0], float(navis.morpho.cable_length(y)) * u1[1][0]
            gw1 = float(sum(d_['weight'] for _, _, d_ in y.graph.edges(data=True))) * u1[1][0]
            ig1 = float(sum(y.igraph.es['weight'])) * u1[1][0] if y.igraph is not None and y.igraph.ecount() else gw1
            # (the compiled cable length works in float32: 1e-6; the graphs carry float64 weights: 1e-9)
            if abs(cab1_ - cab0_) > 1e-6 * max(1.0, abs(cab0_)) or max(abs(gw1 - gw0 * u0[1][0]), abs(ig1 - gw0 * u0[1][0])) > 1e-9 * max(1.0, abs(cab0_)):
                ctx.violation('physical cable length (table / networkx graph / igraph, times units) is changed by scaling', desc,
                              dict(before=cab0_, after_table=cab1_, after_graph=gw1, after_igraph=ig1))
    if exprs:
        out = coqio.eval_terms('C15', ['model.Dist', 'model.Units'], exprs, shard=100)
        for (desc, p1, u1, r1), r in zip(follow, out):
            vals = _flatq(r)
            if [float(v) for v in p1] != vals[:3]:
                ctx.violation('coordinates differ from the model', desc, dict(impl=[float(v) for v in p1], model=vals[:3]))
            elif abs(u1[0] - vals[3]) > 1e-9 * abs(vals[3]) or abs(u1[2] - vals[4]) > 1e-9 * abs(vals[4]):
                ctx.violation('units differ from the model', desc, dict(impl=u1, model=vals[3:5]))
            elif r1 is not None and float(r1) != vals[5]:
                ctx.violation('radius differs from the model', desc, dict(impl=float(r1), model=vals[5]))
    # ---------------- B/C/D: conversion, spellings, map_units ----------------
    ureg = navis.config.ureg
    for ci in range(ctx.n(40, 400)):
        objs = mk_objects(rng, navis)
        x = objs['skeleton']
        spell = str(rng.choice(list(NM)))
        form = str(rng.choice(['str', 'pint', 'triple']))
        arg = spell if form == 'str' else ureg(spell) if form == 'pint' else [spell, spell, spell]
        st, _ = guarded(setattr, x, 'units', arg)
        desc = dict(units=spell, given_as=form)
        ctx.case(('units', spell, form, ci), nontrivial=True)
        ctx.count('spelling:' + spell)
        if st != 'ok':
            ctx.violation('unit spelling rejected', desc, _)
            continue
        got = unit_nm(x)
        if got[0] != 'nm' or any(abs(g - NM[spell]) > 1e-9 * NM[spell] for g in got[1]):
            ctx.violation('unit spelling not normalised to the right physical size', desc, dict(got=got, want_nm=NM[spell]))
            continue
        # convert_units
        tgt = str(rng.choice(['nm', 'um', 'micron']))
        cab0 = float(navis.morpho.cable_length(x)) * NM[spell]
        via_inplace = bool(rng.random() < 0.4)
        if via_inplace:      # the in-place route (implemented with the augmented-assignment operators) on a copy of the neuron
            y0 = x.copy()
            st, y = guarded(y0.convert_units, tgt, inplace=True)
            y = y0 if st == 'ok' else y
        else:
            st, y = guarded(x.convert_units, tgt, inplace=False)
        desc = dict(desc, convert_inplace=via_inplace)
        if st != 'ok':
            ctx.violation('convert_units raised', dict(desc, to=tgt), y)
        else:
            u = unit_nm(y)
            cab1 = float(navis.morpho.cable_length(y)) * u[1][0]
            if u[0] != 'nm' or any(abs(v - NM[tgt]) > 1e-9 * NM[tgt] for v in u[1]) or abs(cab1 - cab0) > 1e-5 * max(1, cab0):
                ctx.violation('convert_units does not yield the requested unit with physical sizes preserved', dict(desc, to=tgt), dict(units=u, cable_before=cab0, cable_after=cab1))
        # convert_units for the other neuron types: the requested unit, physical extent preserved
        for okind in ('mesh', 'dotprops', 'voxels'):
            o = objs[okind]
            o.units = '8 nm' if okind != 'voxels' else str(rng.choice(['8 nm', '2 um']))
            def extent_nm(n_):
                c_ = coords(n_, okind)
                one = float(navis.config.ureg('1 ' + str(n_.units_xyz.units)).to('nm').magnitude)
                return ((c_.max(axis=0) - c_.min(axis=0)) * (one if okind == 'voxels' else np.asarray(n_.units_xyz.to('nm').magnitude, dtype=float)))
            e0 = extent_nm(o)
            tgt2 = str(rng.choice(['um', 'nm']))
            st, oy = guarded(o.convert_units, tgt2, inplace=False)
            ctx.count('convert:' + okind)
            dd = dict(kind=okind, units=str(o.units), to=tgt2)
            if st != 'ok':
                ctx.violation('convert_units raised', dd, oy)
                continue
            e1 = extent_nm(oy)
            unit_ok = str(oy.units_xyz.units) in ('micrometer', 'nanometer') and (str(oy.units_xyz.units) == {'um': 'micrometer', 'nm': 'nanometer'}[tgt2])
            if np.abs(e1 - e0).max() > 1e-6 * max(1.0, np.abs(e0).max()) or not unit_ok:
                ctx.violation('convert_units does not yield the requested unit with physical sizes preserved', dd,
                              dict(extent_nm_before=e0.tolist(), extent_nm_after=e1.tolist(), units_after=str(oy.units)),
                              key='C15:voxel-convert-units' if okind == 'voxels' else None)
        # map_units / string-valued distances
        dist = float(rng.choice([0.5, 2, 5]))
        st, m = guarded(x.map_units, '%g microns' % dist)
        want = dist * 1000.0 / NM[spell]
        if st != 'ok' or abs(float(m) - want) > 1e-6 * want:
            ctx.violation('map_units does not denote the same physical length', dict(desc, distance='%g microns' % dist), dict(got=str(m), want=want))
        # small lengths on coarse units (map_units rounds to 8 decimals, or 8 significant digits above 1: never more than that)
        for small in ('125 nm', '3 nm', '40 nm', '7.5 um'):
            wsm = float(small.split()[0]) * (1000.0 if small.endswith('um') else 1.0) / NM[spell]
            st, m = guarded(x.map_units, small)
            ctx.count('map_units:small')
            if st != 'ok' or abs(float(m) - wsm) > 0.6e-8 * max(1.0, wsm):
                ctx.violation('map_units does not denote the same physical length', dict(desc, distance=small), dict(got=str(m), want=wsm))
                break
        # the units of a list of neurons in different units, read through the list: each entry is that neuron's physical voxel size
        st, z = guarded(lambda: x / 125 if rng.random() < 0.5 else x.convert_units('um' if NM[spell] < 1000 else 'nm', inplace=False))
        if st == 'ok':
            nl = navis.NeuronList([x, z])
            st, lu = guarded(lambda: [float(q.to('nm').magnitude) for q in nl.units])
            wu = [float(unit_nm(x)[1][0]), float(unit_nm(z)[1][0])]
            ctx.count('neuronlist-units')
            if st != 'ok' or any(abs(a_ - b_) > 1e-9 * b_ for a_, b_ in zip(lu, wu)):
                ctx.violation('units read through a NeuronList are not the physical units of its members', desc, dict(got=str(lu), want=wu))
        st1, a = guarded(navis.prune_twigs, x, size='%g microns' % dist, inplace=False)
        st2, b = guarded(navis.prune_twigs, x, size=want, inplace=False)
        if st1 != st2 or (st1 == 'ok' and sorted(a.nodes.node_id.values) != sorted(b.nodes.node_id.values)):
            ctx.violation('a string-valued distance argument is not interpreted in the neuron\'s units', dict(desc, distance='%g microns' % dist))
    # ---------------- E: non-scaling operations keep units / name / id ----------------
    for ci in range(ctx.n(25, 250)):
        f = F.gen_forest(rng, 6, 25, roots=1, lattice=False, zero_edges=False, shape=str(rng.choice(['rrt', 'binary', 'caterpillar'])))
        x = F.mk_neuron(f, name='keepme', nid=777, units=str(rng.choice(['8 nm', '1 um', '2 um'])))
        ids = f['ids']
        nonroot = [int(i) for i, p in zip(ids, f['parents']) if p >= 0]
        c = nonroot[int(rng.integers(len(nonroot)))]
        ops = {
            'copy': lambda: x.copy(),
            'deepcopy': lambda: x.copy(deepcopy=True),
            'rewrap': lambda: navis.TreeNeuron(x),
            'pickle': lambda: pickle.loads(pickle.dumps(x)),
            'reroot': lambda: navis.reroot_skeleton(x, c),
            'reroot-method': lambda: x.reroot(c, inplace=False),
            'cut': lambda: navis.cut_skeleton(x, c)[0],
            'subset': lambda: navis.subset_neuron(x, ids[:len(ids) // 2 + 1]),
            'prune_twigs': lambda: navis.prune_twigs(x, 2.5),
            'prune_twigs-method': lambda: x.prune_twigs(2.5, inplace=False),
            'prune_by_strahler': lambda: navis.prune_by_strahler(x, 1),
            'prune_by_strahler-method': lambda: x.prune_by_strahler(1, inplace=False),
            'prune_distal_to': lambda: x.prune_distal_to(c, inplace=False),
            'prune_proximal_to': lambda: x.prune_proximal_to(c, inplace=False),
            'prune_at_depth': lambda: navis.prune_at_depth(x, 5.5),
            'longest_neurite': lambda: navis.longest_neurite(x, 1),
            'heal': lambda: navis.heal_skeleton(navis.subset_neuron(x, [i for i in ids if i != c])),
            'resample': lambda: navis.resample_skeleton(x, 1.7),
            'downsample': lambda: navis.downsample_neuron(x, 3),
            'make_dotprops': lambda: navis.make_dotprops(x, k=3),
            'smooth': lambda: navis.smooth_skeleton(x),
            'despike': lambda: navis.despike_skeleton(x),
        }
        want = (str(x.units), x.name, x.id)
        for name, fn in ops.items():
            st, y = guarded(fn)
            ctx.case(('meta', name, ci), nontrivial=True)
            ctx.count('meta:' + name)
            d = dict(operation=name, units=want[0])
            if st != 'ok':
                ctx.violation('operation raised', d, y)
                continue
            got = (str(y.units), y.name, y.id)
            if got != want:
                ctx.violation('a non-scaling operation changed units / name / id', d, dict(before=want, after=got))
        if (str(x.units), x.name, x.id) != want:
            ctx.violation('a non-inplace operation changed the input\'s units / name / id', dict(units=want[0]))
    # ---------------- E2: the same for meshes, dotprops and conversions between representations ----------------
    import trimesh
    for ci in range(ctx.n(8, 60)):
        units = str(rng.choice(['8 nm', '1 um', '2 um']))
        tm_ = trimesh.creation.icosphere(subdivisions=1, radius=float(rng.integers(20, 60)))
        me = navis.MeshNeuron(tm_, name='keepme', id=777, units=units)
        pts = np.cumsum(rng.normal(size=(30, 3)) * 4, axis=0)
        dp = navis.make_dotprops(pts, k=5); dp.name, dp.id, dp.units = 'keepme', 777, units
        f = F.gen_forest(rng, 8, 25, roots=1, lattice=False, zero_edges=False)
        sk = F.mk_neuron(f, name='keepme', nid=777, units=units, radius=1.5)
        vol = navis.Volume(tm_.vertices, tm_.faces, name='v')
        ops2 = {
            'mesh:copy': lambda: me.copy(),
            'mesh:rewrap': lambda: navis.MeshNeuron(me),
            'mesh:make_dotprops': lambda: navis.make_dotprops(me, k=5),
            'mesh:skeletonize': lambda: navis.skeletonize(me),
            'mesh:subset': lambda: navis.subset_neuron(me, np.arange(len(me.vertices))[:30]),
            'mesh:in_volume': lambda: navis.in_volume(me, vol),
            'mesh:smooth': lambda: navis.smooth_mesh(me, iterations=1, backend='trimesh'),
            'mesh:pickle': lambda: pickle.loads(pickle.dumps(me)),
            'dotprops:copy': lambda: dp.copy(),
            'dotprops:make_dotprops': lambda: navis.make_dotprops(dp, k=3),
            'dotprops:subset': lambda: navis.subset_neuron(dp, np.arange(20)),
            'dotprops:downsample': lambda: navis.downsample_neuron(dp, 2),
            'dotprops:to_skeleton': lambda: dp.to_skeleton(),
            'dotprops:pickle': lambda: pickle.loads(pickle.dumps(dp)),
            'skeleton:make_dotprops(k=0)': lambda: navis.make_dotprops(sk, k=0),
            'skeleton:mesh': lambda: navis.mesh(sk),
        }
        for name, fn in ops2.items():
            st, y = guarded(fn)
            ctx.case(('meta2', name, ci), nontrivial=True)
            ctx.count('meta:' + name)
            d = dict(operation=name, units=units)
            if st != 'ok':
                ctx.count('rejected:' + name)
                continue
            got = (str(y.units), y.name, str(y.id))
            want2 = (str(me.units), 'keepme', '777')
            if name in ('dotprops:to_skeleton', 'skeleton:mesh', 'mesh:skeletonize'):
                got, want2 = got[:1], want2[:1]      # conversions other than "to dotprops" are not in the property's list: units only
            if got != want2:
                ctx.violation('a non-scaling operation / conversion changed units / name / id', d, dict(before=want2, after=got))


def _v3(p):
    return '{| ax := %s; ay := %s; az := %s |}' % tuple(term(Fraction(float(v))) for v in p)


def _flatq(r):
    flat = []
    def rec(v):
        if isinstance(v, tuple) and len(v) == 2 and all(isinstance(q, int) for q in v):
            flat.append(float(Fraction(v[0], v[1])))
        elif isinstance(v, tuple):
            ints = [q for q in v if isinstance(q, int)]
            # left-nested pairs print flattened: consume leading ints pairwise
            i = 0
            while i + 1 < len(v) and isinstance(v[i], int) and isinstance(v[i + 1], int):
                flat.append(float(Fraction(v[i], v[i + 1])))
                i += 2
            for q in v[i:]:
                rec(q)
    rec(r)
    return flat
