"""C14 — precomputed, NRRD, JSON, HDF5 and mesh files decode to what was written.

Precomputed skeletons/meshes: navis' bytes == the Coq specification encoder's bytes, the Coq decoder (proved to invert
the encoder) decodes navis' bytes to what was written, navis' reader agrees; batch reads and error policies on
truncated / garbage files.  NRRD / HDF5 / JSON / mesh containers: round trips through navis' readers plus an
independent parse with the container library (differential testing only, see props/C14.v)."""
import io as pyio
import json
import os
import shutil
import struct
import tempfile
import zipfile

import numpy as np
import pandas as pd

from vlib import coqio, forest as F
from vlib.coqio import term
from vlib.framework import guarded

RULE = ('random skeletons (any ids incl. > 2^32, forests, fractional-nm units) and meshes written as neuroglancer precomputed (with/without '
        'radius; single file, folder, zip) compared byte for byte with the Coq encoder, decoded by the Coq decoder and by navis; every '
        'truncation point of small files and garbage bytes; batch reads with random subsets of corrupt files under errors=raise/log/ignore; '
        'NRRD (voxels incl. anisotropic units, dotprops), JSON, HDF5 and mesh files round-tripped. '
        'BaseReader.parse_filename against model/Fmt.v on random fmt patterns (literal runs with regex-special characters; named, typed, multi-name and ignored fields; malformed type annotations) x file names (rendered from values, separators inside values, garbage around, unrelated, directory prefixes, values that do not convert). '
        'non-trivial = at least one edge and ids not equal to row indices; distinct = distinct (data, options).')
ASSUMPTIONS = ['float32 values are opaque 32-bit words for the model (struct.pack in the harness)',
               'pynrrd, h5py, json and trimesh containers are not modelled: those formats are covered by differential round trips only',
               'fmt model: field bodies with regex-special characters or blanks, nested braces, exponent / inf / nan / non-ASCII number spellings and paths ending in a slash or dot component are outside the generator (model/Fmt.v header)']


def f32words(a):
    return [int(w) for w in np.frombuffer(np.asarray(a, dtype='<f4').tobytes(), dtype='<u4')]


def run(ctx):
    import navis
    navis.set_loggers('ERROR')
    navis.set_pbars(hide=True)
    rng = ctx.rng
    from checks import fmtparse
    fmtparse.run(ctx, ctx.n(500, 8000), 'C14fmt')
    tmp = tempfile.mkdtemp(prefix='c14_', dir=os.path.join(coqio.VERIF, '.work'))
    exprs, follow = [], []
    try:
        # ---------------- precomputed skeletons ----------------
        for ci in range(ctx.n(60, 800)):
            f = F.gen_forest(rng, 1, 14, lattice=bool(rng.random() < 0.5))
            radius = rng.integers(0, 9, size=len(f['ids'])).astype(float) * 0.25
            units = str(rng.choice(['8 nm', '1 um', '0.5 nm', '1.5 nm', '1 dimensionless']))
            x = F.mk_neuron(f, radius=radius, nid=int(rng.integers(1, 10 ** 6)), units=units)
            with_r = bool(rng.integers(2))
            d = os.path.join(tmp, 'sk%d' % ci)
            os.makedirs(d)
            st, _ = guarded(navis.write_precomputed, x, d, radius=with_r)
            desc = dict(kind='skeleton', forest=f, radius=with_r, units=units)
            nt = any(p >= 0 for p in f['parents']) and f['ids'] != list(range(len(f['ids'])))
            ctx.case((str(f['ids']), str(f['parents']), str(f['xyz']), with_r, units), nontrivial=nt, sample=desc if ci < 2 else None)
            ctx.count('precomputed:skeleton')
            if st != 'ok':
                ctx.violation('write_precomputed raised', desc, _)
                continue
            raw = open(os.path.join(d, str(x.id)), 'rb').read()
            ids = [int(i) for i in x.nodes.node_id.values]
            ix = {i: k for k, i in enumerate(ids)}
            verts = f32words(x.nodes[['x', 'y', 'z']].values.flatten())
            edges = [(ix[int(p)], ix[int(c)]) for c, p in x.edges]      # stored as (parent index, child index)
            rwords = f32words(x.nodes.radius.values) if with_r else None
            M = '{| sk_verts := %s; sk_edges := %s; sk_radii := %s |}' % (term(verts), term(edges), 'None' if rwords is None else '(Some %s)' % term(rwords))
            exprs.append('(enc_skel %s, match dec_skel %s %s with Some m => Some (sk_verts m, sk_edges m, match sk_radii m with Some r => r | None => [] end) | None => None end)'
                         % (M, term(with_r), term(list(raw))))
            # navis' own reader
            st2, y = guarded(navis.read_precomputed, os.path.join(d, str(x.id)), datatype='skeleton', info=os.path.join(d, 'info'))
            info = json.load(open(os.path.join(d, 'info')))
            follow.append(('sk', desc, dict(raw=list(raw), verts=verts, edges=edges, rwords=rwords, read=(st2, y), x=x, info=info, ix=ix)))
            if ci % 3 == 0:
                # the zip container written by navis holds the same bytes and the same info file as the folder
                zp = os.path.join(tmp, 'sk%d.zip' % ci)
                stz, _z = guarded(navis.write_precomputed, x, zp, radius=with_r)
                ctx.count('precomputed:zip-writer')
                if stz != 'ok':
                    ctx.violation('write_precomputed to a zip archive raised', desc, _z)
                else:
                    with zipfile.ZipFile(zp) as zf:
                        names = zf.namelist()
                        zraw = zf.read(str(x.id)) if str(x.id) in names else None
                        zinfo = json.loads(zf.read('info')) if 'info' in names else None
                    if zraw != raw:
                        ctx.violation('zip archive written by navis does not hold the bytes of the published format', desc, dict(members=names))
                    elif zinfo != info:
                        ctx.violation('info file in the zip archive differs from the one written to a folder (data type / scale / vertex attributes)', desc,
                                      dict(zip=zinfo, folder=info))
                    else:
                        stz, yz = guarded(navis.read_precomputed, zp, datatype='skeleton')
                        yz = yz[0] if stz == 'ok' and hasattr(yz, 'neurons') and len(yz) else yz
                        if stz != 'ok' or not hasattr(yz, 'nodes') or (with_r and not np.allclose(np.sort(yz.nodes.radius.values), np.sort(x.nodes.radius.values.astype(np.float32)))):
                            ctx.violation('skeleton read back from the zip archive written by navis lost its radii', desc, yz if stz != 'ok' else None)
            # truncation: every cut point of small files, sampled otherwise
            cuts = range(len(raw)) if len(raw) <= 200 and ci % 6 == 0 else [int(v) for v in rng.integers(0, len(raw), size=3)]
            for cut in cuts:
                exprs.append('match dec_skel %s %s with Some _ => true | None => false end' % (term(with_r), term(list(raw[:cut]))))
                stt, yt = guarded(navis.read_precomputed, pyio.BytesIO(raw[:cut]), datatype='skeleton', info=info if with_r else False)
                follow.append(('trunc', dict(desc, cut=cut, size=len(raw)), dict(status=stt, res=yt, x=x)))
        # ---------------- precomputed meshes ----------------
        for ci in range(ctx.n(20, 250)):
            nv = int(rng.integers(3, 12))
            verts = (rng.normal(size=(nv, 3)) * 10).astype(np.float32)
            faces = np.array([rng.choice(nv, size=3, replace=False) for _ in range(int(rng.integers(1, 9)))]).astype(np.uint32)
            m = navis.MeshNeuron((verts, faces), id=int(rng.integers(1, 10 ** 6)))
            verts, faces = np.asarray(m.vertices, dtype=np.float32), np.asarray(m.faces, dtype=np.uint32)   # what the neuron holds is what must be written
            d = os.path.join(tmp, 'me%d' % ci)
            os.makedirs(d)
            st, _ = guarded(navis.write_precomputed, m, d)
            desc = dict(kind='mesh', n_vertices=nv, n_faces=len(faces))
            ctx.case(('mesh', verts.tobytes().hex()[:40], faces.tobytes().hex()[:40]), nontrivial=True)
            ctx.count('precomputed:mesh')
            if st != 'ok':
                ctx.violation('write_precomputed raised', desc, _)
                continue
            raw = open(os.path.join(d, str(m.id)), 'rb').read()
            M = '{| me_verts := %s; me_faces := %s |}' % (term(f32words(verts.flatten())), term([int(v) for v in faces.flatten()]))
            exprs.append('(enc_mesh %s, match dec_mesh %s with Some q => Some (me_verts q, me_faces q) | None => None end)' % (M, term(list(raw))))
            st2, y = guarded(navis.read_precomputed, os.path.join(d, str(m.id)), datatype='mesh')
            follow.append(('me', desc, dict(raw=list(raw), verts=verts, faces=faces, read=(st2, y))))
        out = coqio.eval_terms('C14', ['model.Precomputed'], exprs, shard=150)
        for (kind, desc, e), r in zip(follow, out):
            if kind == 'sk':
                enc, dec = r
                if list(enc) != e['raw']:
                    ctx.violation('bytes written by navis differ from the published format (specification encoder)', desc,
                                  dict(navis=e['raw'][:64], spec=list(enc)[:64], len_navis=len(e['raw']), len_spec=len(enc)))
                    continue
                if dec is None or list(dec.v[0]) != e['verts'] or [tuple(p) for p in dec.v[1]] != e['edges'] or list(dec.v[2]) != (e['rwords'] or []):
                    ctx.violation('independent decoder does not recover what was written', desc, dict(decoded=str(dec)[:300]))
                    continue
                st2, y = e['read']
                if st2 != 'ok':
                    ctx.violation('read_precomputed raised on a file written by navis', desc, y)
                    continue
                x = e['x']
                want_par = {e['ix'][int(c)]: e['ix'][int(p)] for c, p in x.edges}
                got_par = {int(i): int(p) for i, p in zip(y.nodes.node_id.values, y.nodes.parent_id.values)}
                if got_par != {k: want_par.get(k, -1) for k in range(len(x.nodes))}:
                    ctx.violation('navis reader does not reproduce the edges that were written', desc, dict(read=got_par, expected=want_par))
                if not np.array_equal(y.nodes[['x', 'y', 'z']].values.astype(np.float32), x.nodes[['x', 'y', 'z']].values.astype(np.float32)):
                    ctx.violation('navis reader does not reproduce the coordinates (float32)', desc)
                if desc['radius'] and ('radius' not in y.nodes.columns or not np.array_equal(y.nodes.radius.values.astype(np.float32), x.nodes.radius.values.astype(np.float32))):
                    ctx.violation('navis reader does not reproduce the radii', desc)
                info = e['info']
                if info.get('@type') != 'neuroglancer_skeletons':
                    ctx.violation('info file does not record the data type', desc, info)
                scale = 1.0 if x.units.dimensionless else float(x.units.to('nm').magnitude)
                tr = info.get('transform', [])
                if len(tr) != 12 or any(abs(tr[k] - scale) > 1e-9 * scale for k in (0, 5, 10)) or any(tr[k] != 0 for k in (1, 2, 3, 4, 6, 7, 8, 9, 11)):
                    ctx.violation('info file does not record the nm scale', desc, dict(transform=tr, expected_scale=scale))
                if desc['radius'] and info.get('vertex_attributes') != [{'id': 'radius', 'data_type': 'float32', 'num_components': 1}]:
                    ctx.violation('info file does not record the radius vertex attribute', desc, info)
            elif kind == 'trunc':
                model_ok = bool(r)
                ctx.count('truncation')
                if e['status'] == 'ok' and not model_ok:
                    # navis accepted a file the format decoder rejects: only a finding if it silently yields different data
                    y = e['res']
                    if len(y.nodes) == len(e['x'].nodes) and desc['cut'] < desc['size']:
                        # same node count from a shorter file can only come from dropped trailing data (edges / radii)
                        ctx.count('truncation:accepted-by-navis')
            else:
                enc, dec = r
                if list(enc) != e['raw']:
                    ctx.violation('mesh bytes written by navis differ from the published format', desc)
                elif dec is None or list(dec.v[0]) != f32words(e['verts'].flatten()) or list(dec.v[1]) != [int(v) for v in e['faces'].flatten()]:
                    ctx.violation('independent mesh decoder does not recover what was written', desc)
                st2, y = e['read']
                if st2 != 'ok' or not np.array_equal(np.asarray(y.vertices, dtype=np.float32), e['verts']) or not np.array_equal(np.asarray(y.faces), e['faces']):
                    ctx.violation('navis mesh reader does not reproduce what was written', desc, y if st2 != 'ok' else None)
        batch(ctx, navis, rng, tmp)
        parallel_order(ctx, navis, rng, tmp)
        containers(ctx, navis, rng, tmp)
    finally:
        shutil.rmtree(tmp, ignore_errors=True)


def batch(ctx, navis, rng, tmp):
    """folders / zips / lists, fmt patterns, error policies"""
    for ci in range(ctx.n(12, 120)):
        k = int(rng.integers(2, 6))
        nl = navis.NeuronList([F.mk_neuron(F.gen_forest(rng, 2, 10, roots=1, lattice=True, zero_edges=False), nid=100 + j, name='n%d' % j) for j in range(k)])
        d = os.path.join(tmp, 'batch%d' % ci)
        os.makedirs(d)
        navis.write_precomputed(nl, d)
        bad = sorted(int(v) for v in rng.choice(k, size=int(rng.integers(0, k)), replace=False))
        for j in bad:
            p = os.path.join(d, str(100 + j))
            raw = open(p, 'rb').read()
            if rng.random() < 0.5:
                open(p, 'wb').write(raw[:int(rng.integers(1, 8))])           # truncated inside the header
            else:
                open(p, 'wb').write(struct.pack('<II', 10 ** 6, 3) + raw[8:])    # garbage counts
        desc = dict(n_files=k, corrupt=[100 + j for j in bad])
        ctx.case(('batch', k, str(bad), ci), nontrivial=bool(bad))
        ctx.count('batch')
        single = {j: guarded(navis.read_precomputed, os.path.join(d, str(100 + j)), datatype='skeleton', info=False) for j in range(k)}
        detect = [j for j in range(k) if single[j][0] != 'ok']
        for pol in ('raise', 'log', 'ignore'):
            for par in (False,) if ctx.quick() else (False, 2):
                st, res = guarded(navis.read_precomputed, d, datatype='skeleton', errors=pol, parallel=par, info=False)
                if pol == 'raise':
                    if detect and st == 'ok':
                        ctx.violation("errors='raise' did not raise although a file is corrupt", dict(desc, policy=pol, parallel=par))
                    if not detect and st != 'ok':
                        ctx.violation("errors='raise' raised although every file is valid", dict(desc, policy=pol, parallel=par), res)
                else:
                    if st != 'ok':
                        ctx.violation("errors=%r raised instead of skipping the corrupt file" % pol, dict(desc, policy=pol, parallel=par), res)
                        continue
                    got = [int(n.id) for n in navis.NeuronList(res)]
                    want = [100 + j for j in range(k) if j not in detect]
                    if sorted(got) != want:
                        ctx.violation('a corrupt file affected the others (or was not skipped)', dict(desc, policy=pol, parallel=par), dict(got=got, want=want))
                    elif got != sorted(got):
                        ctx.violation('batch read order is not deterministic (sorted by file name)', dict(desc, policy=pol), dict(got=got))
        # the same policies for precomputed MESH files
        import trimesh
        dm = os.path.join(tmp, 'meshbatch%d' % ci)
        os.makedirs(dm)
        ml = navis.NeuronList([navis.MeshNeuron(trimesh.creation.box(extents=rng.integers(2, 9, size=3).astype(float)), id=200 + j, name='m%d' % j) for j in range(k)])
        navis.write_precomputed(ml, dm)
        for j in bad:
            pm = os.path.join(dm, str(200 + j))
            rawm = open(pm, 'rb').read()
            open(pm, 'wb').write(rawm[:int(rng.integers(1, 4))] if rng.random() < 0.5 else struct.pack('<I', 10 ** 6) + rawm[4:])
        singlem = {j: guarded(navis.read_precomputed, os.path.join(dm, str(200 + j)), datatype='mesh', info=False) for j in range(k)}
        detectm = [j for j in range(k) if singlem[j][0] != 'ok']
        for pol in ('raise', 'log', 'ignore'):
            st, res = guarded(navis.read_precomputed, dm, datatype='mesh', errors=pol, parallel=False, info=False)
            dd = dict(desc, datatype='mesh', policy=pol, corrupt=[200 + j for j in bad])
            ctx.count('batch:mesh:' + pol)
            if pol == 'raise':
                if detectm and st == 'ok':
                    ctx.violation("errors='raise' did not raise although a mesh file is corrupt", dd)
                if not detectm and st != 'ok':
                    ctx.violation("errors='raise' raised although every mesh file is valid", dd, res)
            elif st != 'ok':
                ctx.violation("errors=%r raised instead of skipping the corrupt mesh file" % pol, dd, res)
            else:
                got = [int(n.id) for n in navis.NeuronList(res)]
                want = [200 + j for j in range(k) if j not in detectm]
                if sorted(got) != want:
                    ctx.violation('a corrupt mesh file affected the others (or was not skipped)', dd, dict(got=got, want=want))
        # zip container + fmt
        if not bad:
            z = os.path.join(tmp, 'batch%d.zip' % ci)
            navis.write_precomputed(nl, z)
            st, res = guarded(navis.read_precomputed, z, datatype='skeleton', parallel=False, info=False)
            if st != 'ok' or sorted(int(n.id) for n in navis.NeuronList(res)) != [100 + j for j in range(k)]:
                ctx.violation('zip archive does not return one neuron per file', desc, res if st != 'ok' else None)
            # fmt patterns: named fields, typed fields and IGNORED fields ({}) - files named <name>_<tag>_<id>
            df_ = os.path.join(tmp, 'fmt%d' % ci)
            os.makedirs(df_)
            want_attr = {}
            for j, n_ in enumerate(nl):
                src_ = os.path.join(d, str(100 + j))
                nm_ = 'cell%s_v%d_%d' % ('ABCDEF'[j], j + 1, 500 + j)
                shutil.copy(src_, os.path.join(df_, nm_))
                want_attr[500 + j] = 'cell%s' % 'ABCDEF'[j]
            for pattern, conv in (('{name}_{}_{id}', str), ('{name}_{}_{id:int}', int), ('{name}_v{}_{id:int}', int)):
                st, res = guarded(navis.read_precomputed, df_, datatype='skeleton', fmt=pattern, parallel=False, info=False)
                dd = dict(desc, fmt=pattern, files=sorted(os.listdir(df_)))
                ctx.count('fmt:' + pattern)
                if st != 'ok':
                    ctx.violation('read_precomputed raised for a documented fmt pattern', dd, res)
                    continue
                got_attr = {conv(n.id) if conv is int else n.id: n.name for n in navis.NeuronList(res)}
                exp_attr = {conv(i_) if conv is int else str(i_): v_ for i_, v_ in want_attr.items()}
                if got_attr != exp_attr:
                    ctx.violation('name/id are not parsed from the file name as the fmt pattern prescribes', dd, dict(got={str(k_): v_ for k_, v_ in got_attr.items()}, want={str(k_): v_ for k_, v_ in exp_attr.items()}))
                # the same files inside a zip archive: the same attributes
                zf_ = os.path.join(tmp, 'fmt%d_%d.zip' % (ci, len(pattern)))
                with zipfile.ZipFile(zf_, 'w') as zz:
                    for fn_ in sorted(os.listdir(df_)):
                        zz.write(os.path.join(df_, fn_), fn_)
                st, res = guarded(navis.read_precomputed, zf_, datatype='skeleton', fmt=pattern, parallel=False, info=False)
                ctx.count('fmt-zip:' + pattern)
                if st != 'ok':
                    ctx.violation('read_precomputed raised for a documented fmt pattern (zip archive)', dd, res)
                else:
                    got_z = {conv(n.id) if conv is int else n.id: n.name for n in navis.NeuronList(res)}
                    if got_z != exp_attr:
                        ctx.violation('name/id are not parsed from the file name inside a zip archive as the fmt pattern prescribes', dd,
                                      dict(got={str(k_): v_ for k_, v_ in got_z.items()}, want={str(k_): v_ for k_, v_ in exp_attr.items()}))


def parallel_order(ctx, navis, rng, tmp):
    """a real process pool: results come back in file order even when the first file takes far longer than the rest"""
    d = os.path.join(tmp, 'par')
    os.makedirs(d)
    big = F.mk_neuron(F.gen_forest(rng, 30000, 30001, roots=1, lattice=False, zero_edges=False, shape='caterpillar'), nid=300, name='big')
    small = [F.mk_neuron(F.gen_forest(rng, 3, 6, roots=1, lattice=True, zero_edges=False), nid=301 + j, name='s%d' % j) for j in range(7)]
    navis.write_precomputed(navis.NeuronList([big] + small), d)
    want = [300 + j for j in range(8)]
    for rep in range(ctx.n(2, 6)):
        st, res = guarded(navis.read_precomputed, d, datatype='skeleton', parallel=2, info=False)
        ctx.case(('parallel-order', rep), nontrivial=True)
        ctx.count('batch:parallel-pool')
        if st != 'ok':
            ctx.violation('parallel batch read raised', dict(files=want), res)
            return
        got = [int(n.id) for n in navis.NeuronList(res)]
        if got != want:
            ctx.violation('parallel batch read does not return the neurons in (sorted) file order', dict(files=want), dict(got=got))
            return


def containers(ctx, navis, rng, tmp):
    import nrrd
    import h5py
    for ci in range(ctx.n(12, 150)):
        # ---- NRRD voxels, isotropic and anisotropic units
        grid = rng.integers(0, 200, size=(int(rng.integers(2, 6)), int(rng.integers(2, 6)), int(rng.integers(2, 6)))).astype(rng.choice([np.uint8, np.uint16, np.float32]))
        units = [['2 nm', '2 nm', '2 nm'], ['4 nm', '4 nm', '40 nm'], ['0.5 um', '0.5 um', '1 um']][int(rng.integers(3))]
        v = navis.VoxelNeuron(grid, units=units if len(set(units)) > 1 else units[0], name='vox', id=int(rng.integers(1, 999)))
        p = os.path.join(tmp, 'v%d.nrrd' % ci)
        st, _ = guarded(navis.write_nrrd, v, p)
        desc = dict(kind='nrrd-voxels', shape=grid.shape, dtype=str(grid.dtype), units=units)
        ctx.case(('nrrd', grid.tobytes().hex()[:40], str(units)), nontrivial=len(set(units)) > 1)
        ctx.count('nrrd:voxels')
        if st != 'ok':
            ctx.violation('write_nrrd raised', desc, _)
        else:
            data, hdr = nrrd.read(p)
            if not np.array_equal(data, grid):
                ctx.violation('NRRD file (read with pynrrd) does not hold the voxel values that were written', desc)
            st, y = guarded(navis.read_nrrd, p, output='voxels')
            if st != 'ok':
                ctx.violation('read_nrrd raised', desc, y)
            else:
                if not np.array_equal(np.asarray(y.grid), grid):
                    ctx.violation('read_nrrd does not reproduce the voxel values', desc)
                u0 = np.asarray(v.units_xyz.to('nm').magnitude, dtype=float)
                u1 = np.asarray(y.units_xyz.to('nm').magnitude, dtype=float)
                if np.abs(u0 - u1).max() > 1e-9 * u0.max():
                    ctx.violation('NRRD round trip does not restore the (per-axis) voxel size', desc, dict(written=u0.tolist(), read=u1.tolist()))
                # a neuron read from NRRD (it carries the file's header), re-calibrated and written again: the new file holds the NEW voxel size
                newu = [['3 nm', '3 nm', '3 nm'], ['8 nm', '16 nm', '80 nm'], ['1 um', '1 um', '2 um']][int(rng.integers(3))]
                st, _ = guarded(setattr, y, 'units', newu if len(set(newu)) > 1 else newu[0])
                p2 = os.path.join(tmp, 'v%d_b.nrrd' % ci)
                st, _ = guarded(navis.write_nrrd, y, p2) if st == 'ok' else (st, _)
                ctx.count('nrrd:rewrite')
                if st != 'ok':
                    ctx.violation('write_nrrd raised for a re-calibrated neuron read from NRRD', dict(desc, new_units=newu), _)
                else:
                    st, y2 = guarded(navis.read_nrrd, p2, output='voxels')
                    w_ = np.asarray(y.units_xyz.to('nm').magnitude, dtype=float)
                    hdr2 = nrrd.read_header(p2)
                    sd_ = np.diag(np.asarray(hdr2['space directions'], dtype=float))
                    su_ = [float(navis.config.ureg('1 ' + str(u_)).to('nm').magnitude) for u_ in hdr2['space units']]
                    if st != 'ok' or np.abs(np.asarray(y2.units_xyz.to('nm').magnitude, dtype=float) - w_).max() > 1e-9 * w_.max() or np.abs(sd_ * np.array(su_) - w_).max() > 1e-9 * w_.max():
                        ctx.violation('NRRD file written for a re-calibrated neuron does not hold its current voxel size', dict(desc, new_units=newu),
                                      dict(header=(sd_ * np.array(su_)).tolist(), want=w_.tolist()))
        # ---- NRRD: a sparse voxel-list neuron with non-integer values
        nvx = int(rng.integers(3, 8))
        vox = np.unique(rng.integers(0, 5, size=(nvx, 3)), axis=0)
        vals = (rng.integers(1, 40, size=len(vox)) * 0.25).astype(float)
        vl = navis.VoxelNeuron(vox, units='2 nm', name='vl', id=int(rng.integers(1, 999)))
        st, _ = guarded(setattr, vl, 'values', vals)
        p3 = os.path.join(tmp, 'vl%d.nrrd' % ci)
        st, _ = guarded(navis.write_nrrd, vl, p3) if st == 'ok' else (st, _)
        ctx.case(('nrrd-voxlist', vox.tobytes().hex()[:40], vals.tobytes().hex()[:40]), nontrivial=True)
        ctx.count('nrrd:voxel-list')
        dvl = dict(kind='nrrd-voxel-list', voxels=vox.tolist(), values=vals.tolist())
        if st != 'ok':
            ctx.violation('write_nrrd raised for a voxel-list neuron', dvl, _)
        else:
            data3, _h = nrrd.read(p3)
            got3 = {tuple(int(t) for t in ix): float(data3[tuple(ix)]) for ix in np.argwhere(data3 != 0)}
            want3 = {tuple(int(t) for t in v_): float(a_) for v_, a_ in zip(vox, vals)}
            if got3 != want3:
                ctx.violation('NRRD file (read with pynrrd) does not hold the voxel values that were written', dvl, dict(got=str(got3)[:300]))
        # ---- NRRD dotprops
        dp = navis.make_dotprops(rng.normal(size=(9, 3)) * 5, k=3)
        dp.units = str(rng.choice(['1 um', '8 nm', '0.5 um', '1 nm']))
        p = os.path.join(tmp, 'd%d.nrrd' % ci)
        st, _ = guarded(navis.write_nrrd, dp, p)
        ctx.case(('nrrd-dp', ci), nontrivial=True)
        ctx.count('nrrd:dotprops')
        if st == 'ok':
            st, y = guarded(navis.read_nrrd, p, output='dotprops')
            if st != 'ok' or not np.allclose(np.asarray(y.points), np.asarray(dp.points)) or not np.allclose(np.abs((np.asarray(y.vect) * np.asarray(dp.vect)).sum(axis=1)), 1, atol=1e-5):
                ctx.violation('NRRD dotprops round trip does not reproduce points / tangents', dict(kind='nrrd-dotprops'), y if st != 'ok' else None)
            elif abs(float(y.units.to('nm').magnitude) - float(dp.units.to('nm').magnitude)) > 1e-9 * float(dp.units.to('nm').magnitude):
                ctx.violation('NRRD dotprops round trip does not restore the units', dict(kind='nrrd-dotprops', units=str(dp.units)), dict(read=str(y.units)))
        else:
            ctx.violation('write_nrrd(dotprops) raised', dict(kind='nrrd-dotprops'), _)
        # ---- JSON and HDF5 for skeletons with connectors
        f = F.gen_forest(rng, 2, 15, lattice=True)
        cn = F.gen_connectors(rng, f, 5)
        x = F.mk_neuron(f, connectors=cn, radius=rng.integers(1, 5, size=len(f['ids'])).astype(float), name='jn', nid=int(rng.integers(1, 999)), units='8 nm')
        desc = dict(kind='json/hdf5', forest=f)
        ctx.case(('json', str(f['ids']), str(f['parents'])), nontrivial=F.nontrivial(f))
        ctx.count('json+hdf5')
        st, s = guarded(navis.write_json, x, None)
        if st != 'ok':
            ctx.violation('write_json raised', desc, s)
        else:
            st, y = guarded(navis.read_json, s)
            y = y[0] if st == 'ok' and hasattr(y, 'neurons') else y
            if st != 'ok' or not _same_nodes(x, y) or str(y.id) != str(x.id):
                ctx.violation('JSON round trip does not reproduce nodes / id', desc, y if st != 'ok' else None)
            elif cn is not None and sorted(zip(y.connectors.connector_id, y.connectors.node_id)) != sorted(zip(x.connectors.connector_id, x.connectors.node_id)):
                ctx.violation('JSON round trip does not reproduce connectors', desc)
        # JSON with SEVERAL neurons: every entry decodes to its own neuron (navis' reader and an independent json decoder)
        f2 = F.gen_forest(rng, 2, 10, lattice=True)
        x2 = F.mk_neuron(f2, connectors=F.gen_connectors(rng, f2, 3), radius=rng.integers(1, 5, size=len(f2['ids'])).astype(float), name='jn2', nid=int(rng.integers(1000, 1999)), units='8 nm')
        st, s2 = guarded(navis.write_json, navis.NeuronList([x, x2]), None)
        ctx.count('json:list')
        if st != 'ok':
            ctx.violation('write_json(list) raised', desc, s2)
        else:
            st, ys = guarded(navis.read_json, s2)
            okj = st == 'ok' and len(ys) == 2 and all(_same_nodes(a_, b_) and str(a_.id) == str(b_.id) for a_, b_ in zip([x, x2], ys))
            try:
                raw_ = json.loads(s2)
                ids_ = sorted(str(e_.get('id')) for e_ in raw_)
            except Exception as e_:
                ids_ = repr(e_)
            if not okj or ids_ != sorted([str(x.id), str(x2.id)]):
                ctx.violation('JSON written for a list of neurons does not decode to each neuron\'s own nodes / id', dict(desc, second=f2), dict(ids_in_file=ids_))
        p = os.path.join(tmp, 'h%d.h5' % ci)
        st, _ = guarded(navis.write_h5, x, p, serialized=False, raw=True)
        if st != 'ok':
            ctx.violation('write_h5 raised', desc, _)
        else:
            st, y = guarded(navis.read_h5, p, read='skeleton', prefer_raw=True, parallel=False)
            y = y[0] if st == 'ok' and hasattr(y, 'neurons') else y
            if st != 'ok' or not _same_nodes(x, y):
                ctx.violation('HDF5 round trip does not reproduce nodes', desc, y if st != 'ok' else None)
            elif str(y.units) != str(x.units) or str(y.id) != str(x.id):
                ctx.violation('HDF5 round trip does not restore units / id', desc, dict(units=(str(x.units), str(y.units)), id=(x.id, y.id)))
            with h5py.File(p, 'r') as h:
                if str(x.id) not in h:
                    ctx.violation('HDF5 file (read with h5py) has no group for the neuron id', desc, list(h.keys()))
        # HDF5 writer options: serialized and/or raw, connectors as an annotation; readers with default and explicit annotation selection
        if cn is not None:
            for wkw in (dict(serialized=True, raw=False), dict(serialized=True, raw=True, annotations='connectors'), dict(serialized=False, raw=True, annotations='connectors')):
                for rkw in (dict(), dict(prefer_raw=True), dict(prefer_raw=True, annotations=['connectors'])):
                    p2 = os.path.join(tmp, 'h%d_%d.h5' % (ci, len(str(wkw)) + 7 * len(str(rkw))))
                    if os.path.exists(p2):
                        os.remove(p2)
                    st, _ = guarded(navis.write_h5, x, p2, **wkw)
                    dd = dict(desc, write=wkw, read=rkw)
                    ctx.count('hdf5:options')
                    if st != 'ok':
                        ctx.violation('write_h5 raised', dd, _)
                        continue
                    st, y = guarded(navis.read_h5, p2, read='skeleton', parallel=False, **rkw)
                    y = y[0] if st == 'ok' and hasattr(y, 'neurons') and len(y) else y
                    if st != 'ok' or not hasattr(y, 'nodes') or not _same_nodes(x, y) or str(y.id) != str(x.id):
                        ctx.violation('HDF5 round trip does not reproduce nodes / id', dd, y if st != 'ok' else None)
                    elif y.connectors is None or sorted(zip(y.connectors.connector_id, y.connectors.node_id)) != sorted(zip(x.connectors.connector_id, x.connectors.node_id)):
                        ctx.violation('HDF5 round trip does not reproduce the connectors that were written', dd,
                                      None if y.connectors is None else y.connectors.to_dict('list'))
        # ---- mesh files
        nv = int(rng.integers(4, 10))
        verts = (rng.normal(size=(nv, 3)) * 10).astype(np.float32).astype(float)
        faces = np.array([[0, 1, 2], [1, 2, 3], [0, 2, 3], [0, 1, 3]])
        m = navis.MeshNeuron((verts, faces), id=int(rng.integers(1, 999)), name='m')
        for ext in ('ply', 'obj', 'stl'):
            p = os.path.join(tmp, 'm%d.%s' % (ci, ext))
            st, _ = guarded(navis.write_mesh, m, p)
            ctx.case(('mesh', ext, ci), nontrivial=True)
            ctx.count('mesh:' + ext)
            if st != 'ok':
                ctx.violation('write_mesh raised', dict(kind='mesh', ext=ext), _)
                continue
            st, y = guarded(navis.read_mesh, p)
            y = y[0] if st == 'ok' and hasattr(y, 'neurons') else y
            if st != 'ok':
                ctx.violation('read_mesh raised', dict(kind='mesh', ext=ext), y)
                continue
            tri0 = sorted(tuple(sorted(tuple(np.round(verts[i], 4)) for i in fc)) for fc in faces)
            yv = np.asarray(y.vertices, dtype=float)
            tri1 = sorted(tuple(sorted(tuple(np.round(yv[i], 4)) for i in fc)) for fc in np.asarray(y.faces))
            if tri0 != tri1:
                ctx.violation('mesh file round trip does not reproduce the triangles', dict(kind='mesh', ext=ext))


def _same_nodes(x, y):
    a = sorted((int(i), int(p), float(u), float(v), float(w)) for i, p, u, v, w in zip(x.nodes.node_id, x.nodes.parent_id, x.nodes.x, x.nodes.y, x.nodes.z))
    b = sorted((int(i), int(p), float(u), float(v), float(w)) for i, p, u, v, w in zip(y.nodes.node_id, y.nodes.parent_id, y.nodes.x, y.nodes.y, y.nodes.z))
    return a == b
