"""C05 — tree distances and segment decompositions match their definitions.

The model (model/Dist.v, model/Segments.v) IS the definition the property names: walk parent links and sum
edge lengths.  navis' outputs are compared with it label-by-label; segment lists are decided by the verified
checkers partition_okb / shape_okb / long_segments_okb and compared with the model's decomposition."""
import math
from fractions import Fraction

import numpy as np

from vlib import coqio, forest as F
from vlib.coqio import term
from vlib.framework import guarded

RULE = ('random forests (as C01; lattice stream: integer edge lengths, exact comparison; float stream: arbitrary doubles, '
        'relative tolerance 1e-9, 1e-5 under fastcore) x geodesic_matrix over random from_ (duplicates, unsorted, None), both directed, '
        'both weights, limits in {None, 0, small, large, inf, unit strings}; dist_between on random pairs; dist_to_root; distal_to; '
        'cable_length; skeleton_adjacency_matrix; segments and small_segments. Backend drawn per case. '
        'non-trivial = branch point or >=2 roots; distinct = distinct (table, coordinates, query).')
ASSUMPTIONS = ['Dijkstra (scipy/fastcore) is modelled by the parent-walk definition, not verified',
               'edge lengths are supplied by the harness (exact integers on the lattice stream, float64 sqrt on the float stream)']


def weights(f, lattice):
    pos = dict(zip(f['ids'], f['xyz']))
    w = {}
    for i, p in zip(f['ids'], f['parents']):
        if p < 0:
            continue
        a, b = pos[i], pos[p]
        if lattice:
            d2 = sum((int(a[j]) - int(b[j])) ** 2 for j in range(3))
            r = math.isqrt(d2)
            assert r * r == d2
            w[i] = Fraction(r)
        else:
            w[i] = Fraction(float(np.sqrt(((np.array(a, dtype=float) - np.array(b, dtype=float)) ** 2).sum())))
    return w


def close(a, b, tol):
    if a is None or b is None:
        return a is None and b is None
    return abs(a - b) <= tol * max(1.0, abs(a), abs(b))


def tofl(v):
    v = float(v)
    return None if (math.isinf(v) or v != v) else v


def run(ctx):
    import navis
    navis.set_loggers('ERROR')
    navis.set_pbars(hide=True)
    rng = ctx.rng
    N = ctx.n(150, 2500)
    nmax = ctx.n(30, 90)
    jobs = []
    for ci in range(N):
        lattice = bool(rng.random() < 0.6)
        f = F.gen_forest(rng, 1, nmax, lattice=lattice)
        be = str(rng.choice(['fastcore', 'igraph', 'nx']))
        w = weights(f, lattice)
        ids = f['ids']
        tol = 0.0 if lattice else (1e-5 if be == 'fastcore' else 1e-9)
        if lattice and be == 'fastcore':
            tol = 1e-6   # float32 arithmetic inside fastcore: exact only below 2^24
        T = '(mk %s)' % term(list(zip(f['ids'], f['parents'])))
        W = term(sorted(w.items()))
        desc = dict(forest=f, backend=be, lattice=lattice)
        nt = F.nontrivial(f)
        with F.backend(be):
            x = F.mk_neuron(f, units='1 nm' if rng.random() < 0.5 else None)
            # ---- geodesic matrix
            directed = bool(rng.integers(2))
            weight = 'weight' if rng.random() < 0.6 else None
            fr_mode = str(rng.choice(['none', 'some', 'dups']))
            if fr_mode == 'none':
                from_, frm = None, list(ids)
            else:
                k = int(rng.integers(1, len(ids) + 1))
                frm = [int(v) for v in rng.choice(ids, size=k, replace=(fr_mode == 'dups'))]
                from_ = frm if rng.random() < 0.5 else np.array(frm)
            lim_choice = int(rng.integers(6))
            limit_val = [None, 0, 2.5, 1000.5, float('inf'), 'unit'][lim_choice]
            limit_arg = limit_val
            if limit_val == 'unit':
                if x.units is not None and not x.units.dimensionless:
                    limit_arg, limit_val = '7.5 nm', 7.5
                else:
                    limit_arg, limit_val = 7.5, 7.5
            q = dict(directed=directed, weight=weight, from_=frm if from_ is not None else None, limit=limit_arg)
            kw = dict(directed=directed, weight=weight, from_=from_)
            if limit_arg is not None:
                kw['limit'] = limit_arg
            st, m = guarded(navis.geodesic_matrix, x, **kw)
            lim_t = 'None' if limit_val is None or limit_val == float('inf') else '(Some %s)' % term(Fraction(limit_val))
            wexpr = W if weight == 'weight' else '(unit_w %s)' % T
            srcs = sorted(set(frm))
            jobs.append(dict(desc=dict(desc, query=q, op='geodesic_matrix'), nt=nt, key=(str(f['ids']), str(f['xyz']), str(q)),
                             exprs=['map (fun c => (fst (fst c), snd (fst c), oqout (snd c))) (geodesic_matrix %s %s %s %s %s)' % (term(directed), lim_t, T, wexpr, term(srcs))],
                             cmp=_cmp_matrix(st, m, srcs, ids, tol)))
            # ---- dist_between / dist_to_root / distal_to / cable
            pairs = [(int(ids[int(rng.integers(len(ids)))]), int(ids[int(rng.integers(len(ids)))])) for _ in range(4)]
            db = [guarded(navis.dist_between, x, a, b) for a, b in pairs]
            st_dr, dr = guarded(navis.graph.dist_to_root, x, weight='weight')
            A = sorted(set(int(v) for v in rng.choice(ids, size=min(len(ids), 5), replace=False)))
            B = sorted(set(int(v) for v in rng.choice(ids, size=min(len(ids), 5), replace=False)))
            st_dt, dt = guarded(navis.distal_to, x, A, B)
            st_cl, cl = guarded(lambda: float(getattr(x.cable_length, 'magnitude', x.cable_length)))
            jobs.append(dict(desc=dict(desc, op='dist_between/dist_to_root/distal_to/cable', pairs=pairs, A=A, B=B), nt=nt,
                             key=(str(f['ids']), str(f['xyz']), str(pairs), str(A), str(B)),
                             exprs=['map (fun p => oqout (geo %s %s (fst p) (snd p))) %s' % (T, W, term(pairs)),
                                    'map (fun i => (i, qout (d_root %s %s i))) (ids %s)' % (T, W, T),
                                    'map (fun a => map (fun b => distal_to %s a b) %s) %s' % (T, term(B), term(A)),
                                    'qout (cable %s %s)' % (T, W)],
                             cmp=_cmp_misc(db, pairs, (st_dr, dr), (st_dt, dt), A, B, (st_cl, cl), tol, be)))
            # ---- adjacency matrix
            st_a, adj = guarded(navis.graph.skeleton_adjacency_matrix, x, sort=bool(rng.integers(2)) if len(x.root) == 1 else False)
            jobs.append(dict(desc=dict(desc, op='skeleton_adjacency_matrix'), nt=nt, key=(str(f['ids']), str(f['parents']), 'adj'),
                             exprs=['map (fun a => (a, filter (fun b => adjacency %s a b) (ids %s))) (ids %s)' % (T, T, T)],
                             cmp=_cmp_adj(st_a, adj)))
            # ---- segments
            st_s, segs = guarded(lambda: [[int(v) for v in s] for s in x.segments])
            st_ss, ssegs = guarded(lambda: [[int(v) for v in s] for s in x.small_segments])
            if st_s == 'ok' and st_ss == 'ok':
                jobs.append(dict(desc=dict(desc, op='segments'), nt=nt, key=(str(f['ids']), str(f['parents']), 'segs'),
                                 exprs=['(long_segments_okb %s %s, partition_okb %s %s, shape_okb %s %s, break_segments %s)'
                                        % (T, term(segs), T, term(ssegs), T, term(ssegs), T)],
                                 cmp=_cmp_segs(segs, ssegs)))
            else:
                ctx.violation('segments raised', dict(desc, op='segments'), (segs, ssegs),
                              key='C05:segments-crash:%s' % be if len(ids) == 1 or all(p < 0 for p in f['parents']) else None)
    flat = [e for j in jobs for e in j['exprs']]
    res = coqio.eval_terms('C05', ['model.Forest', 'model.Dist', 'model.Segments'], flat, shard=120)
    pos = 0
    for j in jobs:
        r = res[pos:pos + len(j['exprs'])]
        pos += len(j['exprs'])
        ctx.case(j['key'], nontrivial=j['nt'], sample=j['desc'] if j['desc']['forest']['n'] < 7 else None)
        ctx.count('op:' + j['desc']['op'])
        ctx.count('backend:' + j['desc']['backend'])
        ctx.count('stream:' + ('lattice' if j['desc']['lattice'] else 'float'))
        j['cmp'](ctx, j['desc'], r)


def _q(v):
    if v is None:
        return None
    v = v.v if isinstance(v, coqio.Some) else v
    return float(Fraction(v[0], v[1])) if isinstance(v, tuple) else float(v)


def _cmp_matrix(st, m, srcs, ids, tol):
    def cmp(ctx, desc, r):
        if st != 'ok':
            ctx.violation('geodesic_matrix raised', desc, m, key='C05:edgeless-igraph' if all(p < 0 for p in desc['forest']['parents']) and desc['backend'] == 'igraph' else None)
            return
        model = {(a, b): _q(v) for a, b, v in r[0]}
        if sorted(int(v) for v in m.index) != srcs or [int(v) for v in m.columns] != [int(v) for v in m.columns] or set(int(v) for v in m.columns) != set(ids):
            ctx.violation('geodesic_matrix rows/columns are not labelled by the requested sources / all node ids', desc,
                          dict(index=[int(v) for v in m.index], columns=[int(v) for v in m.columns]))
            return
        vals = m.values
        bad = []
        for i, a in enumerate(m.index):
            for k, b in enumerate(m.columns):
                got = tofl(vals[i, k])
                if not close(got, model[(int(a), int(b))], tol):
                    bad.append((int(a), int(b), got, model[(int(a), int(b))]))
        if bad:
            ctx.violation('geodesic distance differs from the parent-walk definition', desc, dict(first=bad[:5], n=len(bad)))
    return cmp


def _cmp_misc(db, pairs, dr, dt, A, B, cl, tol, be):
    def cmp(ctx, desc, r):
        mgeo, mroot, mdistal, mcable = r
        for (st, v), (a, b), mv in zip(db, pairs, mgeo):
            want = _q(mv)
            if st != 'ok':
                ctx.violation('dist_between raised', dict(desc, pair=(a, b)), v)
            elif not close(tofl(v), want, max(tol, 0 if desc['lattice'] else 1e-9)):
                ctx.violation('dist_between differs from the parent-walk definition', dict(desc, pair=(a, b)), dict(impl=float(v), model=want))
        st, d = dr
        if st != 'ok':
            ctx.violation('dist_to_root raised', desc, d)
        else:
            for i, mv in mroot:
                if int(i) not in d or not close(float(d[int(i)]), _q(mv), max(tol, 0 if desc['lattice'] else 1e-9)):
                    ctx.violation('dist_to_root differs from the parent-walk definition', dict(desc, node=i), dict(impl=d.get(int(i)), model=_q(mv)))
                    break
        st, t = dt
        if st != 'ok':
            ctx.violation('distal_to raised', desc, t)
        else:
            if isinstance(t, (bool, np.bool_)):
                got = [[bool(t)]]
            else:
                got = [[bool(t.loc[a, b]) for b in B] for a in A]
            if got != [[bool(v) for v in row] for row in mdistal]:
                ctx.violation('distal_to differs from the ancestor relation', desc, dict(impl=got, model=mdistal))
        st, c = cl
        if st != 'ok':
            ctx.violation('cable_length raised', desc, c)
        elif not close(c, _q(mcable), max(tol, 1e-12)):
            ctx.violation('cable_length differs from the sum of edge lengths', desc, dict(impl=c, model=_q(mcable)))
    return cmp


def _cmp_adj(st, adj):
    def cmp(ctx, desc, r):
        if st != 'ok':
            ctx.violation('skeleton_adjacency_matrix raised', desc, adj)
            return
        model = {int(a): sorted(int(b) for b in bs) for a, bs in r[0]}
        got = {}
        idx = [int(v) for v in adj.index]
        cols = [int(v) for v in adj.columns]
        vals = adj.values
        for i, a in enumerate(idx):
            got[a] = sorted(cols[k] for k in np.nonzero(vals[i])[0])
        if got != model:
            ctx.violation('adjacency matrix differs from the parent links (looked up by id)', desc, dict(impl=got, model=model))
    return cmp


def _cmp_segs(segs, ssegs):
    def cmp(ctx, desc, r):
        long_ok, part_ok, shape_ok, mbreak = r[0]
        if not long_ok:
            ctx.violation('`segments` is not a partition of the edges into child->parent paths (+ isolated nodes)', desc, dict(segments=segs))
        lens = [len(s) for s in segs]
        multi = [l for l in lens if l > 1]
        if multi != sorted(multi, reverse=True):
            ctx.violation('`segments` is not ordered longest first', desc, dict(lengths=lens))
        if not part_ok:
            ctx.violation('`small_segments` is not a partition of the edges into child->parent paths', desc, dict(small_segments=ssegs))
        elif not shape_ok:
            ctx.violation('`small_segments` do not start/end exactly at leaf/branch/root nodes with slabs in between', desc, dict(small_segments=ssegs))
        elif sorted(map(tuple, ssegs)) != sorted(tuple(s) for s in mbreak):
            ctx.mismatch('small_segments differ from model break_segments', desc, dict(impl=sorted(ssegs), model=sorted(mbreak)))
    return cmp
