"""C10 — reroot, cut and subset change the tree exactly as specified.

Functional correspondence: canonical node tables, connector tables and tag maps produced by navis are
compared for EQUALITY with model/Forest.v + model/Subgraph.v evaluated in Coq on the same input."""
import numpy as np
import pandas as pd

from vlib import coqio, forest as F
from vlib.coqio import term
from vlib.framework import guarded

RULE = ('random forests (as C01) with connectors (0-12) and tags; reroot targets: every kind (node, current root, sequence, tag); '
        'cuts: random non-root nodes of single-tree neurons, single and multiple; subsets as list/set/mask/array/frame/graph, '
        'with and without prevent_fragments; backend drawn at random per case (fastcore/igraph/networkx). '
        'non-trivial = forest has a branch point or >=2 roots; distinct = distinct (table, op, params).')
ASSUMPTIONS = ['coordinates/radius are compared per node id against the input rows (the model carries them as an opaque payload)']


def canon_conn(x):
    if x.connectors is None or not len(x.connectors):
        return []
    return sorted((int(c), int(n)) for c, n in zip(x.connectors.connector_id.values, x.connectors.node_id.values))


def canon_tags(x):
    if not getattr(x, 'tags', None):
        return {}
    return {k: [int(v) for v in vs] for k, vs in x.tags.items()}


def payload(x):
    nd = x.nodes
    return {int(i): (float(a), float(b), float(c), float(r)) for i, a, b, c, r in zip(nd.node_id.values, nd.x.values, nd.y.values, nd.z.values, nd.radius.values)}


def run(ctx):
    import navis
    navis.set_loggers('ERROR')
    navis.set_pbars(hide=True)
    rng = ctx.rng
    N = ctx.n(260, 2500)
    nmax = ctx.n(40, 90)      # (150-node forests made single Coq shards run for a quarter of an hour in the thorough tier)
    jobs = []   # each: dict(desc, exprs=[...], compare=callable(results)->None)
    for ci in range(N):
        # node id 0 is a valid id (and a falsy one): a quarter of the cases carry it, mostly near the root so that it lies on walks to the root
        f = F.gen_forest(rng, 1, nmax, labelling='sparse0' if rng.random() < 0.25 else None)
        if f['labelling'] == 'sparse0' and rng.random() < 0.7:
            roots_ = [i_ for i_, p_ in zip(f['ids'], f['parents']) if p_ < 0]
            kids_ = [i_ for i_, p_ in zip(f['ids'], f['parents']) if p_ in roots_]
            tgt_ = int((roots_ + kids_)[int(rng.integers(len(roots_ + kids_)))])
            m_ = {0: tgt_, tgt_: 0}
            f['ids'] = [m_.get(i_, i_) for i_ in f['ids']]
            f['parents'] = [m_.get(p_, p_) if p_ >= 0 else -1 for p_ in f['parents']]
        cn = F.gen_connectors(rng, f)
        ids = f['ids']
        tagmap = {}
        for tname in ['a', 'b', 'c'][:int(rng.integers(0, 4))]:
            tagmap[tname] = [int(v) for v in rng.choice(ids, size=int(rng.integers(1, min(4, len(ids)) + 1)), replace=False)]
        radius = rng.integers(0, 5, size=len(ids)).astype(float) * 0.25
        be = str(rng.choice(['fastcore', 'igraph', 'nx']))
        kind = str(rng.choice(['reroot', 'reroot', 'cut', 'prune_method', 'subset', 'subset', 'subset_pf']))
        with F.backend(be):
            x = F.mk_neuron(f, connectors=cn, tags=dict(tagmap) if tagmap else None, radius=radius)
            if rng.random() < 0.5:
                # the neuron has been used before: its graph representations are cached (copies then hold views of them)
                _ = x.graph
                try:
                    _ = x.igraph
                except Exception:
                    pass
            prev = F.table_of(x)
            prev_pay = payload(x)
            prev_conn = canon_conn(x)
            prev_cable = float(x.cable_length)
            T = '(mk %s)' % term([(a, b) for a, b, _ in prev])
            desc = dict(forest=f, connectors=prev_conn, tags=tagmap, backend=be, op=kind)
            nt = F.nontrivial(f)
            if kind == 'reroot':
                mode = str(rng.choice(['node', 'root', 'seq', 'tag']))
                if mode == 'tag':
                    single = [k for k, v in tagmap.items() if len(v) == 1]
                    if not single:
                        mode = 'node'
                if mode == 'node':
                    tgt = [int(ids[int(rng.integers(len(ids)))])]
                    arg = tgt[0]
                elif mode == 'root':
                    tgt = [int(x.root[int(rng.integers(len(x.root)))])]
                    arg = tgt[0]
                elif mode == 'seq':
                    tgt = [int(v) for v in rng.choice(ids, size=min(len(ids), int(rng.integers(2, 5))), replace=False)]
                    par_ = dict(zip(ids, f['parents']))
                    below = [i for i in ids if par_[i] >= 0]
                    if below and rng.random() < 0.5:
                        # a node below a root, THEN that root: when its turn comes it is a root no longer and must be rerooted to again
                        a_ = int(below[int(rng.integers(len(below)))])
                        r_ = a_
                        while par_[r_] >= 0:
                            r_ = par_[r_]
                        tgt = [a_, int(r_)] + [t_ for t_ in tgt[:1] if t_ not in (a_, r_)]
                    arg = list(tgt)
                else:
                    k = single[int(rng.integers(len(single)))]
                    tgt = [tagmap[k][0]]
                    arg = k
                inplace = bool(rng.integers(2))
                desc.update(targets=tgt, mode=mode, inplace=inplace)
                st, res = guarded(navis.reroot_skeleton, x, arg, inplace=inplace)
                if st != 'ok':
                    ctx.violation('reroot raised', desc, res)
                    continue
                got = F.table_of(res)
                jobs.append(dict(desc=desc, nt=nt, key=(prev, 'reroot', tuple(tgt)),
                                 exprs=['out (reroot_seq %s %s)' % (term(tgt), T),
                                        'classify (reroot_seq %s %s)' % (term(tgt), T)],
                                 cmp=_cmp_table(got, payload(res), prev_pay, canon_conn(res), prev_conn,
                                                cable=(float(res.cable_length), prev_cable))))
            elif kind == 'prune_method':
                # TreeNeuron.prune_distal_to([a, b, ...]): several cuts = successive single cuts (nodes on different arms)
                if x.n_trees != 1 or len(ids) < 3:
                    continue
                par_ = {int(i): int(p_) for i, p_, _ in prev}
                def anc_(i):
                    out_ = []
                    while i >= 0:
                        out_.append(i); i = par_[i]
                    return out_
                nr = [int(i) for i, p_, _ in prev if p_ >= 0]
                cs, k_ = [], int(rng.choice([1, 2, 2, 3]))
                for c_ in [int(v) for v in rng.permutation(nr)]:
                    if all(c_ not in anc_(o) and o not in anc_(c_) for o in cs):
                        cs.append(c_)
                    if len(cs) == k_:
                        break
                inplace = bool(rng.integers(2))
                desc.update(cut_nodes=cs, inplace=inplace, method='prune_distal_to')
                st, res = guarded(x.prune_distal_to, cs if len(cs) > 1 else cs[0], inplace=inplace)
                if st != 'ok':
                    ctx.violation('prune_distal_to raised', desc, res)
                    continue
                res = x if inplace else res
                ops_ = '; '.join('OCutProximal %s' % term(c_) for c_ in cs)
                got = F.table_of(res)
                def cmpm(got=got, pay=payload(res), conn=canon_conn(res), prev_pay=prev_pay, prev_conn=prev_conn):
                    def cmp(ctx, desc, r):
                        mt, mtypes = r
                        exp = [tuple(a) for a in mt]
                        if sorted((a, b) for a, b, _ in got) != sorted(exp):
                            ctx.violation('prune_distal_to with several nodes differs from successive single cuts (specification model)', desc, dict(impl=got, model=exp))
                            return
                        if not _pay_ok(pay, prev_pay):
                            ctx.violation('prune_distal_to changed coordinates/radius', desc)
                        want = sorted(c for c in prev_conn if c[1] in pay)
                        if conn != want:
                            ctx.violation('prune_distal_to does not carry exactly the connectors of surviving nodes', desc, dict(impl=conn, expected=want))
                    return cmp
                jobs.append(dict(desc=desc, nt=nt, key=(prev, 'prune_method', tuple(cs)),
                                 exprs=['out (run [%s] %s)' % (ops_, T), 'classify (run [%s] %s)' % (ops_, T)], cmp=cmpm()))
            elif kind == 'cut':
                if x.n_trees != 1 or len(ids) < 2:
                    continue
                nr = [int(i) for i, p, _ in prev if p >= 0]
                k = 1 if rng.random() < 0.6 else int(rng.integers(2, 4))
                cs = [int(v) for v in rng.choice(nr, size=min(k, len(nr)), replace=False)]
                desc.update(cut_nodes=cs)
                st, res = guarded(navis.cut_skeleton, x, cs if len(cs) > 1 else cs[0], ret='both')
                if st != 'ok':
                    ctx.violation('cut raised', desc, res)
                    continue
                pieces = [F.table_of(p) for p in res]
                pays = [payload(p) for p in res]
                conns = [canon_conn(p) for p in res]
                jobs.append(dict(desc=desc, nt=nt, key=(prev, 'cut', tuple(cs)),
                                 exprs=['map out (cut_many %s %s)' % (term(cs), T), 'map classify (cut_many %s %s)' % (term(cs), T)],
                                 cmp=_cmp_pieces(pieces, pays, prev_pay, conns, prev_conn)))
            else:
                pf = kind == 'subset_pf'
                ksz = int(rng.integers(0, len(ids) + 1))
                S = [int(v) for v in rng.choice(ids, size=ksz, replace=False)] if ksz else []
                how = str(rng.choice(['list', 'set', 'mask', 'array', 'frame', 'graph']))
                if how == 'set':
                    arg = set(S)
                elif how == 'mask':
                    arg = np.isin(x.nodes.node_id.values, S)
                elif how == 'array':
                    arg = np.array(S, dtype=np.int64)
                elif how == 'frame':
                    arg = x.nodes[x.nodes.node_id.isin(S)]
                elif how == 'graph':
                    arg = x.graph.subgraph(S)
                else:
                    arg = list(S)
                inplace = bool(rng.integers(2))
                desc.update(subset=S, given_as=how, prevent_fragments=pf, inplace=inplace)
                if pf and (how == 'mask' or not S):
                    continue
                st, res = guarded(navis.subset_neuron, x, arg, prevent_fragments=pf, inplace=inplace)
                if st != 'ok':
                    ctx.violation('subset_neuron raised', desc, res)
                    continue
                got = F.table_of(res)
                SS = ('(steiner %s %s)' % (T, term(S))) if pf else term(S)
                cn_term = term(prev_conn)
                tg_codes = sorted(tagmap)
                tg_term = term([(i, tagmap[k]) for i, k in enumerate(tg_codes)])
                itags = canon_tags(res)
                jobs.append(dict(desc=desc, nt=nt, key=(prev, kind, tuple(S)),
                                 exprs=['out (subset %s %s)' % (SS, T), 'classify (subset %s %s)' % (SS, T),
                                        'subset_connectors %s %s %s' % (SS, T, cn_term),
                                        'subset_tags %s %s %s' % (SS, T, tg_term)],
                                 cmp=_cmp_subset(got, payload(res), prev_pay, canon_conn(res), itags, tg_codes,
                                                 soma=None)))
    flat = [e for j in jobs for e in j['exprs']]
    res = coqio.eval_terms('C10', ['model.Forest', 'model.Ops', 'model.Subgraph'], flat, shard=240)
    pos = 0
    for j in jobs:
        r = res[pos:pos + len(j['exprs'])]
        pos += len(j['exprs'])
        ctx.case(j['key'], nontrivial=j['nt'], sample=j['desc'] if len(j['desc']['forest']['ids']) < 10 else None)
        ctx.count('op:' + j['desc']['op'])
        ctx.count('backend:' + j['desc']['backend'])
        ctx.count('labelling:' + j['desc']['forest']['labelling'])
        j['cmp'](ctx, j['desc'], r)


def _pay_ok(pay, prev_pay):
    return all(prev_pay.get(i) == v for i, v in pay.items())


def _cmp_table(got, pay, prev_pay, conn, prev_conn, cable=None):
    def cmp(ctx, desc, r):
        mt, mtypes = r
        exp = [tuple(a) for a in mt]
        if [(a, b) for a, b, _ in got] != exp:
            ctx.violation('rerooted table differs from the specification model', desc, dict(impl=got, model=exp))
        elif [c for _, _, c in got] != mtypes:
            ctx.violation('node types after reroot do not match children counts', desc, dict(impl=got, model_types=mtypes))
        if not _pay_ok(pay, prev_pay) or set(pay) != set(prev_pay):
            ctx.violation('reroot changed coordinates/radius or the node set', desc)
        if conn != prev_conn:
            ctx.violation('reroot changed the connector table', desc)
        if cable and abs(cable[0] - cable[1]) > 1e-9 * max(1, abs(cable[1])):
            ctx.violation('reroot changed cable length', desc, dict(before=cable[1], after=cable[0]))
    return cmp


def _cmp_pieces(pieces, pays, prev_pay, conns, prev_conn):
    def cmp(ctx, desc, r):
        mts, mtypes = r
        exp = [[tuple(a) for a in t] for t in mts]
        got = [[(a, b) for a, b, _ in p] for p in pieces]
        if got != exp:
            if sorted(map(sorted, got)) == sorted(map(sorted, exp)):
                ctx.violation('cut pieces are right but not in the specified order (distal first)', desc, dict(impl=got, model=exp))
            else:
                ctx.violation('cut pieces differ from the specification model', desc, dict(impl=got, model=exp))
            return
        if [[c for _, _, c in p] for p in pieces] != mtypes:
            ctx.violation('node types after cut do not match children counts', desc, dict(impl=pieces, model_types=mtypes))
        for p, pay, cn in zip(pieces, pays, conns):
            if not _pay_ok(pay, prev_pay):
                ctx.violation('cut changed coordinates/radius', desc)
            want = sorted(c for c in prev_conn if c[1] in pay)
            if cn != want:
                ctx.violation('cut piece does not carry exactly its own connectors', desc, dict(impl=cn, expected=want))
    return cmp


def _cmp_subset(got, pay, prev_pay, conn, itags, tg_codes, soma):
    def cmp(ctx, desc, r):
        mt, mtypes, mconn, mtags = r
        exp = [tuple(a) for a in mt]
        if [(a, b) for a, b, _ in got] != exp:
            if desc['prevent_fragments'] and sorted(a for a, _, _ in got) == sorted(a for a, _ in exp):
                # same node set; parents may differ only through the final reroot to the top node(s)
                ctx.violation('prevent_fragments: node set right but parent links differ from the model', desc, dict(impl=got, model=exp))
            else:
                ctx.violation('subset table differs from the specification model', desc, dict(impl=got, model=exp))
            return
        if [c for _, _, c in got] != mtypes:
            ctx.violation('node types after subset do not match children counts', desc, dict(impl=got, model_types=mtypes))
        if not _pay_ok(pay, prev_pay):
            ctx.violation('subset changed coordinates/radius of kept nodes', desc)
        if conn != sorted(tuple(c) for c in mconn):
            ctx.violation('subset does not keep exactly the connectors of surviving nodes', desc, dict(impl=conn, model=mconn))
        mt_ = {tg_codes[k]: list(v) for k, v in mtags}
        if itags != mt_:
            ctx.violation('subset does not keep exactly the tags of surviving nodes', desc, dict(impl=itags, model=mt_))
    return cmp
