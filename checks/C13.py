"""C13 — down- and resampling preserve branching structure and geometry.

Downsampling: navis' node table == model/Sampling.v `downsample` evaluated in Coq (exact).
Resampling: geometric relational check of navis' output against the specification (fix points in place, one
chain per original small segment with n_samples nodes at equal arc spacing ON the original polyline, radius
interpolated, cable never longer, soma/connectors/tags on the nearest new node); the sample counts come from
the Coq model (n_samples), the geometry is evaluated in float64 with tolerance."""
from fractions import Fraction

import numpy as np

from vlib import coqio, forest as F
from vlib.coqio import term
from vlib.framework import guarded

RULE = ('random forests (incl. several roots, zero-length edges, big ids) x downsample_neuron(factor in 2,3,5,7,inf; preserve_nodes list / '
        '"connectors"; soma fixed or None) and resample_skeleton(resolution from below the shortest to above the longest segment, also as '
        'unit string; with soma/connectors/tags). non-trivial = forest has a branch point or >= 2 roots; '
        'distinct = distinct (table, coordinates, op, params).')
ASSUMPTIONS = ['resampled geometry is checked in float64 with relative tolerance 1e-6 (square roots are not computed in Coq)',
               'fresh node ids given to interior resampled nodes are not prescribed by the property; chains are matched by their end points',
               'cable length never increasing (chord <= arc) is checked numerically; no theorem over R is claimed (partial)']


def run(ctx):
    import navis
    navis.set_loggers('ERROR')
    navis.set_pbars(hide=True)
    rng = ctx.rng
    N = ctx.n(220, 3000)
    jobs = []
    for ci in range(N):
        kind = 'down' if rng.random() < 0.5 else 'res'
        f = F.gen_forest(rng, 2, ctx.n(40, 120), lattice=bool(rng.random() < 0.3), zero_edges=(kind == 'down' or rng.random() < 0.3))
        ids = f['ids']
        nt = F.nontrivial(f)
        cn = F.gen_connectors(rng, f) if rng.random() < 0.6 else None
        tagmap = {'t': [int(v) for v in rng.choice(ids, size=min(len(ids), 3), replace=False)]} if rng.random() < 0.4 else None
        radius = rng.integers(1, 9, size=len(ids)).astype(float) * 0.125
        soma = int(ids[int(rng.integers(len(ids)))]) if rng.random() < 0.4 else None
        if rng.random() < 0.2:
            # a soma with the (valid) node id 0 sitting on a slab node: relabel a slab node to 0 (swapping with an existing 0)
            nch = {}
            for p_ in f['parents']:
                nch[p_] = nch.get(p_, 0) + 1
            slabs = [i for i, p_ in zip(f['ids'], f['parents']) if p_ >= 0 and nch.get(i, 0) == 1]
            if slabs:
                a_ = int(slabs[int(rng.integers(len(slabs)))])
                m_ = {a_: 0, 0: a_}
                f['ids'] = [m_.get(i, i) for i in f['ids']]
                f['parents'] = [m_.get(p_, p_) if p_ >= 0 else -1 for p_ in f['parents']]
                ids = f['ids']
                if cn is not None:
                    cn = cn.copy(); cn['node_id'] = [m_.get(int(v), int(v)) for v in cn.node_id.values]
                if tagmap:
                    tagmap = {k_: [m_.get(v, v) for v in vs] for k_, vs in tagmap.items()}
                soma = 0
        x = F.mk_neuron(f, connectors=cn, tags=tagmap, radius=radius)
        x.soma = soma
        desc = dict(forest=f, op=kind, soma=soma)
        T = '(mk %s)' % term(list(zip(f['ids'], f['parents'])))
        if kind == 'down':
            factor = [2, 3, 5, 7, float('inf')][int(rng.integers(5))]
            pmode = str(rng.choice(['none', 'list', 'connectors']))
            if pmode == 'connectors' and cn is None:
                pmode = 'none'
            pres = [int(v) for v in rng.choice(ids, size=int(rng.integers(0, min(5, len(ids)) + 1)), replace=False)] if pmode == 'list' else \
                ([int(v) for v in cn.node_id.values] if pmode == 'connectors' else [])
            spelling = str(rng.choice(['list', 'ndarray', 'set'])) if pmode == 'list' else pmode
            arg = None if pmode == 'none' else ({'list': list, 'ndarray': np.array, 'set': set}[spelling](pres) if pmode == 'list' else 'connectors')
            route = 'method' if rng.random() < 0.3 else 'function'
            p = dict(factor=str(factor), preserve=pmode, preserve_nodes=pres, spelling=spelling, route=route)
            desc.update(params=p)
            inplace = bool(rng.integers(2))
            if route == 'method':
                st, res = guarded(x.downsample, factor, preserve_nodes=arg, inplace=inplace)
            else:
                st, res = guarded(navis.downsample_neuron, x, factor, preserve_nodes=arg, inplace=inplace)
            if st == 'ok' and inplace:
                res = x
            pres_m = sorted(set(pres + ([soma] if soma is not None else [])))
            fac_t = 'None' if factor == float('inf') else '(Some %d%%nat)' % factor
            jobs.append(dict(desc=desc, nt=nt, key=(str(ids), str(f['parents']), kind, str(p), soma),
                             exprs=['out (downsample %s %s %s)' % (T, fac_t, term(pres_m))],
                             cmp=_cmp_down(st, res, f, radius)))
        else:
            # lengths of small segments decide the interesting resolutions
            segs = [[int(v) for v in s] for s in x.small_segments]
            pos = {int(i): np.array(c, dtype=float) for i, c in zip(ids, f['xyz'])}
            seglen = [float(sum(np.linalg.norm(pos[a] - pos[b]) for a, b in zip(s[:-1], s[1:]))) for s in segs]
            if not segs:
                continue
            base = float(rng.choice(seglen)) if rng.random() < 0.7 else float(np.mean(seglen))
            res_val = max(1e-3, base * float(rng.choice([0.13, 0.31, 0.77, 1.3, 2.9])))
            use_units = rng.random() < 0.25
            if use_units:
                x.units = '1 nm'
            arg = ('%.6f nm' % res_val) if use_units else res_val
            if use_units:
                res_val = float('%.6f' % res_val)
            p = dict(resample_to=arg)
            # table dtypes users really have: integer voxel coordinates (neuPrint), int32 ids close to the top of their range
            dvar = str(rng.choice(['float', 'float', 'float', 'intxyz', 'int32ids']))
            if dvar == 'intxyz' and all(float(v) == int(v) for row in f['xyz'] for v in row):
                for c_ in 'xyz':
                    x.nodes[c_] = x.nodes[c_].astype(np.int64)
            elif dvar == 'int32ids' and max(ids) < 2 ** 31 - 1 and cn is None and not tagmap and soma is None:
                top = 2 ** 31 - 1 - max(ids)
                x.nodes['node_id'] = (x.nodes['node_id'].values + top).astype(np.int32)
                x.nodes['parent_id'] = np.where(x.nodes['parent_id'].values >= 0, x.nodes['parent_id'].values + top, -1).astype(np.int32)
                x._clear_temp_attr()
                f = dict(f, ids=[i + top for i in ids], parents=[q + top if q >= 0 else -1 for q in f['parents']])
                ids = f['ids']
                desc['forest'] = f
                segs = [[int(v) for v in s_] for s_ in x.small_segments]
                pos = {int(i): np.array(c, dtype=float) for i, c in zip(ids, f['xyz'])}
                seglen = [float(sum(np.linalg.norm(pos[a] - pos[b]) for a, b in zip(s_[:-1], s_[1:]))) for s_ in segs]
            else:
                dvar = 'float'
            p['dtypes'] = dvar
            # mapped columns: a numerical one (interpolated like the radius) and a label (nearest original node along the cable)
            mapped = rng.random() < 0.4
            if mapped:
                x.nodes['val'] = rng.integers(0, 20, size=len(x.nodes)).astype(float)
                x.nodes['label'] = rng.choice(['axon', 'dendrite', 'bouton', 'soma'], size=len(x.nodes)).astype(object)
                p['map_columns'] = ['val', 'label']
            desc.update(params=p)
            inplace = bool(rng.integers(2))
            extra = dict(val={int(i): float(v) for i, v in zip(x.nodes.node_id.values, x.nodes.val.values)},
                         label={int(i): str(v) for i, v in zip(x.nodes.node_id.values, x.nodes.label.values)}) if mapped else None
            snap = dict(conn=None if cn is None else [(int(c), int(n)) for c, n in zip(cn.connector_id.values, cn.node_id.values)],
                        tags=tagmap, soma=soma, radius={int(i): float(r) for i, r in zip(ids, radius)}, extra=extra)
            st, res = guarded(navis.resample_skeleton, x, arg, inplace=inplace, **(dict(map_columns=['val', 'label']) if mapped else {}))
            if st == 'ok' and inplace:
                res = x
            jobs.append(dict(desc=desc, nt=nt, key=(str(ids), str(f['xyz']), kind, str(p)),
                             exprs=['map (fun L => n_samples L %s) %s' % (term(Fraction(res_val)), term([Fraction(v) for v in seglen]))],
                             cmp=_cmp_res(st, res, f, segs, seglen, res_val, pos, snap)))
    flat = [e for j in jobs for e in j['exprs']]
    out = coqio.eval_terms('C13', ['model.Forest', 'model.Ops', 'model.Sampling'], flat, shard=100)
    k = 0
    for j in jobs:
        r = out[k:k + len(j['exprs'])]
        k += len(j['exprs'])
        ctx.case(j['key'], nontrivial=j['nt'], sample=j['desc'] if j['desc']['forest']['n'] < 8 else None)
        ctx.count('op:' + j['desc']['op'])
        j['cmp'](ctx, j['desc'], r)


def _cmp_down(st, res, f, radius):
    def cmp(ctx, desc, r):
        if st != 'ok':
            ctx.violation('downsample_neuron raised', desc, res)
            return
        got = [(int(a), int(b)) for a, b in zip(res.nodes.node_id.values, res.nodes.parent_id.values)]
        exp = [tuple(a) for a in r[0]]
        if len(f['ids']) <= 1:
            return
        if sorted(a for a, _ in got) != sorted(a for a, _ in exp):
            ctx.violation('downsampling does not keep exactly the nodes the walk defines (fix points + every (factor+1)-th node)', desc,
                          dict(impl_only=sorted(set(a for a, _ in got) - set(a for a, _ in exp)), model_only=sorted(set(a for a, _ in exp) - set(a for a, _ in got))))
            return
        if got != exp:
            ctx.violation('downsampled node is not linked to its nearest kept ancestor', desc, dict(impl=got, model=exp))
            return
        pos = dict(zip(f['ids'], f['xyz']))
        rad = dict(zip(f['ids'], radius))
        for i, a, b, c, rr in zip(res.nodes.node_id.values, res.nodes.x.values, res.nodes.y.values, res.nodes.z.values, res.nodes.radius.values):
            if tuple(float(v) for v in pos[int(i)]) != (float(a), float(b), float(c)) or float(rad[int(i)]) != float(rr):
                ctx.violation('downsampling changed coordinates/radius of a kept node', desc, dict(node=int(i)))
                return
    return cmp


def _cmp_res(st, res, f, segs, seglen, res_val, pos, snap):
    def cmp(ctx, desc, r):
        if st != 'ok':
            ctx.violation('resample_skeleton raised', desc, res)
            return
        nsamp = [int(v) for v in r[0]]
        ids = set(f['ids'])
        nd = res.nodes
        if (nd.node_id.values < 0).any() or nd.node_id.duplicated().any() or (nd.parent_id.values < -1).any():
            ctx.violation('resampled skeleton has negative or duplicate node ids', desc,
                          dict(ids=[int(v) for v in nd.node_id.values[:12]], parents=[int(v) for v in nd.parent_id.values[:12]], dtype=str(nd.node_id.dtype)))
            return
        if snap.get('extra') is not None and not {'val', 'label'} <= set(nd.columns):
            ctx.violation('mapped columns are missing from the resampled node table', desc, dict(columns=list(nd.columns)))
            return
        nval = {int(i): float(v) for i, v in zip(nd.node_id.values, nd.val.values)} if snap.get('extra') is not None else {}
        nlab = {int(i): str(v) for i, v in zip(nd.node_id.values, nd.label.values)} if snap.get('extra') is not None else {}
        npos = {int(i): np.array([a, b, c], dtype=float) for i, a, b, c in zip(nd.node_id.values, nd.x.values, nd.y.values, nd.z.values)}
        npar = {int(i): int(p) for i, p in zip(nd.node_id.values, nd.parent_id.values)}
        nrad = {int(i): float(v) for i, v in zip(nd.node_id.values, nd.radius.values)} if 'radius' in nd.columns else {}
        scale = max(1.0, max(np.abs(np.array(f['xyz'], dtype=float)).max(), 1.0))
        tol = 1e-6 * scale
        # (1) fix points (ends of small segments + roots) keep id and position
        fixed = set(s[0] for s in segs) | set(s[-1] for s in segs) | set(i for i, p in zip(f['ids'], f['parents']) if p < 0)
        for i in fixed:
            if i not in npos or np.abs(npos[i] - pos[i]).max() > tol:
                ctx.violation('resampling moved or lost a root/leaf/branch point', desc, dict(node=i))
                return
        # (2) one chain per original small segment, right number of nodes, nodes on the original polyline at equal spacing
        used = set(fixed)
        for s, L, n in zip(segs, seglen, nsamp):
            ambiguous = abs(L - res_val) < 1e-9 * max(1, L) or abs((L / res_val) % 1 - 0.5) < 1e-9
            chain = [s[0]]
            while chain[-1] != s[-1] and len(chain) <= len(npar) + 1 and npar.get(chain[-1], -1) >= 0:
                chain.append(npar[chain[-1]])
                if chain[-1] in fixed:
                    break
            if chain[-1] != s[-1]:
                ctx.violation('resampling changed the branching structure (segment end points no longer connected)', desc, dict(segment=s, chain=chain))
                return
            if ambiguous:
                used.update(chain)
                continue
            if len(chain) != n:
                ctx.violation('wrong number of nodes on a resampled segment', desc, dict(segment=s, length=L, resample_to=res_val, expected=n, got=len(chain)))
                return
            pts = np.array([pos[i] for i in s])
            cum = np.concatenate([[0], np.cumsum(np.linalg.norm(np.diff(pts, axis=0), axis=1))])
            rads = np.array([snap['radius'][i] for i in s])
            for j, i in enumerate(chain):
                d = j * cum[-1] / (n - 1)
                want = np.array([np.interp(d, cum, pts[:, k]) for k in range(3)]) if cum[-1] > 0 else pts[0]
                if np.abs(npos[i] - want).max() > 1e-6 * scale:
                    ctx.violation('resampled node does not lie on the original cable at its arc position', desc,
                                  dict(segment=s, index=j, got=npos[i].tolist(), expected=want.tolist()))
                    return
                dup = np.any(np.abs(cum - d) < 1e-12) and len(set(np.round(cum, 12))) < len(cum)   # zero-length edge at this arc position
                if nrad and j < len(chain) - 1 and cum[-1] > 0 and not dup:   # at a zero-length edge the interpolant is two-valued
                    wr = float(rads[0]) if j == 0 else float(np.interp(d, cum, rads))
                    if abs(nrad[i] - wr) > 1e-6 * max(1, abs(wr)):
                        ctx.violation('radius is not interpolated along the cable', desc, dict(segment=s, index=j, got=nrad[i], expected=wr))
                        return
                    if nval:
                        vals = np.array([snap['extra']['val'][i_] for i_ in s])
                        wv = float(vals[0]) if j == 0 else float(np.interp(d, cum, vals))
                        if abs(nval[i] - wv) > 1e-6 * max(1, abs(wv)):
                            ctx.violation('mapped numerical column is not interpolated along the cable', desc, dict(segment=s, index=j, got=nval[i], expected=wv))
                            return
                        # label of the nearest original node along the cable (either neighbour on an exact tie)
                        gap = np.abs(cum - d)
                        near = set(snap['extra']['label'][s[q]] for q in range(len(s)) if gap[q] <= gap.min() + 1e-9 * max(1.0, cum[-1]))
                        if nlab[i] not in near:
                            ctx.violation('mapped label column does not carry the label of the nearest original node', desc,
                                          dict(segment=s, index=j, got=nlab[i], expected=sorted(near)))
                            return
            used.update(chain)
        if set(npos) - used:
            ctx.violation('resampled skeleton has nodes that belong to no original segment', desc, dict(extra=sorted(set(npos) - used)[:10]))
            return
        # (3) cable length never increases
        old = sum(seglen)
        new = float(sum(np.linalg.norm(npos[i] - npos[p]) for i, p in npar.items() if p >= 0))
        if new > old * (1 + 1e-9) + 1e-9:
            ctx.violation('resampling increased cable length', desc, dict(before=old, after=new))
        # (4) soma / connectors / tags on the nearest new node
        allp = np.array(list(npos.values()))
        def nearest_ok(old_node, new_node):
            d = np.linalg.norm(allp - pos[old_node], axis=1).min()
            return new_node in npos and np.linalg.norm(npos[new_node] - pos[old_node]) <= d + tol
        if snap['soma'] is not None:
            s_new = res.soma
            if s_new is None or not nearest_ok(snap['soma'], int(np.atleast_1d(s_new)[0])):
                ctx.violation('soma is not re-attached to the nearest new node', desc, dict(old=snap['soma'], new=str(s_new)))
        if snap['conn']:
            newc = {int(c): int(n) for c, n in zip(res.connectors.connector_id.values, res.connectors.node_id.values)}
            for c, n in snap['conn']:
                if not nearest_ok(n, newc.get(c, -1)):
                    ctx.violation('connector is not re-attached to the nearest new node', desc, dict(connector=c, old=n, new=newc.get(c)))
                    break
        if snap['tags']:
            for k_, vs in snap['tags'].items():
                nv = list(res.tags.get(k_, [])) if res.tags else []
                if len(nv) != len(vs) or not all(nearest_ok(o, int(n_)) for o, n_ in zip(vs, nv)):
                    ctx.violation('tag is not re-attached to the nearest new node', desc, dict(tag=k_, old=vs, new=[int(v) for v in nv]))
                    break
    return cmp
