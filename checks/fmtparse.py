"""Correspondence between navis' BaseReader.parse_filename and the Coq model model/Fmt.v (shared by C14 and C07).

Random `fmt` patterns (literal runs with regex-special characters, named / typed / multi-name / ignored fields, malformed type
annotations) and file names (rendered from values, with separators inside the values, with garbage around, unrelated names,
directory prefixes, values that do not convert) are parsed by both; the resulting dictionaries (keys in insertion order, value
types and values) or the fact that a ValueError is raised must agree."""
from fractions import Fraction

from vlib import coqio
from vlib.coqio import term
from vlib.framework import guarded

LITS = ['_', '-', '.', '__', '_-_', '.swc', '.nrrd', ' ', '(', ')', '+', '[x]', 'n', '1', '$', '^', '|', '?*']
BODIES = ['', 'name', 'id', 'name,id', 'id:int', 'w:float', 'flag:bool', 't:str', 'name,id:int', ',name', 'a,,b', 'id:int,name',
          'file', 'name', 'id', '', 'name', 'id:int', 'tag', 'name,id', 'w:float', 'id', 'name', '', 'a:int:int', 'q:foo', 'x:']
VALS = ['.', '.5', '-', 'DA1', 'lPN', '4711', '12', '-7', '+3', '0012', '1.5', '-0.25', 'a_b', 'x.y', 'v-1', '', 'n1', '7x', 'abc', 'A B', 'q__r', '3.', 'z']


def gen_pattern(rng):
    toks = []
    n = int(rng.integers(1, 6))
    for i in range(n):
        if rng.random() < 0.55:
            toks.append(('g', str(rng.choice(BODIES))))
        else:
            toks.append(('l', str(rng.choice(LITS))))
    if not any(k == 'g' for k, _ in toks):
        toks.insert(int(rng.integers(0, len(toks) + 1)), ('g', 'name'))
    # mostly: groups separated by literals (the documented use); sometimes adjacent groups
    if rng.random() < 0.8:
        out = []
        for t in toks:
            if out and out[-1][0] == 'g' and t[0] == 'g':
                out.append(('l', str(rng.choice(LITS[:6]))))
            out.append(t)
        toks = out
    return toks


def show(toks):
    return ''.join('{%s}' % b if k == 'g' else b for k, b in toks)


def gen_name(rng, toks):
    mode = rng.random()
    vals = []
    for k, b in toks:
        if k != 'g':
            continue
        if ':int' in b and rng.random() < 0.85:
            vals.append(str(rng.choice(['4711', '12', '-7', '+3', '0012', '0'])))
        elif ':float' in b and rng.random() < 0.85:
            vals.append(str(rng.choice(['1.5', '-0.25', '3.', '.5', '12', '+2.50', '-.125'])))
        else:
            vals.append(str(rng.choice(VALS)))
    it = iter(vals)
    fn = ''.join(next(it) if k == 'g' else b for k, b in toks)
    if mode < 0.55:
        pass
    elif mode < 0.7:
        fn = str(rng.choice(['pre', 'x_', ''])) + fn + str(rng.choice(['.bak', '_2', '']))
    elif mode < 0.8:
        chars = list(fn)
        if chars:
            chars[int(rng.integers(len(chars)))] = str(rng.choice(list('_-.x1')))
        fn = ''.join(chars)
    elif mode < 0.9:
        fn = ''.join(str(rng.choice(list('ab_-.1 ()'))) for _ in range(int(rng.integers(0, 9))))
    else:
        fn = str(rng.choice(['dir/', 'a/b/', '/tmp/x.y/'])) + fn
    if rng.random() < 0.03:
        fn = fn + '\n' + 'tail'
    if fn.endswith('/') or fn.split('/')[-1] in ('.', '..', ''):
        fn = fn + 'f'
    return fn


def codes(s):
    return [ord(c) for c in s]


def py_view(d):
    """the dictionary navis returned, in the shape the model prints"""
    out = []
    for k, v in d.items():
        if isinstance(v, bool):
            out.append((k, ('bool', v)))
        elif isinstance(v, int):
            out.append((k, ('int', v)))
        elif isinstance(v, float):
            out.append((k, ('float', v)))
        else:
            out.append((k, ('str', v)))
    return out


def coq_view(r):
    if r is None:
        return None
    out = []
    for k, (tag, s, num, den) in r.v:
        k = ''.join(chr(c) for c in k)
        if tag == 0:
            out.append((k, ('str', ''.join(chr(c) for c in s))))
        elif tag == 1:
            out.append((k, ('int', num)))
        elif tag == 2:
            out.append((k, ('float', float(Fraction(num, den)))))
        else:
            out.append((k, ('bool', bool(num))))
    return out


def run(ctx, n, tag):
    import numpy as np
    from navis.io import base
    rng = np.random.default_rng([int(ctx.seed), 7707])     # own stream: the case streams of the calling check stay as they were
    cases, exprs = [], []
    seen = set()
    for ci in range(n):
        toks = gen_pattern(rng)
        fmt = show(toks)
        fn = gen_name(rng, toks)
        if (fmt, fn) in seen:
            continue
        seen.add((fmt, fn))
        reader = base.BaseReader(fmt=fmt, file_ext='.swc')
        st, res = guarded(reader.parse_filename, fn)
        if st == 'ok':
            got = py_view(res)
        elif st == 'rejected' and str(res).startswith('ValueError'):
            got = None
        else:
            ctx.violation('parse_filename failed with something other than ValueError', dict(fmt=fmt, filename=fn), res)
            continue
        ctx.case(('fmt', fmt, fn), nontrivial=got is not None and len(got) > 1, sample=dict(fmt=fmt, filename=fn) if ci < 2 else None)
        ctx.count('fmtparse:' + ('parsed' if got is not None else 'ValueError'))
        cases.append((fmt, fn, got))
        exprs.append('out_dict (parse_filename %s %s)' % (term(codes(fmt)), term(codes(fn))))
    out = coqio.eval_terms(tag, ['model.Fmt'], exprs, shard=250)
    for (fmt, fn, got), r in zip(cases, out):
        want = coq_view(r)
        if want != got:
            ctx.violation('attributes parsed from the file name differ from what the fmt pattern prescribes (model/Fmt.v)',
                          dict(fmt=fmt, filename=fn), dict(navis=got, model=want))
