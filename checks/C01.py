"""C01 — every operation that yields a skeleton yields a well-formed skeleton.

Random operation histories on the real navis; after EVERY step the node table the implementation
left behind is (i) decided by the verified checker wf_typed_b (wfb_iff: wfb t = true <-> WF t, plus
type labels = classify) evaluated in Coq, (ii) checked for missing values / soma membership, and
(iii) for the operations modelled in model/Ops.v compared with the model's table for the same step."""
import numpy as np

from vlib import coqio, forest as F, skelops
from vlib.framework import guarded

RULE = ('random forests (1-40 nodes quick / 1-120 thorough; shapes rrt/chain/star/caterpillar/binary/isolated+tree; 1-4 roots; '
        'labellings seq/sparse/sparse-with-0/>2^31/>2^32/>2^40; shuffled rows; lattice coordinates with zero-length edges) '
        'x random histories of 1-8 (quick) / 1-25 (thorough) operations from the catalogue in vlib/skelops.py, inplace chosen at random; '
        'one evaluation = one step of one history; non-trivial = start forest has a branch point or >= 2 roots; '
        'distinct = distinct (input table, op, params).')
ASSUMPTIONS = ['operations not modelled structurally (heal, resample, stitch, combine, rewire, merge_duplicate_nodes, break_fragments) '
               'are checked for well-formedness of their output only; their exact structure is C11/C13']


def soma_ok(x):
    s = x.soma
    if s is None:
        return True
    ids = set(int(v) for v in x.nodes.node_id.values)
    return all(int(v) in ids for v in np.atleast_1d(s))


def run(ctx):
    import navis
    navis.set_loggers('ERROR')
    navis.set_pbars(hide=True)
    rng = ctx.rng
    nhist = ctx.n(120, 1500)
    maxops = ctx.n(8, 25)
    nmax = ctx.n(40, 120)
    steps = []   # dict(desc, rows(impl output), model_expr)
    for h in range(nhist):
        # one history in six starts from a deep binary tree (Strahler orders up to 4-5: selections by order can orphan kept nodes)
        f = F.gen_forest(rng, 15, max(16, nmax), shape='binary') if rng.random() < 0.17 else F.gen_forest(rng, 1, nmax)
        be = str(rng.choice(['fastcore', 'fastcore', 'igraph', 'nx']))
        ctx.count('backend:' + be)
        with F.backend(be):
            soma_mode = str(rng.choice(['none', 'fixed', 'list']))
            x = F.mk_neuron(f, soma=None)
            if soma_mode == 'fixed':
                x.soma = int(f['ids'][int(rng.integers(len(f['ids'])))])
            elif soma_mode == 'list' and len(f['ids']) >= 2:      # several somata: a fixed list of node ids
                # (the public setter only takes one id; lists of ids are what resample_skeleton pins when several somata are detected by radius)
                x._soma = [int(v) for v in rng.choice(f['ids'], size=min(len(f['ids']), int(rng.integers(2, 4))), replace=False)]
            hist = []
            steps.append(dict(desc=dict(start=f, backend=be, history=[]), neuron_rows=F.table_of(x), model=None, op='construct',
                              nontrivial=F.nontrivial(f), missing=F.has_missing(x), soma_ok=soma_ok(x)))
            for k in range(int(rng.integers(1, maxops + 1))):
                if len(x.nodes) == 0:
                    break
                # operations that rebuild parent links from scratch get extra weight
                pool = skelops.STRUCTURAL + ['rewire', 'rewire', 'rewire', 'remove_nodes', 'reroot_seq', 'insert_nodes', 'stitch', 'via_edges2neuron']
                name = pool[int(rng.integers(len(pool)))]
                if f['shape'] == 'binary' and k == 0 and rng.random() < 0.6:
                    name = str(rng.choice(['prune_by_strahler', 'm_prune_by_strahler']))
                op = skelops.OPS[name]
                st, p = guarded(op.gen, rng, x)
                if st != 'ok' or p is None:
                    continue
                inplace = bool(rng.integers(2)) if op.inplace_kw else False
                prev = F.table_of(x)
                hist = hist + [dict(op=name, params=p, inplace=inplace)]
                desc = dict(start=f, backend=be, soma=soma_mode, history=hist)
                target = x if inplace else x
                st, res = guarded(op.apply, x, p, inplace)
                ctx.count('op:' + name)
                if st != 'ok':
                    ctx.count('rejected_or_crashed:' + name)
                    steps.append(dict(desc=desc, error=(st, res), op=name, params=p, nontrivial=F.nontrivial(f)))
                    # a failed operation must leave a well-formed neuron behind, too
                    steps.append(dict(desc=dict(desc, note='input after failed op'), neuron_rows=F.table_of(x), model=None, op=name + ':after-failure',
                                      nontrivial=F.nontrivial(f), missing=F.has_missing(x), soma_ok=soma_ok(x)))
                    continue
                outs = res if isinstance(res, list) else ([res] if not hasattr(res, 'neurons') else list(res))
                if inplace:
                    outs = [x]
                for o in outs:
                    model = None
                    if getattr(op, 'model', None) and len(outs) == 1:
                        model = op.model(prev, p, o)
                    steps.append(dict(desc=desc, neuron_rows=F.table_of(o), model=model, op=name, params=p,
                                      nontrivial=F.nontrivial(f), missing=F.has_missing(o), soma_ok=soma_ok(o)))
                if not inplace:
                    # the input left behind must still be well formed
                    steps.append(dict(desc=dict(desc, note='input left behind'), neuron_rows=F.table_of(x), model=None, op=name + ':input',
                                      nontrivial=F.nontrivial(f), missing=F.has_missing(x), soma_ok=soma_ok(x)))
                x = outs[int(rng.integers(len(outs)))] if outs else x
    # evaluate the verified checker (and the model where available) in Coq
    exprs = []
    for s in steps:
        if 'neuron_rows' not in s:
            continue
        rows = s['neuron_rows']
        t = '(mk %s)' % coqio.term([(a, b) for a, b, _ in rows])
        types = coqio.term([c for _, _, c in rows])
        if s['model']:
            exprs.append('(wfb %s, list_eqb %s (classify %s), out %s)' % (t, types, t, s['model']))
        else:
            exprs.append('(wfb %s, list_eqb %s (classify %s), @nil (Z*Z))' % (t, types, t))
    res = coqio.eval_terms('C01', ['model.Forest', 'model.Ops'], exprs, shard=150)
    it = iter(res)
    for s in steps:
        if 'neuron_rows' not in s:
            st, msg = s['error']
            # rejections are fine; crashes with unexpected exception types are reported
            if st == 'crashed':
                ctx.violation('operation crashed', s['desc'], msg, key='C01:crash:%s' % s['op'])
            ctx.case((s['desc']['start']['ids'], s['desc']['start']['parents'], str(s['desc']['history'][-1:])), nontrivial=s['nontrivial'])
            continue
        wf, ty, mout = next(it)
        rows = s['neuron_rows']
        ctx.case((rows, s['op'], str(s.get('params'))), nontrivial=s['nontrivial'],
                 sample=dict(op=s['op'], params=s.get('params'), table=rows[:12]))
        d = dict(s['desc'], output_table=rows)
        if not wf:
            ctx.violation('output is not a well-formed forest (unique ids / parents present / acyclic)', d, key=None)
        elif not ty:
            ctx.violation('node type labels do not match children counts', d, dict(types=[c for _, _, c in rows]),
                          key='C01:types:%s' % s['op'].split(':')[0])
        if s['missing']:
            ctx.violation('missing values in ids/parents/coordinates', d)
        if not s['soma_ok']:
            ctx.violation('reported soma is not a node', d)
        if s['model'] and wf:
            exp = [tuple(r) for r in mout]
            got = [(a, b) for a, b, _ in rows]
            if exp != got:
                if sorted(exp) == sorted(got):
                    ctx.count('row-order-differs:' + s['op'])
                else:
                    ctx.mismatch('table differs from model/Ops.v for op %s' % s['op'], d, dict(model=exp, impl=got))
