"""C19 — conversions between representations are geometrically faithful.

make_dotprops: rows used / k clipped are compared with model/Convert.v; every implementation tangent is fed (as an exact
rational vector) to the verified checker `principal_axis_b` together with the exact inertia matrix of the point's exact
k nearest neighbours; alpha is tied to the three invariants of that matrix.  k=0: compared with `tangents_k0`.
voxelize: the filled voxels, their counts and the grid shape are compared with `voxel_counts` / `gshape`, and the
within-one-pitch / conservation / in-bounds clauses are also asserted directly on navis' output.
mesh / skeletonize: bounds checks on the outputs of the external libraries (partial, no model)."""
from fractions import Fraction

import numpy as np
import pandas as pd

from vlib import coqio, forest as F
from vlib.coqio import term
from vlib.framework import guarded

RULE = ('clouds: generic dyadic, collinear, planar, with duplicated points, fewer points than k, with NaN rows, all-identical; given as '
        'ndarray / DataFrame / TreeNeuron / Dotprops / MeshNeuron; k in 1..8 and k=0 for skeletons (zero-length edges included); '
        'voxelize of skeletons / dotprops / meshes with scalar, per-axis and unit-string pitch, default and explicit bounds (2,3)/(3,2), '
        'counts on and off; tube meshes with several tube_points; marching-cubes surfaces of voxel neurons with offset; wavefront and '
        'teasar skeletons of cylinders / boxes / capsules. non-trivial = degenerate cloud, explicit bounds, non-scalar pitch, or forest with >1 root; '
        'distinct = distinct (input, parameters).')
ASSUMPTIONS = ['LAPACK SVD, cKDTree, skimage marching cubes, skeletor and make_tube are external numerical code: their outputs are checked by '
               'verified checkers / bounds checks on every generated input, no for-all theorem is claimed for them',
               'points whose k-th and (k+1)-th neighbours are at exactly the same distance (and differ) have no unique neighbourhood: skipped, counted',
               'float rounding of p/pitch is compared with exact rational rounding only when p/pitch is not within 1e-9 of a tie it cannot represent']


def _p3(p):
    return '(mkP %s %s %s)' % tuple(term(Fraction(float(v))) for v in p)


def gen_cloud(rng):
    kind = str(rng.choice(['generic', 'generic', 'collinear', 'planar', 'dups', 'few', 'nan', 'identical', 'lattice']))
    n = int(rng.integers(3, 14))
    if kind == 'generic' or kind == 'nan':
        pts = rng.integers(-2000, 2000, size=(n, 3)) / 16.0
    elif kind == 'lattice':
        pts = rng.integers(-3, 4, size=(n, 3)).astype(float)
    elif kind == 'collinear':
        d = rng.integers(-5, 6, size=3).astype(float)
        if not d.any():
            d[0] = 1
        t = rng.choice(np.arange(-40, 40), size=n, replace=False) / 4.0
        pts = rng.integers(-10, 10, size=3) + t[:, None] * d
    elif kind == 'planar':
        a = rng.integers(-4, 5, size=3).astype(float); b = rng.integers(-4, 5, size=3).astype(float)
        if not np.cross(a, b).any():
            a, b = np.array([1., 0, 0]), np.array([0, 1., 1])
        st = rng.integers(-60, 60, size=(n, 2)) / 8.0
        pts = st[:, :1] * a + st[:, 1:] * b
    elif kind == 'dups':
        base = rng.integers(-200, 200, size=(max(2, n // 2), 3)) / 4.0
        pts = base[rng.integers(0, len(base), size=n)]
    elif kind == 'few':
        n = int(rng.integers(1, 4))
        pts = rng.integers(-200, 200, size=(n, 3)) / 4.0
    else:
        pts = np.tile(rng.integers(-9, 9, size=3).astype(float), (n, 1))
    rows = [tuple(map(float, p)) for p in pts]
    if kind == 'nan':
        for i in rng.choice(len(rows), size=int(rng.integers(1, 3)), replace=False):
            r = list(rows[int(i)]); r[int(rng.integers(3))] = float('nan'); rows[int(i)] = tuple(r)
    return kind, rows


def neighbourhood(fin, i, k):
    """Exact k nearest neighbours of point i (itself included); None if the choice is not unique as a multiset of coordinates."""
    P = [tuple(Fraction(v) for v in p) for p in fin]
    d = [sum((a - b) ** 2 for a, b in zip(P[i], q)) for q in P]
    order = sorted(range(len(P)), key=lambda j: (d[j], P[j]))
    if k < len(P):
        dk = d[order[k - 1]]
        grp = [j for j in order if d[j] == dk]
        n_closer = sum(1 for j in order if d[j] < dk)
        if n_closer + len(grp) > k and len({P[j] for j in grp}) > 1:
            return None
    return [fin[j] for j in order[:k]]


def dotprops(ctx, navis, rng):
    exprs, follow = [], []
    for ci in range(ctx.n(40, 600)):
        kind, rows = gen_cloud(rng)
        k = int(rng.integers(1, 9))
        arr = np.array(rows, dtype=float).reshape(-1, 3)
        fin = [r for r in rows if not any(v != v for v in r)]
        form = str(rng.choice(['ndarray', 'DataFrame', 'Dotprops', 'MeshNeuron'])) if kind != 'nan' else str(rng.choice(['ndarray', 'DataFrame']))
        if form == 'ndarray':
            x = arr
        elif form == 'DataFrame':
            x = pd.DataFrame(arr, columns=['x', 'y', 'z'])
        elif form == 'Dotprops':
            x = navis.Dotprops(arr, k=None, vect=np.tile([1.0, 0, 0], (len(arr), 1)))
        else:
            faces = np.array([[i % len(arr), (i + 1) % len(arr), (i + 2) % len(arr)] for i in range(max(1, len(arr) - 2))])
            x = navis.MeshNeuron((arr, faces), process=False) if len(arr) >= 3 else arr
            if len(arr) < 3:
                form = 'ndarray'
        d = dict(kind=kind, form=form, k=k, rows=rows)
        ctx.case(('dp', kind, form, k, str(rows)), nontrivial=kind not in ('generic',), sample=d if ci < 2 else None)
        ctx.count('cloud:' + kind); ctx.count('input:' + form)
        # three routes to tangents and alpha: make_dotprops, the lazy .vect/.alpha of Dotprops(points, k), recalculate_tangents
        route = str(rng.choice(['make', 'make', 'lazy', 'recalc'])) if kind != 'nan' and form == 'ndarray' and len(fin) >= k and k >= 2 else 'make'   # (k=1 is only claimed for make_dotprops)
        d['route'] = route
        ctx.count('route:' + route)
        if route == 'make':
            st, dp = guarded(navis.make_dotprops, x, k=k)
        elif route == 'lazy':
            st, dp = guarded(lambda: navis.Dotprops(arr.copy(), k=k))
            if st == 'ok':
                st, _ = guarded(lambda: (dp.vect, dp.alpha))
                dp = dp if st == 'ok' else _
        else:
            st, dp = guarded(lambda: navis.Dotprops(arr.copy(), k=None, vect=np.tile([1.0, 0, 0], (len(arr), 1))).recalculate_tangents(k, inplace=False))
        if st != 'ok':
            ctx.violation('make_dotprops raised on a valid cloud', d, dp)
            continue
        ku = min(len(fin), k)
        exprs.append('(k_used [%s] %d%%nat, length (finite_rows [%s]))' % ('; '.join('Some ' + _p3(r) if r in fin else 'None' for r in rows), k,
                                                                        '; '.join('Some ' + _p3(r) if r in fin else 'None' for r in rows)))
        follow.append(('k', d, dp))
        pts, vect, alpha = np.asarray(dp.points, float), np.asarray(dp.vect, float), np.asarray(dp.alpha, float)
        if pts.shape != (len(fin), 3) or [tuple(p) for p in pts.tolist()] != fin:
            ctx.violation('make_dotprops does not return exactly the finite input rows, in order', d, dict(got=pts.tolist()))
            continue
        if vect.shape != (len(fin), 3) or alpha.shape != (len(fin),):
            ctx.violation('make_dotprops does not return one tangent and one alpha per finite point', d, dict(vect=vect.shape, alpha=alpha.shape))
            continue
        for i in range(len(fin)):
            nb = neighbourhood(fin, i, ku)
            if nb is None:
                ctx.count('skipped:tied-neighbourhood')
                continue
            degenerate = len(set(nb)) == 1
            di = dict(d, point=i, tangent=vect[i].tolist(), alpha=float(alpha[i]))
            if not np.all(np.isfinite(vect[i])) or abs(np.linalg.norm(vect[i]) - 1) > 1e-9:
                ctx.violation('tangent is not a unit vector', di)
                continue
            if degenerate:
                ctx.count('neighbourhood:zero-variance')
                if not (0 <= alpha[i] <= 1):
                    ctx.violation('alpha is not in [0, 1] (NaN) for a neighbourhood of identical points / k=1', di, key='C19:alpha-nan-zero-variance')
                continue
            ctx.count('neighbourhood:checked')
            if not (-1e-12 <= alpha[i] <= 1 + 1e-12):
                ctx.violation('alpha is not in [0, 1]', di)
                continue
            nbq = '[%s]' % '; '.join(_p3(p) for p in nb)
            scale = sum(sum((Fraction(a) - Fraction(b)) ** 2 for a, b in zip(p, nb[0])) for p in nb)
            tol = scale / 10 ** 9
            exprs.append('let c := inertia %s in (principal_axis_b c %s %s, qout (e1 c), qout (e2 c), qout (e3 c), qout (quad c %s))'
                         % (nbq, _p3(vect[i]), term(tol), _p3(vect[i])))
            follow.append(('axis', di, (float(alpha[i]), vect[i])))
    out = coqio.eval_terms('C19dp', ['model.Convert', 'model.Dist'], exprs, shard=150)
    for (what, d, e), r in zip(follow, out):
        if what == 'k':
            ku, nfin = int(r[0]), int(r[1])
            if e.k != ku:
                ctx.violation('Dotprops.k is not min(number of finite points, k)', d, dict(got=e.k, want=ku))
            if len(e.points) != nfin:
                ctx.violation('number of dotprops differs from the number of finite rows', d, dict(got=len(e.points), want=nfin))
            continue
        ok, (a1, b1), (a2, b2), (a3, b3), (aq, bq) = r[0], r[1], r[2], r[3], r[4]
        E1, E2, E3, qv = Fraction(a1, b1), Fraction(a2, b2), Fraction(a3, b3), Fraction(aq, bq)
        alpha, v = e
        if not ok:
            ctx.violation('tangent is not a principal axis of the exact inertia matrix of the k nearest neighbours '
                          '(some direction has a Rayleigh quotient larger by more than 1e-9 of the total variance)', d)
            continue
        # alpha = (l1 - l2) / (l1 + l2 + l3): l1 = Rayleigh quotient of the tangent, l2 from alpha, l3 from the trace; they must reproduce e2, e3
        n2 = sum(Fraction(float(x)) ** 2 for x in v)
        l1 = qv / n2
        l2 = l1 - Fraction(alpha) * E1
        l3 = E1 - l1 - l2
        t = float(E1)
        if abs(float(l1 * l2 + l1 * l3 + l2 * l3 - E2)) > 1e-7 * t * t or abs(float(l1 * l2 * l3 - E3)) > 1e-7 * t ** 3 \
                or float(l2) > float(l1) + 1e-9 * t or float(l3) > float(l2) + 1e-9 * t or float(l3) < -1e-9 * t:
            ctx.violation('alpha is not (l1 - l2) / (l1 + l2 + l3) for the eigenvalues l1 >= l2 >= l3 of the inertia matrix', d,
                          dict(l1=float(l1), l2=float(l2), l3=float(l3), e1=t, e2=float(E2), e3=float(E3)))


def tangents_k0(ctx, navis, rng):
    exprs, follow = [], []
    for ci in range(ctx.n(25, 300)):
        f = F.gen_forest(rng, 1, 25, roots=int(rng.integers(1, 3)), lattice=bool(rng.random() < 0.5), zero_edges=bool(rng.random() < 0.5))
        sk = F.mk_neuron(f)
        tab = sk.nodes
        loc = {int(r.node_id): (float(r.x), float(r.y), float(r.z)) for r in tab.itertuples()}
        edges = [(loc[int(r.node_id)], loc[int(r.parent_id)]) for r in tab.itertuples() if r.parent_id >= 0]
        k = [0, None, -1][ci % 3]
        d = dict(kind='k0', k=k, nodes=F.table_of(sk) if hasattr(F, 'table_of') else None)
        ctx.case(('k0', str(edges), k), nontrivial=any(c == p for c, p in edges) or sum(1 for p in f['parent'] if p < 0) > 1 if 'parent' in f else True)
        ctx.count('k0:skeleton')
        st, dp = guarded(navis.make_dotprops, sk, k=k)
        if st != 'ok':
            if not edges or all(c == p for c, p in edges):
                ctx.count('k0:no-edges-rejected')
                continue
            ctx.violation('make_dotprops(skeleton, k=0) raised', d, dp)
            continue
        exprs.append('map (fun t => let \'(m, v, l) := t in ((qout (px m), qout (py m), qout (pz m)), (qout (px v), qout (py v), qout (pz v)), qout l)) (tangents_k0 [%s])'
                     % '; '.join('(%s, %s)' % (_p3(c), _p3(p)) for c, p in edges))
        follow.append((d, dp))
    out = coqio.eval_terms('C19k0', ['model.Convert', 'model.Dist'], exprs, shard=100)
    fr = lambda ab: Fraction(ab[0], ab[1])
    for (d, dp), r in zip(follow, out):
        pts, vect = np.asarray(dp.points, float).reshape(-1, 3), np.asarray(dp.vect, float).reshape(-1, 3)
        length = np.asarray(dp.length, float).reshape(-1) if getattr(dp, 'length', None) is not None else None
        rows = [coqio.flat(t) if hasattr(coqio, 'flat') else t for t in r]
        if len(pts) != len(r) or len(vect) != len(r) or length is None or len(length) != len(r):
            ctx.violation('k=0 dotprops do not have one point / vector / length per non-degenerate edge', d, dict(got=len(pts), want=len(r)))
            continue
        for i, t in enumerate(r):
            fl = _flatten(t)
            m = [float(Fraction(fl[j], fl[j + 1])) for j in (0, 2, 4)]
            v = [float(Fraction(fl[j], fl[j + 1])) for j in (6, 8, 10)]
            l2 = float(Fraction(fl[12], fl[13]))
            sc = max(1.0, np.sqrt(l2))
            if np.abs(pts[i] - m).max() > 1e-9 * max(1, np.abs(m).max()):
                ctx.violation('k=0 point is not the midpoint of its edge', dict(d, edge=i), dict(got=pts[i].tolist(), want=m)); break
            if abs(length[i] ** 2 - l2) > 1e-9 * max(1, l2) or length[i] <= 0:
                ctx.violation('k=0 length is not the length of its edge', dict(d, edge=i), dict(got=float(length[i]), want=np.sqrt(l2))); break
            if np.abs(vect[i] * length[i] - v).max() > 1e-9 * sc or abs(np.linalg.norm(vect[i]) - 1) > 1e-9:
                ctx.violation('k=0 vector is not the normalised child-to-parent... child minus parent vector', dict(d, edge=i), dict(got=vect[i].tolist(), want=v)); break


def _flatten(t):
    out = []
    def rec(x):
        if isinstance(x, (tuple, list)):
            for y in x:
                rec(y)
        else:
            out.append(int(x))
    rec(t)
    return out


def voxels(ctx, navis, rng):
    exprs, follow = [], []
    for ci in range(ctx.n(40, 500)):
        f = F.gen_forest(rng, 2, 30, roots=1, lattice=bool(rng.random() < 0.3), zero_edges=bool(rng.random() < 0.3))
        pts = np.array(rng.integers(-400, 400, size=(len(f['ids']), 3)) / 8.0)
        if rng.random() < 0.3:
            pts[rng.integers(0, len(pts), size=len(pts) // 2)] = pts[0]      # several points per voxel
        f['xyz'] = [tuple(map(float, p)) for p in pts]
        form = str(rng.choice(['TreeNeuron', 'Dotprops', 'MeshNeuron']))
        umag = int(rng.choice([1, 8]))
        units = None if umag == 1 and rng.random() < 0.5 else '%d nm' % umag
        if form == 'TreeNeuron':
            x = F.mk_neuron(f)
            pts = x.nodes[['x', 'y', 'z']].values.astype(float)
        elif form == 'Dotprops':
            x = navis.Dotprops(pts, k=None, vect=np.tile([1.0, 0, 0], (len(pts), 1)))
        else:
            faces = np.array([[i % len(pts), (i + 1) % len(pts), (i + 2) % len(pts)] for i in range(max(1, len(pts) - 2))])
            x = navis.MeshNeuron((pts, faces), process=False)
            pts = np.asarray(x.vertices, float)
        if units is not None:
            x.units = units
        pk = str(rng.choice(['scalar', 'axis', 'string'])) if units is not None else str(rng.choice(['scalar', 'axis']))
        if pk == 'scalar':
            pv = float(rng.choice([1, 2, 0.5, 4, 3, 1.5, 10])); pitch = pv; p3 = [pv] * 3
        elif pk == 'axis':
            p3 = [float(v) for v in rng.choice([1, 2, 0.5, 4, 3], size=3)]; pitch = list(p3)
        else:
            mult = int(rng.choice([1, 2, 4])); pitch = '%d nm' % (mult * umag); p3 = [float(mult)] * 3
        counts = bool(rng.random() < 0.6)
        bk = str(rng.choice(['default', 'default', 'wide', 'narrow', 'narrowT']))
        lo_d, hi_d = pts.min(axis=0), pts.max(axis=0)
        if bk == 'default':
            bounds = None; lo, hi = lo_d, hi_d
        elif bk == 'wide':
            lo = np.floor(lo_d) - rng.integers(0, 9, size=3); hi = np.ceil(hi_d) + rng.integers(0, 9, size=3); bounds = np.stack([lo, hi], axis=1)
        else:
            mid = (lo_d + hi_d) / 2
            lo = np.round((lo_d + mid) / 2 * 4) / 4; hi = np.maximum(lo + 1, np.round((hi_d + mid) / 2 * 4) / 4)
            bounds = np.stack([lo, hi], axis=1)
            if bk == 'narrowT':
                bounds = bounds.T
        d = dict(kind='voxelize', form=form, units=units, pitch=pitch, counts=counts, bounds=None if bounds is None else np.asarray(bounds).tolist(), points=pts.tolist())
        # float rounding vs exact rounding: skip inputs where p/pitch is a tie the float quotient cannot represent
        amb = False
        for col in range(3):
            for v in list(pts[:, col]) + [lo[col]]:
                q = Fraction(float(v)) / Fraction(p3[col])
                if Fraction(float(v) / p3[col]) != q and abs((q % 1) - Fraction(1, 2)) < Fraction(1, 10 ** 9):
                    amb = True
            for v in (lo[col], hi[col]):
                q = Fraction(float(v)) / Fraction(p3[col])
                if Fraction(float(v) / p3[col]) != q and min(q % 1, 1 - q % 1) < Fraction(1, 10 ** 9):
                    amb = True
        if amb:
            ctx.count('skipped:float-tie')
            continue
        ctx.case(('vox', form, units, str(pitch), counts, str(d['bounds']), pts.tobytes().hex()[:48]),
                 nontrivial=bk != 'default' or pk != 'scalar', sample=d if ci < 2 else None)
        ctx.count('voxelize:' + form); ctx.count('pitch:' + pk); ctx.count('bounds:' + bk); ctx.count('counts:%s' % counts)
        st, vx = guarded(navis.voxelize, x, pitch=pitch, bounds=bounds, counts=counts)
        if st != 'ok':
            ctx.violation('voxelize raised', d, vx)
            continue
        g = '(mkG %s %s %s)' % (_p3(p3), _p3(lo), _p3(hi))
        exprs.append('let g := %s in (map (fun c => (vx (fst c), vy (fst c), vz (fst c), snd c)) (voxel_counts g [%s]), (vx (gshape g), vy (gshape g), vz (gshape g)))'
                     % (g, '; '.join(_p3(p) for p in pts)))
        follow.append((d, vx, pts, np.array(p3), lo, hi, umag, counts, bk))
    out = coqio.eval_terms('C19vox', ['model.Convert'], exprs, shard=100)
    for (d, vx, pts, p3, lo, hi, umag, counts, bk), r in zip(follow, out):
        want = sorted((tuple(int(v) for v in _flatten(c)[:3]), int(_flatten(c)[3])) for c in r[0])
        shape = tuple(int(v) for v in _flatten(r[1]))
        grid = np.asarray(vx.grid)
        vox = np.argwhere(grid > 0)
        got = sorted((tuple(int(v) for v in ix), int(grid[tuple(ix)]) if counts else None) for ix in vox)
        if grid.shape != shape:
            ctx.violation('grid shape is not ceil(hi/pitch) - floor(lo/pitch) + 1', d, dict(got=grid.shape, want=shape)); continue
        if [g[0] for g in got] != [w[0] for w in want]:
            ctx.violation('filled voxels differ from the rounded point indices inside the bounds', d, dict(got=[g[0] for g in got][:10], want=[w[0] for w in want][:10])); continue
        if counts and got != want:
            ctx.violation('voxel counts differ from the number of points per voxel', d, dict(got=got[:10], want=want[:10])); continue
        if not counts and grid.dtype != bool:
            ctx.violation('grid is not boolean with counts=False', d)
        # direct clauses on the implementation's own output, in physical units (VoxelNeuron.units = pitch * units, offset = lower bound)
        vu = np.asarray(vx.units_xyz.magnitude, float) if hasattr(vx.units_xyz, 'magnitude') else np.asarray(vx.units_xyz, float)
        if np.abs(vu - p3 * umag).max() > 1e-9:
            ctx.violation('voxel size is not pitch times the neuron\'s units', d, dict(got=vu.tolist(), want=(p3 * umag).tolist())); continue
        off = np.asarray(vx.offset, float)
        if np.abs(off - lo * umag).max() > 1e-9 * max(1, np.abs(lo * umag).max()):
            ctx.violation('grid offset is not the lower bound', d, dict(got=off.tolist(), want=(lo * umag).tolist())); continue
        centres = vox * vu + off
        inside = np.all((pts >= lo) & (pts <= hi), axis=1)
        for p in pts[inside]:
            if len(centres) == 0 or np.abs(centres - p * umag).max(axis=1).min() > (p3 * umag).max() * (1 + 1e-9) \
                    or not np.any(np.all(np.abs(centres - p * umag) <= p3 * umag * (1 + 1e-9), axis=1)):
                ctx.violation('a point inside the bounds is further than one voxel pitch from every filled voxel', d, dict(point=p.tolist())); break
        if counts:
            n_in = int(sum(1 for w in want for _ in range(w[1])))
            if int(grid.sum()) != n_in or (bk in ('default', 'wide') and int(grid.sum()) != len(pts)):
                ctx.violation('counts=True does not conserve the number of points', d, dict(total=int(grid.sum()), points=len(pts)))


def meshes(ctx, navis, rng):
    import trimesh
    # ---- tube meshes contain the skeleton's nodes: every node is the centroid of the ring(s) extruded around it, within its radius
    for ci in range(ctx.n(12, 120)):
        f = F.gen_forest(rng, 2, 25, roots=int(rng.integers(1, 3)), lattice=False, zero_edges=False)
        sk = F.mk_neuron(f)
        sk.nodes['radius'] = rng.choice([0.5, 1.0, 2.0, 3.5], size=len(sk.nodes))
        tp = int(rng.choice([3, 5, 8]))
        d = dict(kind='tube', tube_points=tp, nodes=sk.nodes[['node_id', 'parent_id', 'x', 'y', 'z', 'radius']].values.tolist())
        ctx.case(('tube', tp, str(d['nodes'])), nontrivial=True); ctx.count('mesh:tube')
        st, m = guarded(navis.mesh, sk, tube_points=tp)
        if st != 'ok':
            if all(len(s) < 2 for s in sk.segments):
                continue
            ctx.violation('mesh(skeleton) raised', d, m); continue
        vm = np.asarray(m.vertex_map); V = np.asarray(m.vertices, float)
        co = sk.nodes[['x', 'y', 'z']].values.astype(float); rad = sk.nodes.radius.values.astype(float)
        if len(vm) != len(V):
            # isolated nodes get vertex_map entries but no tube: the map cannot be used to find the rings (not part of this property)
            ctx.count('skipped:tube-vertex-map-misaligned'); continue
        in_seg = {int(i) for s in sk.segments if len(s) > 1 for i in s}
        for i, nid in enumerate(sk.nodes.node_id.values):
            ring = V[vm == i]
            if int(nid) not in in_seg:
                continue
            if len(ring) == 0:
                ctx.violation('a skeleton node has no tube around it', dict(d, node=int(nid))); break
            dist = np.linalg.norm(ring - co[i], axis=1)
            if np.abs(ring.mean(axis=0) - co[i]).max() > 1e-6 * max(1, rad[i]) or dist.max() > rad[i] * (1 + 1e-6) or dist.min() < 0.3 * rad[i]:
                ctx.violation('a skeleton node is not enclosed by (the centroid of) its tube cross-section', dict(d, node=int(nid)),
                              dict(centroid_offset=(ring.mean(axis=0) - co[i]).tolist(), dmin=float(dist.min()), dmax=float(dist.max()), radius=float(rad[i]))); break
        lo, hi = (co - rad[:, None]).min(axis=0), (co + rad[:, None]).max(axis=0)
        if np.any(V.min(axis=0) < lo - 1e-6) or np.any(V.max(axis=0) > hi + 1e-6):
            ctx.violation('tube mesh leaves the radius-inflated bounding box of the skeleton', d)
    # ---- marching cubes surface lies within the grid's extent, in the grid's coordinates
    for ci in range(ctx.n(12, 120)):
        shape = tuple(int(v) for v in rng.integers(3, 9, size=3))
        grid = np.zeros(shape, bool)
        for _ in range(int(rng.integers(1, 4))):
            a = [int(rng.integers(0, s)) for s in shape]; b = [int(rng.integers(x, s)) + 1 for x, s in zip(a, shape)]
            grid[a[0]:b[0], a[1]:b[1], a[2]:b[2]] = True
        size = [float(v) for v in rng.choice([1, 2, 0.5, 8], size=3)]
        off = rng.integers(-50, 50, size=3).astype(float)
        vxn = navis.VoxelNeuron(grid, units=['%g nm' % s for s in size], offset=off)
        d = dict(kind='marching-cubes', grid=grid.astype(int).tolist(), voxel_size=size, offset=off.tolist())
        ctx.case(('mc', grid.tobytes().hex(), str(size), str(off.tolist())), nontrivial=True); ctx.count('mesh:voxels')
        chunk = [None, 0, 2, 3, 4][int(rng.integers(5))]       # single pass, or marching cubes in chunks of that many voxels
        d['chunk_size'] = chunk
        st, m = guarded(navis.mesh, vxn, **({} if chunk is None else dict(chunk_size=chunk)))
        if st != 'ok' and chunk not in (None, 0):
            ctx.count('mesh:voxels:chunked-mesher-raised')     # tiny chunks can come out empty and make the chunked path raise: no surface, nothing to bound
            continue
        if st != 'ok':
            ctx.violation('mesh(VoxelNeuron) raised', d, m); continue
        V = np.asarray(m.vertices, float)
        filled = np.argwhere(grid)
        lo = (filled.min(axis=0) - 0.5) * size + off; hi = (filled.max(axis=0) + 0.5) * size + off
        if np.any(V.min(axis=0) < lo - 1e-6) or np.any(V.max(axis=0) > hi + 1e-6):
            ctx.violation('surface of a voxel grid leaves the extent of the filled voxels (in the grid\'s coordinates: index * size + offset)', d,
                          dict(mesh_min=V.min(axis=0).tolist(), mesh_max=V.max(axis=0).tolist(), lo=lo.tolist(), hi=hi.tolist())); continue
        # single pass only: the iso-surface of a binary grid runs half a voxel around the filled voxels, so a surface that stays a whole
        # voxel short of their extent is misplaced.  Not demanded of the CHUNKED mesher: on the unchanged tree it can leave out part of
        # the object (chunk seams), which makes the surface smaller but keeps it inside the extent - outside what this property states.
        if chunk in (None, 0) and (np.any(V.min(axis=0) > lo + np.array(size)) or np.any(V.max(axis=0) < hi - np.array(size))):
            ctx.violation('surface of a voxel grid does not reach the extent of the filled voxels (misplaced by offset / spacing)', d,
                          dict(mesh_min=V.min(axis=0).tolist(), mesh_max=V.max(axis=0).tolist(), lo=lo.tolist(), hi=hi.tolist()))
    # ---- skeletons of meshes stay inside the mesh's bounding box; vertex_map is total
    for ci in range(ctx.n(9, 40)):
        which = ci % 3
        if which == 0:
            tm = trimesh.creation.cylinder(radius=float(rng.choice([1, 2, 3])), height=float(rng.integers(10, 40)), sections=int(rng.integers(6, 14)))
        elif which == 1:
            tm = trimesh.creation.box(extents=rng.integers(2, 30, size=3).astype(float))
        else:
            tm = trimesh.creation.capsule(height=float(rng.integers(5, 30)), radius=float(rng.choice([1, 2])), count=[6, 6])
        tm = tm.subdivide()
        tm.apply_translation(rng.integers(-100, 100, size=3).astype(float))
        mn = navis.MeshNeuron(tm, units='1 nm')
        unwelded = bool(rng.random() < 0.5)
        if unwelded:
            # a mesh with duplicated vertices (not processed on construction): a few faces get their own copies of their vertices
            v_ = np.asarray(tm.vertices, dtype=float); f_ = np.asarray(tm.faces).copy(); extra = []
            for fi in rng.choice(len(f_), size=min(4, len(f_)), replace=False):
                for c_ in range(3):
                    extra.append(v_[f_[fi, c_]]); f_[fi, c_] = len(v_) + len(extra) - 1
            mn = navis.MeshNeuron((np.vstack([v_, np.array(extra)]), f_), process=False, units='1 nm')
        method = 'wavefront' if rng.random() < 0.6 else 'teasar'
        d = dict(kind='skeletonize', shape=['cylinder', 'box', 'capsule'][which], method=method, bbox=tm.bounds.tolist(), n_vertices=len(mn.vertices), duplicated_vertices=unwelded)
        ctx.case(('sk', str(d)), nontrivial=True); ctx.count('skeletonize:' + method)
        st, s = guarded(navis.skeletonize, mn, method=method, **({'inv_dist': 3} if method == 'teasar' else {})) if rng.random() < 0.6 else \
            guarded(mn.skeletonize, method=method, **({'inv_dist': 3} if method == 'teasar' else {}))
        if st != 'ok':
            ctx.violation('skeletonize raised', d, s); continue
        co = s.nodes[['x', 'y', 'z']].values.astype(float)
        if np.any(co.min(axis=0) < tm.bounds[0] - 1e-6) or np.any(co.max(axis=0) > tm.bounds[1] + 1e-6):
            ctx.violation('skeleton of a mesh leaves the mesh\'s bounding box', d, dict(min=co.min(axis=0).tolist(), max=co.max(axis=0).tolist())); continue
        vm = getattr(s, 'vertex_map', None)
        if vm is None or len(vm) != len(mn.vertices) or not set(int(v) for v in vm) <= set(int(v) for v in s.nodes.node_id.values):
            ctx.violation('vertex_map does not map every mesh vertex to an existing node', d, dict(len=None if vm is None else len(vm), n_vertices=len(mn.vertices)))


def run(ctx):
    import navis
    navis.set_loggers('ERROR')
    navis.set_pbars(hide=True)
    rng = ctx.rng
    dotprops(ctx, navis, rng)
    tangents_k0(ctx, navis, rng)
    voxels(ctx, navis, rng)
    meshes(ctx, navis, rng)
