"""C20 — connectivity built from connector tables (NeuronConnector, group_matrix).

Correspondence: the implementation's edges / adjacency / digraph / multigraph and grouped matrices
are compared with the Coq model (model/Connectivity.v) evaluated by vm_compute on the same tables.
The model is proved (props/C20.v) to satisfy the property's statement under `unique_pre`."""
from collections import Counter

import numpy as np
import pandas as pd

from vlib import coqio
from vlib.framework import guarded

RULE = ('random neuron sets (1-6 neurons, 0-10 connector rows each, connector ids drawn from a small shared pool so that '
        'shared/polyadic/dangling/duplicated ids occur, types 0/1 and occasionally 2, neurons without connectors); '
        'both include_other; random row/col groupings in both dict formats. A case is non-trivial when it has at least '
        'one shared connector id (pre and post on it); distinct = distinct canonical (rows, include_other).')
ASSUMPTIONS = ['neuron names are unique (documented precondition of NeuronConnector)',
               'networkx / pandas container semantics are trusted; only navis\' own bookkeeping is modelled']
OTHER = '__OTHER__'


def gen_case(rng):
    import navis
    nn = int(rng.integers(1, 7))
    pool = [int(c) for c in rng.choice(np.arange(0, 40), size=int(rng.integers(1, 9)), replace=False)]       # connector id 0 too
    multi_pre_ok = rng.random() < 0.15
    used_pre = set()
    neurons, rows = [], []
    for i in range(nn):
        nnodes = int(rng.integers(1, 6))
        ids = [int(v) for v in rng.choice(np.arange(0, 60) if rng.random() < 0.5 else np.arange(0, 6), size=nnodes, replace=False)]      # node id 0 is a valid id
        nodes = pd.DataFrame({'node_id': ids, 'parent_id': [-1] + ids[:-1], 'x': 0., 'y': 0., 'z': 0., 'radius': 0.})
        n = navis.TreeNeuron(nodes, name='n%d' % i, soma=None)
        k = int(rng.integers(0, 11))
        if k == 0 and rng.random() < 0.7:
            neurons.append(n)
            continue
        crow = []
        for _ in range(k):
            c = pool[int(rng.integers(len(pool)))]
            t = int(rng.choice([0, 1, 1, 1, 2], p=[.3, .2, .2, .2, .1]))
            if t == 0 and c in used_pre and not multi_pre_ok:
                t = 1
            if t == 0:
                used_pre.add(c)
            nd = ids[int(rng.integers(len(ids)))]
            crow.append((c, nd, t))
            if rng.random() < 0.1:
                crow.append((c, nd, t if t != 0 or multi_pre_ok else 1))  # duplicated row
        n.connectors = pd.DataFrame({'connector_id': [r[0] for r in crow], 'node_id': [r[1] for r in crow],
                                     'x': 0., 'y': 0., 'z': 0., 'type': [r[2] for r in crow]},
                                    ) if crow else pd.DataFrame({'connector_id': np.array([], int), 'node_id': np.array([], int), 'x': [], 'y': [], 'z': [], 'type': np.array([], int)})
        for c, nd, t in crow:
            rows.append((i, c, nd, t))
        neurons.append(n)
    return neurons, rows


def spec_missing(rows, io, edges):
    """Python rendering of the property's first sentence: every (pre row, post row) pair sharing a
    connector id must appear as an edge, with multiplicity."""
    want = Counter()
    pres = [r for r in rows if r[3] == 0]
    posts = [r for r in rows if r[3] == 1]
    for p in set(pres):
        for q in posts:
            if p[1] == q[1]:
                want[(p[1], p[0], q[0], p[2], q[2])] += 1
    have = Counter(edges)
    return [(e, k, have.get(e, 0)) for e, k in want.items() if have.get(e, 0) < k]


def name_code(s):
    return -1 if s == OTHER else int(s[1:])


def nz(v):
    return -1 if v is None or (isinstance(v, float) and v != v) or v is pd.NA else int(v)


def run(ctx):
    from navis.connectivity.adjacency import NeuronConnector
    from navis.connectivity.matrix_utils import group_matrix
    import navis
    navis.set_loggers('ERROR')
    rng = ctx.rng
    N = ctx.n(150, 3000)
    cases, exprs = [], []
    for ci in range(N):
        neurons, rows = gen_case(rng)
        io = bool(rng.integers(2))
        names = list(range(len(neurons)))
        incr = bool(rng.random() < 0.3)
        st, res = guarded(lambda: impl_views(NeuronConnector, neurons, io, incremental=incr))
        # grouping
        idx = names + ([-1] if io else [])
        groups_r = {a: int(rng.integers(100, 103)) for a in idx if rng.random() < 0.6}
        groups_c = {a: int(rng.integers(100, 103)) for a in idx if rng.random() < 0.6}
        drop = bool(rng.random() < 0.25)
        fmt1 = bool(rng.integers(2))
        cases.append(dict(rows=rows, io=io, names=names, impl=(st, res), gr=groups_r, gc=groups_c, drop=drop, fmt1=fmt1, neurons=neurons))
        exprs.append('run_views %s %s %s' % (coqio.term(io), coqio.term(names), coqio.term(rows)))
    # group_matrix on the implementation's adjacency matrix
    for c in cases:
        st, res = c['impl']
        if st != 'ok':
            exprs.append('@nil (Z*Z*Z)')
            continue
        cells = [(a, b, v) for (a, b), v in sorted(res['adj'].items())]
        c['cells'] = cells
        exprs.append('group_matrix %s %s %s %s' % (coqio.term(c['drop']), coqio.term(sorted(c['gr'].items())),
                                                    coqio.term(sorted(c['gc'].items())), coqio.term(cells)))
    out = coqio.eval_terms('C20', ['model.Connectivity'], exprs)
    model_views, model_groups = out[:N], out[N:]
    for c, mv, mg in zip(cases, model_views, model_groups):
        rows, io = c['rows'], c['io']
        shared = any(r[3] == 0 and any(q[3] == 1 and q[1] == r[1] for q in rows) for r in rows)
        multi_pre = len([1 for r in rows if r[3] == 0]) != len({r[1] for r in rows if r[3] == 0})
        ctx.case((rows, io), nontrivial=shared, sample=dict(rows=rows, include_other=io))
        ctx.count('neurons=%d' % len(c['names']))
        ctx.count('multi_pre' if multi_pre else 'unique_pre')
        ctx.count('include_other=%s' % io)
        st, res = c['impl']
        desc = dict(rows=rows, include_other=io, names=['n%d' % i for i in c['names']])
        if st != 'ok':
            ctx.violation('NeuronConnector raised', desc, res)
            continue
        m_edges, m_adj, m_dig = mv
        # 1. property statement evaluated on the implementation's edges
        miss = spec_missing(rows, io, res['edges'])
        if miss:
            ctx.violation('edge missing for a (pre row, post row) pair', desc, dict(missing=miss[:5]),
                          key='C20:multi-pre' if multi_pre else None)
        # 2. implementation == model
        if Counter(res['edges']) != Counter(tuple(e) for e in m_edges):
            ctx.mismatch('edges(): implementation and model differ', desc,
                         dict(impl=sorted(res['edges']), model=sorted(tuple(e) for e in m_edges)))
        madj = {(a, b): v for a, b, v in m_adj}
        if res['adj'] != madj:
            ctx.violation('to_adjacency differs from the edge multiset', desc, dict(impl=sorted(res['adj'].items()), model=sorted(madj.items())))
        mdig = {(a, b): Counter(tuple(r) for r in rs) for a, b, rs in m_dig}
        idig = {k: Counter(v) for k, v in res['dig'].items()}
        if idig != mdig or any(res['digw'][k] != sum(v.values()) for k, v in idig.items()):
            ctx.violation('to_digraph differs from the edge multiset', desc, dict(impl=str(idig), model=str(mdig)))
        if Counter(res['multi']) != Counter(tuple(e) for e in m_edges):
            ctx.violation('to_multidigraph differs from the edge multiset', desc, dict(impl=sorted(res['multi'])))
        # three views among themselves (implementation only)
        cnt = Counter((e[1], e[2]) for e in res['multi'])
        for k, v in res['adj'].items():
            if v != cnt.get(k, 0) or (v and res['digw'].get(k) != v) or (not v and k in res['digw']):
                ctx.violation('three views disagree', desc, dict(cell=k, adjacency=v, multigraph=cnt.get(k, 0), digraph=res['digw'].get(k)))
                break
        # 3. group_matrix
        if not c['gr'] and not c['gc']:
            continue
        nm = lambda a: OTHER if a == -1 else 'n%d' % a
        gname = lambda g: 'g%d' % g
        def fmt(d):
            if not c['fmt1']:
                return {nm(k): gname(v) for k, v in d.items()}
            o = {}
            for k, v in d.items():
                o.setdefault(gname(v), []).append(nm(k))
            return o
        mat = res['adjdf']
        st2, g = guarded(lambda: group_matrix(mat, row_groups=fmt(c['gr']), col_groups=fmt(c['gc']), drop_ungrouped=c['drop'], method='SUM'))
        gdesc = dict(desc, row_groups=fmt(c['gr']), col_groups=fmt(c['gc']), drop_ungrouped=c['drop'])
        ctx.count('group_cases')
        if st2 != 'ok':
            ctx.violation('group_matrix raised', gdesc, g)
            continue
        def lab(s):
            s = str(s)
            return -1 if s == OTHER else (int(s[1:]) if s[0] == 'n' else int(s[1:]))
        icells = {(lab(r), lab(cn)): int(g.loc[r, cn]) for r in g.index for cn in g.columns}
        mcells = {(a, b): v for a, b, v in mg}
        if not c['drop'] and sum(icells.values()) != int(mat.values.sum()):
            ctx.violation('grouping does not conserve the synapse total', gdesc, dict(before=int(mat.values.sum()), after=sum(icells.values())))
        elif icells != mcells:
            ctx.mismatch('group_matrix: implementation and model differ', gdesc, dict(impl=sorted(icells.items()), model=sorted(mcells.items())))


def impl_views(NeuronConnector, neurons, io, incremental=False):
    if incremental and len(neurons) > 1:
        # built neuron by neuron, with every view materialised in between: the final views describe the final set of neurons
        nc = NeuronConnector(neurons[:1])
        for n_ in neurons[1:]:
            list(nc.edges(include_other=True)); nc.to_adjacency(include_other=True); nc.to_digraph(include_other=True)
            nc.add_neuron(n_)
    else:
        nc = NeuronConnector(neurons)
    edges = [(int(e.connector_id), name_code(e.source_name), name_code(e.target_name), nz(e.source_node), nz(e.target_node))
             for e in nc.edges(include_other=io)]
    adjdf = nc.to_adjacency(include_other=io)
    adj = {(name_code(r), name_code(c)): int(adjdf.loc[r, c]) for r in adjdf.index for c in adjdf.columns}
    dg = nc.to_digraph(include_other=io)
    dig, digw = {}, {}
    for u, v, d in dg.edges(data=True):
        df = d['connectors']
        dig[(name_code(u), name_code(v))] = [(nz(a), nz(b), nz(cc)) for a, b, cc in zip(df.connector_id, df.pre_node, df.post_node)]
        digw[(name_code(u), name_code(v))] = int(d['weight'])
    mg = nc.to_multidigraph(include_other=io)
    multi = [(int(d['connector_id']), name_code(u), name_code(v), nz(d['pre_node']), nz(d['post_node'])) for u, v, d in mg.edges(data=True)]
    if set(dg.nodes) != set(adjdf.index) or set(mg.nodes) != set(adjdf.index):
        raise AssertionError('node sets of the three views differ')
    # the weighted digraph navis builds FROM the adjacency matrix carries the same weights in the same direction
    import navis
    g2 = navis.network2nx(adjdf)
    w2 = {(name_code(u), name_code(v)): int(d_['weight']) for u, v, d_ in g2.edges(data=True) if d_.get('weight', 0)}
    if w2 != {k_: v_ for k_, v_ in adj.items() if v_}:
        raise AssertionError('network2nx(adjacency) differs from the adjacency matrix: %s vs %s' % (sorted(w2.items())[:6], sorted((k_, v_) for k_, v_ in adj.items() if v_)[:6]))
    return dict(edges=edges, adj=adj, adjdf=adjdf, dig=dig, digw=digw, multi=multi)
