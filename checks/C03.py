"""C03 — inputs are never modified unless inplace=True; inplace is equivalent.

Static tie: translate/alias.py regenerates gen/Gen_Alias.v (copy policy per class, inplace shape per function) and
proofs/AliasObl.v discharges `policies_ok` / `catalogue_ok` on it.
Dynamic tie (this file): the whole catalogue is run on skeletons / meshes / dotprops / voxel neurons / NeuronLists carrying
connectors, tags, soma, units, name, id:   snapshot -> call (inplace off) -> snapshot -> scribble over everything reachable
from the result -> snapshot -> call (inplace on) on an independently built twin -> twin state == result state.
The aliasing scenarios of model/Alias.v are evaluated in Coq with the policy the translator extracted and compared with what
the implementation does (copy, then mutate a tag list / a table / rebind)."""
import copy as _copy

import numpy as np
import pandas as pd

from vlib import coqio, forest as F
from vlib.framework import guarded

GEN = ['Gen_Alias.v']
RULE = ('every catalogued function / method (see input_distribution "op:*") on: skeletons (forests 2-40 nodes, connectors, tags with two lists, soma, '
        'units "8 nm", name, id), tube/box meshes with connectors, dotprops with connectors, voxel neurons; single neurons and NeuronLists of 2-3; '
        'inplace off then scribble over the result, inplace on on a twin. non-trivial = neuron has connectors and tags and the call changed something; '
        'distinct = distinct (op, neuron, parameters).')
ASSUMPTIONS = ['functions that need files, template registries, plotting back ends or optional packages that are not installed are not exercised (listed as skipped:*)',
               'networkx graph views returned by x.graph / neuron2nx are documented as views and are not scribbled on',
               'the documented annotation column(s) an analysis function adds to x.nodes are allowed (and only those)']


# ----------------------------------------------------------------------------------------------- snapshots
def _val(v):
    if isinstance(v, float) and v != v:
        return 'nan'
    return v


def df_snap(df):
    if df is None:
        return None
    out = {}
    for c in df.columns:
        col = df[c]
        try:
            vals = [_val(v) for v in col.astype(object).tolist()]
        except Exception:
            vals = [repr(v) for v in col]
        out[str(c)] = vals
    return out


def arr_snap(a):
    if a is None:
        return None
    a = np.asarray(a)
    return (a.shape, [_val(v) for v in a.astype(object).ravel().tolist()])


def snap(x):
    import navis
    if isinstance(x, navis.NeuronList):
        return ('list', [snap(n) for n in x])
    d = dict(cls=type(x).__name__, name=x.name, id=str(x.id), units=str(x.units), connectors=df_snap(getattr(x, '_connectors', None)))
    if isinstance(x, navis.TreeNeuron):
        d['nodes'] = df_snap(x._nodes)
        s = x.soma
        d['soma'] = None if s is None else [int(v) for v in np.atleast_1d(s)]
        d['tags'] = None if getattr(x, 'tags', None) is None else {str(k): list(v) for k, v in x.tags.items()}
    elif isinstance(x, navis.MeshNeuron):
        d['vertices'] = arr_snap(x.vertices); d['faces'] = arr_snap(x.faces)
    elif isinstance(x, navis.Dotprops):
        d['points'] = arr_snap(x.points); d['vect'] = arr_snap(getattr(x, '_vect', None)); d['alpha'] = arr_snap(getattr(x, '_alpha', None)); d['k'] = x.k
        try:      # a derived value: every point is its own nearest neighbour in the neuron's KD tree (cached across operations)
            dd_, _ix = x.kdtree.query(np.asarray(x.points, dtype=float))
            d['kdtree_self_distance_is_zero'] = bool(np.max(np.abs(dd_)) <= 1e-6 * max(1.0, float(np.abs(np.asarray(x.points)).max()))) if len(x.points) else True
        except Exception as e:
            d['kdtree_self_distance_is_zero'] = 'error: %s' % type(e).__name__
    elif isinstance(x, navis.VoxelNeuron):
        d['grid'] = arr_snap(x.grid); d['offset'] = arr_snap(x.offset)
    return d


def diff(a, b, allow_cols=()):
    """keys at which two snapshots differ; columns in allow_cols may be ADDED to nodes"""
    if isinstance(a, tuple) and a and a[0] == 'list':
        if not (isinstance(b, tuple) and b[0] == 'list') or len(a[1]) != len(b[1]):
            return ['list-length']
        return ['[%d].%s' % (i, k) for i, (p, q) in enumerate(zip(a[1], b[1])) for k in diff(p, q, allow_cols)]
    out = []
    for k in sorted(set(a) | set(b)):
        u, v = a.get(k), b.get(k)
        if k in ('nodes', 'connectors') and isinstance(u, dict) and isinstance(v, dict):
            for c in sorted(set(u) | set(v)):
                if c not in u and c in allow_cols:
                    continue
                if u.get(c) != v.get(c):
                    out.append(k + '.' + c)
        elif u != v:
            out.append(k)
    return out


# ----------------------------------------------------------------------------------------------- scribbling over a result
def scribble(r, depth=0):
    """mutate in place every table / array / dict / list reachable from the result"""
    import navis
    import networkx as nx
    if depth > 3 or r is None:
        return
    if isinstance(r, navis.NeuronList):
        for n in r.neurons:
            scribble(n, depth + 1)
        return
    if isinstance(r, navis.BaseNeuron):
        for k, v in list(vars(r).items()):
            if k in ('_lock',):
                continue
            scribble(v, depth + 1)
        # through the public accessors too
        for acc in ('nodes', 'connectors', 'vertices', 'faces', 'points', 'vect', 'alpha', 'grid'):
            try:
                scribble(getattr(r, acc, None), depth + 1)
            except Exception:
                pass
        if getattr(r, 'tags', None):
            for v in r.tags.values():
                if isinstance(v, list):
                    v.append(-777)
            r.tags['__scribble__'] = [1]
        return
    if isinstance(r, pd.DataFrame):
        for c in r.columns:
            try:
                if pd.api.types.is_bool_dtype(r[c]):
                    r.loc[:, c] = ~r[c].values
                elif pd.api.types.is_numeric_dtype(r[c]):
                    r.loc[:, c] = (r[c].values * 0 - 7).astype(r[c].dtype)
            except Exception:
                pass
        return
    if isinstance(r, pd.Series):
        try:
            if pd.api.types.is_numeric_dtype(r) and not pd.api.types.is_bool_dtype(r):
                r.iloc[:] = -7
        except Exception:
            pass
        return
    if isinstance(r, np.ndarray):
        if r.flags.writeable and r.dtype.kind in 'fiu' and r.size:
            r[...] = (np.zeros(1) - 7).astype(r.dtype)[0] if r.dtype.kind != 'u' else 7
        return
    if isinstance(r, dict):
        for v in list(r.values()):
            if isinstance(v, list):
                v.append(-777)
            else:
                scribble(v, depth + 1)
        return
    if isinstance(r, (list, tuple)):
        for v in r:
            scribble(v, depth + 1)
        if isinstance(r, list) and all(isinstance(v, (int, float, np.integer, np.floating)) for v in r):
            r.append(-777)
        return
    if isinstance(r, (nx.Graph,)):
        return


# ----------------------------------------------------------------------------------------------- inputs
class SkipInplace(Exception):
    pass


class Spec:
    """a recipe that builds the same neuron again and again (for the twin)"""

    def __init__(self, kind, build, desc):
        self.kind, self.build, self.desc = kind, build, desc


def gen_skeleton(rng, shift=0.0):
    import navis
    f = F.gen_forest(rng, 4, 40, roots=1 if rng.random() < 0.6 else int(rng.integers(2, 4)), lattice=False, zero_edges=False)
    if shift:
        f['xyz'] = [(a + shift, b, c) for a, b, c in f['xyz']]
    ids = f['ids']
    cn = F.gen_connectors(rng, f, 10)
    if cn is None:
        cn = F.gen_connectors(np.random.default_rng(int(rng.integers(1 << 30))), f, 10)
    radius = np.round(rng.uniform(0.5, 3, size=len(ids)), 3)
    root = [i for i, p in zip(ids, f['parents']) if p < 0][0]
    tags = {'ends': [int(v) for v in ids[:3]], 'custom': [int(ids[-1])]}
    nid = int(rng.integers(1, 10 ** 6))

    def build():
        n = navis.TreeNeuron(F.forest_df(f, radius), name='sk%d' % nid, units='8 nm', id=nid)
        n.soma = root
        if cn is not None:
            n.connectors = cn.copy()
        n.tags = {k: list(v) for k, v in tags.items()}
        return n
    return Spec('sk', build, dict(kind='skeleton', nodes=[(int(a), int(b)) for a, b in zip(f['ids'], f['parents'])], n_connectors=0 if cn is None else len(cn), id=nid))


def gen_mesh(rng):
    import navis
    import trimesh
    which = int(rng.integers(3))
    tm = [trimesh.creation.box(extents=rng.integers(4, 30, size=3).astype(float)),
          trimesh.creation.cylinder(radius=float(rng.integers(2, 6)), height=float(rng.integers(10, 40)), sections=8),
          trimesh.creation.icosphere(subdivisions=1, radius=float(rng.integers(3, 9)))][which]
    V, Fc = np.array(tm.vertices, float) + rng.integers(-20, 20, size=3), np.array(tm.faces)
    k = int(rng.integers(1, 6))
    ix = rng.integers(0, len(V), size=k)
    cn = pd.DataFrame({'connector_id': np.arange(k) + 500, 'vertex_id': ix, 'x': V[ix, 0], 'y': V[ix, 1], 'z': V[ix, 2], 'type': rng.choice([0, 1], size=k).astype(np.int64)})
    nid = int(rng.integers(1, 10 ** 6))

    def build():
        n = navis.MeshNeuron((V.copy(), Fc.copy()), name='me%d' % nid, units='8 nm', id=nid)
        n.connectors = cn.copy()
        return n
    return Spec('me', build, dict(kind='mesh', shape=['box', 'cylinder', 'icosphere'][which], n_vertices=len(V), id=nid))


def gen_dotprops(rng):
    import navis
    n = int(rng.integers(8, 40))
    pts = np.cumsum(rng.normal(size=(n, 3)) * 3, axis=0) + rng.integers(-20, 20, size=3)
    k = int(rng.integers(1, 6))
    ix = rng.integers(0, n, size=k)
    cn = pd.DataFrame({'connector_id': np.arange(k) + 700, 'point_id': ix, 'x': pts[ix, 0], 'y': pts[ix, 1], 'z': pts[ix, 2], 'type': rng.choice([0, 1], size=k).astype(np.int64)})
    nid = int(rng.integers(1, 10 ** 6))

    def build():
        d = navis.make_dotprops(pts.copy(), k=5)
        d.name, d.id, d.units = 'dp%d' % nid, nid, '8 nm'
        d.connectors = cn.copy()
        _ = d.kdtree            # warm the cached KD tree, as any earlier query / NBLAST would have
        return d
    return Spec('dp', build, dict(kind='dotprops', n_points=n, id=nid))


def gen_voxels(rng):
    import navis
    shape = tuple(int(v) for v in rng.integers(4, 9, size=3))
    grid = (rng.random(shape) < 0.3).astype(np.float32) * rng.integers(1, 5, size=shape)
    grid[1:3, 1:3, 1:3] = 3
    off = rng.integers(-20, 20, size=3).astype(float)
    nid = int(rng.integers(1, 10 ** 6))

    def build():
        return navis.VoxelNeuron(grid.copy(), name='vx%d' % nid, units='8 nm', id=nid, offset=off.copy())
    return Spec('vx', build, dict(kind='voxels', shape=shape, id=nid))


GENS = {'sk': gen_skeleton, 'me': gen_mesh, 'dp': gen_dotprops, 'vx': gen_voxels}


# ----------------------------------------------------------------------------------------------- the catalogue
def catalogue():
    import navis
    C = []

    def add(name, kinds, call, gen=None, inplace=True, annot=(), lists=True, list_only=False, same_ids=False):
        C.append(dict(name=name, kinds=kinds, call=call, gen=gen or (lambda x, rng: {}), inplace=inplace, annot=set(annot), lists=lists, list_only=list_only, same_ids=same_ids))

    ids = lambda x: [int(v) for v in x.nodes.node_id.values]
    nonroot = lambda x: [int(v) for v in x.nodes.node_id.values[x.nodes.parent_id.values >= 0]]
    pick = lambda rng, l: int(l[int(rng.integers(len(l)))])
    kw = lambda inplace: dict(inplace=inplace)
    # ---- skeleton manipulation (functions and methods), all with an `inplace` parameter
    add('reroot_skeleton', 'sk', lambda x, p, i: navis.reroot_skeleton(x, p['r'], **kw(i)), lambda x, rng: dict(r=pick(rng, ids(x))), lists=False)
    add('TreeNeuron.reroot', 'sk', lambda x, p, i: x.reroot(p['r'], **kw(i)), lambda x, rng: dict(r=pick(rng, ids(x))), lists=False)
    add('subset_neuron', 'sk', lambda x, p, i: navis.subset_neuron(x, p['s'], **kw(i)), lambda x, rng: dict(s=[v for v in ids(x) if rng.random() < 0.6] or ids(x)[:1]), lists=False)
    add('prune_twigs', 'sk', lambda x, p, i: navis.prune_twigs(x, p['size'], **kw(i)), lambda x, rng: dict(size=float(rng.choice([2, 8, 30]))))
    add('prune_twigs(exact)', 'sk', lambda x, p, i: navis.prune_twigs(x, p['size'], exact=True, **kw(i)), lambda x, rng: dict(size=float(rng.choice([2, 8, 30]))))
    add('TreeNeuron.prune_twigs', 'sk', lambda x, p, i: x.prune_twigs(p['size'], **kw(i)), lambda x, rng: dict(size=float(rng.choice([2, 8, 30]))))
    add('prune_by_strahler', 'sk', lambda x, p, i: navis.prune_by_strahler(x, to_prune=p['t'], **kw(i)), lambda x, rng: dict(t=int(rng.choice([1, -1]))))
    add('TreeNeuron.prune_by_strahler', 'sk', lambda x, p, i: x.prune_by_strahler(to_prune=1, **kw(i)))
    add('prune_at_depth', 'sk', lambda x, p, i: navis.prune_at_depth(x, p['d'], **kw(i)), lambda x, rng: dict(d=float(rng.choice([5, 20, 60]))))
    add('TreeNeuron.prune_at_depth', 'sk', lambda x, p, i: x.prune_at_depth(p['d'], **kw(i)), lambda x, rng: dict(d=float(rng.choice([5, 20, 60]))))
    add('longest_neurite', 'sk', lambda x, p, i: navis.longest_neurite(x, n=p['n'], **kw(i)), lambda x, rng: dict(n=int(rng.choice([1, 2]))))
    add('TreeNeuron.prune_by_longest_neurite', 'sk', lambda x, p, i: x.prune_by_longest_neurite(n=1, **kw(i)))
    add('cell_body_fiber', 'sk', lambda x, p, i: navis.cell_body_fiber(x, **kw(i)))
    add('TreeNeuron.cell_body_fiber', 'sk', lambda x, p, i: x.cell_body_fiber(**kw(i)))
    add('despike_skeleton', 'sk', lambda x, p, i: navis.despike_skeleton(x, sigma=2, **kw(i)))
    add('smooth_skeleton', 'sk', lambda x, p, i: navis.smooth_skeleton(x, window=3, **kw(i)))
    add('heal_skeleton', 'sk', lambda x, p, i: navis.heal_skeleton(x, **kw(i)))
    add('guess_radius', 'sk', lambda x, p, i: navis.guess_radius(x, **kw(i)))
    add('insert_nodes', 'sk', lambda x, p, i: navis.insert_nodes(x, where=[(p['c'], p['p'])], **kw(i)),
        lambda x, rng: (lambda c: dict(c=c, p=int(x.nodes.set_index('node_id').loc[c, 'parent_id'])))(pick(rng, nonroot(x))), lists=False)
    add('remove_nodes', 'sk', lambda x, p, i: navis.remove_nodes(x, which=p['w'], **kw(i)), lambda x, rng: dict(w=[pick(rng, nonroot(x))]), lists=False)
    add('resample_skeleton', 'sk', lambda x, p, i: navis.resample_skeleton(x, p['to'], **kw(i)), lambda x, rng: dict(to=float(rng.choice([3, 10]))))
    add('TreeNeuron.resample', 'sk', lambda x, p, i: x.resample(p['to'], **kw(i)), lambda x, rng: dict(to=float(rng.choice([3, 10]))))
    add('resample_along_axis', 'sk', lambda x, p, i: navis.resample_along_axis(x, interval=5, axis=2, **kw(i)))
    add('downsample_neuron', 'sk', lambda x, p, i: navis.downsample_neuron(x, p['f'], **kw(i)), lambda x, rng: dict(f=int(rng.choice([2, 3, 1000]))))
    add('TreeNeuron.downsample', 'sk', lambda x, p, i: x.downsample(p['f'], **kw(i)), lambda x, rng: dict(f=int(rng.choice([2, 3]))))
    add('drop_fluff', 'sk', lambda x, p, i: navis.drop_fluff(x, **kw(i)))
    add('TreeNeuron.prune_distal_to', 'sk', lambda x, p, i: x.prune_distal_to(p['n'], **kw(i)), lambda x, rng: dict(n=pick(rng, nonroot(x))), lists=False)
    add('TreeNeuron.prune_proximal_to', 'sk', lambda x, p, i: x.prune_proximal_to(p['n'], **kw(i)), lambda x, rng: dict(n=pick(rng, nonroot(x))), lists=False)
    # several cut nodes at once (the in-place run and the copy must apply ALL of them)
    multi = lambda x, rng: dict(n=sorted(set(pick(rng, nonroot(x)) for _ in range(3))))
    add('TreeNeuron.prune_distal_to(several)', 'sk', lambda x, p, i: x.prune_distal_to(p['n'], **kw(i)), multi, lists=False)
    add('TreeNeuron.prune_proximal_to(several)', 'sk', lambda x, p, i: x.prune_proximal_to(p['n'], **kw(i)), multi, lists=False)
    add('cut_skeleton(several)', 'sk', lambda x, p, i: navis.cut_skeleton(x, p['n']), multi, inplace=False, lists=False)
    add('reroot_skeleton(several)', 'sk', lambda x, p, i: navis.reroot_skeleton(x, p['n'], **kw(i)), multi, lists=False)
    # analyses of MESHES with connectors (run on an internal skeleton): the mesh and its connector table stay as they were
    add('synapse_flow_centrality(mesh)', 'me', lambda x, p, i: navis.synapse_flow_centrality(x), inplace=False, annot=['synapse_flow_centrality'])
    add('flow_centrality(mesh)', 'me', lambda x, p, i: navis.flow_centrality(x), inplace=False, annot=['flow_centrality'])
    add('bending_flow(mesh)', 'me', lambda x, p, i: navis.bending_flow(x), inplace=False, annot=['bending_flow'])
    add('strahler_index(mesh)', 'me', lambda x, p, i: navis.strahler_index(x), inplace=False, annot=['strahler_index'])
    add('in_volume(neuron)', ('sk', 'dp', 'me'), lambda x, p, i: navis.in_volume(x, p['v'], **kw(i)), lambda x, rng: dict(v=_box_around(x)))
    add('TreeNeuron.prune_by_volume', 'sk', lambda x, p, i: x.prune_by_volume(p['v'], **kw(i)), lambda x, rng: dict(v=_box_around(x)))
    add('convert_units', ('sk', 'me', 'dp'), lambda x, p, i: x.convert_units('um', **kw(i)))
    add('rewire_skeleton', 'sk', lambda x, p, i: navis.rewire_skeleton(x, x.graph.to_undirected(), **kw(i)), lists=False)
    add('subset_neuron(keep_disc_cn)', 'sk', lambda x, p, i: navis.subset_neuron(x, p['s'], keep_disc_cn=True, **kw(i)), lambda x, rng: dict(s=[v for v in ids(x) if rng.random() < 0.5] or ids(x)[:1]), lists=False)
    add('subset_neuron(prevent_fragments)', 'sk', lambda x, p, i: navis.subset_neuron(x, p['s'], prevent_fragments=True, **kw(i)), lambda x, rng: dict(s=[v for v in ids(x) if rng.random() < 0.5] or ids(x)[:1]), lists=False)
    # ---- parameterisations under which there is NOTHING TO DO: the result must still be a separate object ("if nothing changes: return x" slips)
    add('noop:subset_neuron(all)', 'sk', lambda x, p, i: navis.subset_neuron(x, ids(x), **kw(i)), lists=False)
    add('noop:prune_twigs(0)', 'sk', lambda x, p, i: navis.prune_twigs(x, 1e-9, **kw(i)))
    add('noop:prune_by_strahler(none)', 'sk', lambda x, p, i: navis.prune_by_strahler(x, to_prune=[99], **kw(i)))
    add('noop:prune_at_depth(inf)', 'sk', lambda x, p, i: navis.prune_at_depth(x, 1e9, **kw(i)))
    add('noop:longest_neurite(all)', 'sk', lambda x, p, i: navis.longest_neurite(x, n=10 ** 6, **kw(i)))
    add('noop:drop_fluff(keep all)', 'sk', lambda x, p, i: navis.drop_fluff(x, keep_size=0, **kw(i)))
    add('noop:heal_skeleton(max_dist 0)', 'sk', lambda x, p, i: navis.heal_skeleton(x, max_dist=1e-9, **kw(i)))
    add('noop:remove_nodes(none)', 'sk', lambda x, p, i: navis.remove_nodes(x, which=[], **kw(i)), lists=False)
    add('noop:downsample(1)', 'sk', lambda x, p, i: navis.downsample_neuron(x, 1, **kw(i)))
    add('noop:reroot(root)', 'sk', lambda x, p, i: navis.reroot_skeleton(x, int(x.root[0]), **kw(i)), lists=False)
    add('noop:despike(huge sigma)', 'sk', lambda x, p, i: navis.despike_skeleton(x, sigma=1e9, **kw(i)))
    add('noop:in_volume(all inside)', ('sk', 'dp', 'me'), lambda x, p, i: navis.in_volume(x, p['v'], **kw(i)), lambda x, rng: dict(v=_box_around(x, whole=True)))
    add('noop:in_volume(OUT, all outside)', ('sk', 'dp', 'me'), lambda x, p, i: navis.in_volume(x, p['v'], mode='OUT', **kw(i)), lambda x, rng: dict(v=_box_around(x, whole=True, away=True)))
    add('noop:in_volume(dict of volumes)', 'sk', lambda x, p, i: navis.in_volume(x, dict(a=p['v'], b=p['w'])), lambda x, rng: dict(v=_box_around(x, whole=True), w=_box_around(x)), inplace=False, lists=False)
    add('noop:convert_units(same)', ('sk', 'me', 'dp'), lambda x, p, i: x.convert_units('nm', **kw(i)))
    add('noop:mul(1)', ('sk', 'me', 'dp', 'vx'), lambda x, p, i: x * 1, inplace=False)
    add('noop:add(0)', ('sk', 'me', 'dp', 'vx'), lambda x, p, i: x + 0, inplace=False)
    add('noop:smooth_mesh(0 iterations)', 'me', lambda x, p, i: navis.smooth_mesh(x, iterations=0, backend='trimesh', **kw(i)))
    add('noop:drop_fluff(mesh)', 'me', lambda x, p, i: navis.drop_fluff(x, keep_size=0, **kw(i)))
    add('noop:subset_neuron(mesh all)', 'me', lambda x, p, i: navis.subset_neuron(x, np.arange(len(x.vertices)), **kw(i)), lists=False)
    add('noop:subset_neuron(dotprops all)', 'dp', lambda x, p, i: navis.subset_neuron(x, np.arange(len(x.points)), **kw(i)), lists=False)
    add('noop:Dotprops.downsample(1)', 'dp', lambda x, p, i: x.downsample(1, **kw(i)))
    add('noop:VoxelNeuron.threshold(0)', 'vx', lambda x, p, i: x.threshold(0, **kw(i)))
    add('noop:VoxelNeuron.strip', 'vx', lambda x, p, i: x.strip(**kw(i)))
    # arithmetic: the plain operator copies, the augmented one works in place
    def dunder(name, arg):
        def g(x):
            if not hasattr(x, name):
                raise SkipInplace()       # no in-place dunder: `x *= 2` is plain Python rebinding, nothing to compare
            return getattr(x, name)(arg)
        return g
    for nm, f, g in (('mul', lambda x: x * 2, dunder('__imul__', 2)), ('truediv', lambda x: x / 2, dunder('__itruediv__', 2)),
                     ('add', lambda x: x + 3, dunder('__iadd__', 3)), ('sub', lambda x: x - 3, dunder('__isub__', 3))):
        add('operator:' + nm, ('sk', 'me', 'dp', 'vx'), (lambda f, g: lambda x, p, i: (g(x) if i else f(x)))(f, g))
    add('copy', ('sk', 'me', 'dp', 'vx'), lambda x, p, i: x.copy(), inplace=False)
    add('copy.deepcopy', 'sk', lambda x, p, i: _copy.deepcopy(x), inplace=False)
    # ---- analysis: no inplace parameter; may add ONE documented column
    add('strahler_index', 'sk', lambda x, p, i: navis.strahler_index(x), inplace=False, annot=['strahler_index'])
    add('flow_centrality', 'sk', lambda x, p, i: navis.flow_centrality(x), inplace=False, annot=['flow_centrality'])
    add('synapse_flow_centrality', 'sk', lambda x, p, i: navis.synapse_flow_centrality(x), inplace=False, annot=['synapse_flow_centrality'])
    add('bending_flow', 'sk', lambda x, p, i: navis.bending_flow(x), inplace=False, annot=['bending_flow'])
    add('arbor_segregation_index', 'sk', lambda x, p, i: navis.arbor_segregation_index(x), inplace=False, annot=['segregation_index'])
    add('betweeness_centrality', 'sk', lambda x, p, i: navis.betweeness_centrality(x), inplace=False, annot=['betweenness'])
    add('segregation_index', 'sk', lambda x, p, i: navis.segregation_index(x), inplace=False, lists=False)
    add('segment_analysis', 'sk', lambda x, p, i: navis.segment_analysis(x), inplace=False, annot=['strahler_index'])
    add('sholl_analysis', 'sk', lambda x, p, i: navis.sholl_analysis(x, radii=[5, 20, 50], center=[0, 0, 0]), inplace=False)
    add('tortuosity', 'sk', lambda x, p, i: navis.tortuosity(x), inplace=False)
    add('dist_to_root', 'sk', lambda x, p, i: navis.dist_to_root(x), inplace=False, lists=False)
    add('geodesic_matrix', 'sk', lambda x, p, i: navis.geodesic_matrix(x), inplace=False, lists=False)
    add('dist_between', 'sk', lambda x, p, i: navis.dist_between(x, p['a'], p['b']), lambda x, rng: dict(a=pick(rng, ids(x)), b=pick(rng, ids(x))), inplace=False, lists=False)
    add('distal_to', 'sk', lambda x, p, i: navis.distal_to(x, p['a'], p['b']), lambda x, rng: dict(a=pick(rng, ids(x)), b=pick(rng, ids(x))), inplace=False, lists=False)
    add('segment_length', 'sk', lambda x, p, i: navis.segment_length(x, x.segments[0]), inplace=False, lists=False)
    add('cut_skeleton', 'sk', lambda x, p, i: navis.cut_skeleton(x, p['n']), lambda x, rng: dict(n=pick(rng, nonroot(x))), inplace=False, lists=False)
    add('split_into_fragments', 'sk', lambda x, p, i: navis.split_into_fragments(x, n=2, reroot_soma=p['rs']), lambda x, rng: dict(rs=bool(rng.random() < 0.5)), inplace=False, lists=False)
    add('break_fragments', 'sk', lambda x, p, i: navis.break_fragments(x), inplace=False, lists=False)
    add('break_fragments(labels_only)', 'sk', lambda x, p, i: navis.break_fragments(x, labels_only=True), inplace=False, annot=['fragment'], lists=False)
    add('split_axon_dendrite', 'sk', lambda x, p, i: navis.split_axon_dendrite(x, metric=p['m'], reroot_soma=p['rs']),
        lambda x, rng: dict(m=str(rng.choice(['synapse_flow_centrality', 'flow_centrality', 'bending_flow'])), rs=bool(rng.random() < 0.5)), inplace=False)
    add('split_axon_dendrite(label_only)', 'sk', lambda x, p, i: navis.split_axon_dendrite(x, label_only=True), inplace=False, annot=['compartment'])
    add('find_main_branchpoint', 'sk', lambda x, p, i: navis.find_main_branchpoint(x, reroot_soma=p['rs']), lambda x, rng: dict(rs=bool(rng.random() < 0.5)), inplace=False, lists=False, annot=['betweenness'])
    add('find_soma', 'sk', lambda x, p, i: navis.find_soma(x), inplace=False, lists=False)
    add('classify_nodes', 'sk', lambda x, p, i: navis.graph.classify_nodes(x, **kw(i)))
    add('health_check', 'sk', lambda x, p, i: navis.health_check(x, verbose=False), inplace=False, lists=False)
    add('neuron2nx', 'sk', lambda x, p, i: navis.neuron2nx(x), inplace=False, lists=False)
    add('neuron2igraph', 'sk', lambda x, p, i: navis.neuron2igraph(x), inplace=False, lists=False)
    add('neuron2tangents', 'sk', lambda x, p, i: navis.neuron2tangents(x), inplace=False)
    add('persistence_points', 'sk', lambda x, p, i: navis.persistence_points(x), inplace=False)
    add('stitch_skeletons', 'sk', lambda x, p, i: navis.stitch_skeletons(navis.NeuronList([x, p['other']()]), method='LEAFS'),
        lambda x, rng: dict(other=gen_skeleton(np.random.default_rng(int(rng.integers(1 << 30)))).build), inplace=False, lists=False)
    # map_neuronlist with parallel=True but nothing to parallelise (one core / one neuron): still must not touch the inputs
    add('prune_twigs(parallel, n_cores=1)', 'sk', lambda x, p, i: navis.prune_twigs(x, 8.0, parallel=True, n_cores=1, **kw(i)), list_only=True)
    add('downsample_neuron(parallel, n_cores=1)', 'sk', lambda x, p, i: navis.downsample_neuron(x, 2, parallel=True, n_cores=1, **kw(i)), list_only=True)
    add('prune_twigs(parallel, one neuron)', 'sk', lambda x, p, i: navis.prune_twigs(x[:1], 8.0, parallel=True, n_cores=2, **kw(i)), inplace=False, list_only=True)
    # functions whose INPUT is a list of neurons: every member is an input (ids overlapping between members on purpose)
    for meth in ('LEAFS', 'NONE', 'ALL'):
        add('stitch_skeletons(list,%s)' % meth, 'sk', (lambda meth: lambda x, p, i: navis.stitch_skeletons(x, method=meth))(meth), inplace=False, list_only=True, same_ids=True)
    add('stitch_skeletons(list,master)', 'sk', lambda x, p, i: navis.stitch_skeletons(x, method='LEAFS', master='FIRST'), inplace=False, list_only=True, same_ids=True)
    add('combine_neurons(list)', ('sk', 'me', 'dp'), lambda x, p, i: navis.combine_neurons(x), inplace=False, list_only=True, same_ids=True)
    add('NeuronList.apply', ('sk', 'me', 'dp'), lambda x, p, i: x.apply(lambda n: n * 2 if hasattr(n, 'nodes') or True else n), inplace=False, list_only=True)
    add('nblast(list)', 'dp', lambda x, p, i: navis.nblast(x, x, progress=False, n_cores=1), inplace=False, list_only=True)
    add('combine_neurons', ('sk', 'me', 'dp'), lambda x, p, i: navis.combine_neurons(x, x.copy()), inplace=False, lists=False)
    add('properties', 'sk', lambda x, p, i: (x.graph, x.segments, x.small_segments, x.cable_length, x.bbox, x.leafs, x.branch_points, x.root, x.simple, x.summary(), x.n_trees, x.subtrees, x.geodesic_matrix), inplace=False)
    add('properties', ('me', 'dp', 'vx'), lambda x, p, i: (x.bbox, x.summary(), x.volume if hasattr(x, 'volume') else None), inplace=False)
    # ---- conversions / io / transforms / similarity
    add('make_dotprops', ('sk', 'me', 'dp'), lambda x, p, i: navis.make_dotprops(x, k=p['k']), lambda x, rng: dict(k=int(rng.choice([0, 3, 5])) if type(x).__name__ == 'TreeNeuron' else int(rng.choice([3, 5]))), inplace=False)
    add('mesh(skeleton)', 'sk', lambda x, p, i: navis.mesh(x), inplace=False)
    add('mesh(voxels)', 'vx', lambda x, p, i: navis.mesh(x), inplace=False)
    add('voxelize', ('sk', 'me', 'dp'), lambda x, p, i: navis.voxelize(x, pitch=4, counts=True), inplace=False)
    add('skeletonize', 'me', lambda x, p, i: navis.skeletonize(x), inplace=False)
    add('xform(affine)', ('sk', 'me', 'dp'), lambda x, p, i: navis.xform(x, p['t']), lambda x, rng: dict(t=_affine(rng)), inplace=False)
    add('mirror_brain', ('sk', 'me', 'dp'), lambda x, p, i: navis.mirror_brain(x, template=p['tb'], mirror_axis='x', warp=False),
        lambda x, rng: dict(tb=navis.transforms.templates.TemplateBrain(label='TB', name='TB', boundingbox=[[-100, 100], [-100, 100], [-100, 100]])), inplace=False)
    add('write_swc', 'sk', lambda x, p, i: navis.io.swc_io.make_swc_table(x), inplace=False, lists=False)
    add('nblast', 'dp', lambda x, p, i: navis.nblast(navis.NeuronList([x]) if not isinstance(x, navis.NeuronList) else x, navis.NeuronList([x]) if not isinstance(x, navis.NeuronList) else x, progress=False, n_cores=1), inplace=False)
    add('cable_overlap', 'sk', lambda x, p, i: navis.cable_overlap(x, x.copy(), dist=5), inplace=False, lists=False)
    add('connectivity:adjacency', 'sk', lambda x, p, i: navis.connectivity.adjacency.NeuronConnector([x]).to_adjacency() if hasattr(navis.connectivity, 'adjacency') else None, inplace=False, lists=False)
    # ---- meshes
    add('smooth_mesh', 'me', lambda x, p, i: navis.smooth_mesh(x, iterations=2, backend='trimesh', **kw(i)))
    add('fix_mesh', 'me', lambda x, p, i: navis.fix_mesh(x, remove_fragments=1, **kw(i)))
    add('drop_fluff(mesh)', 'me', lambda x, p, i: navis.drop_fluff(x, **kw(i)))
    add('subset_neuron(mesh)', 'me', lambda x, p, i: navis.subset_neuron(x, p['s'], **kw(i)), lambda x, rng: dict(s=np.arange(len(x.vertices))[: max(4, len(x.vertices) * 2 // 3)]), lists=False)
    add('MeshNeuron.validate', 'me', lambda x, p, i: x.validate(**kw(i)))
    add('MeshNeuron.skeleton', 'me', lambda x, p, i: x.skeleton, inplace=False)
    # ---- dotprops
    add('Dotprops.downsample', 'dp', lambda x, p, i: x.downsample(2, **kw(i)))
    add('downsample_neuron(dotprops)', 'dp', lambda x, p, i: navis.downsample_neuron(x, 2, **kw(i)))
    add('Dotprops.drop_fluff', 'dp', lambda x, p, i: x.drop_fluff(epsilon=8, **kw(i)))
    add('Dotprops.recalculate_tangents', 'dp', lambda x, p, i: x.recalculate_tangents(k=3, **kw(i)))
    add('subset_neuron(dotprops)', 'dp', lambda x, p, i: navis.subset_neuron(x, p['s'], **kw(i)), lambda x, rng: dict(s=np.arange(len(x.points))[: max(3, len(x.points) * 2 // 3)]), lists=False)
    add('Dotprops.to_skeleton', 'dp', lambda x, p, i: x.to_skeleton(), inplace=False)
    # ---- voxels
    add('smooth_voxels', 'vx', lambda x, p, i: navis.smooth_voxels(x, sigma=1, **kw(i)))
    add('thin_voxels', 'vx', lambda x, p, i: navis.thin_voxels(x, **kw(i)))
    add('VoxelNeuron.strip', 'vx', lambda x, p, i: x.strip(**kw(i)))
    add('VoxelNeuron.threshold', 'vx', lambda x, p, i: x.threshold(2, **kw(i)))
    return C


def _box_around(x, whole=False, away=False):
    import navis
    import trimesh
    if hasattr(x, 'nodes') and not isinstance(x, navis.NeuronList):
        pts = x.nodes[['x', 'y', 'z']].values
    elif isinstance(x, navis.NeuronList):
        return _box_around(x[0], whole=whole, away=away)
    elif hasattr(x, 'points'):
        pts = np.asarray(x.points)
    else:
        pts = np.asarray(x.vertices)
    lo, hi = pts.min(axis=0) - 1, pts.max(axis=0) + 1
    mid = (lo + hi) / 2
    hi2 = hi.copy(); hi2[0] = mid[0] + 0.123
    if whole:
        lo, hi2 = lo - 500, hi + 500       # contains every neuron of the case (all are generated within a few hundred units)
    if away:
        lo, hi2 = lo + 5000, hi2 + 5000
    m = trimesh.creation.box(extents=hi2 - lo)
    m.apply_translation((hi2 + lo) / 2)
    return navis.Volume(m.vertices, m.faces, name='box')


def _affine(rng):
    import navis
    m = np.eye(4)
    m[:3, :3] = np.diag(rng.choice([1.0, 2.0, 0.5], size=3))
    m[:3, 3] = rng.integers(-10, 10, size=3)
    return navis.transforms.AffineTransform(m)


# ----------------------------------------------------------------------------------------------- one case
def neurons_of(r):
    import navis
    if isinstance(r, navis.NeuronList):
        return list(r.neurons)
    if isinstance(r, navis.BaseNeuron):
        return [r]
    return None


def run_case(ctx, navis, entry, spec_list, rng, as_list):
    build = (lambda: navis.NeuronList([s.build() for s in spec_list])) if as_list else spec_list[0].build
    x = build()
    first = x[0] if as_list else x
    try:
        p = entry['gen'](first, rng)
    except ValueError:      # e.g. an entry that needs a non-root node on a neuron made of isolated nodes
        ctx.count('skipped:no-admissible-parameters')
        return
    d = dict(op=entry['name'], neuron=[s.desc for s in spec_list], list=as_list, params={k: (v if isinstance(v, (int, float, str, bool, list)) else type(v).__name__) for k, v in p.items()})
    before = snap(x)
    st, r = guarded(entry['call'], x, p, False)
    if st != 'ok':
        ctx.count('rejected:' + entry['name'])
        return
    ctx.count('op:' + entry['name']); ctx.count('kind:' + spec_list[0].kind + ('-list' if as_list else ''))
    after = snap(x)
    dd = diff(before, after, entry['annot'])
    changed = False
    rs = neurons_of(r)
    res_snap = None
    if rs is not None and isinstance(r, (navis.BaseNeuron, navis.NeuronList)):
        res_snap = snap(r)
        changed = bool(diff(before, res_snap)) if (isinstance(r, navis.NeuronList) == as_list) else True
    ctx.case((entry['name'], as_list, str(d['neuron']), str(d['params'])), nontrivial=changed or rs is None, sample=None)
    if dd:
        ctx.violation('the call without inplace=True modified its input', d, dict(changed=dd[:8]), key=_known_key(entry, dd, p))
        return
    if entry['inplace'] and r is x:
        ctx.violation('the call without inplace=True returned the very object it was given', d)
        return
    # later edits to the result must not leak back
    base = snap(x)     # includes an allowed annotation column, if any
    if r is x or (as_list and isinstance(r, navis.NeuronList) and any(a is b for a in r.neurons for b in x.neurons)):
        ctx.count('returns-input:' + entry['name'])      # annotators hand back the neuron they were given (documented)
        return
    scribble(r)
    dd = diff(base, snap(x))
    if dd:
        ctx.violation('editing the result changed the input (shared table / array / container)', d, dict(changed=dd[:8]), key=_known_key(entry, dd, p, leak=True))
        return
    if not entry['inplace'] or res_snap is None:
        return
    # inplace=True on an independently built twin: same object, same final state as the result above
    twin = build()
    st, ret = guarded(entry['call'], twin, p, True)
    if st != 'ok' and 'SkipInplace' in str(ret):
        ctx.count('no-inplace-dunder:' + entry['name'])
        return
    if st != 'ok':
        ctx.violation('the call succeeded without inplace but raised with inplace=True', d, ret)
        return
    if ret is not None and ret is not twin and not (as_list and isinstance(ret, navis.NeuronList)):
        ctx.violation('inplace=True returned a different object', d, type(ret).__name__)
        return
    dd = diff(res_snap, snap(twin))
    if dd:
        ctx.violation('inplace=True does not leave the object in the state of the non-inplace result', d, dict(differs=dd[:8]))


def _known_key(entry, dd, p, leak=False):
    return None


def scenarios(ctx, navis, rng):
    """model/Alias.v scenarios evaluated in Coq with the policy extracted from the current source vs the implementation"""
    from translate import alias as T
    pol = dict(T.copy_policy('TreeNeuron', T.CLASS_FILES['TreeNeuron'])[1])
    tags_pol = pol.get('tags', 'Shallow')
    progs = [('tags-append', '[OWriteElem 0%nat 7%Z 42%Z]', '(PElem 0%nat 7%Z)'), ('table-write', '[OWrite 1%nat 3%Z]', '(PTop 1%nat)'),
             ('rebind', '[ORebind 1%nat 4%Z]', '(PTop 1%nat)'), ('rebind-then-append', '[ORebind 1%nat 4%Z; OWriteElem 0%nat 7%Z 42%Z]', '(PElem 0%nat 7%Z)')]
    exprs = ['leak_after (fun a => match a with 0%%nat => %s | _ => Shallow end) %s %s' % (tags_pol, ops, path) for _, ops, path in progs]
    out = coqio.eval_terms('C03', ['model.Alias', 'proofs.AliasProofs'], exprs, shard=50)
    for (name, _, _), predicted in zip(progs, out):
        sp = gen_skeleton(rng)
        x = sp.build()
        before = snap(x)
        y = x.copy()
        if 'rebind' in name:
            y.nodes = y.nodes.copy()
        if 'append' in name:
            y.tags['ends'].append(-1)
        if name == 'table-write':
            y.nodes.loc[:, 'x'] = -7.0
        leaked = bool(diff(before, snap(x)))
        ctx.case(('scenario', name), nontrivial=True); ctx.count('scenario:' + name)
        if bool(predicted) != leaked:
            ctx.mismatch('model/Alias.v with the extracted copy policy (tags: %s) predicts leak=%s for scenario %s, the implementation shows leak=%s'
                         % (tags_pol, bool(predicted), name, leaked), dict(scenario=name))
        if leaked:
            ctx.violation('editing a copy changed the original', dict(scenario=name, neuron=sp.desc))
    # container attributes the model does not know about: anything in __dict__ that is a dict / list holding mutable elements
    for kind in GENS:
        x = GENS[kind](rng).build()
        for k, v in vars(x).items():
            els = list(v.values()) if isinstance(v, dict) else (v if isinstance(v, list) else [])
            if any(isinstance(e, (list, dict, np.ndarray, pd.DataFrame)) for e in els) and k not in ('tags', '_temp_attributes', '_TEMP_ATTR'):
                ctx.mismatch('a container attribute with mutable elements that model/Alias.v does not list', dict(cls=type(x).__name__, attr=k))


def run(ctx):
    import navis
    navis.set_loggers('ERROR')
    navis.set_pbars(hide=True)
    rng = ctx.rng
    for name, (ok, msg) in ctx.extra.get('translate', {}).items():
        pass
    scenarios(ctx, navis, rng)
    C = catalogue()
    reps = ctx.n(2, 12)
    for entry in C:
        kinds = (entry['kinds'],) if isinstance(entry['kinds'], str) else entry['kinds']
        for kind in kinds:
            if entry['list_only']:
                for rep in range(reps):
                    if entry['same_ids'] and kind == 'sk':
                        seed = int(rng.integers(1 << 30))       # the same forest (same node ids) twice or three times, moved apart
                        specs = [gen_skeleton(np.random.default_rng(seed), shift=150.0 * j) for j in range(int(rng.integers(2, 4)))]
                    else:
                        specs = [GENS[kind](rng) for _ in range(int(rng.integers(2, 4)))]
                    run_case(ctx, navis, entry, specs, rng, as_list=True)
                continue
            for rep in range(reps):
                spec = GENS[kind](rng)
                run_case(ctx, navis, entry, [spec], rng, as_list=False)
            if entry['lists']:
                for rep in range(max(1, reps // 2)):
                    specs = [GENS[kind](rng) for _ in range(int(rng.integers(2, 4)))]
                    run_case(ctx, navis, entry, specs, rng, as_list=True)
