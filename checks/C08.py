"""C08 — transforms, sequences and bridging paths map points as defined."""
from fractions import Fraction

import numpy as np

from vlib import coqio
from vlib.coqio import term, Raw
from vlib.framework import guarded

RULE = ('affine transforms: random integer matrices with non-zero determinant (exact stream, compared exactly with the Coq model) and '
        'well-conditioned real matrices (1e-9); thin-plate-spline and moving-least-squares transforms on landmark sets in general position; '
        'transform sequences of 1-4 members on point arrays with NaN rows, single points, float32; registries of 2-8 templates with random '
        'forward-only / invertible registrations, parallel registrations, weights, cycles, disconnected templates x all kinds of '
        '(source, target, via, avoid) queries. non-trivial = registry query with via or avoid, or a sequence of >= 2 members; '
        'distinct = distinct (matrices / registry, query).')
ASSUMPTIONS = ['np.linalg.inv / solve and morphops / molesq are trusted numerical libraries; TPS/MLS landmark interpolation is checked numerically (1e-6), no theorem',
               'templates carry consistent frames by construction of the generated registries (each registration = F_target o F_source^-1)']


def flat(v):
    out = []
    for x in v:
        if isinstance(x, tuple):
            out += flat(x)
        else:
            out.append(x)
    return out


def vec(p):
    return '{| vx := %s; vy := %s; vz := %s |}' % tuple(term(Fraction(float(v))) for v in p)


def mat(M):
    return '{| r1 := %s; r2 := %s; r3 := %s |}' % tuple(vec(r) for r in M)


def aff(M, b):
    return '{| lin := %s; off := %s |}' % (mat(M), vec(b))


def rand_int_affine(rng, unimodular=False):
    while True:
        if unimodular:
            M = np.eye(3, dtype=int)
            for _ in range(int(rng.integers(1, 5))):
                i, j = rng.choice(3, size=2, replace=False)
                E = np.eye(3, dtype=int)
                E[i, j] = int(rng.integers(-2, 3))
                M = M @ E
            if rng.random() < 0.5:
                M = M[:, rng.permutation(3)]
        else:
            M = rng.integers(-4, 5, size=(3, 3))
        if round(np.linalg.det(M)) != 0:
            return M.astype(float), rng.integers(-9, 10, size=3).astype(float)


def hom(M, b):
    H = np.eye(4)
    H[:3, :3] = M
    H[:3, 3] = b
    return H


def run(ctx):
    import navis
    from navis import transforms as tr
    from navis.transforms.templates import TemplateRegistry
    from navis.transforms.base import TransformSequence, FunctionTransform
    tr.TransformSequence, tr.FunctionTransform = TransformSequence, FunctionTransform
    navis.set_loggers('ERROR')
    navis.set_pbars(hide=True)
    rng = ctx.rng
    exprs, followups = [], []
    # ---------------- affine (exact stream) + sequences ----------------
    for ci in range(ctx.n(40, 600)):
        k = int(rng.integers(1, 5))
        mats = [rand_int_affine(rng) for _ in range(k)]
        pts = rng.integers(-20, 21, size=(int(rng.integers(1, 7)), 3)).astype(float)
        nanrows = rng.random(len(pts)) < 0.25
        P = pts.copy()
        for i_ in np.nonzero(nanrows)[0]:          # whole-row NaN or NaN in only some coordinates (x may stay finite)
            cols_ = [0, 1, 2] if rng.random() < 0.4 else [int(v) for v in rng.choice([0, 1, 2], size=int(rng.integers(1, 3)), replace=False)]
            P[i_, cols_] = np.nan
        if rng.random() < 0.3:
            P = P.astype(np.float32)
        P0 = P.copy()
        # matrices as users register them: float, or integer-typed (the voxel -> nm registrations are int64 matrices)
        int_mats = bool(rng.random() < 0.3)
        ts = [tr.AffineTransform(hom(M, b).astype(np.int64) if int_mats else hom(M, b)) for M, b in mats]
        seq = tr.TransformSequence(*ts) if k > 1 or rng.random() < 0.5 else None
        st, out = guarded((seq.xform if seq is not None else ts[0].xform), P)
        desc = dict(kind='affine-sequence', matrices=[(M.tolist(), b.tolist()) for M, b in mats], points=P0.tolist(), as_sequence=seq is not None, integer_matrices=int_mats)
        ctx.case((str(desc['matrices']), str(desc['points'])), nontrivial=k >= 2, sample=desc if ci < 2 else None)
        ctx.count('affine-sequence')
        if st != 'ok':
            ctx.violation('xform raised', desc, out)
            continue
        if not np.array_equal(np.isnan(P), np.isnan(P0)) or not np.array_equal(P[~np.isnan(P)], P0[~np.isnan(P0)]):
            ctx.violation('transform modified its input array', desc)
        rows = '[' + '; '.join('None' if nanrows[i] else '(Some %s)' % vec(pts[i]) for i in range(len(pts))) + ']'
        fs = '[' + '; '.join('axform %s' % aff(M, b) for M, b in mats) + ']'
        if seq is None and nanrows.any():
            continue      # a bare AffineTransform makes no promise about NaN rows
        exprs.append('map (fun r => match r with Some v => Some (qout (vx v), qout (vy v), qout (vz v)) | None => None end) (seq_xform %s %s)' % (fs, rows))
        followups.append(('seq', desc, out))
        # a negated SEQUENCE undoes the sequence (members inverted in reverse order)
        if seq is not None and k > 1:
            stn, backs = guarded(lambda: (-seq).xform(seq.xform(pts)))
            ctx.count('negated-sequence')
            if stn != 'ok' or np.abs(np.asarray(backs, dtype=float) - pts).max() > 1e-8 * max(1.0, np.abs(pts).max()):
                ctx.violation('negated transform sequence does not undo the sequence', desc, backs if stn != 'ok' else dict(back=np.asarray(backs).tolist(), points=pts.tolist()))
        # negation is the exact inverse
        M, b = mats[0]
        T = ts[0]
        back = (-T).xform(T.xform(pts))
        tol = 1e-9 * max(1.0, np.abs(pts).max())
        if np.abs(back - pts).max() > tol:
            ctx.violation('negated affine transform is not the inverse', desc, dict(back=back.tolist()))
        exprs.append('map (fun p => let q := axform (aneg %s) (axform %s p) in (qout (vx q), qout (vy q), qout (vz q))) [%s]' % (aff(M, b), aff(M, b), '; '.join(vec(p) for p in pts)))
        followups.append(('neg', desc, pts))
    # ---------------- generic affine, TPS, MLS ----------------
    for ci in range(ctx.n(25, 300)):
        A = rng.normal(size=(3, 3)) + 2 * np.eye(3)
        if abs(np.linalg.det(A)) < 0.3:
            continue
        b = rng.normal(size=3) * 10
        T = tr.AffineTransform(hom(A, b))
        pts = rng.normal(size=(5, 3)) * 20
        want = pts @ A.T + b
        got = T.xform(pts)
        ctx.case(('affine-real', ci), nontrivial=True)
        ctx.count('affine-real')
        if np.abs(got - want).max() > 1e-9 * max(1, np.abs(want).max()) or np.abs((-T).xform(got) - pts).max() > 1e-8 * max(1, np.abs(pts).max()):
            ctx.violation('affine transform does not map points by its matrix / negation is not the inverse', dict(matrix=A.tolist(), offset=b.tolist()),
                          dict(got=got.tolist(), want=want.tolist()))
        n_l = int(rng.integers(5, 12))
        src = rng.normal(size=(n_l, 3)) * 30
        tgt = src + rng.normal(size=(n_l, 3)) * 3
        for name, cls in (('TPS', tr.TPStransform), ('MLS', tr.MovingLeastSquaresTransform)):
            st, t_ = guarded(cls, src, tgt)
            d = dict(kind=name, source=src.tolist(), target=tgt.tolist())
            ctx.case((name, ci), nontrivial=True)
            ctx.count(name)
            if st != 'ok':
                ctx.violation('%s transform could not be constructed' % name, d, t_)
                continue
            st1, fwd = guarded(t_.xform, src)
            st2, bwd = guarded((-t_).xform, tgt)
            scale = max(1.0, np.abs(src).max())
            if st1 != 'ok' or np.abs(fwd - tgt).max() > 1e-6 * scale:
                ctx.violation('%s transform does not send every source landmark to its target landmark' % name, d, fwd if st1 != 'ok' else fwd.tolist())
            if st2 != 'ok' or np.abs(bwd - src).max() > 1e-6 * scale:
                ctx.violation('negated %s transform does not send every target landmark back to its source landmark' % name, d, bwd if st2 != 'ok' else bwd.tolist())
            # point arrays of other dtypes (integer voxel coordinates, float32) are moved like the same points given as float64
            qi = rng.integers(-40, 41, size=(6, 3))
            st9, ref = guarded(t_.xform, qi.astype(np.float64))
            for dt_ in (np.int64, np.int32, np.float32):
                qd = qi.astype(dt_)
                st10, gd = guarded(t_.xform, qd)
                ctx.count('%s:dtype' % name)
                if st9 == 'ok' and (st10 != 'ok' or np.abs(np.asarray(gd, dtype=float) - ref).max() > 1e-9 * scale):
                    ctx.violation('%s transform moves a point array of another dtype differently from the same points as float64' % name,
                                  dict(d, dtype=str(np.dtype(dt_)), points=qi.tolist()), gd if st10 != 'ok' else dict(got=np.asarray(gd).tolist(), want=ref.tolist()))
                    break
                if not np.array_equal(qd, qi.astype(dt_)):
                    ctx.violation('transform modified its input array', dict(d, dtype=str(np.dtype(dt_))))
            # negation is an involution on the direction: -(-T) is T again; a transform built in the inverse direction and negated is forward;
            # after T has been evaluated (cached coefficients) its negation must still be the inverse; sequences invert member-wise
            st3, ff = guarded(lambda: (-(-t_)).xform(src))
            if st3 != 'ok' or np.abs(ff - tgt).max() > 1e-6 * scale:
                ctx.violation('-(-T) of a %s transform does not send every source landmark to its target landmark' % name, d, ff if st3 != 'ok' else ff.tolist())
            if name == 'MLS':
                st4, inv_ = guarded(cls, src, tgt, direction='inverse')
                if st4 == 'ok':
                    s5, a5 = guarded(inv_.xform, tgt)
                    s6, a6 = guarded((-inv_).xform, src)
                    if s5 != 'ok' or np.abs(a5 - src).max() > 1e-6 * scale:
                        ctx.violation('MLS transform built with direction="inverse" does not send target landmarks to source landmarks', d, a5 if s5 != 'ok' else a5.tolist())
                    if s6 != 'ok' or np.abs(a6 - tgt).max() > 1e-6 * scale:
                        ctx.violation('negating an inverse-direction MLS transform does not give the forward transform', d, a6 if s6 != 'ok' else a6.tolist())
            st7, sq = guarded(lambda: (-TransformSequence(t_)).xform(tgt))
            if st7 != 'ok' or np.abs(sq - src).max() > 1e-6 * scale:
                ctx.violation('negated sequence containing a %s transform does not map target landmarks back' % name, d, sq if st7 != 'ok' else sq.tolist())
            st8, sq2 = guarded(lambda: (-TransformSequence(-t_)).xform(src))
            if st8 != 'ok' or np.abs(sq2 - tgt).max() > 1e-6 * scale:
                ctx.violation('negated sequence containing a negated %s transform does not map source landmarks forward' % name, d, sq2 if st8 != 'ok' else sq2.tolist())
    # ---------------- registries ----------------
    regjobs = []
    for ci in range(ctx.n(35, 500)):
        nt = int(rng.integers(3, 9))
        frames = [rand_int_affine(rng, unimodular=True) for _ in range(nt)]
        H = [hom(M, b) for M, b in frames]
        reg = TemplateRegistry(scan_paths=False)
        regs = []
        for _ in range(int(rng.integers(nt, 3 * nt + 1))):
            a, b_ = (int(v) for v in rng.choice(nt, size=2, replace=False))
            mat_ = H[b_] @ np.linalg.inv(H[a])
            mat_ = np.round(mat_)       # unimodular frames: integer matrices
            invertible = bool(rng.random() < 0.6)
            w = int(rng.integers(1, 4))
            if invertible:
                t_ = tr.AffineTransform(mat_)
            else:
                t_ = tr.FunctionTransform(lambda p, m=mat_: (np.c_[p, np.ones(len(p))] @ m.T)[:, :3])
            reg.register_transform(t_, source='T%d' % a, target='T%d' % b_, transform_type='bridging', weight=w, skip_existing=False)
            regs.append((a, b_, len(regs), invertible, w))
        recip = bool(rng.random() < 0.8)
        for qi in range(int(rng.integers(2, 7))):
            s_, t_ = (int(v) for v in rng.choice(nt, size=2, replace=False))
            others = [i for i in range(nt) if i not in (s_, t_)]
            mode = str(rng.choice(['plain', 'via', 'avoid', 'both', 'both', 'both']))
            via, avoid = [], []
            if others and mode in ('via', 'both'):
                via = sorted(int(v) for v in rng.choice(others, size=min(len(others), int(rng.integers(1, 3))), replace=False))
            rest = [o for o in others if o not in via]
            if rest and mode in ('avoid', 'both'):
                avoid = sorted(int(v) for v in rng.choice(rest, size=min(len(rest), int(rng.integers(1, 3))), replace=False))
            st, res = guarded(reg.find_bridging_path, 'T%d' % s_, 'T%d' % t_, via=['T%d' % v for v in via] or None,
                              avoid=['T%d' % v for v in avoid] or None, reciprocal=recip)
            es = 'bridging_edges %s [%s]' % (term(recip), '; '.join('{| rsrc := %d; rtgt := %d; rtid := %d; rinv := %s; rw := %d |}' % (a, b_, i, term(iv), w) for a, b_, i, iv, w in regs))
            desc = dict(kind='registry', templates=nt, registrations=regs, reciprocal=recip, source=s_, target=t_, via=via, avoid=avoid)
            known_nodes = set(a for a, _, _, _, _ in regs) | set(b_ for _, b_, _, _, _ in regs)
            path = [int(p[1:]) for p in res[0]] if st == 'ok' else None
            exprs.append('(admissible_exists (%s) %d%%nat %s %s %s %s, %s)' % (es, nt, term(s_), term(t_), term(via), term(avoid),
                                                                                 ('path_ok (%s) %s %s %s %s %s' % (es, term(s_), term(t_), term(via), term(avoid), term(path))) if path is not None else 'false'))
            pts = rng.integers(-10, 11, size=(4, 3)).astype(float)
            got = None
            if st == 'ok':
                st2, got = guarded(tr.TransformSequence(*res[1]).xform, pts)
                if st2 != 'ok':
                    got = None
            want = (np.c_[pts, np.ones(4)] @ (H[t_] @ np.linalg.inv(H[s_])).T)[:, :3]
            followups.append(('reg', desc, dict(status=st, result=str(res)[:300], path=path, got=got, want=want,
                                                nodes_known=s_ in known_nodes and t_ in known_nodes and all(v in known_nodes for v in via))))
    out = coqio.eval_terms('C08', ['model.Dist', 'model.Xf'], exprs, shard=60)
    for (kind, desc, extra), r in zip(followups, out):
        if kind == 'seq':
            got = extra
            for i, row in enumerate(r):
                if row is None:
                    src_ = np.asarray(desc['points'][i], dtype=float)
                    g_ = np.asarray(got[i], dtype=float)
                    if not (np.array_equal(np.isnan(g_), np.isnan(src_)) and np.array_equal(g_[~np.isnan(g_)], src_[~np.isnan(src_)])):
                        ctx.violation('a row containing NaN was not left untouched by the transform sequence', desc, dict(row=i, got=g_.tolist(), given=src_.tolist()))
                        break
                else:
                    v = flat(row.v)
                    want = [float(Fraction(v[0], v[1])), float(Fraction(v[2], v[3])), float(Fraction(v[4], v[5]))]
                    if np.abs(np.asarray(got[i], dtype=float) - want).max() > 1e-9 * max(1, max(abs(w) for w in want)):
                        ctx.violation('transform sequence differs from the composition of its members applied in order', desc, dict(row=i, got=np.asarray(got[i]).tolist(), model=want))
                        break
        elif kind == 'neg':
            for p, q in zip(extra, r):
                q = flat(q)
                want = [float(Fraction(q[0], q[1])), float(Fraction(q[2], q[3])), float(Fraction(q[4], q[5]))]
                if list(map(float, p)) != want:
                    ctx.mismatch('model: neg o xform is not the identity on an exact input', desc, dict(point=list(p), model=want))
        else:
            exists, ok = r
            e = extra
            ctx.case((str(desc['registrations']), desc['source'], desc['target'], str(desc['via']), str(desc['avoid']), desc['reciprocal']),
                     nontrivial=bool(desc['via'] or desc['avoid']), sample=desc if len(desc['registrations']) < 4 else None)
            ctx.count('registry:' + ('via+avoid' if desc['via'] and desc['avoid'] else 'via' if desc['via'] else 'avoid' if desc['avoid'] else 'plain'))
            if e['status'] == 'ok':
                if not ok:
                    ctx.violation('found bridging path is not admissible (not a path from source to target / misses via / touches avoid)', desc, dict(path=e['path']))
                elif e['got'] is None or np.abs(e['got'] - e['want']).max() > 1e-9 * max(1, np.abs(e['want']).max()):
                    ctx.violation('bridging sequence does not map points as the direct source-to-target change of frame', desc,
                                  dict(path=e['path'], got=None if e['got'] is None else e['got'].tolist(), want=e['want'].tolist()))
            else:
                if exists and e['nodes_known']:
                    ctx.violation('an admissible bridging path exists but find_bridging_path raised', desc, e['result'])
                elif e['status'] == 'crashed' and 'NetworkXNoPath' not in e['result'] and 'NodeNotFound' not in e['result']:
                    ctx.violation('find_bridging_path crashed', desc, e['result'])
