"""C18 — inside/outside tests and nearest-neighbour snapping are geometrically exact.

Ground truth comes from model/Volume.v (unions / differences of boxes over Q, evaluated in Coq on exact rational
points in the solid's own frame); the harness meshes the solid (trimesh), places it in a rational pose and scale, and
compares navis.in_volume (every available backend, several n_rays) for points at least 1e-3 (relative) away from the surface."""
from fractions import Fraction

import numpy as np
import pandas as pd

from vlib import coqio, forest as F
from vlib.coqio import term
from vlib.framework import guarded

RULE = ('solids: a box, 2-4 disjoint boxes (union), a box with 1-2 box-shaped cavities (nested shells / difference), a box torus; each in a '
        'pose given by a signed permutation / Pythagorean rotation, rational scale and offset; 40 query points each (half near the solid), '
        'kept >= 1e-3 (relative) from every face plane; backends ncollpyde (n_rays 1/3/5) and scipy (convex solids only); IN/OUT pruning of '
        'skeletons with connectors, meshes and dotprops; several volumes at once; snap on skeleton nodes/connectors, mesh vertices, dotprops. '
        'non-trivial = non-convex solid or non-axis-aligned pose; distinct = distinct (solid, pose, points).')
ASSUMPTIONS = ['ncollpyde ray casting on arbitrary watertight meshes is NOT modelled: only the listed solid families are checked',
               'pyoctree is not installed in this sandbox: that backend is not exercised']

ROT = [np.eye(3), np.array([[0, 1, 0], [1, 0, 0], [0, 0, 1]], float), np.array([[0, 0, -1], [0, 1, 0], [1, 0, 0]], float),
       np.array([[3, -4, 0], [4, 3, 0], [0, 0, 5]], float) / 5, np.array([[5, 0, 0], [0, 5, -12], [0, 12, 5]], float) / np.array([5, 13, 13])[:, None] * np.array([1, 1, 1])]
ROT[4] = np.array([[1, 0, 0], [0, 5 / 13, -12 / 13], [0, 12 / 13, 5 / 13]])
ROTQ = [[[Fraction(int(round(v * 65))), 65] for v in row] for R in ROT for row in R]   # not used; rotations applied in float, inverse in exact Fractions below


def boxmesh(lo, hi, invert=False):
    import trimesh
    m = trimesh.creation.box(extents=np.array(hi) - np.array(lo))
    m.apply_translation((np.array(hi) + np.array(lo)) / 2)
    if invert:
        m.invert()
    return m


def gen_solid(rng):
    import trimesh
    kind = str(rng.choice(['box', 'union', 'shell', 'torus']))
    plus, minus = [], []
    if kind == 'box':
        lo = rng.integers(-10, 0, size=3); hi = lo + rng.integers(2, 12, size=3)
        plus = [(lo, hi)]
    elif kind == 'union':
        x0 = -20
        for _ in range(int(rng.integers(2, 5))):
            w = rng.integers(2, 8, size=3)
            lo = np.array([x0, int(rng.integers(-5, 5)), int(rng.integers(-5, 5))]); hi = lo + w
            plus.append((lo, hi))
            x0 = hi[0] + int(rng.integers(1, 4))
    elif kind == 'shell':
        lo = np.array([-10, -10, -10]); hi = np.array([10, 10, 10])
        plus = [(lo, hi)]
        minus = [(np.array([-8, -8, -8]), np.array([-2, 8, 8]))]
        if rng.random() < 0.5:
            minus.append((np.array([2, -6, -6]), np.array([8, 6, 6])))
    else:  # box torus: a slab with a hole through it = 4 bars
        plus = [(np.array([-9, -9, -2]), np.array([-5, 9, 2])), (np.array([5, -9, -2]), np.array([9, 9, 2])),
                (np.array([-5, -9, -2]), np.array([5, -5, 2])), (np.array([-5, 5, -2]), np.array([5, 9, 2]))]
    if kind == 'torus':
        # the four bars share faces: build one watertight mesh as outer slab minus the hole (inverted inner box)
        meshes = [boxmesh([-9, -9, -2], [9, 9, 2])]
        # a through-hole cannot be made by an inverted box (it is open); represent the torus as slab minus closed cavity instead
        plus = [(np.array([-9, -9, -2]), np.array([9, 9, 2]))]
        minus = [(np.array([-5, -5, -1]), np.array([5, 5, 1]))]
        meshes.append(boxmesh(minus[0][0], minus[0][1], invert=True))
        kind = 'slab-with-cavity'
    else:
        meshes = [boxmesh(lo, hi) for lo, hi in plus] + [boxmesh(lo, hi, invert=True) for lo, hi in minus]
    mesh = trimesh.util.concatenate(meshes)
    return kind, plus, minus, mesh


def run(ctx):
    import navis
    navis.set_loggers('ERROR')
    navis.set_pbars(hide=True)
    rng = ctx.rng
    exprs, follow = [], []
    for ci in range(ctx.n(30, 400)):
        kind, plus, minus, mesh = gen_solid(rng)
        R = ROT[int(rng.integers(len(ROT)))]
        scale = float(rng.choice([1, 0.5, 8, 0.125]))
        off = rng.integers(-40, 41, size=3).astype(float)
        posed = mesh.copy()
        posed.vertices = (posed.vertices @ R.T) * scale + off
        if np.linalg.det(R) < 0:
            posed.invert()      # a reflection reverses the winding: keep the normals pointing outwards
        vol = navis.Volume(posed.vertices, posed.faces, name='v%d' % ci)
        # query points in the solid's frame, on a fine rational grid, away from every face plane
        planes = sorted(set(float(v) for b in plus + minus for c in b for v in c))
        pts = []
        while len(pts) < 40:
            p = (rng.uniform(-14, 14, size=3) if rng.random() < 0.6 else rng.uniform(-25, 25, size=3))
            p = np.round(p * 64) / 64
            if min(abs(p[j] - pl) for j in range(3) for pl in planes) > 0.02:
                pts.append(p)
        pts = np.array(pts)
        world = (pts @ R.T) * scale + off
        sol = '{| plus := %s; minus := %s |}' % (_boxes(plus), _boxes(minus))
        exprs.append('keep_in %s [%s]' % (sol, '; '.join(_p3(p) for p in pts)))
        convex = kind == 'box'
        results = {}
        for be, nr in [('ncollpyde', 1), ('ncollpyde', 3), ('ncollpyde', 5)] + ([('scipy', None)] if convex else []):
            results[(be, nr)] = guarded(navis.in_volume, world, vol, backend=be, n_rays=nr)
        desc = dict(kind=kind, plus=[(a.tolist(), b.tolist()) for a, b in plus], minus=[(a.tolist(), b.tolist()) for a, b in minus],
                    rotation=R.tolist(), scale=scale, offset=off.tolist())
        follow.append(('vol', desc, dict(results=results, pts=pts)))
        ctx.case((kind, str(desc['plus']), str(desc['minus']), str(R.tolist()), scale, str(off.tolist()), pts.tobytes().hex()[:32]),
                 nontrivial=kind != 'box' or not np.array_equal(np.abs(R), np.eye(3)), sample=desc if ci < 2 else None)
        ctx.count('solid:' + kind)
        follow[-1][2]['vol'] = vol; follow[-1][2]['world'] = world; follow[-1][2]['do_prune'] = (ci % 3 == 0)
    out = coqio.eval_terms('C18', ['model.Volume'], exprs, shard=60)
    for (kind, desc, e), r in zip(follow, out):
        truth = [bool(v) for v in r]
        for (be, nr), (st, res) in e['results'].items():
            d = dict(desc, backend=be, n_rays=nr)
            if st != 'ok':
                ctx.violation('in_volume raised', d, res)
                continue
            got = [bool(v) for v in res]
            if got != truth:
                bad = [i for i in range(len(truth)) if got[i] != truth[i]]
                ctx.violation('in_volume classifies a point on the wrong side of the surface', d,
                              dict(points_in_solid_frame=e['pts'][bad][:5].tolist(), inside_truth=[truth[i] for i in bad[:5]]))
    # ---- IN / OUT pruning of neurons against the volumes: neurons straddling the surface, entirely inside and entirely outside
    for (kind, desc, e), r in zip(follow, out):
        if not e.get('do_prune'):
            continue
        truth = np.array([bool(v) for v in r])
        prune(ctx, navis, rng, e['vol'], e['world'], dict(desc, placement='straddling'))
        if truth.sum() >= 3:
            prune(ctx, navis, rng, e['vol'], e['world'][truth], dict(desc, placement='all-inside'))
        if (~truth).sum() >= 3:
            prune(ctx, navis, rng, e['vol'], e['world'][~truth], dict(desc, placement='all-outside'))
    several(ctx, navis, rng)
    several_neuron(ctx, navis, rng)
    snap(ctx, navis, rng)


def _p3(p):
    return '{| qx := %s; qy := %s; qz := %s |}' % tuple(term(Fraction(float(v))) for v in p)


def _boxes(bs):
    return '[' + '; '.join('{| lo := %s; hi := %s |}' % (_p3(a), _p3(b)) for a, b in bs) + ']'


def prune(ctx, navis, rng, vol, world, desc):
    f = F.gen_forest(rng, 5, 30, roots=1, lattice=False, zero_edges=False)
    f['xyz'] = [tuple(float(v) for v in world[int(rng.integers(len(world)))] + rng.normal(size=3) * 0.001) for _ in f['ids']]
    cn = F.gen_connectors(rng, f, 8)
    sk = F.mk_neuron(f, connectors=cn)
    dp = navis.Dotprops(world.copy(), k=None, vect=np.tile([1.0, 0, 0], (len(world), 1)))
    # connectors of the dotprops: each sits next to one point (distinct points), so it belongs to the part that keeps that point
    kcn = min(6, len(world))
    cpt = rng.choice(len(world), size=kcn, replace=False)
    dcn = pd.DataFrame({'connector_id': np.arange(kcn) + 700, 'x': world[cpt, 0] + 1e-4, 'y': world[cpt, 1], 'z': world[cpt, 2], 'type': [0, 1] * (kcn // 2) + [0] * (kcn % 2)})
    dp.connectors = dcn.copy()
    for name, x, ids in (('skeleton', sk, lambda n: sorted(int(i) for i in n.nodes.node_id.values)),
                         ('dotprops', dp, lambda n: sorted(map(tuple, np.round(np.asarray(n.points), 9).tolist())))):
        st1, a = guarded(navis.in_volume, x, vol, mode='IN', inplace=False)
        st2, b = guarded(navis.in_volume, x, vol, mode='OUT', inplace=False)
        d = dict(desc, neuron=name)
        ctx.case(('prune', name, desc.get('placement'), str(desc['offset']), str(f['ids'])), nontrivial=True)
        ctx.count('prune:' + name + ':' + str(desc.get('placement')))
        if st1 != 'ok' or st2 != 'ok':
            ctx.violation('in_volume(neuron) raised', d, a if st1 != 'ok' else b)
            continue
        ia, ib, full = ids(a), ids(b), ids(x)
        if sorted(ia + ib) != full or set(map(str, ia)) & set(map(str, ib)):
            ctx.violation('pruning with mode IN and OUT does not partition the nodes / points', d, dict(n_in=len(ia), n_out=len(ib), n=len(full)))
        if name == 'dotprops':
            def key(n):
                if n.connectors is None or not len(n.connectors):
                    return {}
                if 'point' in n.connectors.columns:       # the link navis keeps (set when the neuron was subset)
                    link = [int(p_) if p_ == p_ else -1 for p_ in n.connectors.point.values]
                else:                                     # never subset: a connector sits on its nearest point
                    link = [int(i_) for i_ in np.atleast_1d(n.snap(n.connectors[['x', 'y', 'z']].values)[0])]
                if any(not 0 <= p_ < len(n.points) for p_ in link):
                    return dict(bad_links=link, n_points=len(n.points))
                return {int(c): tuple(np.round(np.asarray(n.points)[p_], 9)) for c, p_ in zip(n.connectors.connector_id.values, link)}
            own = {int(c): tuple(np.round(world[int(i)], 9)) for c, i in zip(dcn.connector_id.values, cpt)}
            for part, partname, keep in ((a, 'IN', set(ia)), (b, 'OUT', set(ib))):
                want = {c: q_ for c, q_ in own.items() if q_ in keep}
                got = key(part)
                if got != want:
                    ctx.violation('pruned dotprops do not carry exactly their own connectors, attached to their own points', dict(d, part=partname),
                                  dict(got=str(got)[:300], want=str(want)[:300]))
                    break
                # pruning the part again with the same volume and mode changes nothing, connectors included
                st3, again = guarded(navis.in_volume, part, vol, mode=partname, inplace=False)
                if st3 != 'ok' or ids(again) != ids(part) or key(again) != want:
                    ctx.violation('pruning an already pruned dotprops again (same volume, same mode) changes its points / connectors', dict(d, part=partname),
                                  again if st3 != 'ok' else dict(got=str(key(again))[:300], want=str(want)[:300]))
                    break
        if name == 'skeleton' and cn is not None:
            ca = sorted(int(c) for c in a.connectors.connector_id.values) if a.connectors is not None else []
            cb = sorted(int(c) for c in b.connectors.connector_id.values) if b.connectors is not None else []
            wa = sorted(int(c) for c, n in zip(cn.connector_id.values, cn.node_id.values) if int(n) in set(ia))
            wb = sorted(int(c) for c, n in zip(cn.connector_id.values, cn.node_id.values) if int(n) in set(ib))
            if ca != wa or cb != wb:
                ctx.violation('pruned neurons do not carry exactly their own connectors', d, dict(in_=ca, expected_in=wa, out=cb, expected_out=wb))


def several(ctx, navis, rng):
    for ci in range(ctx.n(6, 60)):
        vols, truth = {}, {}
        pts = rng.uniform(-30, 30, size=(30, 3))
        for j in range(int(rng.integers(2, 5))):
            lo = rng.integers(-25, 10, size=3).astype(float); hi = lo + rng.integers(3, 20, size=3)
            m = boxmesh(lo, hi)
            vols['vol%d' % j] = navis.Volume(m.vertices, m.faces, name='vol%d' % j)
            truth['vol%d' % j] = np.all((pts > lo) & (pts < hi), axis=1)
        near = np.zeros(len(pts), bool)
        ctx.case(('several', ci), nontrivial=True)
        ctx.count('several-volumes')
        for arg in (vols, list(vols.values())):
            st, res = guarded(navis.in_volume, pts, arg)
            if st != 'ok':
                ctx.violation('in_volume with several volumes raised', dict(kind='several'), res)
            elif set(res) != set(vols) or any(not np.array_equal(np.asarray(res[k], dtype=bool), truth[k]) for k in vols):
                ctx.violation('with several volumes the answers are not independent / not under the volume\'s own name', dict(kind='several', names=list(vols)))


def several_neuron(ctx, navis, rng):
    """a neuron against several volumes at once, both modes: each answer equals the single-volume answer; and a Volume object that
    is edited in place after a first query must be answered with its NEW geometry"""
    for ci in range(ctx.n(8, 60)):
        f = F.gen_forest(rng, 8, 30, roots=1, lattice=False, zero_edges=False)
        f['xyz'] = [tuple(float(v) for v in rng.uniform(-20, 20, size=3)) for _ in f['ids']]
        sk = F.mk_neuron(f, connectors=F.gen_connectors(rng, f, 6))
        vols = {}
        for j in range(int(rng.integers(2, 4))):
            lo = rng.integers(-22, 5, size=3).astype(float); hi = lo + rng.integers(8, 30, size=3)
            m = boxmesh(lo, hi)
            vols['v%d' % j] = navis.Volume(m.vertices, m.faces, name='v%d' % j)
        for mode in ('IN', 'OUT'):
            single = {k: guarded(navis.in_volume, sk, v, mode=mode, inplace=False) for k, v in vols.items()}
            for arg_name, arg in (('dict', vols), ('list', list(vols.values()))):
                st, res = guarded(navis.in_volume, sk, arg, mode=mode, inplace=False)
                d = dict(kind='neuron-several-volumes', mode=mode, container=arg_name, names=list(vols))
                ctx.case(('several-neuron', mode, arg_name, ci), nontrivial=True)
                ctx.count('several-volumes:neuron:' + mode)
                if st != 'ok':
                    ctx.violation('in_volume(neuron, several volumes) raised', d, res)
                    continue
                for k in vols:
                    if single[k][0] != 'ok' or k not in res:
                        ctx.violation('several volumes: an answer is missing / not under the volume\'s own name', d, dict(got=list(res)))
                        break
                    a = sorted(int(i) for i in res[k].nodes.node_id.values)
                    b = sorted(int(i) for i in single[k][1].nodes.node_id.values)
                    if a != b:
                        ctx.violation('with several volumes the answer for a volume differs from asking that volume alone (mode %s)' % mode, d, dict(volume=k, together=a, alone=b))
                        break
        # ---- intersection_matrix: one row per volume, under the caller's label (dict key), in the caller's order
        labels = {'left_%d' % j: v for j, v in enumerate(vols.values())}       # keys differ from the Volumes' own names
        st, im = guarded(navis.intersection_matrix, navis.NeuronList([sk]), labels, attr='n_nodes')
        ctx.count('intersection_matrix')
        d = dict(kind='intersection_matrix', labels=list(labels), volume_names=[v.name for v in labels.values()])
        if st != 'ok':
            ctx.violation('intersection_matrix raised', d, im)
        else:
            want_counts = [len(single_[1].nodes) if single_[0] == 'ok' else None for single_ in (guarded(navis.in_volume, sk, v, mode='IN', inplace=False) for v in labels.values())]
            if list(im.index) != list(labels) or [int(v) for v in im.iloc[:, 0].values] != want_counts:
                ctx.violation('with several volumes the answers are not independent / not under the volume\'s own name', d,
                              dict(index=[str(i) for i in im.index], values=[int(v) for v in im.iloc[:, 0].values], want=want_counts))
        # ---- a MeshNeuron pruned by a volume: vertices (with the faces they span) and connectors on their own side
        import trimesh as _tm
        rod = _tm.creation.box(extents=(60.0, 4.0, 4.0)).subdivide().subdivide()
        shift = rng.uniform(-3, 3, size=3)
        mverts = np.asarray(rod.vertices, dtype=float) + rng.normal(size=rod.vertices.shape) * 1e-3 + shift
        me = navis.MeshNeuron((mverts, np.asarray(rod.faces)), process=False, name='rod', id=4, units='1 nm')
        cv = rng.choice(len(mverts), size=6, replace=False)
        me.connectors = pd.DataFrame({'connector_id': np.arange(6) + 900, 'x': mverts[cv, 0] + 1e-4, 'y': mverts[cv, 1], 'z': mverts[cv, 2], 'type': [0, 1] * 3})
        lo = np.array([-12.0, -10.0, -10.0]) + rng.uniform(-4, 4, size=3); hi = lo + np.array([24.0, 20.0, 20.0])
        bm = boxmesh(lo, hi)
        mvol = navis.Volume(bm.vertices, bm.faces, name='mv')
        moved = bool(rng.random() < 0.5)
        if moved:      # the mesh was queried (cached acceleration structures) and then moved: the parts refer to the NEW positions
            guarded(me.snap, [0.0, 0.0, 0.0]); guarded(lambda: me.trimesh)
            off = rng.integers(50, 90, size=3).astype(float)
            me = me + off
            mverts = mverts + off
            bm = boxmesh(lo + off, hi + off)
            mvol = navis.Volume(bm.vertices, bm.faces, name='mv')
        inside = np.all((mverts > (lo + (off if moved else 0))) & (mverts < (hi + (off if moved else 0))), axis=1)
        fc = np.asarray(me.faces)
        key3 = lambda a_: set(map(tuple, np.round(np.asarray(a_, dtype=float), 6).tolist()))
        kept_union = set()
        for mode, side in (('IN', inside), ('OUT', ~inside), ('union', None)):
            if mode == 'union':
                # the property asks for COMPLEMENTARY vertex sets; vertices that only span faces crossing the surface are in neither part
                if kept_union != key3(mverts):
                    ctx.violation('pruning a mesh with mode IN and OUT does not partition its vertices: vertices of faces that cross the surface are in neither part',
                                  dict(kind='mesh-prune', n_vertices=len(mverts), in_neither_part=len(key3(mverts) - kept_union)), key='C18:mesh-prune-boundary-vertices')
                continue
            st, part = guarded(navis.in_volume, me, mvol, mode=mode, inplace=False)
            if st == 'ok':
                kept_union |= key3(part.vertices)
            d = dict(kind='mesh-prune', mode=mode, moved_after_query=moved, n_vertices=len(mverts), n_inside=int(inside.sum()))
            ctx.case(('mesh-prune', mode, moved, ci), nontrivial=True)
            ctx.count('prune:mesh:' + mode)
            if st != 'ok':
                ctx.violation('in_volume(neuron) raised', d, part)
                continue
            keepf = side[fc].all(axis=1)                       # faces lying entirely on this side
            want_v = key3(mverts[np.unique(fc[keepf])]) if keepf.any() else set()
            got_v = key3(part.vertices)
            wrong_side = got_v - key3(mverts[side])
            if wrong_side:
                ctx.violation('pruning with mode IN and OUT does not partition the nodes / points', d, dict(vertices_on_the_wrong_side=len(wrong_side)))
                continue
            if got_v != want_v:
                ctx.violation('pruned mesh does not keep exactly the vertices of the faces lying on its side', d, dict(got=len(got_v), want=len(want_v)))
                continue
            near = {int(c_): tuple(np.round(mverts[v_], 6)) for c_, v_ in zip(me.connectors.connector_id.values, cv)}
            want_c = sorted(c_ for c_, q_ in near.items() if q_ in want_v)
            got_c = sorted(int(c_) for c_ in part.connectors.connector_id.values) if part.connectors is not None else []
            lost = sorted(c_ for c_, q_ in near.items() if q_ in key3(mverts[side]) and q_ not in want_v)     # their vertex only spans faces that cross the surface
            if got_c != want_c and sorted(set(got_c) - set(lost)) != want_c:
                ctx.violation('pruned neurons do not carry exactly their own connectors', d, dict(got=got_c, want=want_c))
        # ---- a Volume edited in place between two queries
        pts = rng.uniform(-25, 25, size=(40, 3))
        lo = rng.integers(-10, 0, size=3).astype(float); hi = lo + rng.integers(6, 14, size=3)
        m = boxmesh(lo, hi)
        vol = navis.Volume(m.vertices, m.faces, name='edited')
        st0, first = guarded(navis.in_volume, pts, vol)
        how = str(rng.choice(['resize', 'vertices']))
        if how == 'resize':
            vol.resize(2, inplace=True)
        else:
            vol.vertices = np.asarray(vol.vertices) + np.array([15.0, 0.0, 0.0])
        fresh = navis.Volume(np.asarray(vol.vertices).copy(), np.asarray(vol.faces).copy(), name='fresh')
        st1, again = guarded(navis.in_volume, pts, vol)
        st2, want = guarded(navis.in_volume, pts, fresh)
        d = dict(kind='volume-edited-in-place', how=how, lo=lo.tolist(), hi=hi.tolist())
        ctx.case(('edited-volume', how, ci), nontrivial=True)
        ctx.count('volume-edited:' + how)
        if st0 != 'ok' or st1 != 'ok' or st2 != 'ok':
            ctx.violation('in_volume raised for an edited volume', d, again if st1 != 'ok' else want)
        elif not np.array_equal(np.asarray(again, dtype=bool), np.asarray(want, dtype=bool)):
            ctx.violation('a Volume edited in place after a first query is answered with its old geometry', d,
                          dict(n_points=len(pts), differ=int((np.asarray(again, dtype=bool) != np.asarray(want, dtype=bool)).sum())))


def snap(ctx, navis, rng):
    exprs, follow = [], []
    for ci in range(ctx.n(25, 300)):
        f = F.gen_forest(rng, 2, 25, roots=1, lattice=True, zero_edges=False)
        cn = F.gen_connectors(rng, f, 6)
        sk = F.mk_neuron(f, connectors=cn)
        verts = rng.integers(-9, 10, size=(9, 3)).astype(float)
        me = navis.MeshNeuron((verts, np.array([[0, 1, 2], [2, 3, 4], [4, 5, 6], [6, 7, 8]])))
        dp = navis.Dotprops(rng.integers(-9, 10, size=(10, 3)).astype(float), k=None, vect=np.tile([1.0, 0, 0], (10, 1)))
        qmode = int(rng.integers(3))
        q = rng.integers(-12, 13, size=3).astype(float) + (0.5 if qmode == 1 else 0.0)
        if qmode == 2:
            q = np.round(rng.uniform(-12, 12, size=3), 3)       # off-lattice queries
        # point clouds as users have them: float64, float32 (what make_dotprops produces) and integer voxel coordinates
        pts_i = rng.integers(-9, 10, size=(10, 3))
        dp32 = navis.Dotprops(pts_i.astype(np.float32) + np.float32(0.25), k=None, vect=np.tile([1.0, 0, 0], (10, 1)))
        dpi = navis.Dotprops(pts_i.astype(np.int64), k=None, vect=np.tile([1.0, 0, 0], (10, 1)))
        me32 = navis.MeshNeuron((verts.astype(np.float32) + np.float32(0.25), np.array([[0, 1, 2], [2, 3, 4], [4, 5, 6], [6, 7, 8]])))
        mcn = pd.DataFrame({'connector_id': np.arange(4) + 50, 'x': rng.integers(-9, 10, size=4).astype(float), 'y': rng.integers(-9, 10, size=4).astype(float),
                            'z': rng.integers(-9, 10, size=4).astype(float), 'type': [0, 1, 0, 1]})
        me.connectors = mcn.copy()
        dp.connectors = mcn.copy()
        targets = [('skeleton-nodes', lambda: sk.snap(q, to='nodes'), sk.nodes[['x', 'y', 'z']].values, [int(i) for i in sk.nodes.node_id.values]),
                   ('mesh-vertices', lambda: me.snap(q), np.asarray(me.vertices), list(range(len(me.vertices)))),
                   ('mesh-vertices-f32', lambda: me32.snap(q), np.asarray(me32.vertices), list(range(len(me32.vertices)))),
                   ('mesh-connectors', lambda: me.snap(q, to='connectors'), mcn[['x', 'y', 'z']].values, list(range(len(mcn)))),
                   ('dotprops-points', lambda: dp.snap(q), np.asarray(dp.points), list(range(len(dp.points)))),
                   ('dotprops-points-f32', lambda: dp32.snap(q), np.asarray(dp32.points), list(range(len(dp32.points)))),
                   ('dotprops-points-int', lambda: dpi.snap(q), np.asarray(dpi.points), list(range(len(dpi.points)))),
                   ('dotprops-connectors', lambda: dp.snap(q, to='connectors'), mcn[['x', 'y', 'z']].values, list(range(len(mcn))))]
        if cn is not None:
            targets.append(('skeleton-connectors', lambda: sk.snap(q, to='connectors'), cn[['x', 'y', 'z']].values, [int(i) for i in cn.connector_id.values]))
        for name, fn, pts, labels in targets:
            st, res = guarded(fn)
            d = dict(kind='snap', target=name, query=q.tolist())
            ctx.case(('snap', name, q.tobytes().hex(), np.asarray(pts).tobytes().hex()[:32]), nontrivial=True)
            ctx.count('snap:' + name)
            if st != 'ok':
                ctx.violation('snap raised', d, res)
                continue
            idv, dist = res
            idv = int(np.atleast_1d(idv)[0]); dist = float(np.atleast_1d(dist)[0])
            if idv not in labels:
                ctx.violation('snap returned an id that does not exist', d, idv)
                continue
            k = labels.index(idv)
            exprs.append('is_nearest_b %s [%s] %d%%nat' % (_p3(q), '; '.join(_p3(p) for p in pts), k))
            true_d = float(np.linalg.norm(np.asarray(pts, dtype=float)[k] - q))
            follow.append((d, dist, true_d))
    out = coqio.eval_terms('C18snap', ['model.Volume'], exprs, shard=200)
    for (d, dist, true_d), ok in zip(follow, out):
        if not ok:
            ctx.violation('snap did not return the truly nearest node / vertex / point / connector', d)
        elif abs(dist - true_d) > 1e-9 * max(1, true_d):
            ctx.violation('snap returned a wrong Euclidean distance', d, dict(got=dist, want=true_d))
