"""C11 — healing and stitching connect fragments minimally and lose nothing."""
import itertools
from fractions import Fraction

import numpy as np
import pandas as pd

from vlib import coqio, forest as F
from vlib.coqio import term, Raw
from vlib.framework import guarded

RULE = ('random forests with 2-7 fragments of random sizes placed at random offsets (float coordinates, so nearest pairs are unique) x '
        'heal_skeleton(method ALL/LEAFS, max_dist, min_size, mask, drop_disc); break_fragments; stitch_skeletons / combine_neurons on 2-4 '
        'skeletons with clashing ids, connectors and tags (master FIRST/LARGEST, method NONE/LEAFS/ALL). '
        'non-trivial = at least 3 fragments or a clashing id; distinct = distinct (tables, coordinates, op, params).')
ASSUMPTIONS = ['nearest allowed node pairs between fragments are recomputed by brute force in numpy (the KD-tree is trusted to agree)',
               'minimality of the added length: compared with the Coq Kruskal weight on every case and with a brute-force enumeration of all '
               'spanning trees for <= 6 fragments (bounded supporting check, not a theorem)']


def comps(ids, parents):
    par = dict(zip(ids, parents))
    def root(i):
        while par[i] >= 0:
            i = par[i]
        return i
    out = {}
    for i in ids:
        out.setdefault(root(i), []).append(i)
    return out


def und(ids, parents):
    return set(frozenset((int(i), int(p))) for i, p in zip(ids, parents) if p >= 0)


def run(ctx):
    import navis
    navis.set_loggers('ERROR')
    navis.set_pbars(hide=True)
    rng = ctx.rng
    N = ctx.n(160, 2500)
    jobs = []
    for ci in range(N):
        be = str(rng.choice(['fastcore', 'fastcore', 'fastcore', 'igraph', 'nx']))
        ctx.count('backend:' + be)
        with F.backend(be):
            kind = str(rng.choice(['heal', 'heal', 'break', 'stitch', 'stitch']))
            if kind in ('heal', 'break'):
                k = int(rng.integers(2, 8))
                f = F.gen_forest(rng, k + 1, ctx.n(35, 90), roots=k, lattice=False, zero_edges=False)
                ids = f['ids']
                # spread the fragments out so that inter-fragment distances differ
                cc = comps(ids, f['parents'])
                off = {r: rng.normal(size=3) * rng.choice([5, 30, 80]) for r in cc}
                node_root = {i: r for r, ns in cc.items() for i in ns}
                f['xyz'] = [tuple(float(v) for v in np.array(p, dtype=float) + off[node_root[i]]) for i, p in zip(ids, f['xyz'])]
                pos = {i: np.array(p, dtype=float) for i, p in zip(ids, f['xyz'])}
                x = F.mk_neuron(f)
                T = '(mk %s)' % term(list(zip(ids, f['parents'])))
                nt = len(cc) >= 3
                if kind == 'break':
                    st, res = guarded(lambda: list(navis.break_fragments(x)))
                    desc = dict(forest=f, op='break_fragments', backend=be)
                    jobs.append(dict(desc=desc, nt=nt, key=(str(ids), str(f['parents']), 'break'), exprs=['fragments %s' % T],
                                     cmp=_cmp_break(st, res, f)))
                    continue
                method = str(rng.choice(['ALL', 'LEAFS']))
                max_dist = None if rng.random() < 0.5 else float(rng.choice([10, 40, 120]))
                min_size = None if rng.random() < 0.6 else (int(rng.integers(2, 5)) if rng.random() < 0.4 else int(rng.choice([len(ns_) for ns_ in cc.values()])))   # often exactly the size of a fragment
                use_mask = rng.random() < 0.25
                mask = sorted(int(v) for v in rng.choice(ids, size=max(2, len(ids) // 2), replace=False)) if use_mask else None
                drop = bool(rng.random() < 0.2)
                p = dict(method=method, max_dist=max_dist, min_size=min_size, mask=mask, drop_disc=drop)
                desc = dict(forest=f, op='heal', params=p, backend=be)
                marg = None if mask is None else (np.array(mask) if rng.random() < 0.5 else np.isin(x.nodes.node_id.values, mask))
                types = dict(zip((int(i) for i in x.nodes.node_id.values), x.nodes.type.values))
                spell = method if rng.random() < 0.6 else str(rng.choice([method.lower(), method.capitalize()]))     # accepted case-insensitively
                desc['params']['method_spelling'] = spell
                st, res = guarded(navis.heal_skeleton, x, method=spell, max_dist=max_dist, min_size=min_size, mask=marg, drop_disc=drop, inplace=bool(rng.integers(2)))
                # candidate edges between fragments over the allowed nodes (brute force)
                allowed = {}
                for r, ns in cc.items():
                    if min_size is not None and len(ns) < min_size:
                        continue
                    a = [i for i in ns if (method == 'ALL' or types[i] in ('end', 'root')) and (mask is None or i in set(mask))]
                    if a:
                        allowed[r] = a
                cands = []
                for ra, rb in itertools.combinations(sorted(allowed), 2):
                    A = np.array([pos[i] for i in allowed[ra]]); B = np.array([pos[i] for i in allowed[rb]])
                    D = np.linalg.norm(A[:, None, :] - B[None, :, :], axis=2)
                    ia, ib = np.unravel_index(np.argmin(D), D.shape)
                    d = float(D[ia, ib])
                    if max_dist is not None and d >= max_dist:
                        continue
                    cands.append((ra, rb, allowed[ra][ia], allowed[rb][ib], d))
                cands.sort(key=lambda c: c[4])
                cterm = '[' + '; '.join('{| fa := %s; fb := %s; na := %s; nb := %s; cd := %s |}' % (term(a), term(b), term(c), term(d), term(Fraction(e)))
                                        for a, b, c, d, e in cands) + ']'
                added = None
                if st == 'ok':
                    new_und = und(res.nodes.node_id.values, res.nodes.parent_id.values)
                    added = sorted(tuple(sorted(e)) for e in new_und - und(ids, f['parents']))
                aterm = '[' + '; '.join('{| fa := 0; fb := 0; na := %s; nb := %s; cd := 0%%Q |}' % (term(a), term(b)) for a, b in (added or [])) + ']'
                jobs.append(dict(desc=desc, nt=nt, key=(str(ids), str(f['xyz']), 'heal', str(p)),
                                 exprs=['let r := kruskal (uf_init %s) %s in (qout (total_len (fst r)), length (fst r))' % (term(sorted(allowed)), cterm),
                                        '(length (roots (heal %s %s)), wfb (heal %s %s))' % (T, aterm, T, aterm)],
                                 cmp=_cmp_heal(st, res, f, pos, cc, cands, p, added)))
            else:
                m = int(rng.integers(2, 5))
                fs = [F.gen_forest(rng, 1, 14, roots=1, labelling=str(rng.choice(['seq', 'seq', 'sparse', 'sparse0'])), lattice=False, zero_edges=False) for _ in range(m)]
                for j, f in enumerate(fs):
                    offv = rng.normal(size=3) * 40
                    f['xyz'] = [tuple(float(v) for v in np.array(p, dtype=float) + offv) for p in f['xyz']]
                ns = []
                for j, f in enumerate(fs):
                    cn = F.gen_connectors(rng, f, 4)
                    tg = {'t%d' % (j % 2): [int(v) for v in rng.choice(f['ids'], size=min(2, len(f['ids'])), replace=False)]} if rng.random() < 0.6 else None
                    ns.append(F.mk_neuron(f, name='n%d' % j, nid=j + 1, connectors=cn, tags=tg))
                method = str(rng.choice(['NONE', 'NONE', 'LEAFS', 'ALL']))
                master = str(rng.choice(['FIRST', 'LARGEST']))
                p = dict(method=method, master=master, combine=bool(method == 'NONE' and rng.random() < 0.5))
                desc = dict(forests=fs, op='stitch', params=p, backend=be)
                snap = [dict(rows=F.table_of(n), conn=None if n.connectors is None else [(int(c), int(i)) for c, i in zip(n.connectors.connector_id.values, n.connectors.node_id.values)],
                             tags={k: list(v) for k, v in (n.tags or {}).items()}) for n in ns]
                if p['combine']:
                    st, res = guarded(navis.combine_neurons, *ns)
                else:
                    st, res = guarded(navis.stitch_skeletons, *ns, method=method, master=master)
                st0, res0 = guarded(navis.stitch_skeletons, *ns, method='NONE', master='FIRST' if p['combine'] else master)
                clash = len(set(i for f in fs for i in f['ids'])) < sum(len(f['ids']) for f in fs)
                inputs = '[' + '; '.join('(mk %s)' % term([(a, b) for a, b, _ in s['rows']]) for s in snap) + ']'
                out0 = '(mk %s)' % term([(a, b) for a, b, _ in F.table_of(res0)]) if st0 == 'ok' else '(mk [])'
                jobs.append(dict(desc=desc, nt=clash or m >= 3, key=(str([f['ids'] for f in fs]), str([f['parents'] for f in fs]), 'stitch', str(p)),
                                 exprs=['stitch_okb %s %s' % (inputs, out0)],
                                 cmp=_cmp_stitch(st, res, st0, res0, snap, fs, p)))
    flat = [e for j in jobs for e in j['exprs']]
    out = coqio.eval_terms('C11', ['model.Forest', 'model.Ops', 'model.Dist', 'model.Heal'], flat, shard=80)
    k = 0
    for j in jobs:
        r = out[k:k + len(j['exprs'])]
        k += len(j['exprs'])
        ctx.case(j['key'], nontrivial=j['nt'])
        ctx.count('op:' + j['desc']['op'])
        j['cmp'](ctx, j['desc'], r)


def _cmp_break(st, res, f):
    def cmp(ctx, desc, r):
        if st != 'ok':
            ctx.violation('break_fragments raised', desc, res)
            return
        model = sorted(tuple(sorted(int(i) for i in fr)) for fr in r[0])
        got = sorted(tuple(sorted(int(i) for i in n.nodes.node_id.values)) for n in res)
        if got != model:
            ctx.violation('break_fragments does not partition the nodes into the connected components', desc, dict(impl=got, model=model))
            return
        par = dict(zip(f['ids'], f['parents']))
        for n in res:
            for i, p in zip(n.nodes.node_id.values, n.nodes.parent_id.values):
                if par[int(i)] != int(p):
                    ctx.violation('break_fragments changed a parent link', desc, dict(node=int(i)))
                    return
    return cmp


def _cmp_heal(st, res, f, pos, cc, cands, p, added):
    def cmp(ctx, desc, r):
        if st != 'ok':
            ctx.violation('heal_skeleton raised', desc, res)
            return
        (ml0, ml1, mcount), (mroots, mwf) = r   # Coq prints ((n, d), k) as (n, d, k)
        mlen = (ml0, ml1)
        ids = f['ids']
        old = und(ids, f['parents'])
        new = und(res.nodes.node_id.values, res.nodes.parent_id.values)
        got_ids = set(int(i) for i in res.nodes.node_id.values)
        if p['drop_disc']:
            # only the largest connected piece is kept; the rest of the checks apply to the healed, undropped skeleton
            if not got_ids <= set(ids):
                ctx.violation('heal_skeleton(drop_disc) invented nodes', desc)
            return
        if got_ids != set(ids):
            ctx.violation('healing removed or added nodes', desc, dict(missing=sorted(set(ids) - got_ids)))
            return
        for i, a, b, c in zip(res.nodes.node_id.values, res.nodes.x.values, res.nodes.y.values, res.nodes.z.values):
            if np.abs(np.array([a, b, c]) - pos[int(i)]).max() > 0:
                ctx.violation('healing moved a node', desc, dict(node=int(i)))
                return
        if not old <= new:
            ctx.violation('healing dropped an existing edge', desc, dict(lost=sorted(tuple(sorted(e)) for e in old - new)))
            return
        n_before = len(cc)
        n_after = len(comps([int(i) for i in res.nodes.node_id.values], [int(q) for q in res.nodes.parent_id.values]))
        if len(added) != n_before - n_after:
            ctx.violation('healing did not add exactly one edge per merged pair of fragments', desc, dict(added=added, before=n_before, after=n_after))
            return
        if mroots != n_before - len(added) or not mwf:
            ctx.mismatch('model/Heal.v cannot replay the added edges as fragment joins', desc, dict(added=added, model_roots=mroots))
        no_limits = p['max_dist'] is None and p['min_size'] is None and p['mask'] is None
        if no_limits and n_after != 1:
            ctx.violation('healing without limits did not produce a single tree', desc, dict(fragments_after=n_after))
        lens = [float(np.linalg.norm(pos[a] - pos[b])) for a, b in added]
        if p['max_dist'] is not None and any(l > p['max_dist'] * (1 + 1e-12) for l in lens):
            ctx.violation('an added edge is longer than max_dist', desc, dict(lengths=lens, max_dist=p['max_dist']))
        want = float(Fraction(mlen[0], mlen[1]))
        if len(added) != mcount or abs(sum(lens) - want) > 1e-9 * max(1, want):
            ctx.violation('added edges are not a minimum spanning tree over the fragments (count/total length)', desc,
                          dict(added=added, total=sum(lens), model_total=want, model_count=mcount))
        # supporting brute force for small fragment graphs
        frs = sorted(set(c[0] for c in cands) | set(c[1] for c in cands))
        if 2 <= len(frs) <= 6 and len(cands) <= 15:
            best = None
            for sub in itertools.combinations(cands, mcount):
                rep = {x_: x_ for x_ in frs}
                def fnd(a):
                    while rep[a] != a:
                        a = rep[a]
                    return a
                ok = True
                for a, b, _, _, _ in sub:
                    ra, rb = fnd(a), fnd(b)
                    if ra == rb:
                        ok = False
                        break
                    rep[ra] = rb
                if ok:
                    w = sum(c[4] for c in sub)
                    best = w if best is None else min(best, w)
            if best is not None and abs(best - want) > 1e-9 * max(1, want):
                ctx.mismatch('Kruskal weight of the model is not the brute-force minimum', desc, dict(model=want, brute=best))
    return cmp


def _cmp_stitch(st, res, st0, res0, snap, fs, p):
    def cmp(ctx, desc, r):
        if st != 'ok' or st0 != 'ok':
            ctx.violation('stitch_skeletons / combine_neurons raised', desc, res if st != 'ok' else res0)
            return
        if not r[0]:
            ctx.violation('stitching does not make ids unique while preserving every input\'s topology under one id map', desc,
                          dict(output=F.table_of(res0)))
            return
        rows0 = F.table_of(res0)
        # id maps row by row
        k = 0
        conn_want, tags_want = [], {}
        for s in snap:
            n = len(s['rows'])
            phi = {a: rows0[k + j][0] for j, (a, _, _) in enumerate(s['rows'])}
            k += n
            if s['conn']:
                conn_want += [(c, phi[i]) for c, i in s['conn']]
            for t, vs in s['tags'].items():
                tags_want[t] = tags_want.get(t, []) + [phi[v] for v in vs]
        got_conn = sorted((int(c), int(i)) for c, i in zip(res0.connectors.connector_id.values, res0.connectors.node_id.values)) if res0.connectors is not None and len(res0.connectors) else []
        if got_conn != sorted(conn_want):
            ctx.violation('connectors are not remapped consistently with the node ids', desc, dict(impl=got_conn, expected=sorted(conn_want)))
        got_tags = {t: sorted(int(v) for v in vs) for t, vs in (res0.tags or {}).items() if len(vs)}
        if got_tags != {t: sorted(v) for t, v in tags_want.items() if v}:
            ctx.violation('tags are not remapped consistently with the node ids', desc, dict(impl=got_tags, expected=tags_want))
        # coordinates travel with their rows
        allxyz = np.vstack([np.array(f['xyz'], dtype=float).reshape(-1, 3) for f in fs])
        if np.abs(res0.nodes[['x', 'y', 'z']].values - allxyz).max() > 0:
            ctx.violation('stitching moved nodes', desc)
        if p['method'] != 'NONE':
            # the stitched skeleton keeps all nodes and all edges of the merely combined one and is a single tree
            a = und(res0.nodes.node_id.values, res0.nodes.parent_id.values)
            b = und(res.nodes.node_id.values, res.nodes.parent_id.values)
            if set(int(i) for i in res.nodes.node_id.values) != set(int(i) for i in res0.nodes.node_id.values) or not a <= b:
                ctx.violation('stitching lost nodes or edges', desc)
            elif len(res.root) != 1 and p['method'] == 'ALL':
                ctx.violation('stitching with method ALL and no max_dist did not produce a single tree', desc, dict(roots=len(res.root)))
            elif len(b - a) != len(res0.root) - len(res.root):
                ctx.violation('stitching did not add exactly one edge per merged pair', desc)
    return cmp
