"""C16 — transforming or mirroring a neuron moves its coordinates and nothing else."""
import numpy as np
import pandas as pd

from vlib import coqio, forest as F
from vlib.coqio import term
from vlib.framework import guarded
from checks.C08 import rand_int_affine, hom

RULE = ('skeletons (with connectors, radius, tags), meshes, dotprops (k given and k=None with stored tangents), NeuronLists, DataFrames and '
        'volumes x invertible transforms (integer affine: exact; scaled by powers of ten to exercise the unit guess; sequences; thin plate '
        'splines) and mirroring about x/y/z for random bounding boxes. non-trivial = neuron has connectors or the transform is a sequence / '
        'changes scale; distinct = distinct (type, coordinates, transform).')
ASSUMPTIONS = ['tangent recomputation for dotprops with k (SVD) is only checked for unit norm', 'the unit guess samples point pairs at random; tested on inputs where every sample gives the same power of ten']


def raw(tr, pts):
    return tr.xform(np.asarray(pts, dtype=float))


def run(ctx):
    import navis
    from navis import transforms as tr
    from navis.transforms.base import TransformSequence
    from navis.transforms.templates import TemplateBrain
    navis.set_loggers('ERROR')
    navis.set_pbars(hide=True)
    rng = ctx.rng
    # the Coq model's slicing on a concrete instance of every block layout used below (ties model/XformN.v to the layouts)
    out = coqio.eval_terms('C16', ['model.XformN'], ['xform_blocks (fun x => x * 10 + 1) [[1; 2; 3]; []; [4]; [5; 6]]'])
    ctx.obligation('model:xform_blocks example', out[0] == [[11, 21, 31], [], [41], [51, 61]], str(out[0]))
    # the order of magnitude of every change of scale used below, from the Coq model (model/Magnitude.v, exact on squares)
    from fractions import Fraction
    SCALES = [1, 1000, 0.001, 2, 3, 0.5, 300, 0.03, 8, 0.125, 3.16, 3.17, 31, 32, 0.316, 0.317]
    mags = coqio.eval_terms('C16mag', ['model.Magnitude'], ['magnitude %s' % term(Fraction(str(sc))) for sc in SCALES])
    MAG = {}
    for sc, m in zip(SCALES, mags):
        ctx.obligation('model:magnitude %s defined' % sc, m is not None, str(m))
        MAG[float(sc)] = None if m is None else int(m.v)
    bridging(ctx, navis, np.random.default_rng([int(ctx.seed), 1616]), tr, hom, MAG)
    for ci in range(ctx.n(70, 900)):
        f = F.gen_forest(rng, 3, 25, roots=1, lattice=True, zero_edges=False)
        cn = F.gen_connectors(rng, f, 6)
        sk = F.mk_neuron(f, connectors=cn, radius=rng.integers(1, 6, size=len(f['ids'])).astype(float), name='sk', nid=5, units='1 um')
        sk.nodes['extra'] = np.arange(len(sk.nodes))
        verts = rng.integers(-9, 10, size=(10, 3)).astype(float)
        faces = np.array([[0, 1, 2], [1, 2, 3], [2, 3, 4], [4, 5, 6], [5, 6, 7], [7, 8, 9]])
        me = navis.MeshNeuron((verts, faces), name='me', id=6, units='1 um')
        me.connectors = pd.DataFrame({'connector_id': [1, 2], 'x': [1., 2.], 'y': [0., 1.], 'z': [3., 4.], 'type': [0, 1]})
        ptsd = rng.integers(-9, 10, size=(14, 3)).astype(float) + rng.random((14, 3)) * 0.01
        dpk = navis.make_dotprops(ptsd, k=4)
        dpk.units = '1 um'
        dp0 = navis.Dotprops(ptsd, k=None, vect=np.asarray(dpk.vect, dtype=float).copy(), units='1 um')
        kind = str(rng.choice(['skeleton', 'skeleton', 'mesh', 'dotprops-k', 'dotprops-nok', 'list', 'dataframe']))
        isometry = bool(rng.random() < 0.7)
        if isometry:     # signed permutation matrix: an exact isometry, so the detected change of scale is exactly 10^scale_pow
            M = np.eye(3)[rng.permutation(3)] * rng.choice([-1.0, 1.0], size=3)
            b = rng.integers(-9, 10, size=3).astype(float)
        else:
            M, b = rand_int_affine(rng, unimodular=True)
        # change of scale: a power of ten, or a factor that is NOT a power of ten (2, 300, 0.03 ...): navis detects the order of
        # magnitude round(log10(scale)) and must move radii and units by exactly that power of ten (never by the raw factor)
        scale = float(rng.choice([1, 1, 1] + SCALES[1:])) if isometry else 1.0
        scale_pow = MAG[scale]
        A = tr.AffineTransform(hom(M * scale if scale != 1 else M, b))
        tmode = str(rng.choice(['affine', 'sequence', 'tps']))
        if abs(round(np.linalg.det(M))) != 1 and scale != 1:
            scale_pow, scale = 0, 1.0
            A = tr.AffineTransform(hom(M, b))
        if tmode == 'sequence':
            M2 = np.eye(3)[rng.permutation(3)] * rng.choice([-1.0, 1.0], size=3)
            b2 = rng.integers(-9, 10, size=3).astype(float)
            T = TransformSequence(A, tr.AffineTransform(hom(M2, b2)))
        elif tmode == 'tps' and scale == 1:
            src = rng.normal(size=(8, 3)) * 20
            T = tr.TPStransform(src, src + rng.normal(size=(8, 3)))
        else:
            T = A
        desc = dict(kind=kind, transform=tmode, matrix=M.tolist(), offset=b.tolist(), scale=scale, scale_power=scale_pow)
        nt = kind in ('skeleton', 'mesh', 'list') or tmode == 'sequence' or scale != 1
        ctx.case((kind, tmode, str(M.tolist()), str(b.tolist()), scale, ci), nontrivial=nt, sample=desc if ci < 3 else None)
        ctx.count('xform:' + kind)
        tol = lambda w: (1e-9 if tmode != 'tps' else 1e-7) * max(1.0, np.abs(w).max())
        if kind in ('skeleton', 'list'):
            x = sk if kind == 'skeleton' else navis.NeuronList([sk, F.mk_neuron(F.gen_forest(rng, 3, 10, roots=1, lattice=True, zero_edges=False), name='b', nid=9, units='1 um')])
            snap = [(n.nodes.copy(), None if n.connectors is None else n.connectors.copy()) for n in (x if kind == 'list' else [x])]
            st, y = guarded(navis.xform, x, T)
            if st != 'ok':
                ctx.violation('xform raised', desc, y)
                continue
            for n0, (nodes0, cn0), n1 in zip((x if kind == 'list' else [x]), snap, (y if kind == 'list' else [y])):
                if not n0.nodes.equals(nodes0) or (cn0 is not None and not n0.connectors.equals(cn0)):
                    ctx.violation('xform modified its input', desc)
                want = raw(T, nodes0[['x', 'y', 'z']].values)
                got = n1.nodes[['x', 'y', 'z']].values
                if np.abs(got - want).max() > tol(want):
                    ctx.violation('node coordinates are not moved as the transform moves the raw array', desc, dict(got=got[:2].tolist(), want=want[:2].tolist()))
                    break
                for col in [c for c in nodes0.columns if c not in ('x', 'y', 'z', 'radius')]:
                    if not n1.nodes[col].equals(nodes0[col]):
                        ctx.violation('xform changed column %r' % col, desc)
                if cn0 is not None:
                    wc = raw(T, cn0[['x', 'y', 'z']].values)
                    gc = n1.connectors[['x', 'y', 'z']].values
                    if np.abs(gc - wc).max() > tol(wc) or not n1.connectors[['connector_id', 'node_id', 'type']].equals(cn0[['connector_id', 'node_id', 'type']]):
                        ctx.violation('connectors are not moved with the transform / connector-to-node links changed', desc)
                if not isometry or tmode == 'tps':
                    continue
                # radius and units follow the detected power of ten
                wr = nodes0.radius.values * 10.0 ** scale_pow
                if np.abs(n1.nodes.radius.values - wr).max() > 1e-9 * max(1, np.abs(wr).max()):
                    ctx.violation('radii do not follow the detected change of scale', desc, dict(got=n1.nodes.radius.values[:3].tolist(), want=wr[:3].tolist()))
                u0 = n0.units.to('nm').magnitude
                u1 = n1.units.to('nm').magnitude
                if abs(u1 - u0 / 10.0 ** scale_pow) > 1e-9 * u0:
                    ctx.violation('units do not follow the detected change of scale', desc, dict(before=str(n0.units), after=str(n1.units)))
                if (n1.name, n1.id) != (n0.name, n0.id):
                    ctx.violation('xform changed name / id', desc)
        elif kind == 'mesh':
            v0, f0 = me.vertices.copy(), me.faces.copy()
            st, y = guarded(navis.xform, me, T)
            if st != 'ok':
                ctx.violation('xform raised', desc, y)
                continue
            want = raw(T, v0)
            if np.abs(y.vertices - want).max() > tol(want) or not np.array_equal(y.faces, f0):
                ctx.violation('mesh vertices not moved as the raw array / faces changed', desc)
            if not np.array_equal(me.vertices, v0):
                ctx.violation('xform modified its input', desc)
            wc = raw(T, me.connectors[['x', 'y', 'z']].values)
            if np.abs(y.connectors[['x', 'y', 'z']].values - wc).max() > tol(wc):
                ctx.violation('mesh connectors are not moved with the transform', desc)
        elif kind.startswith('dotprops'):
            x = dpk if kind == 'dotprops-k' else dp0
            with_cn = bool(rng.random() < 0.6)     # connectors are stacked behind the points (and helper points) in the collated block
            if with_cn:
                x.connectors = pd.DataFrame({'connector_id': [1, 2, 3], 'x': [1., 2., -3.], 'y': [0., 1., 4.], 'z': [3., 4., -1.], 'type': [0, 1, 0]})
            desc['connectors'] = with_cn
            p0 = np.asarray(x.points, dtype=float).copy()
            c0 = x.connectors[['x', 'y', 'z']].values.astype(float).copy() if with_cn else None
            st, y = guarded(navis.xform, x, T)
            if st != 'ok':
                ctx.violation('xform raised', desc, y)
                continue
            want = raw(T, p0)
            if np.abs(np.asarray(y.points) - want).max() > tol(want):
                ctx.violation('dotprops points not moved as the raw array', desc)
            if with_cn:
                wc = raw(T, c0)
                if y.connectors is None or np.abs(y.connectors[['x', 'y', 'z']].values - wc).max() > tol(wc) or list(y.connectors.connector_id) != [1, 2, 3]:
                    ctx.violation('dotprops connectors are not moved with the transform', desc)
                if not np.array_equal(x.connectors[['x', 'y', 'z']].values.astype(float), c0):
                    ctx.violation('xform modified its input', desc)
            nrm = np.linalg.norm(np.asarray(y.vect, dtype=float), axis=1)
            if len(nrm) != len(p0) or np.abs(nrm - 1).max() > 1e-6:
                ctx.violation('dotprops tangents are not unit vectors after the transform', desc, dict(norms=nrm[:5].tolist()))
            if kind == 'dotprops-nok' and tmode != 'tps':
                # tangents carried through helper points: direction = image of the tangent under the linear part (up to sign)
                L = M * scale
                if tmode == 'sequence':
                    L = M2 @ L
                w = np.asarray(dp0.vect, dtype=float) @ L.T
                w = w / np.linalg.norm(w, axis=1).reshape(-1, 1)
                dots = np.abs((w * np.asarray(y.vect, dtype=float)).sum(axis=1))
                if np.abs(dots - 1).max() > 1e-6:
                    ctx.violation('tangents carried through helper points are not the image of the original tangents', desc, dict(dots=dots[:5].tolist()))
            if not np.array_equal(np.asarray(x.points, dtype=float), p0):
                ctx.violation('xform modified its input', desc)
        else:
            df = pd.DataFrame(ptsd, columns=['x', 'y', 'z'])
            df['label'] = np.arange(len(df))
            df0 = df.copy()
            st, y = guarded(navis.xform, df, T)
            if st != 'ok':
                ctx.violation('xform raised', desc, y)
                continue
            want = raw(T, df0[['x', 'y', 'z']].values)
            if np.abs(y[['x', 'y', 'z']].values - want).max() > tol(want) or not y['label'].equals(df0['label']) or not df.equals(df0):
                ctx.violation('DataFrame: coordinates not moved as the raw array / other columns changed / input modified', desc)
        # ---------------- voxel neurons: the image content lands where the transform sends its coordinates ----------------
        if ci % 4 == 0:
            g = np.zeros((16, 16, 16), dtype=np.float32)
            lo3 = rng.integers(1, 10, size=3)
            g[lo3[0]:lo3[0] + 3, lo3[1]:lo3[1] + 3, lo3[2]:lo3[2] + 3] = 5
            vxn = navis.VoxelNeuron(g, units='1 nm', offset=rng.integers(-5, 6, size=3).astype(float))
            sc_ = float(rng.choice([1, 2, 2, 0.5]))
            Sv = tr.AffineTransform(hom(np.eye(3) * sc_, np.zeros(3)))
            Tv = tr.AffineTransform(hom(np.eye(3), rng.integers(-30, 31, size=3).astype(float)))
            order = int(rng.integers(3))
            TV = [TransformSequence(Sv, Tv), TransformSequence(Tv, Sv), Tv][order]
            dv = dict(kind='voxels', scale=sc_, offset=np.asarray(vxn.offset).tolist(), order=['scale-then-shift', 'shift-then-scale', 'shift'][order])
            ctx.case(('voxels', str(lo3.tolist()), sc_, order, ci), nontrivial=True)
            ctx.count('xform:voxels')
            stv, yv = guarded(navis.xform, vxn, TV)
            if stv != 'ok':
                ctx.violation('xform(VoxelNeuron) raised', dv, yv)
            else:
                vox0 = np.argwhere(g > 2.5)
                c0 = (vox0 * np.asarray(vxn.units_xyz.magnitude, dtype=float) + np.asarray(vxn.offset, dtype=float)).mean(axis=0)
                wantc = raw(TV, c0.reshape(1, 3))[0]
                vox1 = np.argwhere(np.asarray(yv.grid) > 2.5)
                if len(vox1) == 0:
                    ctx.violation('transformed voxel neuron lost its content', dv)
                else:
                    c1 = (vox1 * np.asarray(yv.units_xyz.magnitude, dtype=float) + np.asarray(yv.offset, dtype=float)).mean(axis=0)
                    if np.abs(c1 - wantc).max() > 1.5 * float(np.max(np.asarray(yv.units_xyz.magnitude, dtype=float))):
                        ctx.violation('voxel content does not land where the transform sends its coordinates', dv, dict(got=c1.tolist(), want=wantc.tolist()))
                if not np.array_equal(np.asarray(vxn.grid), g):
                    ctx.violation('xform modified its input', dv)
        # ---------------- mirroring ----------------
        axis = str(rng.choice(['x', 'y', 'z']))
        bb = np.sort(rng.integers(-30, 60, size=(3, 2)), axis=1).astype(float)
        bb[:, 1] += 5
        tb = TemplateBrain(label='TB', name='TB', boundingbox=bb.flatten().tolist() if rng.random() < 0.5 else bb.tolist())
        ix = 'xyz'.index(axis)
        size = bb[ix].sum()
        import trimesh as _tm
        vol_ = navis.Volume(np.asarray(me.vertices, dtype=float).copy(), np.asarray(me.faces).copy(), name='vol')
        tri_ = _tm.Trimesh(np.asarray(me.vertices, dtype=float).copy(), np.asarray(me.faces).copy(), process=False)
        for obj_name, obj in (('skeleton', sk), ('mesh', me), ('dotprops-nok', dp0), ('points', ptsd), ('volume', vol_), ('trimesh', tri_)):
            st, m1 = guarded(navis.mirror_brain, obj, tb, mirror_axis=axis, warp=False)
            d = dict(kind=obj_name, mirror_axis=axis, boundingbox=bb.tolist())
            ctx.case(('mirror', obj_name, axis, str(bb.tolist()), ci), nontrivial=True)
            ctx.count('mirror:' + obj_name)
            if st != 'ok':
                ctx.violation('mirror_brain raised', d, m1)
                continue
            st, m2 = guarded(navis.mirror_brain, m1, tb, mirror_axis=axis, warp=False)
            get = lambda o: (o.nodes[['x', 'y', 'z']].values if hasattr(o, 'nodes') else o.vertices if hasattr(o, 'vertices') else o.points if hasattr(o, 'points') else np.asarray(o))
            c0, c1, c2 = np.asarray(get(obj), dtype=float), np.asarray(get(m1), dtype=float), np.asarray(get(m2), dtype=float)
            want = c0.copy()
            want[:, ix] = size - want[:, ix]
            if np.abs(c1 - want).max() > 1e-9 * max(1, np.abs(want).max()):
                ctx.violation('mirroring is not the reflection about the template\'s midplane', d, dict(got=c1[:2].tolist(), want=want[:2].tolist()))
            elif np.abs(c2 - c0).max() > 1e-9 * max(1, np.abs(c0).max()):
                ctx.violation('mirroring twice (no warp) is not the identity', d)
            if obj_name in ('mesh', 'volume', 'trimesh'):
                if not np.array_equal(np.asarray(m1.faces), np.asarray(me.faces)[:, ::-1]) or not np.array_equal(np.asarray(m2.faces), np.asarray(me.faces)):
                    ctx.violation('mesh faces are not re-wound on mirroring', d)
            if obj_name == 'skeleton':
                if not m1.nodes[['node_id', 'parent_id', 'extra']].equals(sk.nodes[['node_id', 'parent_id', 'extra']]):
                    ctx.violation('mirroring changed ids / parents / other columns', d)
                wc = sk.connectors[['x', 'y', 'z']].values.astype(float).copy() if sk.connectors is not None else np.zeros((0, 3))
                wc[:, ix] = size - wc[:, ix]
                if len(wc) and np.abs(m1.connectors[['x', 'y', 'z']].values - wc).max() > 1e-9:
                    ctx.violation('connectors are not mirrored with the nodes', d)
            if obj_name == 'dotprops-nok':
                nrm = np.linalg.norm(np.asarray(m1.vect, dtype=float), axis=1)
                if np.abs(nrm - 1).max() > 1e-6:
                    ctx.violation('mirrored dotprops tangents are not unit vectors', d)
        # ---- mirroring WITH a warp that is not an isometry, and symmetrizing through a registered mirror registration:
        #      every object moves as the raw coordinate array does, tangents stay unit vectors, the input is untouched
        if ci % 3 == 0:
            from navis.transforms import registry
            Wm = np.eye(4)
            Wm[:3, :3] = np.diag(rng.choice([0.7, 1.0, 1.4], size=3)) + rng.choice([0.0, 0.05, 0.1], size=(3, 3)) * (1 - np.eye(3))
            Wm[:3, 3] = rng.integers(-20, 21, size=3)
            warp = tr.AffineTransform(Wm)
            lab = 'C16SYM%d_%d' % (int(ctx.seed) % 100000, ci)
            tbs = TemplateBrain(label=lab, name=lab, boundingbox=bb.flatten().tolist())
            registry.register_templatebrain(tbs)
            registry.register_transform(tr.AffineTransform(Wm), source=lab, target=None, transform_type='mirror')
            for obj_name, obj in (('skeleton', sk), ('mesh', me), ('dotprops-nok', dp0), ('volume', vol_), ('trimesh', tri_)):
                c0 = np.asarray(get(obj), dtype=float).copy()
                f0 = np.asarray(obj.faces).copy() if hasattr(obj, 'faces') else None
                for how in ('mirror+warp', 'symmetrize'):
                    d = dict(kind=obj_name, operation=how, mirror_axis=axis, boundingbox=bb.tolist(), warp=Wm.tolist())
                    if how == 'mirror+warp':
                        st, m1 = guarded(navis.mirror_brain, obj, tb, mirror_axis=axis, warp=warp)
                        st0, wantw = guarded(navis.mirror_brain, c0.copy(), tb, mirror_axis=axis, warp=warp)
                    else:
                        st, m1 = guarded(navis.symmetrize_brain, obj, template=lab)
                        st0, wantw = guarded(navis.symmetrize_brain, c0.copy(), template=lab)
                    ctx.case((how, obj_name, axis, str(bb.tolist()), ci), nontrivial=True)
                    ctx.count(how + ':' + obj_name)
                    if st != 'ok' or st0 != 'ok':
                        ctx.violation('%s raised' % how, d, m1 if st != 'ok' else wantw)
                        continue
                    if how == 'mirror+warp':      # the raw-array result itself: flip about the midplane, then the warp
                        fl = c0.copy(); fl[:, ix] = size - fl[:, ix]
                        ww = fl @ Wm[:3, :3].T + Wm[:3, 3]
                        if np.abs(np.asarray(wantw, dtype=float) - ww).max() > 1e-9 * max(1, np.abs(ww).max()):
                            ctx.violation('mirroring with a warp is not the flip about the midplane followed by the warp', dict(d, kind='points'))
                    c1 = np.asarray(get(m1), dtype=float)
                    if c1.shape != np.asarray(wantw).shape or np.abs(c1 - np.asarray(wantw, dtype=float)).max() > 1e-9 * max(1, np.abs(c1).max()):
                        ctx.violation('%s moves the object differently from the raw coordinate array' % how, d)
                    if m1 is obj or not np.array_equal(np.asarray(get(obj), dtype=float), c0) or (f0 is not None and not np.array_equal(np.asarray(obj.faces), f0)):
                        ctx.violation('%s modified its input' % how, d)
                    if obj_name == 'dotprops-nok':
                        stv, vv = guarded(lambda: np.asarray(m1.vect, dtype=float))
                        if stv != 'ok':
                            ctx.violation('dotprops without k have no tangents after %s' % how, d, vv,
                                          key='C16:symmetrize-kless-dotprops' if how == 'symmetrize' else None)
                            continue
                        nrm = np.linalg.norm(vv, axis=1)
                        if np.abs(nrm - 1).max() > 1e-6:
                            ctx.violation('dotprops tangents are not unit vectors after %s' % how, d, dict(norms=[float(nrm.min()), float(nrm.max())]))



def bridging(ctx, navis, rng, tr, hom, MAG):
    """xform_brain over registered template spaces: coordinates follow the raw transform sequence, radii the detected power of ten,
    and the units are those of the template the data ends up in - over one and several hops, both directions, neurons and lists"""
    from navis.transforms import registry
    from navis.transforms.templates import TemplateBrain
    UN = ['1 nm', '1 um', '1 mm', '1 um', '1 nm']
    for ci in range(ctx.n(24, 200)):
        tag = 'C16v%d_%d' % (int(ctx.seed) % 100000, ci)
        k = int(rng.integers(3, 5))
        units = [UN[(j + int(rng.integers(0, 2)) * 0) % len(UN)] for j in range(k)]
        if rng.random() < 0.5:
            units = units[::-1]
        nm = {'1 nm': 1.0, '1 um': 1e3, '1 mm': 1e6}
        names = ['%s_%d' % (tag, j) for j in range(k)]
        mats = []
        for j in range(k):
            registry.register_templatebrain(TemplateBrain(name=names[j], label=names[j], _navis_units=units[j]))
        for j in range(k - 1):
            sc = nm[units[j]] / nm[units[j + 1]]          # physical size preserved: a power of ten
            P = np.eye(3)[rng.permutation(3)] * rng.choice([-1.0, 1.0], size=3)
            b = rng.integers(-5, 6, size=3).astype(float)
            A = hom(P * sc, b)
            mats.append(A)
            registry.register_transform(tr.AffineTransform(A), source=names[j], target=names[j + 1], transform_type='bridging')
        f = F.gen_forest(rng, 4, 15, roots=1, lattice=True, zero_edges=False)
        cn = F.gen_connectors(rng, f, 4)
        a, bq = sorted(int(v) for v in rng.choice(k, size=2, replace=False))
        if rng.random() < 0.6:
            a, bq = 0, k - 1       # several hops through spaces with other units
        if rng.random() < 0.5:
            a, bq = bq, a
        sk = F.mk_neuron(f, connectors=cn, radius=rng.integers(1, 6, size=len(f['ids'])).astype(float), name='sk', nid=5, units=units[a])
        x = sk if rng.random() < 0.6 else navis.NeuronList([sk, F.mk_neuron(F.gen_forest(rng, 3, 8, roots=1, lattice=True, zero_edges=False), name='b', nid=9, units=units[a])])
        desc = dict(kind='xform_brain', path=names, units=units, source=a, target=bq, forest=f, listed=hasattr(x, 'neurons'))
        ctx.case(('bridge', str(units), a, bq, str(f['ids'])), nontrivial=abs(a - bq) > 1)
        ctx.count('xform_brain:hops=%d' % abs(a - bq))
        st, y = guarded(navis.xform_brain, x, source=names[a], target=names[bq], verbose=False)
        if st != 'ok':
            ctx.violation('xform_brain raised', desc, y)
            continue
        # raw image of the coordinates under the composed affine maps
        Mtot = np.eye(4)
        steps = range(a, bq) if a < bq else range(a - 1, bq - 1, -1)
        for j in steps:
            Mtot = (mats[j] if a < bq else np.linalg.inv(mats[j])) @ Mtot
        scale_pow = int(round(np.log10(nm[units[a]] / nm[units[bq]])))
        for n0, n1 in zip((x if hasattr(x, 'neurons') else [x]), (y if hasattr(y, 'neurons') else [y])):
            p0 = n0.nodes[['x', 'y', 'z']].values.astype(float)
            want = p0 @ Mtot[:3, :3].T + Mtot[:3, 3]
            got = n1.nodes[['x', 'y', 'z']].values.astype(float)
            if np.abs(got - want).max() > 1e-9 * max(1.0, np.abs(want).max()):
                ctx.violation('xform_brain: node coordinates are not moved as the bridging sequence moves the raw array', desc)
                break
            wr = n0.nodes.radius.values * 10.0 ** scale_pow
            if np.abs(n1.nodes.radius.values - wr).max() > 1e-9 * max(1.0, np.abs(wr).max()):
                ctx.violation('xform_brain: radii do not follow the change of scale', desc, dict(got=n1.nodes.radius.values[:3].tolist(), want=wr[:3].tolist()))
                break
            u1 = float(n1.units.to('nm').magnitude)
            if abs(u1 - nm[units[bq]]) > 1e-9 * nm[units[bq]]:
                ctx.violation('xform_brain: units are not those of the target space / do not follow the change of scale', desc,
                              dict(got=str(n1.units), want=units[bq]))
                break
