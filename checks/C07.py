"""C07 — SWC files round-trip and are valid, parent-first SWC tables.

The file navis writes is tokenised by an independent reader in the harness (comment lines, whitespace split,
exact Fractions) and (i) decided by the verified checker swc_valid_b (ids 1..N, parent listed earlier and numbered
lower), (ii) compared with model/Swc.v's table under the returned node map; navis' own reader is compared with the
same table for every source kind."""
import io
import os
import shutil
import tempfile
import zipfile
from fractions import Fraction
from pathlib import Path

import numpy as np
import pandas as pd

from vlib import coqio, forest as F
from vlib.coqio import term
from vlib.framework import guarded

RULE = ('random forests (any labelling incl. > 2^32, shuffled rows, several roots, REROOTED skeletons whose ids are not topologically ordered, '
        'missing radii) with soma / connectors x labels in {True, False, column, dict} x export_connectors x write_meta variants; every source '
        'kind (path, Path, SWC string, text buffer, binary buffer, DataFrame, folder, zip, fmt patterns) x precision 16/32/64 x delimiters. '
        'BaseReader.parse_filename against model/Fmt.v on random fmt patterns (literal runs with regex-special characters; named, typed, multi-name and ignored fields; malformed type annotations) x file names (rendered from values, separators inside values, garbage around, unrelated, directory prefixes, values that do not convert). '
        'non-trivial = forest has a branch point or >= 2 roots and non-sequential ids; distinct = distinct (table, options).')
ASSUMPTIONS = ['text <-> float conversion is Python\'s / pandas\' (trusted); coordinates are compared at the precision requested',
               'fmt model: field bodies with regex-special characters or blanks, nested braces, exponent / inf / nan / non-ASCII number spellings and paths ending in a slash or dot component are outside the generator (model/Fmt.v header)']


def tokenise(path):
    rows, header = [], []
    for line in open(path):
        if line.startswith('#'):
            header.append(line.rstrip('\n'))
            continue
        if not line.strip():
            continue
        rows.append(line.split())
    return header, rows


def run(ctx):
    import navis
    navis.set_loggers('ERROR')
    navis.set_pbars(hide=True)
    rng = ctx.rng
    from checks import fmtparse
    fmtparse.run(ctx, ctx.n(500, 8000), 'C07fmt')
    N = ctx.n(110, 1500)
    tmp = tempfile.mkdtemp(prefix='c07_', dir=os.path.join(coqio.VERIF, '.work'))
    jobs = []
    try:
        for ci in range(N):
            f = F.gen_forest(rng, 1, ctx.n(30, 100), lattice=bool(rng.random() < 0.5))
            ids = f['ids']
            radius = rng.integers(0, 9, size=len(ids)).astype(float) * 0.25
            if rng.random() < 0.2:
                radius[rng.random(len(ids)) < 0.3] = np.nan
            cn = F.gen_connectors(rng, f) if rng.random() < 0.5 else None
            x = F.mk_neuron(f, connectors=cn, radius=radius, name='nrn%d' % ci, nid=int(rng.integers(1, 10 ** 6)), units=str(rng.choice(['8 nm', '1 um', '1 dimensionless'])))
            soma = int(ids[int(rng.integers(len(ids)))]) if rng.random() < 0.5 else None
            x.soma = soma
            if rng.random() < 0.5:
                x = navis.reroot_skeleton(x, int(ids[int(rng.integers(len(ids)))]))
            rows = F.table_of(x)
            lab_mode = str(rng.choice(['auto', 'auto', 'none', 'dict', 'column']))
            export_cn = bool(rng.random() < 0.4 and cn is not None and lab_mode == 'auto')
            custom = {int(i): int(rng.integers(0, 9)) for i in ids}
            if lab_mode == 'column':
                x.nodes['mylabel'] = x.nodes.node_id.map(custom)
            labels = dict(auto=True, none=False, dict=custom, column='mylabel')[lab_mode]
            write_meta = [True, False, ['id', 'name'], {'foo': 'bar'}][int(rng.integers(4))]
            path = os.path.join(tmp, 'n%d.swc' % ci)
            st, nm = guarded(navis.write_swc, x, path, labels=labels, export_connectors=export_cn, write_meta=write_meta, return_node_map=True)
            desc = dict(forest=dict(ids=[r[0] for r in rows], parents=[r[1] for r in rows]), soma=soma, labels=lab_mode, export_connectors=export_cn,
                        write_meta=str(write_meta))
            nt = F.nontrivial(f) and f['labelling'] != 'seq'
            ctx.case((str(rows), lab_mode, export_cn, str(write_meta), soma), nontrivial=nt, sample=desc if len(rows) < 7 else None)
            ctx.count('labels:' + lab_mode)
            if st != 'ok':
                ctx.violation('write_swc raised', desc, nm)
                continue
            header, toks = tokenise(path)
            if any(len(t) != 7 for t in toks):
                ctx.violation('SWC file does not have seven columns', desc, dict(first=toks[:3]))
                continue
            file_rows = [(int(t[0]), int(t[6])) for t in toks]
            pre = [int(v) for v in x.presynapses.node_id.values] if cn is not None and export_cn else []
            post = [int(v) for v in x.postsynapses.node_id.values] if cn is not None and export_cn else []
            T = '(mk %s)' % term([(a, b) for a, b, _ in rows])
            if lab_mode == 'auto':
                labf = '(auto_label %s %s %s %s)' % (T, term([soma] if soma is not None else []), term(pre), term(post))
            elif lab_mode == 'none':
                labf = '(fun _ => 0)'
            else:
                labf = '(fun r => assoc %s (rid r))' % term(sorted(custom.items()))
            jobs.append(dict(desc=desc, x=x, path=path, header=header, toks=toks, node_map={int(k): int(v) for k, v in nm.items()}, rows=rows,
                             radius={int(i): r for i, r in zip(x.nodes.node_id.values, x.nodes.radius.values)}, write_meta=write_meta, soma=soma,
                             lab_mode=lab_mode, export_cn=export_cn,
                             exprs=['swc_valid_b %s' % term(file_rows),
                                    'map (fun q => (fst (fst (fst q)), snd (fst (fst q)), snd (fst q), snd q)) (swc_table %s %s)' % (T, labf),
                                    'node_map %s' % T]))
        flat = [e for j in jobs for e in j['exprs']]
        out = coqio.eval_terms('C07', ['model.Forest', 'model.Ops', 'model.Swc'], flat, shard=90)
        k = 0
        for j in jobs:
            r = out[k:k + 3]
            k += 3
            compare(ctx, navis, rng, tmp, j, r)
        sources(ctx, navis, rng, tmp)
    finally:
        shutil.rmtree(tmp, ignore_errors=True)


def compare(ctx, navis, rng, tmp, j, r):
    valid, mtable, mmap = r
    desc, x, toks = j['desc'], j['x'], j['toks']
    if not valid:
        ctx.violation('written file is not a valid SWC table (ids 1..N without gaps, every parent listed before and numbered lower than its children)',
                      desc, dict(rows=[(t[0], t[6]) for t in toks][:30]))
        return
    mm = {int(a): int(b) for a, b in mmap}
    if j['node_map'] != mm:
        ctx.violation('returned node map differs from the specification (file order = stable sort by depth)', desc, dict(impl=j['node_map'], model=mm))
        return
    inv = {v: k for k, v in j['node_map'].items()}
    pos = {int(i): (a, b, c) for i, a, b, c in zip(x.nodes.node_id.values, x.nodes.x.values, x.nodes.y.values, x.nodes.z.values)}
    for t, m in zip(toks, mtable):
        pid, lab, par, orig = m
        if (int(t[0]), int(t[6])) != (pid, par):
            ctx.violation('SWC rows differ from the specification table', desc, dict(impl=(t[0], t[6]), model=(pid, par)))
            return
        if int(float(t[1])) != lab:
            ctx.violation('SWC label differs from the specification (0/5/6/1/7/8 rules or custom labels by node id)', desc,
                          dict(point=pid, node=orig, impl=t[1], model=lab))
            return
        o = inv[pid]
        want = pos[o]
        if any(float(t[2 + q]) != float(want[q]) for q in range(3)):
            ctx.violation('coordinates in the file differ from the node table', desc, dict(node=o, file=t[2:5], table=want))
            return
        rr = j['radius'][o]
        if float(t[5]) != (0.0 if rr != rr else float(rr)):
            ctx.violation('radius in the file differs from the node table (NaN must become 0)', desc, dict(node=o, file=t[5], table=rr))
            return
    # round trip through navis' own reader
    st, y = guarded(navis.read_swc, j['path'], precision=64, connector_labels={'pre': 7, 'post': 8} if j['export_cn'] else {})
    if st != 'ok':
        ctx.violation('read_swc raised on a file written by write_swc', desc, y)
        return
    got = {int(i): int(p) for i, p in zip(y.nodes.node_id.values, y.nodes.parent_id.values)}
    want = {j['node_map'][a]: (j['node_map'][b] if b >= 0 else -1) for a, b, _ in j['rows']}
    if got != want:
        ctx.violation('round trip does not reproduce the tree under the node map', desc, dict(read=got, expected=want))
        return
    ypos = {int(i): (a, b, c, rr) for i, a, b, c, rr in zip(y.nodes.node_id.values, y.nodes.x.values, y.nodes.y.values, y.nodes.z.values, y.nodes.radius.values)}
    for o, n in j['node_map'].items():
        rr = j['radius'][o]
        w = tuple(float(v) for v in pos[o]) + ((0.0 if rr != rr else float(rr)),)
        # pandas' fast float parser is accurate to ~1 ulp only
        if any(abs(float(a_) - b_) > 1e-14 * max(1.0, abs(b_)) for a_, b_ in zip(ypos[n], w)):
            ctx.violation('round trip changed coordinates / radius', desc, dict(node=o, read=ypos[n], written=w))
            return
    if j['lab_mode'] == 'auto' and not j['export_cn']:
        want_soma = None if j['soma'] is None else j['node_map'][j['soma']]
        ysoma = None if y.soma is None else int(np.atleast_1d(y.soma)[0])
        if ysoma != want_soma:
            ctx.violation('round trip does not preserve the soma', desc, dict(read=ysoma, expected=want_soma))
    if j['export_cn']:
        # one label per node: synapse labels survive for nodes whose final label is 7 / 8
        labs = {int(m[0]): m[1] for m in mtable}
        wantc = sorted((pid, 'pre' if l == 7 else 'post') for pid, l in labs.items() if l in (7, 8))
        gotc = sorted((int(n), str(tp)) for n, tp in zip(y.connectors.node_id.values, y.connectors.type.values)) if y.connectors is not None else []
        if gotc != wantc:
            ctx.violation('synapse labels are not restored from an exported SWC', desc, dict(read=gotc, expected=wantc))
    if j['write_meta'] is True:
        if str(y.id) != str(x.id) or str(y.units) != str(x.units):
            ctx.violation('units / id are not restored from the header meta data', desc, dict(read=(str(y.id), str(y.units)), written=(str(x.id), str(x.units))))


def sources(ctx, navis, rng, tmp):
    """the same SWC table through every source kind"""
    for ci in range(ctx.n(12, 120)):
        f = F.gen_forest(rng, 2, 25, lattice=True)
        x = F.mk_neuron(f, name='alpha%d' % ci, nid=4200 + ci, radius=rng.integers(0, 5, size=len(f['ids'])).astype(float), units=str(rng.choice(['8 nm', '1 um', '2 nm'])))
        d = os.path.join(tmp, 'src%d' % ci)
        os.makedirs(d)
        # the file is NOT named after the neuron: what the file name says (through `fmt`) must win over the header metadata
        meta = bool(rng.random() < 0.6)
        p = os.path.join(d, 'beta%d_77.swc' % ci)
        navis.write_swc(x, p, write_meta=meta)
        text = open(p).read()
        prec = int(rng.choice([16, 32, 64]))
        def canon(n):
            return sorted((int(a), int(b), float(c), float(e), float(g), float(h)) for a, b, c, e, g, h in
                          zip(n.nodes.node_id.values, n.nodes.parent_id.values, n.nodes.x.values, n.nodes.y.values, n.nodes.z.values, n.nodes.radius.values))
        kinds = {}
        kinds['path'] = lambda: navis.read_swc(p, precision=prec)
        kinds['Path'] = lambda: navis.read_swc(Path(p), precision=prec)
        kinds['string'] = lambda: navis.read_swc(text, precision=prec)
        kinds['textbuffer'] = lambda: navis.read_swc(io.StringIO(text), precision=prec)
        kinds['binarybuffer'] = lambda: navis.read_swc(io.BytesIO(text.encode()), precision=prec)
        df = pd.read_csv(io.StringIO(text), comment='#', header=None, sep=' ', names=['node_id', 'label', 'x', 'y', 'z', 'radius', 'parent_id'])
        kinds['dataframe'] = lambda: navis.read_swc(df, precision=prec)
        kinds['folder'] = lambda: navis.read_swc(d, precision=prec, parallel=False)[0]
        z = os.path.join(tmp, 'arch%d.zip' % ci)
        with zipfile.ZipFile(z, 'w') as zf:
            zf.write(p, os.path.basename(p))
        kinds['zip'] = lambda: navis.read_swc(z, precision=prec, parallel=False)[0]
        # tab-delimited copy
        ptab = os.path.join(d, 'tab.swc_')
        open(ptab, 'w').write('\n'.join('\t'.join(l.split(' ')) if not l.startswith('#') else l for l in text.split('\n')))
        kinds['tab-delimited'] = lambda: navis.read_swc(open(ptab).read(), delimiter='\t', precision=prec)
        # the constructor routes: TreeNeuron(path | SWC string | binary buffer) read the file as read_swc does
        kinds['TreeNeuron(path)'] = lambda: navis.TreeNeuron(p)
        kinds['TreeNeuron(string)'] = lambda: navis.TreeNeuron(text)
        kinds['TreeNeuron(binarybuffer)'] = lambda: navis.TreeNeuron(io.BytesIO(text.encode()))
        res = {k: guarded(fn) for k, fn in kinds.items()}
        if prec != 32:
            for k in [k_ for k_ in res if k_.startswith('TreeNeuron(')]:      # the constructor has no precision argument: table compared at the default only
                del res[k]
        base = res['path']
        ctx.case((str(f['ids']), str(f['parents']), prec, 'sources'), nontrivial=F.nontrivial(f))
        ctx.count('sources')
        desc = dict(forest=f, precision=prec)
        if base[0] != 'ok':
            ctx.violation('read_swc(path) raised', desc, base[1])
            continue
        for k, (st, n) in res.items():
            if st != 'ok':
                ctx.violation('read_swc raised for source kind %s' % k, desc, n)
            elif canon(n) != canon(base[1]):
                ctx.violation('read_swc yields a different node table for source kind %s' % k, desc, dict(got=canon(n)[:5], path=canon(base[1])[:5]))
        # fmt pattern: name / id from the file name
        st, n = guarded(lambda: navis.read_swc(d, fmt='{name}_{id:int}.swc', parallel=False)[0])
        desc = dict(desc, write_meta=meta, file='beta%d_77.swc' % ci, neuron_name=x.name, neuron_id=x.id)
        if st != 'ok' or n.name != 'beta%d' % ci or n.id != 77:
            ctx.violation('name/id are not parsed from the file name as the fmt pattern prescribes', desc, dict(name=getattr(n, 'name', None), id=getattr(n, 'id', None)) if st == 'ok' else n)
        if meta:
            for k, (st, n) in res.items():
                if st == 'ok' and k != 'dataframe' and str(n.units) != str(x.units):
                    ctx.violation('units are not restored from the header metadata (source kind %s)' % k, desc, dict(units=str(n.units), want=str(x.units)))
        for kind in ('path', 'folder', 'zip'):
            st, n = res[kind]
            if st == 'ok' and n.name != 'beta%d_77' % ci:
                ctx.violation('with the default fmt the name is not the file name (source kind %s)' % kind, desc, dict(name=n.name))
            if st == 'ok' and meta and str(n.id) != str(x.id):
                ctx.violation('id (as text) is not restored from the header metadata (source kind %s)' % kind, desc, dict(id=n.id, want=x.id))
        # a LIST written to a folder and to a zip archive: one file per neuron whatever its id looks like (dots, dashes, blanks)
        if ci % 3 == 0:
            idl = ['AVLP%03d.R' % ci, 'AVLP%03d.L' % ci, int(500 + ci), 'v1.2-x']
            nl = navis.NeuronList([F.mk_neuron(F.gen_forest(rng, 2, 8, lattice=True), name='m%d' % j, nid=i_) for j, i_ in enumerate(idl)])
            def geo(n_):      # the tree up to renumbering: every node with its parent's position
                pos_ = {int(i_): (float(a_), float(b_), float(c_)) for i_, a_, b_, c_ in zip(n_.nodes.node_id.values, n_.nodes.x.values, n_.nodes.y.values, n_.nodes.z.values)}
                return sorted((pos_[int(i_)], float(r_), pos_.get(int(q_), (float('inf'),) * 3)) for i_, q_, r_ in zip(n_.nodes.node_id.values, n_.nodes.parent_id.values, n_.nodes.radius.values))
            want_l = {str(n_.id): geo(n_) for n_ in nl}
            for target in (os.path.join(tmp, 'list%d' % ci), os.path.join(tmp, 'list%d.zip' % ci)):
                if not target.endswith('.zip'):
                    os.makedirs(target)
                st, _w = guarded(navis.write_swc, nl, target)
                dl = dict(kind='list-to-' + ('zip' if target.endswith('.zip') else 'folder'), ids=[str(i_) for i_ in idl])
                ctx.count('list-write')
                if st != 'ok':
                    ctx.violation('write_swc(list) raised', dl, _w)
                    continue
                st, back = guarded(navis.read_swc, target, parallel=False)
                got_l = {str(n_.id): geo(n_) for n_ in back} if st == 'ok' else None
                if st != 'ok' or got_l != want_l:
                    ctx.violation('a list of neurons written to a folder / zip does not read back as the same trees under their ids', dl,
                                  back if st != 'ok' else dict(read_ids=sorted(got_l), written_ids=sorted(want_l)))
        # a pattern with an IGNORED field ({}): '<name>_<anything>_<id>.swc'
        d3 = os.path.join(tmp, 'src%d_ign' % ci)
        os.makedirs(d3)
        shutil.copy(p, os.path.join(d3, 'gamma%d_lPN_%d.swc' % (ci, 4711 + ci)))
        for pat, want_id in (('{name}_{}_{id}.swc', str(4711 + ci)), ('{name}_{}_{id:int}.swc', 4711 + ci)):
            st, n = guarded(lambda: navis.read_swc(d3, fmt=pat, parallel=False)[0])
            if st != 'ok' or n.name != 'gamma%d' % ci or n.id != want_id:
                ctx.violation('name/id are not parsed from the file name as a fmt pattern with an ignored field prescribes', dict(desc, fmt=pat, file='gamma%d_lPN_%d.swc' % (ci, 4711 + ci)),
                              dict(name=getattr(n, 'name', None), id=getattr(n, 'id', None)) if st == 'ok' else n)
        st, n = guarded(lambda: navis.read_swc(z, fmt='{name}_{id:int}.swc', parallel=False)[0])
        if st != 'ok' or n.name != 'beta%d' % ci or n.id != 77:
            ctx.violation('name/id are not parsed from the file name inside a zip archive as the fmt pattern prescribes', desc, dict(name=getattr(n, 'name', None), id=getattr(n, 'id', None)) if st == 'ok' else n)
        dt = {16: (np.float16,), 32: (np.float32,), 64: (np.float64,)}[prec]
        if base[1].nodes.x.dtype not in dt:
            ctx.violation('coordinates are not read at the requested precision', desc, str(base[1].nodes.x.dtype))
        # ... for EVERY source kind, and with the same column types as the path source
        want_dt = {c: str(base[1].nodes[c].dtype) for c in ('node_id', 'parent_id', 'x', 'y', 'z', 'radius')}
        for k, (st, n) in res.items():
            if st != 'ok':
                continue
            got_dt = {c: str(n.nodes[c].dtype) for c in want_dt}
            if got_dt != want_dt:
                ctx.violation('read_swc yields different column types (precision) for source kind %s' % k, desc, dict(got=got_dt, path=want_dt))
