#!/bin/bash
# run every claimed check (tier $1 = quick|thorough, default quick) on the current /repo tree; VERIF_SEED is honoured
cd /verif || exit 2
tier=${1:-quick}; jobs=${2:-4}
ids=$(python3 -c "import json; print(' '.join(c['property_id'] for c in json.load(open('MANIFEST.json'))['checks']))")
mkdir -p .work/runall
printf '%s\n' $ids | xargs -P "$jobs" -I{} sh -c "./check.py {} --tier $tier > .work/runall/{}.$tier.log 2>&1; echo {} rc=\$? \$(tail -1 .work/runall/{}.$tier.log)"
