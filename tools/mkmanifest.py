#!/usr/bin/env python3
"""Regenerate MANIFEST.json from the table below (keeps it schema-valid at all times)."""
import json, os, subprocess
V = os.path.dirname(os.path.dirname(os.path.abspath(__file__)))
BASE = "cd /repo && /venv/bin/python -m pytest -ra -q -p no:cacheprovider --timeout=900 --continue-on-collection-errors"
NOTE = ("Trusted: Coq 8.16.1 kernel + vm_compute (no native_compute); no axioms (Print Assumptions per theorem in the evidence file); "
        "the Python-ast translator and the correspondence harness (generators, canonicalisers, Coq term printer/parser); "
        "third-party libraries navis calls are modelled by their specification and tied only by the correspondence run.")
CLAIMED = {
 'C20': dict(text="Theorems (props/C20.v, closed under the global context) state for ALL connector tables that the model of NeuronConnector yields exactly one edge per (pre row, post row) pair with multiplicity, __OTHER__ exactly when requested, that adjacency/digraph/multigraph are views of one edge multiset and that SUM-grouping conserves totals; the hand-written model is tied to /repo on every run by evaluating it (vm_compute) on the same random tables as the real NeuronConnector/group_matrix and diffing canonical outputs.",
             technique="Coq proof over an executable Gallina model + differential correspondence (coqc vm_compute vs navis)", ref="6/C20"),
}
CLAIMED['C01'] = dict(text="History theorem C01_history_wf (props/C01.v): for EVERY finite sequence over the modelled operation alphabet (subset, contraction, reroot, cut distal/proximal, node insertion, id relabelling, concatenation, fragment join, identity) with arbitrary parameters, a well-formed forest stays well formed (unique ids, parents present, acyclic via a rank function); per-operation theorems; wfb_iff proves the boolean checker exact. Tie: random histories of real navis operations, every table left behind is decided by the verified checker evaluated in Coq (plus type labels = classify, no missing values, soma membership) and, for modelled operations, compared with model/Ops.v step by step.",
             technique="Coq proof by induction over operation histories + verified boolean checker run on implementation outputs + stepwise differential correspondence", ref="6/C01")
CLAIMED['C10'] = dict(text="Theorems (props/C10.v) for ALL well-formed forests and targets: reroot preserves the node list, row order, payload and the undirected edge set, makes the target a root, leaves rows off the reversed path (all other fragments) identical and is the identity on current roots; cut pieces are descendants-or-self / the rest, share only the cut node and contain every edge exactly once; subset keeps exactly requested-and-present ids with the original parent iff it survives, exactly the connectors/tags of survivors; prevent_fragments: superset, connected, only nodes on requested nodes' root paths (global minimality is partial: decided by model equality on outputs). Tie: exact equality of node tables, types, connector tables and tag maps between navis and the model evaluated in Coq on random forests/backends.",
             technique="Coq proofs of functional specifications + exact differential correspondence (vm_compute vs navis)", ref="6/C10")
CLAIMED['C05'] = dict(text="The model IS the definition the property names (walk parent links, sum edge lengths). Theorems (props/C05.v): root distance obeys the parent recurrence; the geodesic distance is symmetric, 0 on the diagonal, finite exactly when the two chains share an ancestor; directed distance is defined exactly for ancestors and agrees with the undirected one; limit and adjacency-by-id specs; partition_okb/shape_okb, the checkers run on EVERY segments/small_segments output, are proved to accept only partitions of the edge set into child->parent paths with the right end types (soundness); the model's own small segments are chains (their coverage is partial, see theorem name). Tie: label-keyed comparison of geodesic_matrix/dist_between/dist_to_root/distal_to/cable_length/adjacency with the model (exact on the integer-length lattice stream), all from_/directed/weight/limit settings, three backends.",
             technique="Coq proofs about the definitional model + verified checkers applied to implementation outputs + differential correspondence", ref="6/C05")
CLAIMED['C02'] = dict(text="Abstract cache machine (versions, md5 snapshot, sticky stale flag, lock counter, per-view cache) with theorem C02_read_fresh: for EVERY history of edits, reads, clears, locked sections, carried caches, copies and pickle round trips, an unlocked read of a guarded TEMP_ATTR view returns the value built from the current table (invariant: an out-of-date entry is always detectable). The facts the theorem needs about the code (TEMP_ATTR, CORE_DATA, which properties are wrapped in temp_property, all 51 _clear_temp_attr(exclude=...) call sites, __getstate__ pops, copy()'s stale branch, shapes of temp_property/_clear_temp_attr/is_stale) are REGENERATED from /repo by translate/cache.py on every run and the obligations are re-discharged by vm_compute (C02_source_meets_obligations, C02_read_fresh_current_source); necessity of each obligation is shown by refutation examples. Tie of the machine's Carry assumption and of everything else: random interleavings of warming reads, navis ops and direct edits on the real navis, each followed by reads compared with a freshly constructed neuron.",
             technique="Coq invariant proof over operation histories of an abstract machine + source-to-Coq translator (Python ast) regenerating the obligations + differential correspondence", ref="6/C02")
CLAIMED['C12'] = dict(text="Model of the pruning criteria over exact edge lengths (twigs = leaf up to the next node with >=2 children; recursion to a fixpoint; exact mode as 'keep the cable whose height above the tips is >= size'; Strahler selections incl. Python slice semantics; depth; greedy longest neurites; connector relocation). Theorems (props/C12.v): twig characterisation, removed set = nodes of qualifying twigs, kept rows untouched (subset semantics), recursive pruning terminates with no qualifying twig left (for all forests, by a decreasing-size argument), prune_at_depth membership, each selection form denotes the stated index set, exactly the unselected indices are kept, connectors move to the NEAREST surviving ancestor. longest_neurite and exact=True are specification-by-model only (partial). Tie: equality of pruned node/connector tables between navis and the model evaluated in Coq; exact-mode tips compared geometrically.",
             technique="Coq proofs over an executable specification + exact differential correspondence", ref="6/C12")
PENDING = {}
props = [json.loads(l) for l in open(os.path.join(V, 'properties.jsonl'))]
checks, na = [], []
for p in props:
    i = p['id']
    if i in CLAIMED:
        c = CLAIMED[i]
        checks.append(dict(property_id=i, quick_cmd="./check.py %s --tier quick" % i, thorough_cmd="./check.py %s --tier thorough" % i,
                           evidence_file="/verif/evidence/%s.json" % i, replay_cmd_template="./check.py %s --replay {path}" % i,
                           engine="coq-proof+correspondence",
                           level_claimed=dict(category="proof", text=c['text'], design_ref=c['ref']),
                           level_note=c.get('note', NOTE), technique=c['technique']))
    else:
        na.append(dict(property_id=i, reason=PENDING.get(i, "check not built yet in this round (planned: DESIGN.md section 6); no claim is made for it")))
m = dict(version=1, setup_cmd="cd /verif && ./setup.sh",
         hooks=dict(guard="NAVIS_VERIF", enable="checks export NAVIS_VERIF=1; no source instrumentation is needed (backends, schedules and caches are reachable from the harness), so nothing in /repo reads the variable",
                    baseline_off_cmd=BASE, source_commits=[], add_only=True),
         engines=[dict(name="coq-proof+correspondence", path="/verif/check.py", serves_properties=sorted(CLAIMED),
                       kind_free_text="Coq 8.16 development (coq/), Python-ast translator (translate/), differential correspondence harness (vlib/, checks/)")],
         checks=checks, not_applicable=na,
         notes="See DESIGN.md. known_findings.json lists genuine defects recorded rather than repaired and 'fixed' lines.")
json.dump(m, open(os.path.join(V, 'MANIFEST.json'), 'w'), indent=1)
print('claimed', sorted(CLAIMED), 'unclaimed', len(na))
