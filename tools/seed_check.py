#!/usr/bin/env python3
"""Run /verif checks against a filed mutant:  tools/seed_check.py C07-m1 [Cxx ...]   (default: the mutant's own property)

Applies seeded/<name>/patch.diff to /repo (which must be clean), runs the quick check(s), ALWAYS restores /repo, and
writes seeded/<name>/result.json = {check: {rc, violation_line, summary}}.  Evidence files touched by the run are restored
from git so that mutation runs never end up committed."""
import json
import os
import subprocess
import sys

V = '/verif'


def sh(cmd, cwd=None, timeout=6000):
    p = subprocess.run(cmd, cwd=cwd, stdout=subprocess.PIPE, stderr=subprocess.STDOUT, timeout=timeout, text=True)
    return p.returncode, p.stdout


def main():
    name = sys.argv[1]
    d = '%s/seeded/%s' % (V, name)
    pids = sys.argv[2:] or [name.split('-')[0]]
    rc, out = sh(['ps', '-eo', 'pid,args'])
    others = [l for l in out.splitlines() if (' /verif/check.py C' in l and '/venv/bin/python' in l.split()[1:2]) or l.split()[1:3] == ['/bin/bash', './tools/runall.sh']]
    assert not others, 'another check is running against /repo: wait for it\n' + '\n'.join(others)
    rc, out = sh(['git', '-C', '/repo', 'status', '--porcelain'])
    assert out.strip() == '', '/repo is not clean: ' + out
    rc, out = sh(['git', '-C', '/repo', 'apply', d + '/patch.diff'])
    assert rc == 0, out
    res = {}
    try:
        for pid in pids:
            rc, out = sh([V + '/check.py', pid, '--tier', 'quick'], cwd=V)
            lines = out.strip().splitlines()
            viol = [l for l in lines if l.startswith('VIOLATION')]
            res[pid] = dict(rc=rc, violation=viol[0] if viol else None, summary=lines[-1] if lines else '')
            if viol:
                rp = viol[0].split('replay=')[1].split()[0]
                try:
                    r = json.load(open(rp))
                    res[pid]['first'] = (r.get('violations') or r.get('mismatches') or [{}])[0].get('clause') or (r.get('mismatches') or [{}])[0].get('what') or (r.get('no_longer_checks') or [''])[0][:200]
                except Exception:
                    pass
    finally:
        sh(['git', '-C', '/repo', 'checkout', '--', '.'])
        sh(['git', '-C', V, 'checkout', '--', 'evidence'])
    old = json.load(open(d + '/result.json')) if os.path.exists(d + '/result.json') else {}
    old.update(res)
    json.dump(old, open(d + '/result.json', 'w'), indent=1)
    print(json.dumps(res, indent=1))


if __name__ == '__main__':
    main()
