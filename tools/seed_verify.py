#!/usr/bin/env python3
"""Confirm a sub-agent mutant and file it under /verif/seeded/.

  tools/seed_verify.py C07 m1            # deliverables expected in /tmp/seedwork/C07/m1/{patch.diff,demo.py,meta.json}

Steps (all in a fresh scratch worktree of /repo under /tmp, removed afterwards):
  1. demo.py on the clean tree must exit 0;  2. patch applies;  3. demo.py with the patch must exit 1;
  4. the test suite with the patch fails exactly the tests that fail without it (baseline ids in /tmp/seedwork/baseline_fail.txt,
     produced by `tools/seed_verify.py --baseline`).
Then the files are copied to /verif/seeded/<id>-<mk>/ with the verdicts added to meta.json.
Running the /verif checks against the mutant is a separate step (tools/seed_check.py) because it touches /repo."""
import json
import os
import re
import shutil
import subprocess
import sys

SEED = '/tmp/seedwork'
PYT = ['/venv/bin/python', '-m', 'pytest', '-q', '-p', 'no:cacheprovider', '--timeout=900', '--continue-on-collection-errors', '-rf']


def sh(cmd, cwd=None, env=None, timeout=3000):
    p = subprocess.run(cmd, cwd=cwd, env=env, stdout=subprocess.PIPE, stderr=subprocess.STDOUT, timeout=timeout, text=True)
    return p.returncode, p.stdout


def failing(out):
    return sorted(set(re.findall(r'^FAILED (\S+)', out, flags=re.M)) | set(re.findall(r'^ERROR (\S+)', out, flags=re.M)))


def tests(wt):
    home = wt + '_home'          # the suite writes ~/test.h5 etc.: a private HOME keeps concurrent suites from colliding
    os.makedirs(home, exist_ok=True)
    env = dict(os.environ, PYTHONPATH=wt, PYTHONHASHSEED='0', HOME=home, OMP_NUM_THREADS='2', OPENBLAS_NUM_THREADS='2')
    rc, out = sh(PYT, cwd=wt, env=env)
    tail = out.strip().splitlines()[-1] if out.strip() else ''
    return failing(out), tail


def worktree(name):
    wt = '/tmp/vs_' + name
    sh(['git', '-C', '/repo', 'worktree', 'remove', '--force', wt])
    shutil.rmtree(wt, ignore_errors=True)
    rc, out = sh(['git', '-C', '/repo', 'worktree', 'add', '--detach', wt, 'HEAD'])
    assert rc == 0, out
    return wt


def drop(wt):
    sh(['git', '-C', '/repo', 'worktree', 'remove', '--force', wt])
    shutil.rmtree(wt, ignore_errors=True)
    shutil.rmtree(wt + '_home', ignore_errors=True)


def main():
    if sys.argv[1] == '--baseline':
        wt = worktree('baseline')
        f, tail = tests(wt)
        drop(wt)
        open(SEED + '/baseline_fail.txt', 'w').write('\n'.join(f) + '\n')
        print(len(f), 'failing on the clean tree;', tail)
        return
    pid, mk = sys.argv[1], sys.argv[2]
    src = '%s/%s/%s' % (SEED, pid, mk)
    for f in ('patch.diff', 'demo.py', 'meta.json'):
        assert os.path.exists(src + '/' + f), 'missing ' + f
    base = open(SEED + '/baseline_fail.txt').read().split()
    wt = worktree('%s_%s' % (pid, mk))
    env = dict(os.environ, PYTHONPATH=wt, PYTHONHASHSEED='0')
    res = {}
    try:
        shutil.copy(src + '/demo.py', wt + '/demo.py')
        rc0, out0 = sh(['/venv/bin/python', 'demo.py'], cwd=wt, env=env, timeout=900)
        res['demo_clean_rc'] = rc0
        rca, outa = sh(['git', '-C', wt, 'apply', src + '/patch.diff'])
        res['applies'] = rca == 0
        if rca == 0:
            rc1, out1 = sh(['/venv/bin/python', 'demo.py'], cwd=wt, env=env, timeout=900)
            res['demo_mutant_rc'] = rc1
            res['demo_mutant_tail'] = out1.strip().splitlines()[-6:]
            f, tail = tests(wt)
            res['tests_tail'] = tail
            res['new_failures'] = sorted(set(f) - set(base))
            res['new_passes'] = sorted(set(base) - set(f))
        else:
            res['apply_error'] = outa[-400:]
    finally:
        drop(wt)
    ok = res.get('applies') and res.get('demo_clean_rc') == 0 and res.get('demo_mutant_rc') == 1 and not res.get('new_failures')
    res['confirmed'] = bool(ok)
    print(json.dumps(res, indent=1))
    if ok:
        dst = '/verif/seeded/%s-%s' % (pid, mk)
        os.makedirs(dst, exist_ok=True)
        for f in ('patch.diff', 'demo.py'):
            shutil.copy(src + '/' + f, dst + '/' + f)
        meta = json.load(open(src + '/meta.json'))
        meta['confirmed_by_framework_author'] = {k: res[k] for k in ('demo_clean_rc', 'demo_mutant_rc', 'tests_tail', 'new_failures')}
        json.dump(meta, open(dst + '/meta.json', 'w'), indent=1)
    sys.exit(0 if ok else 1)


if __name__ == '__main__':
    main()
