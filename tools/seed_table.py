#!/usr/bin/env python3
"""Markdown table of the filed mutants and which check caught them (from seeded/*/meta.json + result.json)."""
import glob
import json
import os

rows = []
for d in sorted(glob.glob('/verif/seeded/*')):
    name = os.path.basename(d)
    try:
        m = json.load(open(d + '/meta.json'))
    except Exception:
        continue
    r = json.load(open(d + '/result.json')) if os.path.exists(d + '/result.json') else {}
    caught = [k for k, v in r.items() if v.get('rc') == 1]
    missed = [k for k, v in r.items() if v.get('rc') == 0]
    first = '; '.join('%s: %s' % (k, (r[k].get('first') or '').replace('|', '/')[:110]) for k in caught)
    files = m.get('files')
    files = ', '.join(os.path.basename(f) for f in files) if isinstance(files, list) else str(files)
    rows.append('| %s | %s | %s | %s | %s |' % (name, (m.get('summary') or '').replace('|', '/').replace('\n', ' ')[:230], files,
                                            ', '.join(caught) or '—', first or ('not caught by ' + ', '.join(missed) if missed else 'not run')))
print('| mutant | change | file | caught by | first reported clause |')
print('|---|---|---|---|---|')
print('\n'.join(rows))
