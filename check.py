#!/usr/bin/env python3
"""Single entry point:  ./check.py C07 [--tier quick|thorough] [--replay file]

1. regenerate coq/gen/*.v from /repo's working tree (translate/)
2. full .vo build of the Coq development (incremental, make -k)
3. re-check props/<ID>.v (the property theorems + Print Assumptions)
4. correspondence run of checks/<ID>.py against the real navis
5. verdict, evidence/<ID>.json, replay file, exit code
"""
import argparse
import importlib
import os
import sys

VERIF = os.path.dirname(os.path.abspath(__file__))
PY = '/venv/bin/python'


def reexec():
    want = dict(PYTHONPATH='/repo', PYTHONHASHSEED='0', NAVIS_VERIF='1', NAVIS_HEADLESS='1',
                OMP_NUM_THREADS='1', MPLBACKEND='Agg')
    if os.path.realpath(sys.executable) != os.path.realpath(PY) or any(os.environ.get(k) != v for k, v in want.items()):
        env = dict(os.environ)
        env.update(want)
        os.execve(PY, [PY, os.path.abspath(__file__)] + sys.argv[1:], env)


TRUSTED = [
    'Coq 8.16.1 kernel (coqc full .vo build; vm_compute used for finite table checks and for evaluating the model on correspondence cases; native_compute not used)',
    'no Axiom/Parameter/Admitted in the development (selfcheck.sh greps on every setup); per-theorem Print Assumptions recorded under coverage.print_assumptions',
    'translator /verif/translate/*.py (Python ast, fail-closed) that regenerates coq/gen/*.v from /repo on every run',
    'correspondence harness (vlib/, checks/): generators, canonicalisers, Coq term printer/parser, coqc evaluation of the model by vm_compute',
    'modelled-not-verified: numpy/pandas/scipy/networkx/igraph/navis_fastcore/pint and every other third-party library navis calls',
]


def main():
    reexec()
    ap = argparse.ArgumentParser()
    ap.add_argument('pid')
    ap.add_argument('--tier', default=os.environ.get('VERIF_TIER', 'quick'))
    ap.add_argument('--replay')
    ap.add_argument('--no-build', action='store_true')
    a = ap.parse_args()
    seed = int(os.environ.get('VERIF_SEED', '20260930'))
    if a.replay:
        # a replay file records the seed and tier of the run that produced it: all random choices derive from that one seed, so
        # re-running with it reproduces the same cases (and, on the same tree, the same first violation, which is printed first)
        import json
        rp = json.load(open(a.replay))
        seed, a.tier = int(rp.get('seed', seed)), rp.get('tier', a.tier)
        first = (rp.get('violations') or rp.get('mismatches') or [None])[0]
        print('replaying %s: seed=%d tier=%s' % (a.replay, seed, a.tier))
        if first:
            print('recorded: %s' % json.dumps(first)[:1500])
        for n_ in rp.get('no_longer_checks', []):
            print('recorded (no longer checks): %s' % str(n_)[:600])
    sys.path.insert(0, VERIF)
    os.chdir(VERIF)
    import warnings
    warnings.filterwarnings('ignore')
    from vlib import coqio, framework
    import translate.all as tr
    # a corrupted table can make pandas / scipy allocate without bound: cap the address space so that the call fails with
    # MemoryError (reported through `guarded`) instead of the whole check being killed
    try:
        import resource
        cap = int(float(os.environ.get('VERIF_MEM_GB', '16')) * (1 << 30))
        resource.setrlimit(resource.RLIMIT_AS, (cap, cap))
    except Exception:
        pass
    ctx = framework.Ctx(a.pid, a.tier, seed)
    mod = importlib.import_module('checks.' + a.pid)

    # 1. translator
    tr_status = tr.run()            # {genfile: (ok, message)}
    for g in getattr(mod, 'GEN', []):
        ok, msg = tr_status.get(g, (False, 'translator did not run'))
        ctx.obligation('translate:' + g, ok, msg)
    # 2. build
    if not a.no_build:
        b = coqio.make()
        ctx.extra['build_wall_s'] = round(b.wall, 1)
    # 3. property theorems
    pr = coqio.check_props(a.pid)
    for name in pr['theorems']:
        ctx.obligation('theorem:' + name, pr['ok'] or (pr['failed'] is not None and name != pr['failed'] and pr['theorems'].index(name) < pr['theorems'].index(pr['failed'])),
                       '' if pr['ok'] else pr['log'][-400:])
    if not pr['ok'] and not pr['theorems']:
        ctx.obligation('props/%s.v' % a.pid, False, pr['log'][-400:])
    ctx.assumptions = pr['assumptions']
    ctx.proofs_ok = pr['ok']
    ctx.proof_log = pr['log']
    # 4.+5. correspondence and verdict, in a child process: compiled back ends (navis-fastcore, igraph, ncollpyde) can abort or be
    # OOM-killed on a corrupted table, which no Python handler can catch.  `guarded` records every implementation call in
    # VERIF_INFLIGHT before making it; if the child dies the parent reports that call as the failing input.
    inflight = os.path.join(VERIF, '.work', a.pid, 'inflight.json')
    os.makedirs(os.path.dirname(inflight), exist_ok=True)
    if os.path.exists(inflight):
        os.remove(inflight)
    os.environ['VERIF_INFLIGHT'] = inflight
    sys.stdout.flush(); sys.stderr.flush()
    child = os.fork()
    if child == 0:
        rc = 1
        try:
            try:
                mod.run(ctx)
            except Exception as e:  # harness failure is never silently a pass
                import traceback
                ctx.obligation('harness', False, 'exception in check: %s\n%s' % (e, traceback.format_exc()[-1500:]))
            rc = ctx.finish(rule=getattr(mod, 'RULE', ''), trusted_base=TRUSTED + getattr(mod, 'TRUSTED', []),
                            assumptions=getattr(mod, 'ASSUMPTIONS', []),
                            checker_cmd='cd /verif && ./check.py %s --tier %s  (coq_makefile+make full .vo build; coqc props/%s.v)' % (a.pid, a.tier, a.pid))
        finally:
            sys.stdout.flush(); sys.stderr.flush()
            os._exit(rc if rc in (0, 1) else 1)
    _, status = os.waitpid(child, 0)
    if os.WIFEXITED(status) and os.WEXITSTATUS(status) in (0, 1):
        sys.exit(os.WEXITSTATUS(status))
    import json
    how = 'signal %d' % os.WTERMSIG(status) if os.WIFSIGNALED(status) else 'exit status %d' % os.WEXITSTATUS(status)
    try:
        call = json.load(open(inflight))
    except Exception:
        call = dict(note='no implementation call was in flight')
    ctx.violation('the implementation call in flight killed the Python process (%s: abort / out-of-memory in compiled code) instead of returning or raising' % how, call)
    rc = ctx.finish(rule=getattr(mod, 'RULE', ''), trusted_base=TRUSTED + getattr(mod, 'TRUSTED', []), assumptions=getattr(mod, 'ASSUMPTIONS', []),
                    checker_cmd='cd /verif && ./check.py %s --tier %s' % (a.pid, a.tier))
    sys.exit(rc)


if __name__ == '__main__':
    main()
