#!/bin/sh
# Build the framework from files on disk only (offline): regenerate coq/gen from /repo, full .vo build, self-check.
set -e
cd "$(dirname "$0")"
export PYTHONPATH=/repo PYTHONHASHSEED=0
/venv/bin/python -m translate.all
cd coq
coq_makefile -f _CoqProject -o Makefile.coq >/dev/null
timeout 3000 make -f Makefile.coq -k -j16 > ../.work/setup_build.log 2>&1 || { tail -40 ../.work/setup_build.log; echo "setup: coq build reported errors (checks of the affected properties will say so)"; }
cd ..
./selfcheck.sh
