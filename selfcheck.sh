#!/bin/sh
# No axioms, no admitted proofs, no disabled kernel checks anywhere in the development.
cd "$(dirname "$0")/coq"
if grep -rnE '\b(Admitted|admit|Axiom|Axioms|Parameter|Parameters|Conjecture|Hypothesis|Variable|Variables)\b|Unset Guard|bypass_check|Admit Obligations|type-in-type|impredicative-set' --include=*.v . | grep -vE '^\./[^:]+:[0-9]+:\s*\(\*' | grep -vE 'Section-local:'; then
  echo "selfcheck: forbidden declaration found"; exit 1
fi
echo "selfcheck: ok (no Admitted/admit/Axiom/Parameter/Conjecture/Variable/Hypothesis, no disabled checks)"
