(* Healing and stitching (morpho/manipulation.py: heal_skeleton/_stitch_mst, stitch_skeletons, break_fragments). C11. *)
From Coq Require Import List ZArith QArith Bool Lia Arith.
Import ListNotations.
From Navis Require Import model.Forest model.Ops model.Dist.
Open Scope Z_scope.

(* candidate edge between two fragments: (fragment a, fragment b, node a, node b, distance) *)
Record cand := { fa : Z; fb : Z; na : Z; nb : Z; cd : Q }.

(* union-find as an association list fragment -> representative *)
Definition uf := list (Z * Z).
Fixpoint find (u : uf) (x : Z) : Z :=
  match u with
  | [] => x
  | (k, v) :: u' => if k =? x then v else find u' x
  end.
Definition union (u : uf) (a b : Z) : uf :=
  let ra := find u a in let rb := find u b in map (fun kv => (fst kv, if snd kv =? rb then ra else snd kv)) u.
Definition uf_init (frags : list Z) : uf := map (fun f => (f, f)) frags.

(* Kruskal over candidate edges already sorted by distance *)
Fixpoint kruskal (u : uf) (es : list cand) : list cand * uf :=
  match es with
  | [] => ([], u)
  | e :: es' =>
      if find u (fa e) =? find u (fb e) then kruskal u es'
      else let (chosen, u') := kruskal (union u (fa e) (fb e)) es' in (e :: chosen, u')
  end.
Definition total_len (es : list cand) : Q := fold_right (fun e acc => (cd e + acc)%Q) 0%Q es.

(* healing = one join per chosen edge *)
Definition heal (t : table) (chosen : list cand) : table :=
  fold_left (fun acc e => step' acc (OJoin (na e) (nb e))) chosen t.

Definition roots (t : table) : list Z := map rid (filter is_root t).
(* break_fragments: nodes grouped by the root of their fragment *)
Definition fragments (t : table) : list (list Z) :=
  map (fun r => map rid (filter (fun q => root_of t (rid q) =? r) t)) (roots t).

(* ---- stitching: checker for an id-unifying concatenation ----
   inputs: the tables in list order; output: the combined table, cut into pieces of the input lengths;
   the id map of piece i is read off row by row *)
Fixpoint zipmap (a b : list Z) : list (Z * Z) :=
  match a, b with
  | x :: a', y :: b' => (x, y) :: zipmap a' b'
  | _, _ => []
  end.
Fixpoint pieces (lens : list nat) (t : table) : list table :=
  match lens with
  | [] => []
  | n :: rest => firstn n t :: pieces rest (skipn n t)
  end.
Definition table_eqb (a b : table) : bool :=
  list_eqb (ids a) (ids b) && list_eqb (pars a) (pars b).
Definition stitch_okb (inputs : list table) (out_ : table) : bool :=
  let ps := pieces (map (@length row) inputs) out_ in
  Nat.eqb (length out_) (fold_right Nat.add O (map (@length row) inputs))
  && nodupb (ids out_)
  && forallb (fun r => 0 <=? rid r) out_
  && forallb (fun ip => table_eqb (relabel_rows (zipmap (ids (fst ip)) (ids (snd ip))) (fst ip)) (snd ip)) (combine inputs ps).
