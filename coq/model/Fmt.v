(* C14 / C07: attributes parsed from a file name as the fmt pattern prescribes.
   Model of navis/io/base.py BaseReader.parse_filename:
     fmt is tokenised into literal runs and {...} fields; every field becomes a regex group matching any run of characters, every literal is escaped;
     re.search = leftmost start, groups greedy with backtracking, . does not match a newline;
     the i-th field body is split on ',' into names (optionally name:type), empty names are skipped, each name receives the text
     of the i-th group (converted for int / float / bool / str), written into a dict that starts with {"file": filename}.
   Characters are Z code points.  What is NOT modelled (the correspondence generator stays inside): field bodies containing regex-special
   characters or blanks (navis escapes them before it reads the names), nested braces, int()/float() spellings other than
   optional blanks, optional sign, digits with single underscores between digits, and for float one optional '.' (so: no exponents,
   no inf/nan, no other whitespace, no non-ASCII digits), paths ending in '/' or in a '.' component. *)
From Coq Require Import List ZArith QArith Bool Lia.
Import ListNotations.
Open Scope Z_scope.

Definition str := list Z.

Fixpoint str_eqb (a b : str) : bool :=
  match a, b with
  | [], [] => true
  | x :: a', y :: b' => (x =? y) && str_eqb a' b'
  | _, _ => false
  end.

Inductive tok := TLit (s : str) | TGrp (body : str).

(* ---- tokeniser: re.findall("{.*?}", fmt) + replace ---- *)
Definition nonl (c : Z) : bool := negb (c =? 10).
(* text up to the first '}' if no newline comes first *)
Fixpoint upto_close (s : str) : option (str * str) :=
  match s with
  | [] => None
  | c :: r => if c =? 125 then Some ([], r)
              else if nonl c then match upto_close r with Some (b, r') => Some (c :: b, r') | None => None end
              else None
  end.
Definition push_lit (c : Z) (ts : list tok) : list tok :=
  match ts with TLit l :: r => TLit (c :: l) :: r | _ => TLit [c] :: ts end.
(* fuel = length of the text: each step consumes at least one character *)
Fixpoint tokenize_f (fuel : nat) (s : str) : list tok :=
  match fuel with
  | O => []
  | S fuel' =>
    match s with
    | [] => []
    | c :: r =>
      if c =? 123 then
        match upto_close r with
        | Some (b, r') => TGrp b :: tokenize_f fuel' r'
        | None => push_lit c (tokenize_f fuel' r)
        end
      else push_lit c (tokenize_f fuel' r)
    end
  end.
Definition tokenize (s : str) : list tok := tokenize_f (length s) s.

(* the pattern text of a token list *)
Fixpoint show (toks : list tok) : str :=
  match toks with
  | [] => []
  | TLit l :: r => l ++ show r
  | TGrp b :: r => 123 :: b ++ 125 :: show r
  end.

(* ---- matcher ---- *)
Fixpoint strip (l s : str) : option str :=
  match l, s with
  | [], _ => Some s
  | a :: l', b :: s' => if a =? b then strip l' s' else None
  | _ :: _, [] => None
  end.
(* longest newline-free prefix *)
Fixpoint span (s : str) : nat := match s with c :: r => if nonl c then S (span r) else O | [] => O end.

Fixpoint greedy (f : str -> option (list str)) (s : str) (k : nat) : option (list str) :=
  match f (skipn k s) with
  | Some gs => Some (firstn k s :: gs)
  | None => match k with O => None | S k' => greedy f s k' end
  end.

Fixpoint mtoks (toks : list tok) (s : str) : option (list str) :=
  match toks with
  | [] => Some []
  | TLit l :: r => match strip l s with Some s' => mtoks r s' | None => None end
  | TGrp _ :: r => greedy (mtoks r) s (span s)
  end.

(* re.search: leftmost start position *)
Fixpoint search (toks : list tok) (s : str) : option (list str) :=
  match mtoks toks s with
  | Some gs => Some gs
  | None => match s with [] => None | _ :: s' => search toks s' end
  end.

Fixpoint render (toks : list tok) (gs : list str) : str :=
  match toks with
  | [] => []
  | TLit l :: r => l ++ render r gs
  | TGrp _ :: r => match gs with g :: gs' => g ++ render r gs' | [] => render r [] end
  end.
Fixpoint ngroups (toks : list tok) : nat :=
  match toks with [] => O | TLit _ :: r => ngroups r | TGrp _ :: r => S (ngroups r) end.
Fixpoint bodies (toks : list tok) : list str :=
  match toks with [] => [] | TLit _ :: r => bodies r | TGrp b :: r => b :: bodies r end.

(* ---- field bodies ---- *)
(* Python str.split(c): "a,,b" -> ["a";"";"b"], "" -> [""] *)
Fixpoint split_on (c : Z) (s : str) : list str :=
  match s with
  | [] => [[]]
  | x :: r => if x =? c then [] :: split_on c r
              else match split_on c r with h :: t => (x :: h) :: t | [] => [[x]] end
  end.

Inductive dty := DNone | DInt | DFloat | DBool | DStr.
Definition s_int : str := [105; 110; 116].
Definition s_float : str := [102; 108; 111; 97; 116].
Definition s_bool : str := [98; 111; 111; 108].
Definition s_str : str := [115; 116; 114].
Definition s_file : str := [102; 105; 108; 101].

(* one entry of a field body: skipped (empty), malformed (-> ValueError), or a name with a type *)
Inductive fld := FSkip | FBad | FName (n : str) (t : dty).
Definition field_of (p : str) : fld :=
  match p with
  | [] => FSkip
  | _ => match split_on 58 p with
         | [n] => FName n DNone
         | [n; dt] => if str_eqb dt s_int then FName n DInt else if str_eqb dt s_float then FName n DFloat
                      else if str_eqb dt s_bool then FName n DBool else if str_eqb dt s_str then FName n DStr else FBad
         | _ => FBad
         end
  end.
Definition fields_of (body : str) : list fld := map field_of (split_on 44 body).

Inductive value := VStr (s : str) | VInt (z : Z) | VFloat (q : Q) | VBool (b : bool).

Definition digit (c : Z) : bool := (48 <=? c) && (c <=? 57).
(* decimal digits with single underscores between digits (PEP 515); returns the value and the number of digits *)
Fixpoint digits_u (acc : Z) (n : nat) (prev : bool) (s : str) : option (Z * nat) :=
  match s with
  | [] => if prev then Some (acc, n) else None
  | c :: r => if digit c then digits_u (10 * acc + (c - 48)) (S n) true r
              else if (c =? 95) && prev then digits_u acc n false r
              else None
  end.
Definition digits (s : str) : option (Z * nat) := digits_u 0 O false s.
Definition digits0 (s : str) : option (Z * nat) := match s with [] => Some (0, O) | _ => digits s end.
Fixpoint drop_sp (s : str) : str := match s with c :: r => if c =? 32 then drop_sp r else s | [] => [] end.
Definition strip_sp (s : str) : str := rev (drop_sp (rev (drop_sp s))).
Definition signed (s : str) : Z * str :=
  match s with c :: r => if c =? 45 then (-1, r) else if c =? 43 then (1, r) else (1, s) | [] => (1, s) end.
Definition int_of (s : str) : option Z :=
  let (sg, r) := signed (strip_sp s) in match digits r with Some (z, _) => Some (sg * z) | None => None end.
Fixpoint pow10 (n : nat) : positive := match n with O => 1%positive | S n' => (10 * pow10 n')%positive end.
Definition float_of (s : str) : option Q :=
  let (sg, r) := signed (strip_sp s) in
  match split_on 46 r with
  | [a] => match digits a with Some (z, _) => Some (Qmake (sg * z) 1) | None => None end
  | [a; b] => match (match a, b with [], [] => None | _, _ => digits0 a end), digits0 b with
              | Some (za, _), Some (zb, nb) => Some (Qmake (sg * (za * Zpos (pow10 nb) + zb)) (pow10 nb))
              | _, _ => None
              end
  | _ => None
  end.
Definition conv (t : dty) (g : str) : option value :=
  match t with
  | DNone | DStr => Some (VStr g)
  | DInt => option_map VInt (int_of g)
  | DFloat => option_map VFloat (float_of g)
  | DBool => Some (VBool (match g with [] => false | _ => true end))
  end.

(* a Python dict: assignment to an existing key keeps its position *)
Definition dict := list (str * value).
Fixpoint dset (d : dict) (k : str) (v : value) : dict :=
  match d with
  | [] => [(k, v)]
  | (k', v') :: r => if str_eqb k' k then (k', v) :: r else (k', v') :: dset r k v
  end.
Fixpoint dget (d : dict) (k : str) : option value :=
  match d with [] => None | (k', v') :: r => if str_eqb k' k then Some v' else dget r k end.

Fixpoint assign_fields (fs : list fld) (g : str) (d : dict) : option dict :=
  match fs with
  | [] => Some d
  | FSkip :: r => assign_fields r g d
  | FBad :: _ => None
  | FName n t :: r => match conv t g with Some v => assign_fields r g (dset d n v) | None => None end
  end.
Fixpoint assign (bs : list str) (gs : list str) (d : dict) : option dict :=
  match bs, gs with
  | b :: bs', g :: gs' => match assign_fields (fields_of b) g d with Some d' => assign bs' gs' d' | None => None end
  | _, _ => Some d
  end.

(* Path(filename).name for paths that do not end in '/' or a '.' component *)
Fixpoint basename_acc (acc s : str) : str :=
  match s with [] => rev acc | c :: r => if c =? 47 then basename_acc [] r else basename_acc (c :: acc) r end.
Definition basename (s : str) : str := basename_acc [] s.

(* None = ValueError *)
Definition parse_filename (fmt filename : str) : option dict :=
  let toks := tokenize fmt in
  let fn := basename filename in
  match search toks fn with
  | Some gs => assign (bodies toks) gs [(s_file, VStr fn)]
  | None => None
  end.

(* printing for the correspondence check: (tag, text, numerator, denominator) *)
Definition out_value (v : value) : Z * str * Z * Z :=
  match v with
  | VStr s => (0, s, 0, 1)
  | VInt z => (1, [], z, 1)
  | VFloat q => (2, [], Qnum q, Zpos (Qden q))
  | VBool b => (3, [], if b then 1 else 0, 1)
  end.
Definition out_dict (r : option dict) : option (list (str * (Z * str * Z * Z))) :=
  option_map (map (fun kv => (fst kv, out_value (snd kv)))) r.
