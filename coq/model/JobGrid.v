(* Work distribution (nbl/nblast_funcs.py nblast / nblast_allbyall job grid; utils/decorators.py map_neuronlist;
   core/core_utils.py NeuronProcessor). C09. *)
From Coq Require Import List Arith Bool Lia.
Import ListNotations.

(* np.array_split(np.arange(n), k): the first n mod k chunks have n/k + 1 elements, the others n/k *)
Fixpoint chunks_from (start : nat) (sizes : list nat) : list (list nat) :=
  match sizes with
  | [] => []
  | s :: rest => seq start s :: chunks_from (start + s) rest
  end.
Definition split_sizes (n k : nat) : list nat :=
  map (fun i => if Nat.ltb i (n mod k) then S (n / k) else n / k) (seq 0 k).
Definition array_split (n k : nat) : list (list nat) := chunks_from 0 (split_sizes n k).

(* a job = the global query indices and target indices it covers *)
Definition job := (list nat * list nat)%type.
Definition grid (nq nt rows cols : nat) : list job :=
  flat_map (fun q => map (fun t => (q, t)) (array_split nt cols)) (array_split nq rows).

Section Scores.
  Context {V : Type}.
  (* the score of (global query i, global target j) *)
  Definition matrix := nat -> nat -> option V.
  Definition empty_matrix : matrix := fun _ _ => None.

  Fixpoint pos (x : nat) (l : list nat) : option nat :=
    match l with
    | [] => None
    | y :: l' => if Nat.eqb x y then Some 0 else option_map S (pos x l')
    end.

  (* nblast(): the job's own neuron list is queries ++ targets; local query a is entry a, local target b is entry |qix| + b.
     The block entry (a, b) is the score of those two local neurons. *)
  Definition local_list (j : job) : list nat := fst j ++ snd j.
  Definition block (F : nat -> nat -> V) (j : job) (a b : nat) : V :=
    F (nth a (local_list j) 0) (nth (length (fst j) + b) (local_list j) 0).
  (* scores.iloc[queries_ix, targets_ix] = block *)
  Definition write (F : nat -> nat -> V) (m : matrix) (j : job) : matrix :=
    fun i k => match pos i (fst j), pos k (snd j) with
               | Some a, Some b => Some (block F j a b)
               | _, _ => m i k
               end.
  Definition assemble (F : nat -> nat -> V) (jobs : list job) : matrix := fold_left (write F) jobs empty_matrix.
End Scores.

(* mapping a function over a NeuronList in chunks (pool.imap with a chunksize keeps order) *)
Fixpoint chunk {A} (fuel size : nat) (l : list A) : list (list A) :=
  match fuel with
  | O => [l]
  | S f => match l with
           | [] => []
           | _ => firstn (S size) l :: chunk f size (skipn (S size) l)
           end
  end.
Definition map_chunked {A B} (f : A -> B) (size : nat) (l : list A) : list B :=
  concat (map (map f) (chunk (length l) size l)).
(* omit_failures: results of failing neurons are dropped, the others keep their order *)
Definition map_omit {A B} (f : A -> option B) (l : list A) : list B :=
  flat_map (fun x => match f x with Some y => [y] | None => [] end) l.
(* per-neuron arguments are matched by position *)
Definition map_zipped {A B C} (f : A -> B -> C) (l : list A) (args : list B) : list C := map (fun p => f (fst p) (snd p)) (combine l args).
