(* Smallest connected superset of a node set (graph_utils.connected_subgraph; subset_neuron with
   prevent_fragments=True), plus connectors / tags filtering of subset_neuron. *)
From Coq Require Import List ZArith Bool Lia Arith.
Import ListNotations.
From Navis Require Import model.Forest model.Ops.
Open Scope Z_scope.

Fixpoint dedupZ (l : list Z) : list Z :=
  match l with
  | [] => []
  | x :: l' => x :: filter (fun y => negb (y =? x)) (dedupZ l')
  end.

(* ancestors-or-self common to every requested node of one fragment, nearest to s0 first *)
Definition common_anc (t : table) (S : list Z) (s0 : Z) : list Z :=
  filter (fun y => forallb (fun s => memZ y (anc t s)) S) (anc t s0).
Definition top_of (t : table) (S : list Z) (s0 : Z) : Z := hd (-1) (common_anc t S s0).

(* prefix of an ancestor chain up to and including top *)
Fixpoint upto (top : Z) (l : list Z) : list Z :=
  match l with
  | [] => []
  | x :: l' => if x =? top then [x] else x :: upto top l'
  end.

Definition steiner_comp (t : table) (Sc : list Z) : list Z :=
  match Sc with
  | [] => []
  | s0 :: _ => flat_map (fun s => upto (top_of t Sc s0) (anc t s)) Sc
  end.

Definition group_by_root (t : table) (S : list Z) : list (list Z) :=
  map (fun r => filter (fun s => root_of t s =? r) S) (dedupZ (map (root_of t) S)).

Definition steiner (t : table) (S : list Z) : list Z := flat_map (steiner_comp t) (group_by_root t S).
Definition steiner_roots (t : table) (S : list Z) : list Z :=
  flat_map (fun Sc => match Sc with [] => [] | s0 :: _ => [top_of t Sc s0] end) (group_by_root t S).

(* connectors (cid, node) and tags (tag, nodes) after subsetting *)
Definition subset_connectors (S : list Z) (t : table) (cn : list (Z * Z)) : list (Z * Z) :=
  filter (fun c => memZ (snd c) (ids (subset S t))) cn.
Definition subset_tags (S : list Z) (t : table) (tags : list (Z * list Z)) : list (Z * list Z) :=
  filter (fun tg => match snd tg with [] => false | _ => true end)
         (map (fun tg => (fst tg, filter (fun n => memZ n (ids (subset S t))) (snd tg))) tags).

(* several cuts = successive single cuts; pieces are kept in a list, distal piece first *)
Fixpoint cut_in (c : Z) (pieces : list table) : list table :=
  match pieces with
  | [] => []
  | p :: rest => if memZ c (ids p) then cut_distal c p :: cut_proximal c p :: rest else p :: cut_in c rest
  end.
Definition cut_many (cs : list Z) (t : table) : list table := fold_left (fun ps c => cut_in c ps) cs [t].
