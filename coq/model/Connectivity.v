(* Model of navis.connectivity.adjacency.NeuronConnector and matrix_utils.group_matrix (C20).
   Definitions only; proofs live in proofs/ConnectivityProofs.v. *)
From Coq Require Import List ZArith Bool Lia.
Import ListNotations.
Open Scope Z_scope.

(* one row of a neuron's connector table, tagged with the neuron's name.
   ctyp: 0 = presynaptic on that neuron, 1 = postsynaptic; anything else is ignored by navis *)
Record crow := { cname : Z; ccid : Z; cnode : Z; ctyp : Z }.

Definition OTHER : Z := -1.

Record edge := { e_cid : Z; e_src : Z; e_tgt : Z; e_srcn : option Z; e_tgtn : option Z }.

Definition is_pre (r : crow) : bool := ctyp r =? 0.
Definition is_post (r : crow) : bool := ctyp r =? 1.

(* conn_inputs[cid] = (name, node): a plain dict assignment, so the LAST presynaptic row wins *)
Fixpoint pre_of (c : Z) (rows : list crow) : option crow :=
  match rows with
  | [] => None
  | r :: rest => match pre_of c rest with
                 | Some r' => Some r'
                 | None => if is_pre r && (ccid r =? c) then Some r else None
                 end
  end.

(* conn_outputs[cid] = [(name, node), ...] in insertion order *)
Definition posts_of (c : Z) (rows : list crow) : list crow :=
  filter (fun r => is_post r && (ccid r =? c)) rows.

Fixpoint dedup (l : list Z) : list Z :=
  match l with
  | [] => []
  | x :: l' => x :: filter (fun y => negb (y =? x)) (dedup l')
  end.

(* set(conn_inputs) | set(conn_outputs) -- iteration order is arbitrary in Python; the model fixes one *)
Definition cids (rows : list crow) : list Z :=
  dedup (map ccid (filter (fun r => is_pre r || is_post r) rows)).

Definition edges_for (io : bool) (c : Z) (p : option crow) (qs : list crow) : list edge :=
  match p with
  | None =>
      if io then
        match qs with
        | [] => [ {| e_cid := c; e_src := OTHER; e_tgt := OTHER; e_srcn := None; e_tgtn := None |} ]
        | _ => map (fun q => {| e_cid := c; e_src := OTHER; e_tgt := cname q; e_srcn := None; e_tgtn := Some (cnode q) |}) qs
        end
      else []
  | Some p =>
      match qs with
      | [] => if io then [ {| e_cid := c; e_src := cname p; e_tgt := OTHER; e_srcn := Some (cnode p); e_tgtn := None |} ] else []
      | _ => map (fun q => {| e_cid := c; e_src := cname p; e_tgt := cname q; e_srcn := Some (cnode p); e_tgtn := Some (cnode q) |}) qs
      end
  end.

Definition edges (io : bool) (rows : list crow) : list edge :=
  flat_map (fun c => edges_for io c (pre_of c rows) (posts_of c rows)) (cids rows).

(* --- the three views ------------------------------------------------------ *)
Definition from_to (a b : Z) (e : edge) : bool := (e_src e =? a) && (e_tgt e =? b).

Definition adjacency (io : bool) (rows : list crow) (a b : Z) : Z :=
  Z.of_nat (length (filter (from_to a b) (edges io rows))).

(* DiGraph: edge (a,b) exists iff some synapse; data = rows [cid, pre_node, post_node], weight = #rows *)
Definition digraph_rows (io : bool) (rows : list crow) (a b : Z) : list (Z * option Z * option Z) :=
  map (fun e => (e_cid e, e_srcn e, e_tgtn e)) (filter (from_to a b) (edges io rows)).
Definition digraph_weight (io : bool) (rows : list crow) (a b : Z) : Z :=
  Z.of_nat (length (digraph_rows io rows a b)).

Definition multigraph (io : bool) (rows : list crow) : list edge := edges io rows.

(* canonical encodings used by the correspondence check *)
Definition oz (o : option Z) : Z := match o with Some z => z | None => -1 end.
Definition edge_code (e : edge) : (Z * Z * Z * Z * Z) := (e_cid e, e_src e, e_tgt e, oz (e_srcn e), oz (e_tgtn e)).
Definition run_edges (io : bool) (rows : list (Z * Z * Z * Z)) : list (Z * Z * Z * Z * Z) :=
  map edge_code (edges io (map (fun '(n, c, nd, t) => {| cname := n; ccid := c; cnode := nd; ctyp := t |}) rows)).

(* --- group_matrix ----------------------------------------------------------- *)
(* a matrix as a list of cells (row label, column label, value); labels are Z codes *)
Definition cell := (Z * Z * Z)%type.
Definition total (m : list cell) : Z := fold_right (fun '(_, _, v) acc => v + acc) 0 m.

Definition key_eqb (r c : Z) (x : cell) : bool := let '(r', c', _) := x in (r' =? r) && (c' =? c).

(* sum all cells with the same (row, col) key; first-occurrence order.  Fuel = length suffices;
   the out-of-fuel branch returns the remainder unchanged so that [total] is preserved unconditionally. *)
Fixpoint merge_f (fuel : nat) (m : list cell) : list cell :=
  match fuel with
  | O => m
  | S f =>
      match m with
      | [] => []
      | (r, c, v) :: rest =>
          (r, c, v + total (filter (key_eqb r c) rest))
            :: merge_f f (filter (fun x => negb (key_eqb r c x)) rest)
      end
  end.
Definition merge (m : list cell) : list cell := merge_f (length m) m.

(* groups given as neuron -> group (format 2 of the docstring; format 1 is converted to it by navis) *)
Fixpoint gget (d : list (Z * Z)) (x : Z) : option Z :=
  match d with
  | [] => None
  | (k, v) :: d' => match gget d' x with Some v' => Some v' | None => if k =? x then Some v else None end
  end.
Definition gmap (d : list (Z * Z)) (x : Z) : Z := match gget d x with Some v => v | None => x end.
Definition gmem (d : list (Z * Z)) (x : Z) : bool := match gget d x with Some _ => true | None => false end.

Definition group_rows (drop : bool) (d : list (Z * Z)) (m : list cell) : list cell :=
  match d with
  | [] => m
  | _ => let m1 := if drop then filter (fun '(r, _, _) => gmem d r) m else m in
         merge (map (fun '(r, c, v) => (gmap d r, c, v)) m1)
  end.
Definition group_cols (drop : bool) (d : list (Z * Z)) (m : list cell) : list cell :=
  match d with
  | [] => m
  | _ => let m1 := if drop then filter (fun '(_, c, _) => gmem d c) m else m in
         merge (map (fun '(r, c, v) => (r, gmap d c, v)) m1)
  end.
Definition group_matrix (drop : bool) (dr dc : list (Z * Z)) (m : list cell) : list cell :=
  group_cols drop dc (group_rows drop dr m).

(* bundles evaluated by the correspondence check *)
Definition mk_rows (rows : list (Z * Z * Z * Z)) : list crow :=
  map (fun '(n, c, nd, t) => {| cname := n; ccid := c; cnode := nd; ctyp := t |}) rows.
Definition run_views (io : bool) (names : list Z) (rows : list (Z * Z * Z * Z))
  : list (Z * Z * Z * Z * Z) * list (Z * Z * Z) * list (Z * Z * list (Z * Z * Z)) :=
  let rs := mk_rows rows in
  let idx := if io then names ++ [OTHER] else names in
  ( map edge_code (edges io rs),
    flat_map (fun a => map (fun b => (a, b, adjacency io rs a b)) idx) idx,
    flat_map (fun a => flat_map (fun b =>
        match digraph_rows io rs a b with
        | [] => []
        | l => [(a, b, map (fun '(c, s, t) => (c, oz s, oz t)) l)]
        end) idx) idx ).
