(* Neuroglancer "precomputed" skeleton / mesh codec at the byte level (io/precomputed_io.py). C14.
   Bytes and 32-bit words are integers; float32 values are opaque 32-bit words (the harness supplies the IEEE bit patterns). *)
From Coq Require Import List ZArith Bool Lia.
Import ListNotations.
Open Scope Z_scope.

Definition byte_ok (b : Z) : bool := (0 <=? b) && (b <? 256).
Definition word_ok (w : Z) : bool := (0 <=? w) && (w <? 4294967296).

(* little-endian uint32 *)
Definition enc32 (w : Z) : list Z := [w mod 256; (w / 256) mod 256; (w / 65536) mod 256; (w / 16777216) mod 256].
Definition dec32 (a b c d : Z) : Z := a + 256 * b + 65536 * c + 16777216 * d.
Definition enc_words (ws : list Z) : list Z := flat_map enc32 ws.

(* read n words from the front of a byte stream *)
Fixpoint dec_words (n : nat) (bs : list Z) : option (list Z * list Z) :=
  match n with
  | O => Some ([], bs)
  | S n' => match bs with
            | a :: b :: c :: d :: rest =>
                match dec_words n' rest with
                | Some (ws, rest') => Some (dec32 a b c d :: ws, rest')
                | None => None
                end
            | _ => None
            end
  end.

(* skeleton: positions as 3 words per vertex, edges as (first, second) index pairs exactly as stored, optional radius words *)
Record skel := { sk_verts : list Z; sk_edges : list (Z * Z); sk_radii : option (list Z) }.
Definition nverts (m : skel) : Z := Z.of_nat (length (sk_verts m)) / 3.
Definition enc_skel (m : skel) : list Z :=
  enc32 (nverts m) ++ enc32 (Z.of_nat (length (sk_edges m)))
  ++ enc_words (sk_verts m)
  ++ enc_words (flat_map (fun e => [fst e; snd e]) (sk_edges m))
  ++ match sk_radii m with Some r => enc_words r | None => [] end.

Fixpoint pairs_of (ws : list Z) : list (Z * Z) :=
  match ws with
  | a :: b :: rest => (a, b) :: pairs_of rest
  | _ => []
  end.
Definition dec_skel (with_radius : bool) (bs : list Z) : option skel :=
  match dec_words 2 bs with
  | Some ([nv; ne], rest) =>
      match dec_words (Z.to_nat (3 * nv)) rest with
      | Some (vs, rest1) =>
          match dec_words (Z.to_nat (2 * ne)) rest1 with
          | Some (es, rest2) =>
              if with_radius then
                match dec_words (Z.to_nat nv) rest2 with
                | Some (rs, []) => Some {| sk_verts := vs; sk_edges := pairs_of es; sk_radii := Some rs |}
                | _ => None
                end
              else match rest2 with
                   | [] => Some {| sk_verts := vs; sk_edges := pairs_of es; sk_radii := None |}
                   | _ => None
                   end
          | None => None
          end
      | None => None
      end
  | _ => None
  end.

Definition wf_skel (m : skel) : Prop :=
  Forall (fun w => word_ok w = true) (sk_verts m)
  /\ Forall (fun e => word_ok (fst e) = true /\ word_ok (snd e) = true) (sk_edges m)
  /\ (exists k, length (sk_verts m) = (3 * k)%nat)
  /\ Z.of_nat (length (sk_verts m)) < 3 * 4294967296 /\ Z.of_nat (length (sk_edges m)) < 4294967296
  /\ match sk_radii m with Some r => Forall (fun w => word_ok w = true) r /\ (3 * length r = length (sk_verts m))%nat | None => True end.

(* mesh: vertex count, positions, faces (3 indices each) *)
Record mesh := { me_verts : list Z; me_faces : list Z }.
Definition enc_mesh (m : mesh) : list Z :=
  enc32 (Z.of_nat (length (me_verts m)) / 3) ++ enc_words (me_verts m) ++ enc_words (me_faces m).
Definition dec_mesh (bs : list Z) : option mesh :=
  match dec_words 1 bs with
  | Some ([nv], rest) =>
      match dec_words (Z.to_nat (3 * nv)) rest with
      | Some (vs, rest1) =>
          match dec_words (length rest1 / 4) rest1 with
          | Some (fs, []) => Some {| me_verts := vs; me_faces := fs |}
          | _ => None
          end
      | None => None
      end
  | _ => None
  end.

(* edges between node ids -> edges between row indices (what is written), and back (what the reader builds) *)
Fixpoint ix_of (ids : list Z) (i : Z) (k : Z) : Z :=
  match ids with
  | [] => -1
  | x :: rest => if x =? i then k else ix_of rest i (k + 1)
  end.
(* written pair for child c with parent p: (index of parent, index of child) *)
Definition stored_edges (ids : list Z) (edges : list (Z * Z)) : list (Z * Z) :=
  map (fun e => (ix_of ids (snd e) 0, ix_of ids (fst e) 0)) edges.
(* reader: parent of row j = first element of the pair whose second element is j, else -1 *)
Fixpoint parent_of (stored : list (Z * Z)) (j : Z) : Z :=
  match stored with
  | [] => -1
  | (p, c) :: rest => match parent_of rest j with
                      | -1 => if c =? j then p else -1
                      | v => v
                      end
  end.

(* batch reading: results per file, in order *)
Inductive fres := FOk (n : Z) | FCorrupt.
Definition read_many (raise_ : bool) (files : list fres) : option (list Z) :=
  if raise_ && existsb (fun f => match f with FCorrupt => true | _ => false end) files then None
  else Some (flat_map (fun f => match f with FOk n => [n] | FCorrupt => [] end) files).
