(* Tree distances by walking parent links (graph_utils.geodesic_matrix, dist_between, dist_to_root,
   distal_to, cable_length, skeleton_adjacency_matrix).  C05. *)
From Coq Require Import List ZArith QArith Bool Lia Arith.
Import ListNotations.
From Navis Require Import model.Forest.
Open Scope Z_scope.

(* edge length from a node to its parent, keyed by the child's id; 0 when absent (roots) *)
Definition wmap := list (Z * Q).
Fixpoint wget (w : wmap) (i : Z) : Q :=
  match w with
  | [] => 0%Q
  | (k, v) :: w' => if k =? i then v else wget w' i
  end.

Definition qsum (l : list Q) : Q := fold_right Qplus 0%Q l.
(* total length of the edges leaving the nodes of l towards their parents *)
Definition dsum (w : wmap) (l : list Z) : Q := qsum (map (wget w) l).

(* nodes of an ancestor chain strictly before x *)
Fixpoint before (x : Z) (l : list Z) : list Z :=
  match l with
  | [] => []
  | y :: l' => if y =? x then [] else y :: before x l'
  end.

Definition d_root (t : table) (w : wmap) (i : Z) : Q := dsum w (removelast (anc t i)).

(* first element of l that also occurs in m *)
Fixpoint first_common (l m : list Z) : option Z :=
  match l with
  | [] => None
  | x :: l' => if memZ x m then Some x else first_common l' m
  end.

(* undirected geodesic distance; None = unreachable (different fragments or unknown node) *)
Definition geo (t : table) (w : wmap) (a b : Z) : option Q :=
  let ca := anc t a in let cb := anc t b in
  match first_common ca cb with
  | Some x => Some (dsum w (before x ca) + dsum w (before x cb))%Q
  | None => None
  end.

(* directed (child -> parent) distance from a to b: defined iff b is an ancestor-or-self of a *)
Definition geo_dir (t : table) (w : wmap) (a b : Z) : option Q :=
  let ca := anc t a in if memZ b ca then Some (dsum w (before b ca)) else None.

Definition apply_limit (limit : option Q) (d : option Q) : option Q :=
  match limit, d with
  | Some lim, Some v => if Qle_bool v lim then Some v else None
  | _, _ => d
  end.

Definition geodesic (directed : bool) (limit : option Q) (t : table) (w : wmap) (a b : Z) : option Q :=
  apply_limit limit (if directed then geo_dir t w a b else geo t w a b).

(* matrix restricted to sources `from_`; all columns; label-keyed *)
Definition geodesic_matrix (directed : bool) (limit : option Q) (t : table) (w : wmap) (from_ : list Z)
  : list (Z * Z * option Q) :=
  flat_map (fun a => map (fun b => (a, b, geodesic directed limit t w a b)) (ids t)) from_.

(* output encoding for the correspondence check: reduced numerator / denominator *)
Definition qout (q : Q) : Z * Z := let r := Qred q in (Qnum r, Zpos (Qden r)).
Definition oqout (o : option Q) : option (Z * Z) := option_map qout o.

Definition distal_to (t : table) (a b : Z) : bool := memZ b (anc t a).   (* a is distal to b *)

Definition cable (t : table) (w : wmap) : Q := dsum w (map rid (filter (fun r => negb (is_root r)) t)).

(* adjacency: rows = nodes, columns = their parents, looked up BY ID *)
Definition adjacency (t : table) (a b : Z) : bool :=
  match lookup t a with Some r => (0 <=? rpar r) && (rpar r =? b) | None => false end.

Definition unit_w (t : table) : wmap := map (fun r => (rid r, 1%Q)) t.
