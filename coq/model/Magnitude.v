(* C16: the order of magnitude navis detects for a change of scale: round(log10 c) for the mean distance ratio c > 0.
   Computed exactly on the square: the k with 10^(2k-1) <= c^2 < 10^(2k+1) (log10 c lies in [k - 1/2, k + 1/2)). *)
From Coq Require Import ZArith QArith Qpower Bool.
Open Scope Q_scope.

Definition ten : Q := 10 # 1.
Definition qltb (a b : Q) : bool := negb (Qle_bool b a).

(* None = fuel exhausted (never for 10^-100 < c < 10^100 from k = 0 with fuel 200) *)
Fixpoint magnitude_f (fuel : nat) (c2 : Q) (k : Z) : option Z :=
  match fuel with
  | O => None
  | S f => if qltb c2 (ten ^ (2 * k - 1)) then magnitude_f f c2 (k - 1)
           else if Qle_bool (ten ^ (2 * k + 1)) c2 then magnitude_f f c2 (k + 1)
           else Some k
  end.
Definition magnitude (c : Q) : option Z := if Qle_bool c 0 then None else magnitude_f 200 (c * c) 0.

Record p3 := { x3 : Q; y3 : Q; z3 : Q }.
Definition sqdist (a b : p3) : Q := (x3 a - x3 b) * (x3 a - x3 b) + (y3 a - y3 b) * (y3 a - y3 b) + (z3 a - z3 b) * (z3 a - z3 b).
(* a signed axis permutation followed by a uniform scale and a shift is what the harness applies; here the scale-and-shift part *)
Definition scale_shift (s : Q) (t : p3) (a : p3) : p3 := {| x3 := s * x3 a + x3 t; y3 := s * y3 a + y3 t; z3 := s * z3 a + z3 t |}.
