(* Table-changing operations of navis expressed over model/Forest.v, and the operation alphabet
   used by the C01 history theorem.  Definitions only. *)
From Coq Require Import List ZArith Bool Lia Arith.
Import ListNotations.
From Navis Require Import model.Forest.
Open Scope Z_scope.

(* ---------- contraction: keep K, link every kept node to its nearest kept ancestor
   (downsample_neuron, remove_nodes, resample's "keep end points", simplify) ---------- *)
Fixpoint first_in (K l : list Z) : Z :=
  match l with
  | [] => -1
  | x :: l' => if memZ x K then x else first_in K l'
  end.
Definition contract (K : list Z) (t : table) : table :=
  map (fun r => set_par r (if rpar r <? 0 then rpar r else first_in K (anc t (rpar r)))) (keep_rows K t).

(* ---------- node insertion between a node and its parent (graph_utils.insert_nodes) ---------- *)
Definition insert_above (c newid dat : Z) (t : table) : option table :=
  match lookup t c with
  | Some rc =>
      if (0 <=? rpar rc) && (0 <=? newid) && negb (memZ newid (ids t)) then
        Some (map (fun r => if rid r =? c then set_par r newid else r) t
              ++ [ {| rid := newid; rpar := rpar rc; rdat := dat |} ])
      else None
  | None => None
  end.

(* ---------- id relabelling and concatenation (stitch_skeletons, combine_neurons) ---------- *)
Fixpoint assoc (m : list (Z * Z)) (x : Z) : Z :=
  match m with
  | [] => x
  | (k, v) :: m' => if k =? x then v else assoc m' x
  end.
Definition relabel_rows (m : list (Z * Z)) (t : table) : table :=
  map (fun r => {| rid := assoc m (rid r); rpar := if rpar r <? 0 then rpar r else assoc m (rpar r); rdat := rdat r |}) t.
Definition relabel (m : list (Z * Z)) (t : table) : option table :=
  let t' := relabel_rows m t in
  if nodupb (ids t') && forallb (fun r => 0 <=? rid r) t' then Some t' else None.

Definition disjointb (a b : list Z) : bool := forallb (fun x => negb (memZ x b)) a.
Definition concat (t1 t2 : table) : option table :=
  if disjointb (ids t1) (ids t2) then Some (t1 ++ t2) else None.

(* ---------- joining two fragments by one new edge (one step of heal_skeleton / stitch):
   reroot b's fragment at b, then make a the parent of b; admissible iff a is not in b's fragment ---------- *)
Definition set_parent_of (b a : Z) (t : table) : table :=
  map (fun r => if rid r =? b then set_par r a else r) t.
Definition join (a b : Z) (t : table) : option table :=
  let t1 := reroot b t in
  if memZ a (ids t) && memZ b (ids t) && negb (memZ b (anc t1 a)) then Some (set_parent_of b a t1) else None.

(* ---------- operation alphabet ---------- *)
Inductive op :=
| OSubset (ks : list Z)          (* subset_neuron, prune_*, cut pieces, drop_fluff, break_fragments ... *)
| OContract (K : list Z)        (* downsample, remove_nodes *)
| OReroot (r : Z)
| OCutDistal (c : Z)
| OCutProximal (c : Z)
| OInsert (c newid dat : Z)
| ORelabel (m : list (Z * Z))
| OConcat (t2 : table)          (* t2 must itself be well formed (wfb) *)
| OJoin (a b : Z)
| OId.                          (* arithmetic on coordinates, copy, pickle round trip: (id, parent) untouched *)

(* None = the operation rejects its arguments; the table is then left as it was *)
Definition step (t : table) (o : op) : option table :=
  match o with
  | OSubset ks => Some (subset ks t)
  | OContract K => Some (contract K t)
  | OReroot r => if memZ r (ids t) then Some (reroot r t) else None
  | OCutDistal c => if memZ c (ids t) then Some (cut_distal c t) else None
  | OCutProximal c => if memZ c (ids t) then Some (cut_proximal c t) else None
  | OInsert c n d => insert_above c n d t
  | ORelabel m => relabel m t
  | OConcat t2 => if wfb t2 then concat t t2 else None
  | OJoin a b => join a b t
  | OId => Some t
  end.

Definition step' (t : table) (o : op) : table := match step t o with Some t' => t' | None => t end.
Definition run (ops : list op) (t : table) : table := fold_left step' ops t.
