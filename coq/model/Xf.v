(* Transforms (transforms/affine.py, base.py TransformSequence, templates.py bridging paths). C08. *)
From Coq Require Import List ZArith QArith Bool Lia Arith.
Import ListNotations.

(* ---- affine: p |-> M p + b, M a 3x3 matrix over Q given by rows ---- *)
Record vec := { vx : Q; vy : Q; vz : Q }.
Record mat := { r1 : vec; r2 : vec; r3 : vec }.
Definition dotv (a b : vec) : Q := (vx a * vx b + vy a * vy b + vz a * vz b)%Q.
Definition mulv (m : mat) (p : vec) : vec := {| vx := dotv (r1 m) p; vy := dotv (r2 m) p; vz := dotv (r3 m) p |}.
Definition addv (a b : vec) : vec := {| vx := (vx a + vx b)%Q; vy := (vy a + vy b)%Q; vz := (vz a + vz b)%Q |}.
Definition subv (a b : vec) : vec := {| vx := (vx a - vx b)%Q; vy := (vy a - vy b)%Q; vz := (vz a - vz b)%Q |}.
Definition veq (a b : vec) : Prop := (vx a == vx b /\ vy a == vy b /\ vz a == vz b)%Q.

Definition det (m : mat) : Q :=
  (vx (r1 m) * (vy (r2 m) * vz (r3 m) - vz (r2 m) * vy (r3 m))
   - vy (r1 m) * (vx (r2 m) * vz (r3 m) - vz (r2 m) * vx (r3 m))
   + vz (r1 m) * (vx (r2 m) * vy (r3 m) - vy (r2 m) * vx (r3 m)))%Q.
(* inverse by adjugate / determinant *)
Definition inv (m : mat) : mat :=
  let d := det m in
  let a := vx (r1 m) in let b := vy (r1 m) in let c := vz (r1 m) in
  let d' := vx (r2 m) in let e := vy (r2 m) in let f := vz (r2 m) in
  let g := vx (r3 m) in let h := vy (r3 m) in let i := vz (r3 m) in
  {| r1 := {| vx := ((e * i - f * h) / d)%Q; vy := ((c * h - b * i) / d)%Q; vz := ((b * f - c * e) / d)%Q |};
     r2 := {| vx := ((f * g - d' * i) / d)%Q; vy := ((a * i - c * g) / d)%Q; vz := ((c * d' - a * f) / d)%Q |};
     r3 := {| vx := ((d' * h - e * g) / d)%Q; vy := ((b * g - a * h) / d)%Q; vz := ((a * e - b * d') / d)%Q |} |}.

Record affine := { lin : mat; off : vec }.
Definition axform (t : affine) (p : vec) : vec := addv (mulv (lin t) p) (off t).
(* AffineTransform.__neg__: the inverse matrix *)
Definition aneg (t : affine) : affine :=
  {| lin := inv (lin t); off := let q := mulv (inv (lin t)) (off t) in {| vx := (- vx q)%Q; vy := (- vy q)%Q; vz := (- vz q)%Q |} |}.

(* ---- transform sequences over rows that may be NaN (None) ---- *)
Definition row_map {P} (f : P -> P) (r : option P) : option P := option_map f r.
Definition seq_xform {P} (fs : list (P -> P)) (rows : list (option P)) : list (option P) :=
  fold_left (fun acc f => map (row_map f) acc) fs rows.
Definition compose_all {P} (fs : list (P -> P)) (p : P) : P := fold_left (fun acc f => f acc) fs p.

(* ---- bridging registry ---- *)
(* registration: source, target, transform id, invertible, weight *)
Record reg := { rsrc : Z; rtgt : Z; rtid : Z; rinv : bool; rw : Z }.
(* edges of the bridging graph: (from, to, transform id, forward?) *)
Definition bridging_edges (reciprocal : bool) (rs : list reg) : list (Z * Z * Z * bool) :=
  map (fun r => (rsrc r, rtgt r, rtid r, true)) rs
  ++ (if reciprocal then map (fun r => (rtgt r, rsrc r, rtid r, false)) (filter rinv rs) else []).

Definition zmem (x : Z) (l : list Z) : bool := existsb (Z.eqb x) l.
Definition has_edge (es : list (Z * Z * Z * bool)) (a b : Z) : bool :=
  existsb (fun e => match e with (x, y, _, _) => (x =? a)%Z && (y =? b)%Z end) es.
Fixpoint path_valid (es : list (Z * Z * Z * bool)) (p : list Z) : bool :=
  match p with
  | a :: ((b :: _) as rest) => has_edge es a b && path_valid es rest
  | _ => true
  end.
Fixpoint nodupz (l : list Z) : bool := match l with [] => true | x :: l' => negb (zmem x l') && nodupz l' end.
(* what a found path must satisfy *)
Definition path_ok (es : list (Z * Z * Z * bool)) (src tgt : Z) (via avoid : list Z) (p : list Z) : bool :=
  match p with
  | [] => false
  | h :: _ => (h =? src)%Z && (last p (-1)%Z =? tgt)%Z && path_valid es p && nodupz p
              && forallb (fun v => zmem v p) via && forallb (fun v => negb (zmem v p)) avoid
  end.

(* all simple paths src -> tgt (fuelled DFS) *)
Fixpoint simple_paths (fuel : nat) (es : list (Z * Z * Z * bool)) (cur tgt : Z) (visited : list Z) : list (list Z) :=
  match fuel with
  | O => []
  | S f =>
      if (cur =? tgt)%Z then [[cur]]
      else flat_map (fun e => match e with (x, y, _, _) =>
                       if (x =? cur)%Z && negb (zmem y (cur :: visited))
                       then map (cons cur) (simple_paths f es y tgt (cur :: visited)) else [] end) es
  end.
Definition admissible_exists (es : list (Z * Z * Z * bool)) (nodes : nat) (src tgt : Z) (via avoid : list Z) : bool :=
  existsb (path_ok es src tgt via avoid) (simple_paths (S nodes) es src tgt []).

(* negating a sequence: the members' inverses in REVERSE order (TransformSequence.__neg__) *)
Definition neg_seq {P} (inv : (P -> P) -> (P -> P)) (fs : list (P -> P)) : list (P -> P) := map inv (rev fs).
