(* Coordinate arithmetic and units (core/base.py UnitObject, core/skeleton.py / mesh.py / dotprop.py / voxel.py arithmetic). C15.
   A neuron is reduced to: per-axis coordinates of one representative point, a connector point, a radius, and per-axis units
   (magnitude in nanometres; `dimensionless` is handled by the harness as magnitude 1 with a flag). *)
From Coq Require Import List ZArith QArith Bool Lia.
Import ListNotations.

Record v3 := { ax : Q; ay : Q; az : Q }.
Open Scope Q_scope.
Definition vmul (a b : v3) : v3 := {| ax := ax a * ax b; ay := ay a * ay b; az := az a * az b |}.
Definition vdiv (a b : v3) : v3 := {| ax := ax a / ax b; ay := ay a / ay b; az := az a / az b |}.
Definition vadd (a b : v3) : v3 := {| ax := ax a + ax b; ay := ay a + ay b; az := az a + az b |}.
Definition vsub (a b : v3) : v3 := {| ax := ax a - ax b; ay := ay a - ay b; az := az a - az b |}.
Definition veq3 (a b : v3) : Prop := ax a == ax b /\ ay a == ay b /\ az a == az b.
Definition iso (k : Q) : v3 := {| ax := k; ay := k; az := k |}.
Definition nz3 (k : v3) : Prop := ~ ax k == 0 /\ ~ ay k == 0 /\ ~ az k == 0.

Record nrn := { node : v3; conn : v3; radius : Q; units : v3 }.

(* x * k: coordinates of nodes and connectors are multiplied, units divided (per axis); the radius is scaled by the
   isotropic factor (the 4th factor when a 4-vector is given) *)
Definition nmul (x : nrn) (k : v3) (kr : Q) : nrn :=
  {| node := vmul (node x) k; conn := vmul (conn x) k; radius := radius x * kr; units := vdiv (units x) k |}.
Definition ndiv (x : nrn) (k : v3) (kr : Q) : nrn :=
  {| node := vdiv (node x) k; conn := vdiv (conn x) k; radius := radius x / kr; units := vmul (units x) k |}.
(* x + o: coordinates are shifted, radius and units untouched *)
Definition nadd (x : nrn) (o : v3) : nrn := {| node := vadd (node x) o; conn := vadd (conn x) o; radius := radius x; units := units x |}.
Definition nsub (x : nrn) (o : v3) : nrn := {| node := vsub (node x) o; conn := vsub (conn x) o; radius := radius x; units := units x |}.

(* physical position = coordinate x unit *)
Definition phys (x : nrn) : v3 := vmul (node x) (units x).
Definition phys_conn (x : nrn) : v3 := vmul (conn x) (units x).

(* convert_units: multiply by units.to(target).magnitude, i.e. by units / target per axis *)
Definition convert (x : nrn) (target : Q) : nrn :=
  let c := {| ax := ax (units x) / target; ay := ay (units x) / target; az := az (units x) / target |} in
  nmul x c (ax c).

(* unit spellings: (spelling code, magnitude in nm) -- the table the harness uses to interpret navis' answers *)
Definition spelling_table : list (Z * Q) :=
  [ (0%Z, 1%Q); (1%Z, 1%Q); (2%Z, 1%Q); (3%Z, 8%Q); (4%Z, 1000%Q); (5%Z, 1000%Q); (6%Z, 1000%Q); (7%Z, 1000%Q); (8%Z, 1000000%Q); (9%Z, 1000%Q) ].
(* 0 'nm' 1 'nanometer' 2 '1 nm' 3 '8 nm' 4 'um' 5 'micron' 6 'microns' 7 'micrometer' 8 'mm' 9 '1000 nm' *)
Definition same_unit (a b : Z) : bool :=
  match find (fun p => Z.eqb (fst p) a) spelling_table, find (fun p => Z.eqb (fst p) b) spelling_table with
  | Some (_, x), Some (_, y) => Qeq_bool x y
  | _, _ => false
  end.
