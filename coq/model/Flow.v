(* Flow centralities and segregation index (morpho/mmetrics.py). C17. *)
From Coq Require Import List ZArith QArith Bool Lia Arith.
Import ListNotations.
From Navis Require Import model.Forest model.Dist model.Prune model.Strahler.
Open Scope Z_scope.

(* synapses: list of node ids, one entry per synapse (multiplicity kept) *)
Definition distal_or_self (t : table) (n s : Z) : bool := memZ n (anc t s).       (* s lies at or below n *)
Definition same_fragment (t : table) (a b : Z) : bool := root_of t a =? root_of t b.
Definition count_distal (t : table) (n : Z) (syn : list Z) : Z := Z.of_nat (length (filter (distal_or_self t n) syn)).
Definition count_frag (t : table) (n : Z) (syn : list Z) : Z := Z.of_nat (length (filter (same_fragment t n) syn)).

(* raw flow through the edge above n: post synapses on the root side (same fragment) x pre synapses below *)
Definition centrifugal (t : table) (pre post : list Z) (n : Z) : Z :=
  (count_frag t n post - count_distal t n post) * count_distal t n pre.
Definition centripetal (t : table) (pre post : list Z) (n : Z) : Z :=
  count_distal t n post * (count_frag t n pre - count_distal t n pre).
Definition raw_flow (mode : Z) (t : table) (pre post : list Z) (n : Z) : Z :=   (* 0 centrifugal, 1 centripetal, 2 sum *)
  if mode =? 0 then centrifugal t pre post n
  else if mode =? 1 then centripetal t pre post n
  else centrifugal t pre post n + centripetal t pre post n.

(* nodes typed `branch` take the largest value among their children *)
Definition with_fork_rule (t : table) (raw : Z -> Z) (r : row) : Z :=
  if label t r =? 2 then zmaxl (map raw (children t (rid r))) else raw (rid r).
Definition synapse_flow (mode : Z) (t : table) (pre post : list Z) : list (Z * Z) :=
  map (fun r => (rid r, with_fork_rule t (raw_flow mode t pre post) r)) t.

(* tip-to-tip ("leaf") flow: tips below x tips elsewhere in the fragment *)
Definition leaves_of (t : table) : list Z := map rid (leaf_rows t).
Definition leaf_raw (t : table) (n : Z) : Z :=
  let l := leaves_of t in (count_frag t n l - count_distal t n l) * count_distal t n l.
Definition leaf_flow (t : table) : list (Z * Z) :=
  map (fun r => (rid r, with_fork_rule t (leaf_raw t) r)) t.

(* The DEVIATION of navis' flow_centrality that is recorded as known findings, as an executable variant: the product is evaluated at
   branch points only and copied along segments from their distal end, so every node with at most one tip below it (a terminal
   segment) reports 0; `glob` = the tips of all fragments are used as the total instead of the fragment's own.  The check keys the
   known findings by exact agreement with this variant - any other difference from leaf_flow is a violation. *)
Definition leaf_raw_impl (glob : bool) (t : table) (n : Z) : Z :=
  let l := leaves_of t in
  if count_distal t n l <=? 1 then 0
  else ((if glob then Z.of_nat (length l) else count_frag t n l) - count_distal t n l) * count_distal t n l.
Definition leaf_flow_impl (glob : bool) (t : table) : list (Z * Z) :=
  map (fun r => (rid r, with_fork_rule t (leaf_raw_impl glob t) r)) t.

(* bending flow at a node with >= 2 children: post->pre paths that turn at it from one child branch into another *)
Definition bending_at (t : table) (pre post : list Z) (n : Z) : Z :=
  let cs := children t n in
  zsum (flat_map (fun l => map (fun r => if l =? r then 0 else count_distal t l post * count_distal t r pre) cs) cs).

(* segregation index, parametric in the binary entropy function H (navis uses -p ln p - (1-p) ln (1-p)).
   compartments: list of (n_pre, n_post) *)
Definition frac (a b : Z) : Q := if (a + b =? 0) then 0%Q else (inject_Z a / inject_Z (a + b))%Q.
Definition seg_entropy (H : Q -> Q) (comps : list (Z * Z)) : Q :=
  let N := zsum (map (fun c => fst c + snd c) comps) in
  qsum (map (fun c => (inject_Z (fst c + snd c) / inject_Z N * H (frac (fst c) (snd c)))%Q) comps).
Definition seg_norm (H : Q -> Q) (comps : list (Z * Z)) : Q :=
  H (frac (zsum (map fst comps)) (zsum (map snd comps))).
