From Coq Require Import List ZArith Bool Arith.
Import ListNotations.

(* ---------------------------------------------------------------- *)
(* C03: inputs are never modified unless inplace=True.                 *)
(* A heap model of neuron objects: a neuron is its attribute dict       *)
(* (attribute -> reference), the heap maps references to cells.         *)
(*   Flat v   : a value with no mutable parts reachable from it that     *)
(*              `copy.copy` duplicates completely (DataFrame, ndarray,    *)
(*              pint quantity, str, number ...), abstracted to v          *)
(*   Box es   : a container (dict / list) whose elements are references   *)
(*              (`tags`: dict of lists): `copy.copy` makes a new          *)
(*              container that SHARES the element cells                    *)
(* navis/core/{skeleton,base,dotprop,mesh,voxel}.py  `copy`               *)
(* ---------------------------------------------------------------- *)

Definition ref := nat.
Definition attr := nat.
Inductive cell := Flat (v : Z) | Box (es : list (Z * ref)).
Record store := mkStore { cellof : ref -> option cell; next : nat }.

Definition upd (s : store) (r : ref) (c : cell) : store :=
  mkStore (fun r' => if Nat.eqb r' r then Some c else cellof s r') (next s).
Definition alloc (s : store) (c : cell) : store * ref :=
  (mkStore (fun r' => if Nat.eqb r' (next s) then Some c else cellof s r') (S (next s)), next s).

Definition neuron := list (attr * ref).
Fixpoint lookup (x : neuron) (a : attr) : option ref :=
  match x with [] => None | (a', r) :: t => if Nat.eqb a' a then Some r else lookup t a end.
Fixpoint rebind (x : neuron) (a : attr) (r : ref) : neuron :=
  match x with [] => [] | (a', r') :: t => if Nat.eqb a' a then (a', r) :: t else (a', r') :: rebind t a r end.
Fixpoint assoc (es : list (Z * ref)) (k : Z) : option ref :=
  match es with [] => None | (k', r) :: t => if Z.eqb k' k then Some r else assoc t k end.

(* what can be observed: x.attr, and x.attr[k] for containers *)
Inductive path := PTop (a : attr) | PElem (a : attr) (k : Z).
Inductive view := VFlat (v : Z) | VBox (keys : list Z).

Definition pathref (s : store) (x : neuron) (p : path) : option ref :=
  match p with
  | PTop a => lookup x a
  | PElem a k => match lookup x a with
                 | Some r => match cellof s r with Some (Box es) => assoc es k | _ => None end
                 | None => None
                 end
  end.
Definition viewof (s : store) (r : ref) : option view :=
  match cellof s r with Some (Flat v) => Some (VFlat v) | Some (Box es) => Some (VBox (map fst es)) | None => None end.
Definition obsp (s : store) (x : neuron) (p : path) : option view :=
  match pathref s x p with Some r => viewof s r | None => None end.

(* ---------- operations performed THROUGH a neuron object y ---------- *)
Inductive op :=
| OWrite (a : attr) (v : Z)                (* y.a is mutated in place:   y.nodes.loc[..] = .. / y.points[..] = .. *)
| OWriteElem (a : attr) (k : Z) (v : Z)    (* y.a[k] is mutated in place: y.tags['x'].append(..) *)
| ORebind (a : attr) (v : Z).              (* y.a = <new object> *)

Definition step (s : store) (y : neuron) (o : op) : store * neuron :=
  match o with
  | OWrite a v =>
      match lookup y a with
      | Some r => match cellof s r with Some (Flat _) => (upd s r (Flat v), y) | _ => (s, y) end
      | None => (s, y)
      end
  | OWriteElem a k v =>
      match pathref s y (PElem a k) with
      | Some r' => match cellof s r' with Some (Flat _) => (upd s r' (Flat v), y) | _ => (s, y) end
      | None => (s, y)
      end
  | ORebind a v =>
      match lookup y a with
      | Some _ => let '(s', r) := alloc s (Flat v) in (s', rebind y a r)
      | None => (s, y)
      end
  end.
Fixpoint run (s : store) (y : neuron) (ops : list op) : store * neuron :=
  match ops with [] => (s, y) | o :: t => let '(s', y') := step s y o in run s' y' t end.

(* the same operations on observations *)
Definition path_eqb (p q : path) : bool :=
  match p, q with
  | PTop a, PTop b => Nat.eqb a b
  | PElem a k, PElem b j => Nat.eqb a b && Z.eqb k j
  | _, _ => false
  end.
Definition is_flat (o : option view) : bool := match o with Some (VFlat _) => true | _ => false end.
Definition ostep (o : op) (ob : path -> option view) : path -> option view :=
  match o with
  | OWrite a v => fun p => if path_eqb p (PTop a) && is_flat (ob (PTop a)) then Some (VFlat v) else ob p
  | OWriteElem a k v => fun p => if path_eqb p (PElem a k) && is_flat (ob (PElem a k)) then Some (VFlat v) else ob p
  | ORebind a v => fun p =>
      match ob (PTop a) with
      | Some _ => match p with
                  | PTop b => if Nat.eqb b a then Some (VFlat v) else ob p
                  | PElem b _ => if Nat.eqb b a then None else ob p
                  end
      | None => ob p
      end
  end.
Fixpoint orun (ops : list op) (ob : path -> option view) : path -> option view :=
  match ops with [] => ob | o :: t => orun t (ostep o ob) end.

(* ---------- copy ---------- *)
Inductive policy := Shallow | Deep.
Fixpoint copy_elems (s : store) (es : list (Z * ref)) : store * list (Z * ref) :=
  match es with
  | [] => (s, [])
  | (k, r) :: t =>
      let '(s1, r1) := alloc s (match cellof s r with Some c => c | None => Flat 0 end) in
      let '(s2, t') := copy_elems s1 t in (s2, (k, r1) :: t')
  end.
Definition copy_attr (s : store) (pol : policy) (r : ref) : store * ref :=
  match cellof s r with
  | Some (Flat v) => alloc s (Flat v)
  | Some (Box es) => match pol with
                     | Shallow => alloc s (Box es)
                     | Deep => let '(s1, es') := copy_elems s es in alloc s1 (Box es')
                     end
  | None => alloc s (Flat 0)
  end.
Fixpoint copy (s : store) (pol : attr -> policy) (x : neuron) : store * neuron :=
  match x with
  | [] => (s, [])
  | (a, r) :: t =>
      let '(s1, r1) := copy_attr s (pol a) r in
      let '(s2, t') := copy s1 pol t in (s2, (a, r1) :: t')
  end.

(* ---------- well-formedness ---------- *)
Definition bounded (s : store) : Prop := forall r, next s <= r -> cellof s r = None.
Definition Reach (s : store) (x : neuron) (r : ref) : Prop := exists p, pathref s x p = Some r.
Definition Valid (s : store) (x : neuron) : Prop := forall p r, pathref s x p = Some r -> cellof s r <> None.
Definition NoAlias (s : store) (x : neuron) : Prop := forall p q r, pathref s x p = Some r -> pathref s x q = Some r -> p = q.
Definition FlatElems (s : store) (x : neuron) : Prop :=
  forall a k r, pathref s x (PElem a k) = Some r -> exists v, cellof s r = Some (Flat v).
Definition Sep (s : store) (x y : neuron) : Prop := forall r, Reach s x r -> Reach s y r -> False.
Definition Inv (s : store) (y : neuron) : Prop := bounded s /\ Valid s y /\ NoAlias s y.

(* ---------- the shapes a catalogue function can have (filled in by translate/alias.py) ---------- *)
Inductive shape :=
| CopyThenOperate      (* `if not inplace: x = x.copy()` (any spelling) before the first write through x *)
| Delegates            (* only calls catalogued functions, forwarding inplace, or works on a fresh copy made by one *)
| ReadOnly             (* never assigns through its argument *)
| Annotates            (* read-only apart from adding its one documented column *)
| Unknown.
Definition shape_sound (sh : shape) : bool := match sh with Unknown => false | _ => true end.

(* an inplace-capable function body as a program: the ops it performs through its working object *)
Definition call_noninplace (s : store) (pol : attr -> policy) (x : neuron) (body : list op) : store * neuron :=
  let '(s1, y) := copy s pol x in run s1 y body.
Definition call_inplace (s : store) (x : neuron) (body : list op) : store * neuron := run s x body.

(* map_neuronlist(inplace=True): the list object keeps its identity, the processed neurons are swapped in, in order *)
Definition maplist_inplace {A} (f : A -> A) (nl : list A) : list A := map f nl.
