(* NBLAST scoring (nbl/smat.py Digitizer/Lookup2d, nbl/nblast_funcs.py NBlaster, nbl/base.py). C06.
   Nearest-neighbour search and tangent dot products are an oracle: the model receives, per query point,
   the distance to and the (alpha-scaled) absolute dot product with its nearest target point. *)
From Coq Require Import List ZArith QArith Bool Lia Arith.
Import ListNotations.
From Navis Require Import model.Dist.

(* Digitizer with clip=(True, True): the outermost boundaries are -inf/+inf, `bounds` are the interior ones.
   right=true: intervals (a, b]; right=false: [a, b).  np.searchsorted(..., side) - 1 *)
Definition digitize (bounds : list Q) (right : bool) (v : Q) : nat :=
  length (filter (fun b => if right then negb (Qle_bool v b) else Qle_bool b v) bounds).

Definition cell (cells : list (list Q)) (i j : nat) : Q := nth j (nth i cells []) 0%Q.

Record smat := { dist_b : list Q; dot_b : list Q; sm_right : bool; sm_cells : list (list Q) }.
Definition score_point (s : smat) (dd : Q * Q) : Q :=
  cell (sm_cells s) (digitize (dist_b s) (sm_right s) (fst dd)) (digitize (dot_b s) (sm_right s) (snd dd)).
(* raw score: sum over query points *)
Definition raw_score (s : smat) (pts : list (Q * Q)) : Q := qsum (map (score_point s) pts).
(* self hit without alpha: every point matches itself at distance 0 with dot product 1 *)
Definition self_hit (s : smat) (n : nat) : Q := raw_score s (repeat (0%Q, 1%Q) n).
(* self hit with alpha: dot = sqrt(alpha_i * alpha_i) = alpha_i, supplied by the harness *)
Definition self_hit_alpha (s : smat) (alphas : list Q) : Q := raw_score s (map (fun a => (0%Q, a)) alphas).

Definition normalise (normalized : bool) (raw selfhit : Q) : Q := if normalized then (raw / selfhit)%Q else raw.

(* forward / reverse combinations: 0 forward, 1 mean, 2 min, 3 max *)
Definition qmin (a b : Q) : Q := if Qle_bool a b then a else b.
Definition qmax2 (a b : Q) : Q := if Qle_bool a b then b else a.
Definition combine_scores (mode : Z) (fwd rev : Q) : Q :=
  if (mode =? 0)%Z then fwd else if (mode =? 1)%Z then ((fwd + rev) / 2)%Q else if (mode =? 2)%Z then qmin fwd rev else qmax2 fwd rev.

(* a full matrix: entry (i, j) from the oracle data of query i against target j *)
Definition score_matrix (s : smat) (normalized : bool) (selfhits : list Q) (data : list (list (list (Q * Q)))) : list (list Q) :=
  map (fun qi => map (fun pts => normalise normalized (raw_score s pts) (nth (fst qi) selfhits 1%Q)) (snd qi))
      (combine (seq 0 (length data)) data).

(* scores='both': one forward and one reverse row per query, interleaved, queries in input order *)
Definition both_layout {A} (fw rv : list A) : list A := flat_map (fun p => [fst p; snd p]) (combine fw rv).
