(* Segment decompositions (graph_utils._break_segments, _generate_segments) and their checkers.  C05. *)
From Coq Require Import List ZArith QArith Bool Lia Arith.
Import ListNotations.
From Navis Require Import model.Forest model.Dist.
Open Scope Z_scope.

Definition label_of (t : table) (i : Z) : Z :=
  match lookup t i with Some r => label t r | None => -1 end.
Definition is_stop (t : table) (i : Z) : bool := let c := label_of t i in (c =? 2) || (c =? 0).   (* branch or root *)
Definition is_seed (t : table) (r : row) : bool := let c := label t r in (c =? 2) || (c =? 1).    (* branch or end *)

(* walk up an ancestor chain until the first stop node (inclusive) *)
Fixpoint walk_to_stop (t : table) (l : list Z) : list Z :=
  match l with
  | [] => []
  | x :: l' => if is_stop t x then [x] else x :: walk_to_stop t l'
  end.

(* small segment starting at seed s: s, then up to the next branch point or root *)
Definition small_segment (t : table) (r : row) : list Z := rid r :: walk_to_stop t (anc t (rpar r)).
Definition break_segments (t : table) : list (list Z) := map (small_segment t) (filter (is_seed t) t).

(* ---- _generate_segments: leaves in a given order (farthest from root first); each walks up until it
   meets a node already seen (kept as the segment's last element) or a root ---- *)
Fixpoint walk_to_seen (seen : list Z) (l : list Z) : list Z :=
  match l with
  | [] => []
  | x :: l' => if memZ x seen then [x] else x :: walk_to_seen seen l'
  end.
Fixpoint gen_segments_from (t : table) (leaves : list Z) (seen : list Z) : list (list Z) :=
  match leaves with
  | [] => []
  | lf :: rest =>
      let seg := match anc t lf with [] => [] | x :: up => x :: walk_to_seen seen up end in
      let segs := gen_segments_from t rest (seg ++ seen) in
      match seg with _ :: _ :: _ => seg :: segs | _ => segs end
  end.

(* ---- verified checkers run on implementation outputs ---- *)
Fixpoint consecutive_ok (t : table) (seg : list Z) : bool :=
  match seg with
  | a :: ((b :: _) as rest) =>
      match lookup t a with Some r => (0 <=? rpar r) && (rpar r =? b) | None => false end && consecutive_ok t rest
  | _ => true
  end.
Definition child_ends (segs : list (list Z)) : list Z := flat_map (fun s => removelast s) segs.
Definition nonroot_ids (t : table) : list Z := map rid (filter (fun r => negb (is_root r)) t).

(* every consecutive pair is a child->parent edge, and every non-root node is the child end of exactly one pair *)
Definition partition_okb (t : table) (segs : list (list Z)) : bool :=
  forallb (consecutive_ok t) segs
  && forallb (fun s => match s with [] => false | _ => true end) segs
  && nodupb (child_ends segs)
  && forallb (fun i => memZ i (child_ends segs)) (nonroot_ids t)
  && forallb (fun i => memZ i (nonroot_ids t)) (child_ends segs).

Definition interior (s : list Z) : list Z :=   (* all but first and last *)
  match s with
  | _ :: rest => removelast rest
  | [] => []
  end.
(* small segments start at a leaf or branch point, end at a branch point or root, slabs in between *)
Definition shape_okb (t : table) (segs : list (list Z)) : bool :=
  forallb (fun s =>
    match s with
    | a :: _ :: _ =>
        let la := label_of t a in let lz := label_of t (last s (-1)) in
        ((la =? 1) || (la =? 2)) && ((lz =? 2) || (lz =? 0)) && forallb (fun i => label_of t i =? 3) (interior s)
    | _ => false
    end) segs.

(* `segments`: partition (isolated nodes appear as single-node segments) *)
Definition isolated_ids (t : table) : list Z :=
  map rid (filter (fun r => is_root r && Nat.eqb (nchildren t (rid r)) 0) t).
Definition long_segments_okb (t : table) (segs : list (list Z)) : bool :=
  let multi := filter (fun s => match s with _ :: _ :: _ => true | _ => false end) segs in
  let singles := flat_map (fun s => match s with [x] => [x] | _ => [] end) segs in
  partition_okb t multi
  && nodupb singles && forallb (fun i => memZ i singles) (isolated_ids t) && forallb (fun i => memZ i (isolated_ids t)) singles
  && forallb (fun s => match s with [] => false | _ => true end) segs.

Fixpoint sorted_desc (l : list Q) : bool :=
  match l with
  | a :: ((b :: _) as rest) => Qle_bool b a && sorted_desc rest
  | _ => true
  end.
Definition seg_length (w : wmap) (s : list Z) : Q := dsum w (removelast s).
