(* Transforming / mirroring neurons (transforms/xfm_funcs.py xform, templates.py mirror_brain). C16. *)
From Coq Require Import List ZArith QArith Bool Lia Arith.
Import ListNotations.

(* all coordinate blocks of a neuron (nodes / vertices / points, helper points, connectors) are stacked,
   transformed in one call and cut apart again by their lengths *)
Fixpoint slices {A} (lens : list nat) (l : list A) : list (list A) :=
  match lens with
  | [] => []
  | n :: rest => firstn n l :: slices rest (skipn n l)
  end.
Definition xform_blocks {A} (f : A -> A) (blocks : list (list A)) : list (list A) :=
  slices (map (@length A) blocks) (map f (concat blocks)).

(* mirroring about the midplane of an axis of size s: x |-> s - x *)
Definition mirror1 (s x : Q) : Q := (s - x)%Q.

(* triangles and their (unnormalised) normals *)
Record pt := { px : Q; py : Q; pz : Q }.
Definition sub (a b : pt) : pt := {| px := px a - px b; py := py a - py b; pz := pz a - pz b |}.
Definition cross (u v : pt) : pt :=
  {| px := py u * pz v - pz u * py v; py := pz u * px v - px u * pz v; pz := px u * py v - py u * px v |}.
Definition normal (a b c : pt) : pt := cross (sub b a) (sub c a).
Definition peq (a b : pt) : Prop := (px a == px b /\ py a == py b /\ pz a == pz b)%Q.
Definition pneg (a : pt) : pt := {| px := - px a; py := - py a; pz := - pz a |}.
Definition mirror_x (s : Q) (p : pt) : pt := {| px := mirror1 s (px p); py := py p; pz := pz p |}.
(* faces[:, ::-1] *)
Definition rewind {A} (f : A * A * A) : A * A * A := let '(a, b, c) := f in (c, b, a).
