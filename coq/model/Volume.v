(* Inside/outside tests and nearest-neighbour snapping (intersection/intersect.py, core *.snap). C18.
   Ground-truth solids: unions of axis-aligned boxes minus unions of boxes, in a rational pose (handled by the harness
   by mapping query points into the solid's frame). *)
From Coq Require Import List ZArith QArith Bool Lia.
Import ListNotations.
Open Scope Q_scope.

Record p3 := { qx : Q; qy : Q; qz : Q }.
Record box := { lo : p3; hi : p3 }.
Definition in_box (b : box) (p : p3) : bool :=
  Qle_bool (qx (lo b)) (qx p) && Qle_bool (qx p) (qx (hi b)) &&
  Qle_bool (qy (lo b)) (qy p) && Qle_bool (qy p) (qy (hi b)) &&
  Qle_bool (qz (lo b)) (qz p) && Qle_bool (qz p) (qz (hi b)).
Record solid := { plus : list box; minus : list box }.
Definition in_solid (s : solid) (p : p3) : bool := existsb (fun b => in_box b p) (plus s) && negb (existsb (fun b => in_box b p) (minus s)).

(* pruning with mode IN / OUT: positions of the points that are kept *)
Definition keep_in (s : solid) (pts : list p3) : list bool := map (in_solid s) pts.
Definition keep_out (s : solid) (pts : list p3) : list bool := map (fun p => negb (in_solid s p)) pts.
(* several volumes: one independent answer per name *)
Definition in_volumes (vs : list (Z * solid)) (pts : list p3) : list (Z * list bool) := map (fun v => (fst v, keep_in (snd v) pts)) vs.

(* snapping: squared distance and argmin *)
Definition d2 (a b : p3) : Q := (qx a - qx b) * (qx a - qx b) + (qy a - qy b) * (qy a - qy b) + (qz a - qz b) * (qz a - qz b).
Fixpoint argmin_from (q : p3) (best : nat) (bestd : Q) (k : nat) (pts : list p3) : nat :=
  match pts with
  | [] => best
  | p :: rest => if Qle_bool bestd (d2 q p) then argmin_from q best bestd (S k) rest else argmin_from q k (d2 q p) (S k) rest
  end.
Definition nearest (q : p3) (pts : list p3) : option nat :=
  match pts with [] => None | p :: rest => Some (argmin_from q 0 (d2 q p) 1 rest) end.
(* checker for an implementation's answer k (ties allowed): no point is strictly closer *)
Definition is_nearest_b (q : p3) (pts : list p3) (k : nat) : bool :=
  match nth_error pts k with
  | Some pk => forallb (fun p => Qle_bool (d2 q pk) (d2 q p)) pts
  | None => false
  end.
