(* Strahler index (morpho/mmetrics.strahler_index). C17. *)
From Coq Require Import List ZArith QArith Bool Lia Arith.
Import ListNotations.
From Navis Require Import model.Forest model.Prune.
Open Scope Z_scope.

Definition zsum (l : list Z) : Z := fold_right Z.add 0 l.
Definition zmaxl (l : list Z) : Z := fold_right Z.max 0 l.
Definition zcount (x : Z) (l : list Z) : nat := length (filter (Z.eqb x) l).

(* index of a node from the indices of its children *)
Definition combine_si (greedy : bool) (ignored_leaf : bool) (vs : list Z) : Z :=
  match vs with
  | [] => if ignored_leaf then 0 else 1
  | [v] => v
  | _ => if greedy then zsum vs
         else let m := zmaxl vs in if (2 <=? zcount m vs)%nat then m + 1 else m
  end.

Fixpoint si (greedy : bool) (ign : list Z) (fuel : nat) (t : table) (n : Z) : Z :=
  match fuel with
  | O => 1
  | S f => combine_si greedy (memZ n ign) (map (si greedy ign f t) (children t n))
  end.

(* nodes on an ignored twig take the index of the branch point the twig hangs off *)
Fixpoint first_branching (t : table) (l : list Z) : option Z :=
  match l with
  | [] => None
  | x :: l' => if (2 <=? nchildren t x)%nat then Some x else first_branching t l'
  end.
Definition on_ignored_twig (t : table) (ign : list Z) (n : Z) : option Z :=
  (* Some b: n lies on the twig of an ignored leaf that ends below branch point b *)
  let below := filter (fun r => (label t r =? 1) && memZ (rid r) ign && memZ n (match twig_walk t (anc t (rid r)) with Some tw => tw | None => [] end)) t in
  match below with
  | r :: _ => first_branching t (anc t (rid r))
  | [] => None
  end.
Definition strahler (greedy : bool) (ign : list Z) (t : table) (n : Z) : Z :=
  match on_ignored_twig t ign n with
  | Some b => si greedy ign (S (length t)) t b
  | None => si greedy ign (S (length t)) t n
  end.
Definition strahler_all (greedy : bool) (ign : list Z) (t : table) : list (Z * Z) :=
  map (fun i => (i, strahler greedy ign t i)) (ids t).

(* min_twig_size = k: leaves whose twig (leaf .. the branching node it hangs off, inclusive) has fewer than k nodes are treated as
   ignored.  An unbranched fragment is not a twig - it hangs off nothing - and keeps its index. *)
Definition short_twig_leaves (t : table) (k : nat) : list Z :=
  map rid (filter (fun r => match twig_walk t (anc t (rid r)) with
                            | Some tw => Nat.ltb (S (length tw)) k
                            | None => false
                            end) (leaf_rows t)).
Definition strahler_all_mts (greedy : bool) (ign : list Z) (k : nat) (t : table) : list (Z * Z) :=
  strahler_all greedy (ign ++ short_twig_leaves t k) t.
