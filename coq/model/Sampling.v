(* Down- and resampling (sampling/downsampling.py, sampling/resampling.py). C13. *)
From Coq Require Import List ZArith QArith Bool Lia Arith.
Import ListNotations.
From Navis Require Import model.Forest model.Ops model.Dist.
Open Scope Z_scope.

(* ---- downsampling: walk up from every fx point, keeping every (factor+1)-th node until the next fx point.
   factor = None stands for infinity ---- *)
Fixpoint walk_keep (fx : list Z) (factor : option nat) (cnt : nat) (l : list Z) : list Z :=
  match l with
  | [] => []
  | x :: l' =>
      if memZ x fx then []
      else match factor with
           | Some k => if Nat.eqb cnt k then x :: walk_keep fx factor 0 l' else walk_keep fx factor (S cnt) l'
           | None => walk_keep fx factor cnt l'
           end
  end.

(* fx points: everything that is not a slab, plus preserved nodes and the soma *)
Definition fix_points (t : table) (preserve : list Z) : list Z :=
  map rid (filter (fun r => negb (label t r =? 3) || memZ (rid r) preserve) t).
Definition kept_nodes (t : table) (factor : option nat) (preserve : list Z) : list Z :=
  let fx := fix_points t preserve in
  fx ++ flat_map (fun f => match anc t f with _ :: up => walk_keep fx factor 0 up | [] => [] end) fx.
Definition downsample (t : table) (factor : option nat) (preserve : list Z) : table :=
  contract (kept_nodes t factor preserve) t.

(* ---- resampling ---- *)
(* number of samples on a segment of length L at resolution res: endpoints only when L < res, else round(L / res)
   (round half to even, as numpy does), never fewer than the two end points *)
Definition qround_half_even (q : Q) : Z :=
  let n := Qnum q in let d := Zpos (Qden q) in
  let fl := n / d in let r2 := 2 * (n - fl * d) in
  if r2 <? d then fl else if d <? r2 then fl + 1 else if Z.even fl then fl else fl + 1.
Definition n_samples (L res : Q) : Z :=
  if Qle_bool res L then Z.max 2 (qround_half_even (L / res)) else 2.

(* linear interpolation along a polyline given cumulative distances: position of the point at arc length d,
   as (index k of the edge start, fraction t along edge k -> k+1) *)
Fixpoint locate (dist : list Q) (d : Q) (k : nat) : nat * Q :=
  match dist with
  | a :: ((b :: _) as rest) =>
      if Qle_bool d b then (k, if Qeq_bool a b then 0%Q else ((d - a) / (b - a))%Q)
      else match rest with
           | [_] => (k, 1%Q)
           | _ => locate rest d (S k)
           end
  | _ => (k, 0%Q)
  end.
Definition lerp (t a b : Q) : Q := ((1 - t) * a + t * b)%Q.

(* topology: contract to the segment end points, then put k fresh nodes on each (child end, k) edge *)
Fixpoint insert_many (c : Z) (fresh : list Z) (t : table) : table :=
  match fresh with
  | [] => t
  | n :: rest => insert_many c rest (step' t (OInsert c n 0))
  end.
Definition resample_topology (t : table) (ends : list Z) (plan : list (Z * list Z)) : table :=
  fold_left (fun acc p => insert_many (fst p) (snd p) acc) plan (contract ends t).
