(* Core model of a navis skeleton node table (navis/core/skeleton.py, graph/graph_utils.py,
   morpho/subset.py).  Definitions only -- proofs live in proofs/. *)
From Coq Require Import List ZArith Bool Lia Arith.
Import ListNotations.
Open Scope Z_scope.

(* One row of the node table.  rpar < 0 marks a root (navis writes -1).  rdat is an opaque token
   standing for the row's payload (x, y, z, radius and any extra columns): operations that must not
   touch coordinates are exactly those that keep rdat. *)
Record row := { rid : Z; rpar : Z; rdat : Z }.
Definition table := list row.

Definition ids (t : table) : list Z := map rid t.
Definition pars (t : table) : list Z := map rpar t.
Definition memZ (x : Z) (l : list Z) : bool := existsb (Z.eqb x) l.
Definition set_par (r : row) (p : Z) : row := {| rid := rid r; rpar := p; rdat := rdat r |}.
Definition is_root (r : row) : bool := rpar r <? 0.

Fixpoint lookup (t : table) (i : Z) : option row :=
  match t with
  | [] => None
  | r :: t' => if Z.eqb (rid r) i then Some r else lookup t' i
  end.

(* ---------- well-formedness (C01) ---------- *)
Definition ranked (t : table) (rk : Z -> nat) : Prop :=
  forall r, In r t -> 0 <= rpar r -> (rk (rpar r) < rk (rid r))%nat.
Definition closed (t : table) : Prop :=
  forall r, In r t -> 0 <= rpar r -> In (rpar r) (ids t).
Definition nonneg_ids (t : table) : Prop := forall r, In r t -> 0 <= rid r.

Record WF (t : table) : Prop := {
  wf_nodup : NoDup (ids t);          (* node ids are unique *)
  wf_nonneg : nonneg_ids t;          (* ids are not negative, so -1 can never name a node *)
  wf_closed : closed t;              (* every non-root node's parent is present *)
  wf_acyc : exists rk, ranked t rk   (* no cycles: parents have strictly smaller rank *) }.

(* ---------- node types (graph_utils.classify_nodes) ---------- *)
(* codes: 0 root, 1 end, 2 branch, 3 slab *)
Definition count_occ_Z (x : Z) (l : list Z) : nat := length (filter (Z.eqb x) l).
Definition nchildren (t : table) (i : Z) : nat := count_occ_Z i (pars t).
Definition label (t : table) (r : row) : Z :=
  if is_root r then 0
  else match nchildren t (rid r) with
       | O => 1
       | S O => 3
       | _ => 2
       end.
Definition classify (t : table) : list Z := map (label t) t.

(* ---------- executable ancestor chain ---------- *)
Fixpoint chain (fuel : nat) (t : table) (i : Z) : list Z :=
  match fuel with
  | O => []
  | S f => match lookup t i with
           | None => []
           | Some r => if rpar r <? 0 then [i] else i :: chain f t (rpar r)
           end
  end.
Definition anc (t : table) (i : Z) : list Z := chain (length t) t i.

(* ---------- boolean well-formedness checker, run on implementation outputs ---------- *)
Fixpoint nodupb (l : list Z) : bool :=
  match l with
  | [] => true
  | x :: l' => negb (memZ x l') && nodupb l'
  end.
Fixpoint reaches_root (fuel : nat) (t : table) (i : Z) : bool :=
  match fuel with
  | O => false
  | S f => match lookup t i with
           | None => false
           | Some r => if rpar r <? 0 then true else reaches_root f t (rpar r)
           end
  end.
Definition wfb (t : table) : bool :=
  nodupb (ids t)
  && forallb (fun r => 0 <=? rid r) t
  && forallb (fun r => (rpar r <? 0) || memZ (rpar r) (ids t)) t
  && forallb (fun r => reaches_root (length t) t (rid r)) t.

Fixpoint list_eqb (a b : list Z) : bool :=
  match a, b with
  | [], [] => true
  | x :: a', y :: b' => (x =? y) && list_eqb a' b'
  | _, _ => false
  end.
(* full C01 checker: structure + the implementation's type column *)
Definition wf_typed_b (t : table) (types : list Z) : bool := wfb t && list_eqb types (classify t).

(* ---------- subset with orphan repair (morpho.subset._subset_treeneuron) ---------- *)
Definition keep_rows (S : list Z) (t : table) : table := filter (fun r => memZ (rid r) S) t.
Definition repair (t : table) : table :=
  map (fun r => if memZ (rpar r) (ids t) then r else set_par r (-1)) t.
Definition subset (S : list Z) (t : table) : table := repair (keep_rows S t).

(* ---------- reroot (networkx branch of graph_utils.reroot_skeleton) ---------- *)
Fixpoint index_of (x : Z) (l : list Z) : option nat :=
  match l with
  | [] => None
  | y :: l' => if Z.eqb x y then Some O else option_map S (index_of x l')
  end.
Definition reroot_row (p : list Z) (r : row) : row :=
  match index_of (rid r) p with
  | Some O => set_par r (-1)
  | Some (S j) => set_par r (nth j p (-1))
  | None => r
  end.
Definition reroot_rows (p : list Z) (t : table) : table := map (reroot_row p) t.
(* walk from the new root to the old root, then point every path node at its predecessor *)
Definition reroot (r : Z) (t : table) : table := reroot_rows (anc t r) t.
Definition reroot_seq (rs : list Z) (t : table) : table := fold_left (fun t r => reroot r t) rs t.

(* ---------- descendants, cutting (graph_utils.cut_skeleton) ---------- *)
Definition is_desc (t : table) (c : Z) (r : row) : bool := memZ c (anc t (rid r)).   (* c is an ancestor-or-self of r *)
Definition desc_ids (t : table) (c : Z) : list Z := map rid (filter (is_desc t c) t).
Definition make_root (c : Z) (t : table) : table :=
  map (fun r => if rid r =? c then set_par r (-1) else r) t.
Definition cut_distal (c : Z) (t : table) : table := make_root c (subset (desc_ids t c) t).
Definition cut_proximal (c : Z) (t : table) : table :=
  subset (c :: map rid (filter (fun r => negb (is_desc t c r)) t)) t.

(* root of the fragment a node belongs to *)
Definition root_of (t : table) (i : Z) : Z := last (anc t i) (-1).

(* undirected edges as (child, parent) pairs *)
Definition edges (t : table) : list (Z * Z) :=
  map (fun r => (rid r, rpar r)) (filter (fun r => negb (is_root r)) t).

(* ---------- encodings for the correspondence check ---------- *)
Definition mk (rows : list (Z * Z)) : table :=
  map (fun '(i, p) => {| rid := i; rpar := p; rdat := i |}) rows.
Definition out (t : table) : list (Z * Z) := map (fun r => (rid r, rpar r)) t.
