(* Index space (igraph: vertices are row positions) vs id space (networkx: vertices are node ids). C04. *)
From Coq Require Import List ZArith Bool Lia Arith.
Import ListNotations.
From Navis Require Import model.Forest.
Open Scope Z_scope.

(* id2ix / ix2id exactly as the code builds them: position in the node table *)
Fixpoint id2ix (l : list Z) (i : Z) : option nat :=
  match l with
  | [] => None
  | x :: l' => if x =? i then Some O else option_map S (id2ix l' i)
  end.
Definition ix2id (l : list Z) (k : nat) : option Z := nth_error l k.

(* graph builders: converters.neuron2igraph (edges between positions) and neuron2nx (edges between ids) *)
Definition nx_edges (t : table) : list (Z * Z) := edges t.
Definition ig_edges (t : table) : list (option nat * option nat) :=
  map (fun r => (id2ix (ids t) (rid r), id2ix (ids t) (rpar r))) (filter (fun r => negb (is_root r)) t).
Definition ig_edges_as_ids (t : table) : list (option Z * option Z) :=
  map (fun e => (match fst e with Some k => ix2id (ids t) k | None => None end,
                 match snd e with Some k => ix2id (ids t) k | None => None end)) (ig_edges t).
