(* SWC export (io/swc_io.py make_swc_table). C07.
   Rows are ordered by depth (distance to root in edges), stably: all roots first, then their children, ... ;
   ids are renumbered 1..N in that order; parents are renumbered through the same map (-1 when absent). *)
From Coq Require Import List ZArith Bool Lia Arith.
Import ListNotations.
From Navis Require Import model.Forest.
Open Scope Z_scope.

Definition depthn (t : table) (i : Z) : nat := length (anc t i).
Definition level (t : table) (d : nat) : table := filter (fun r => Nat.eqb (depthn t (rid r)) d) t.
Definition swc_order (t : table) : table := flat_map (level t) (seq 0 (S (length t))).

(* position-based renumbering *)
Definition new_id (order : list Z) (i : Z) : Z :=
  match index_of i order with Some k => Z.of_nat k + 1 | None => -1 end.
Definition node_map (t : table) : list (Z * Z) :=
  let o := ids (swc_order t) in map (fun i => (i, new_id o i)) o.

(* labels: 0 undefined, 5 fork, 6 end, 1 soma, 7 presynapse, 8 postsynapse (later rules override earlier ones) *)
Definition auto_label (t : table) (soma pre post : list Z) (r : row) : Z :=
  let base := if label t r =? 2 then 5 else if label t r =? 1 then 6 else 0 in
  let l1 := if memZ (rid r) soma then 1 else base in
  let l2 := if memZ (rid r) pre then 7 else l1 in
  if memZ (rid r) post then 8 else l2.

(* the table written to the file: (PointNo, Label, Parent); X Y Z Radius travel with the row (rdat) *)
Definition swc_table (t : table) (lab : row -> Z) : list (Z * Z * Z * Z) :=
  let o := ids (swc_order t) in
  map (fun r => (new_id o (rid r), lab r, (if rpar r <? 0 then -1 else new_id o (rpar r)), rdat r)) (swc_order t).

(* checker for a file parsed by the harness: rows (id, parent) *)
Fixpoint parent_first_b (seen : list Z) (rows : list (Z * Z)) : bool :=
  match rows with
  | [] => true
  | (i, p) :: rest => ((p =? -1) || (memZ p seen && (p <? i))) && parent_first_b (i :: seen) rest
  end.
Definition swc_valid_b (rows : list (Z * Z)) : bool :=
  list_eqb (map fst rows) (map Z.of_nat (seq 1 (length rows))) && parent_first_b [] rows.
