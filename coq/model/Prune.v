(* Pruning (morpho/manipulation.py: prune_twigs, prune_by_strahler, prune_at_depth; graph_utils.longest_neurite). C12.
   A twig is a leaf together with its ancestors up to, but excluding, the first node with >= 2 children
   (a branch point or a branching root); an unbranched fragment has no twig. *)
From Coq Require Import List ZArith QArith Bool Lia Arith.
Import ListNotations.
From Navis Require Import model.Forest model.Dist model.Segments.
Open Scope Z_scope.

Fixpoint twig_walk (t : table) (l : list Z) : option (list Z) :=
  match l with
  | [] => None
  | x :: l' => if (2 <=? nchildren t x)%nat then Some []
               else match twig_walk t l' with Some tw => Some (x :: tw) | None => None end
  end.
Definition leaf_rows (t : table) : table := filter (fun r => label t r =? 1) t.
Definition twigs (t : table) : list (list Z) :=
  flat_map (fun r => match twig_walk t (anc t (rid r)) with Some tw => [tw] | None => [] end) (leaf_rows t).

(* mask = None: everything; Some m: the whole twig must lie in m *)
Definition in_mask (mask : option (list Z)) (tw : list Z) : bool :=
  match mask with None => true | Some m => forallb (fun i => memZ i m) tw end.
Definition qualifying (t : table) (w : wmap) (size : Q) (mask : option (list Z)) : list (list Z) :=
  filter (fun tw => Qle_bool (dsum w tw) size && in_mask mask tw) (twigs t).
Definition removed_once (t : table) (w : wmap) (size : Q) (mask : option (list Z)) : list Z :=
  concat (qualifying t w size mask).
Definition prune_once (t : table) (w : wmap) (size : Q) (mask : option (list Z)) : table :=
  subset (filter (fun i => negb (memZ i (removed_once t w size mask))) (ids t)) t.

(* recursive pruning: repeat until nothing qualifies (fuel = number of rounds allowed) *)
Fixpoint prune_rec (fuel : nat) (t : table) (w : wmap) (size : Q) (mask : option (list Z)) : table :=
  match fuel with
  | O => t
  | S f => match removed_once t w size mask with
           | [] => t
           | _ => prune_rec f (prune_once t w size mask) w size mask
           end
  end.
(* recursive=False: one round; recursive=k: k further rounds; recursive=True: to the fixpoint *)
Definition prune_twigs (rounds : option nat) (t : table) (w : wmap) (size : Q) (mask : option (list Z)) : table :=
  match rounds with Some k => prune_rec (S k) t w size mask | None => prune_rec (S (length t)) t w size mask end.

(* does any pruning round meet a terminal branch that is only PARTLY inside the mask?  On such inputs the docstring ("only nodes in
   the mask are considered"), the compiled back end (cuts the branch at its first unmasked node) and the pure-Python path (decides by
   the leaf alone) disagree; the property text sides with whole branches.  Used to key the known finding exactly. *)
Definition partly_masked (m : list Z) (tw : list Z) : bool :=
  existsb (fun i => memZ i m) tw && negb (forallb (fun i => memZ i m) tw).
Fixpoint partial_met (fuel : nat) (t : table) (w : wmap) (size : Q) (mask : option (list Z)) : bool :=
  match fuel, mask with
  | S f, Some m => existsb (partly_masked m) (twigs t)
                   || match removed_once t w size mask with [] => false | _ => partial_met f (prune_once t w size mask) w size mask end
  | _, _ => false
  end.
(* some pruning round meets an UNBRANCHED fragment (no terminal branch at all) whose tip lies in the mask: the situation of the
   known finding C12:twigs-mask-unbranched-fragment, also when the fragment only becomes unbranched in a later round *)
Definition chain_tip_masked (m : list Z) (t : table) : bool :=
  existsb (fun r => match twig_walk t (anc t (rid r)) with None => memZ (rid r) m | Some _ => false end) (leaf_rows t).
Fixpoint chain_met (fuel : nat) (t : table) (w : wmap) (size : Q) (mask : option (list Z)) : bool :=
  match fuel, mask with
  | S f, Some m => chain_tip_masked m t
                   || match removed_once t w size mask with [] => false | _ => chain_met f (prune_once t w size mask) w size mask end
  | _, _ => false
  end.
Definition chain_mask_met (rounds : option nat) (t : table) (w : wmap) (size : Q) (mask : option (list Z)) : bool :=
  match rounds with Some k => chain_met (S k) t w size mask | None => chain_met (S (length t)) t w size mask end.
Definition partial_mask_met (rounds : option nat) (t : table) (w : wmap) (size : Q) (mask : option (list Z)) : bool :=
  match rounds with Some k => partial_met (S k) t w size mask | None => partial_met (S (length t)) t w size mask end.

(* ---- exact mode: height of a node = largest distance to a tip below it ---- *)
Definition children (t : table) (n : Z) : list Z := map rid (filter (fun r => (0 <=? rpar r) && (rpar r =? n)) t).
Definition qmax (a b : Q) : Q := if Qle_bool a b then b else a.
Fixpoint height (fuel : nat) (t : table) (w : wmap) (n : Z) : Q :=
  match fuel with
  | O => 0%Q
  | S f => fold_right qmax 0%Q (map (fun c => (wget w c + height f t w c)%Q) (children t n))
  end.
(* exact pruning keeps the part of the cable whose height is >= size: a node stays where it is when its
   height is >= size; it is moved towards its parent when only its parent's side reaches `size`
   (fraction of the edge, measured from the node); otherwise it is removed. Result: (id, fraction). *)
Definition exact_plan (t : table) (w : wmap) (size : Q) : list (Z * Q) :=
  flat_map (fun r =>
    let h := height (length t) t w (rid r) in
    if Qle_bool size h then [(rid r, 0%Q)]
    else if is_root r then [(rid r, 0%Q)]
    else let e := wget w (rid r) in
         if Qle_bool (h + e) size then []                 (* the whole edge lies within `size` of the tips below *)
         else [(rid r, ((size - h) / e)%Q)]) t.

(* ---- prune_at_depth ---- *)
Definition within_depth (t : table) (w : wmap) (src : Z) (depth : Q) : list Z :=
  filter (fun i => match geo t w src i with Some d => Qle_bool d depth | None => false end) (ids t).
Definition prune_at_depth (t : table) (w : wmap) (src : Z) (depth : Q) : table := subset (within_depth t w src depth) t.

(* ---- prune_by_strahler: which indices are requested ---- *)
Inductive sel := SInt (k : Z) | SList (l : list Z) | SRange (a b : Z) | SSlice (a b : option Z).
Fixpoint zrange (a : Z) (n : nat) : list Z := match n with O => [] | S n' => a :: zrange (a + 1) n' end.
Definition norm_ix (x : option Z) (default n : Z) : Z :=
  match x with None => default | Some v => if v <? 0 then Z.max 0 (v + n) else Z.min v n end.
Definition selected (s : sel) (maxsi : Z) : option (list Z) :=
  match s with
  | SInt k => if k <? 0 then Some (zrange 1 (Z.to_nat (maxsi + k)))          (* range(1, max + (k + 1)) *)
              else if k <? 1 then None else Some [k]
  | SList l => Some l
  | SRange a b => Some (zrange a (Z.to_nat (b - a)))
  | SSlice a b => let lo := norm_ix a 0 maxsi in let hi := norm_ix b maxsi maxsi in
                  Some (zrange (1 + lo) (Z.to_nat (hi - lo)))                  (* list(range(1, max+1))[a:b] *)
  end.
Definition prune_by_si (t : table) (si : list (Z * Z)) (sel_ : list Z) : table :=
  subset (map fst (filter (fun p => negb (memZ (snd p) sel_)) si)) t.

(* ---- longest_neurite: the first n segments of the greedy longest-first decomposition ---- *)
Definition keep_segments (segs : list (list Z)) : list Z := concat segs.

Fixpoint insert_desc {A} (key : A -> Q) (x : A) (l : list A) : list A :=
  match l with
  | [] => [x]
  | y :: l' => if Qle_bool (key y) (key x) && negb (Qeq_bool (key y) (key x)) then x :: l else y :: insert_desc key x l'
  end.
Definition sort_desc {A} (key : A -> Q) (l : list A) : list A := fold_right (insert_desc key) [] l.

(* greedy longest-first decomposition by physical length (graph_utils._generate_segments(weight='weight')) *)
Definition long_segments (t : table) (w : wmap) : list (list Z) :=
  let leaves := sort_desc (fun i => d_root t w i) (map rid (leaf_rows t)) in
  sort_desc (seg_length w) (gen_segments_from t leaves []) ++ map (fun i => [i]) (isolated_ids t).
Definition longest_neurite (t : table) (w : wmap) (lo hi : nat) (inverse : bool) : table :=
  let keep := concat (firstn (hi - lo) (skipn lo (long_segments t w))) in
  if inverse then subset (filter (fun i => negb (memZ i keep)) (ids t)) t else subset keep t.

Fixpoint first_in_kept (kept l : list Z) : Z :=
  match l with
  | [] => -1
  | x :: l' => if memZ x kept then x else first_in_kept kept l'
  end.
(* connectors on removed nodes: dropped, or moved to the nearest surviving ancestor *)
Definition relocate_connectors (t : table) (kept : list Z) (cn : list (Z * Z)) : list (Z * Z) :=
  filter (fun c => 0 <=? snd c)
    (map (fun c => if memZ (snd c) kept then c
                   else (fst c, first_in_kept kept (anc t (snd c)))) cn)
.
