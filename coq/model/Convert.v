From Coq Require Import List ZArith QArith Qround Bool Arith.
Import ListNotations.

(* ---------------------------------------------------------------- *)
(* C19: conversions between representations.                         *)
(*   navis/core/core_utils.py      make_dotprops                      *)
(*   navis/graph/converters.py     neuron2tangents                    *)
(*   navis/conversion/converters.py _make_voxels / neuron2voxels      *)
(* Coordinates are rationals (the check feeds dyadic floats, which    *)
(* are rationals), indices are Z.                                      *)
(* ---------------------------------------------------------------- *)

Record P3 := mkP { px : Q; py : Q; pz : Q }.

(* ---------- make_dotprops: which rows are used and how many neighbours ---------- *)
(* a row of the (N,3) input; None is a row containing NaN *)
Definition finite_rows (rows : list (option P3)) : list P3 :=
  flat_map (fun r => match r with Some p => [p] | None => [] end) rows.

(* `k = min(n_points, k)` after the NaN rows are gone *)
Definition k_used (rows : list (option P3)) (k : nat) : nat := Nat.min (length (finite_rows rows)) k.

(* alpha = (s0 - s1) / (s0 + s1 + s2) *)
Definition alpha (l1 l2 l3 : Q) : Q := (l1 - l2) / (l1 + l2 + l3).

(* ---------- covariance ("inertia") of a neighbourhood, exact ---------- *)
Definition qsum (l : list Q) : Q := fold_right Qplus 0 l.
Definition centre (pts : list P3) : P3 :=
  let n := inject_Z (Z.of_nat (length pts)) in
  mkP (qsum (map px pts) / n) (qsum (map py pts) / n) (qsum (map pz pts) / n).
Definition psub (a b : P3) := mkP (px a - px b) (py a - py b) (pz a - pz b).

(* symmetric 3x3 matrix: xx xy xz yy yz zz *)
Record Sym := mkS { sxx : Q; sxy : Q; sxz : Q; syy : Q; syz : Q; szz : Q }.
Definition inertia (pts : list P3) : Sym :=
  let c := centre pts in
  let d := map (fun p => psub p c) pts in
  mkS (qsum (map (fun p => px p * px p) d)) (qsum (map (fun p => px p * py p) d)) (qsum (map (fun p => px p * pz p) d))
      (qsum (map (fun p => py p * py p) d)) (qsum (map (fun p => py p * pz p) d)) (qsum (map (fun p => pz p * pz p) d)).

(* quadratic form w^T M w and squared norm *)
Definition quad (m : Sym) (w : P3) : Q :=
  sxx m * px w * px w + syy m * py w * py w + szz m * pz w * pz w
  + 2 * sxy m * px w * py w + 2 * sxz m * px w * pz w + 2 * syz m * py w * pz w.
Definition norm2 (w : P3) : Q := px w * px w + py w * py w + pz w * pz w.

(* mu*I - C *)
Definition shift (mu : Q) (c : Sym) : Sym :=
  mkS (mu - sxx c) (- sxy c) (- sxz c) (mu - syy c) (- syz c) (mu - szz c).
Definition minor1 (m : Sym) : Q := sxx m.
Definition minor2 (m : Sym) : Q := sxx m * syy m - sxy m * sxy m.
Definition det3 (m : Sym) : Q :=
  sxx m * (syy m * szz m - syz m * syz m) - sxy m * (sxy m * szz m - syz m * sxz m)
  + sxz m * (sxy m * syz m - syy m * sxz m).
Definition qpos (q : Q) : bool := negb (Qle_bool q 0).
(* Sylvester: leading principal minors of mu*I - C strictly positive *)
Definition dominates_b (mu : Q) (c : Sym) : bool :=
  let m := shift mu c in qpos (minor1 m) && qpos (minor2 m) && qpos (det3 m).

(* verified checker used on implementation output: v is a principal axis of C up to tol
   iff no direction has a Rayleigh quotient exceeding R(v) + tol *)
Definition principal_axis_b (c : Sym) (v : P3) (tol : Q) : bool :=
  qpos (norm2 v) && dominates_b (quad c v / norm2 v + tol) c.

(* the three invariants that determine the eigenvalue multiset *)
Definition e1 (c : Sym) : Q := sxx c + syy c + szz c.
Definition e2 (c : Sym) : Q :=
  (sxx c * syy c - sxy c * sxy c) + (sxx c * szz c - sxz c * sxz c) + (syy c * szz c - syz c * syz c).
Definition e3 (c : Sym) : Q := det3 c.
Definition charpoly (c : Sym) (x : Q) : Q := x * x * x - e1 c * x * x + e2 c * x - e3 c.

(* ---------- k = 0 on a skeleton: neuron2tangents ---------- *)
(* one (child, parent) coordinate pair per non-root node, in table order; the implementation drops
   pairs of length zero, returns midpoint, normalised child - parent, and the length.
   Square roots are not rational: the model returns the un-normalised vector and the squared length;
   the normalised vector v and length l of the implementation are tied to these by
   l*l = len2 and l*v = vec (checked in the correspondence run, see tangent_k0_spec). *)
Definition is_zero_vec (v : P3) : bool := Qeq_bool (px v) 0 && Qeq_bool (py v) 0 && Qeq_bool (pz v) 0.
Definition tangents_k0 (edges : list (P3 * P3)) : list (P3 * P3 * Q) :=
  flat_map (fun e => let '(c, p) := e in
                     let v := psub c p in
                     if is_zero_vec v then [] else
                     [(mkP (px c + (px p - px c) / 2) (py c + (py p - py c) / 2) (pz c + (pz p - pz c) / 2), v, norm2 v)]) edges.

(* ---------- voxelisation ---------- *)
(* numpy's round: half to even *)
Definition rhe (q : Q) : Z :=
  let f := Qfloor q in
  let r := q - inject_Z f in
  match Qcompare r (1 # 2) with
  | Lt => f
  | Gt => (f + 1)%Z
  | Eq => if Z.even f then f else (f + 1)%Z
  end.

Definition vindex (pitch p : Q) : Z := rhe (p / pitch).

Record V3 := mkV { vx : Z; vy : Z; vz : Z }.
Definition V3_eqb (a b : V3) : bool := Z.eqb (vx a) (vx b) && Z.eqb (vy a) (vy b) && Z.eqb (vz a) (vz b).

Record Grid := mkG { pitch3 : P3; lo : P3; hi : P3 }.
Definition vox (g : Grid) (p : P3) : V3 :=
  mkV (vindex (px (pitch3 g)) (px p) - rhe (px (lo g) / px (pitch3 g)))
      (vindex (py (pitch3 g)) (py p) - rhe (py (lo g) / py (pitch3 g)))
      (vindex (pz (pitch3 g)) (pz p) - rhe (pz (lo g) / pz (pitch3 g))).
Definition shape1 (pitch l h : Q) : Z := (Qceiling (h / pitch) - Qfloor (l / pitch) + 1)%Z.
Definition gshape (g : Grid) : V3 :=
  mkV (shape1 (px (pitch3 g)) (px (lo g)) (px (hi g)))
      (shape1 (py (pitch3 g)) (py (lo g)) (py (hi g)))
      (shape1 (pz (pitch3 g)) (pz (lo g)) (pz (hi g))).
Definition in_grid (g : Grid) (v : V3) : bool :=
  let s := gshape g in
  (0 <=? vx v)%Z && (0 <=? vy v)%Z && (0 <=? vz v)%Z && (vx v <? vx s)%Z && (vy v <? vy s)%Z && (vz v <? vz s)%Z.

(* the centre of voxel v in the neuron's coordinates: offset (= lower bound) + index * pitch *)
Definition vcoord1 (pitch l : Q) (i : Z) : Q := l + inject_Z i * pitch.

(* the filled voxels with their point counts (np.unique(..., return_counts=True), then the bounds filter) *)
Fixpoint count_v (v : V3) (l : list V3) : nat :=
  match l with [] => O | x :: r => ((if V3_eqb v x then 1 else 0) + count_v v r)%nat end.
Fixpoint uniq (l : list V3) : list V3 :=
  match l with [] => [] | x :: r => x :: filter (fun y => negb (V3_eqb x y)) (uniq r) end.
Definition voxel_counts (g : Grid) (pts : list P3) : list (V3 * nat) :=
  let ix := map (vox g) pts in
  map (fun v => (v, count_v v ix)) (filter (in_grid g) (uniq ix)).
Definition total (c : list (V3 * nat)) : nat := fold_right (fun x a => (snd x + a)%nat) O c.
