(* C06 — NBLAST scores equal the published definition. *)
From Coq Require Import List ZArith QArith Bool Sorting.
Import ListNotations.
From Navis Require Import model.Dist model.Nblast gen.Gen_Smat proofs.NblastProofs.

(* the selected cell's half-open interval contains the value; values beyond the table are clipped into the outer bins *)
Theorem C06_digitize_in_interval : forall bounds right v, StronglySorted Qlt bounds ->
  let k := digitize bounds right v in
  (forall b, In b (firstn k bounds) -> below right v b = true) /\
  (forall b, In b (skipn k bounds) -> below right v b = false).
Proof. exact digitize_in_interval. Qed.
Print Assumptions C06_digitize_in_interval.

(* self-scores are exactly 1 *)
Theorem C06_self_score_is_one : forall s n, ~ (self_hit s n == 0)%Q -> (normalise true (self_hit s n) (self_hit s n) == 1)%Q.
Proof. exact self_score_is_one. Qed.
Print Assumptions C06_self_score_is_one.

(* the default table shipped in /repo (regenerated from the CSV on every run): rectangular, self-match cell positive and maximal *)
Theorem C06_fcwb_table_ok : table_ok fcwb = true.
Proof. exact fcwb_table_ok. Qed.
Print Assumptions C06_fcwb_table_ok.
(* hence, for ALL queries and targets, normalised scores with the default table never exceed 1 *)
Theorem C06_normalised_le_one : forall pts, pts <> [] ->
  (normalise true (raw_score fcwb pts) (self_hit fcwb (length pts)) <= 1)%Q.
Proof. exact fcwb_normalised_le_one. Qed.
Print Assumptions C06_normalised_le_one.
Theorem C06_normalised_le_one_any_table : forall s pts,
  let c := score_point s (0%Q, 1%Q) in
  (0 < c)%Q -> (forall dd, score_point s dd <= c)%Q -> pts <> [] ->
  (normalise true (raw_score s pts) (self_hit s (length pts)) <= 1)%Q.
Proof. exact normalised_le_one. Qed.
Print Assumptions C06_normalised_le_one_any_table.

(* with alpha the bound is REFUTED by the faithful model (inherent in the algorithm: the self hit uses dot = alpha_q) *)
Theorem C06_alpha_exceeds_one_refuted :
  (1 < normalise true (raw_score fcwb_alpha [(0%Q, 1%Q)]) (self_hit_alpha fcwb_alpha [(1#2)%Q]))%Q.
Proof. exact alpha_can_exceed_one. Qed.
Print Assumptions C06_alpha_exceeds_one_refuted.

(* mean / min / max are the stated combinations of forward and reverse scores *)
Theorem C06_mean : forall f r, (combine_scores 1 f r == (f + r) / 2)%Q.
Proof. exact combine_mean. Qed.
Print Assumptions C06_mean.
Theorem C06_min : forall f r, (combine_scores 2 f r <= f /\ combine_scores 2 f r <= r)%Q.
Proof. exact combine_min. Qed.
Print Assumptions C06_min.
Theorem C06_max : forall f r, (f <= combine_scores 3 f r /\ r <= combine_scores 3 f r)%Q.
Proof. exact combine_max. Qed.
Print Assumptions C06_max.

(* scores='both': rows come in (forward, reverse) pairs per query, queries in input order *)
Theorem C06_both_layout_rows : forall (A : Type) (fw rv : list A) i, length fw = length rv ->
  nth_error (both_layout fw rv) (2 * i) = nth_error fw i /\ nth_error (both_layout fw rv) (2 * i + 1) = nth_error rv i.
Proof. intros A fw. exact (@both_layout_rows A fw). Qed.
Print Assumptions C06_both_layout_rows.
Theorem C06_both_layout_length : forall (A : Type) (fw rv : list A), length fw = length rv -> length (both_layout fw rv) = (2 * length fw)%nat.
Proof. intros A. exact (@both_layout_length A). Qed.
Print Assumptions C06_both_layout_length.
