(* C13 — Down- and resampling preserve branching structure and geometry. *)
From Coq Require Import List ZArith QArith Bool.
Import ListNotations.
From Navis Require Import proofs.Metric model.Forest model.Ops model.Dist model.Sampling proofs.ForestWF proofs.OpsWF proofs.SamplingProofs.
Open Scope Z_scope.

Theorem C13_downsample_wf : forall t factor preserve, WF t -> WF (downsample t factor preserve).
Proof. exact downsample_wf. Qed.
Print Assumptions C13_downsample_wf.
(* a subset of the original nodes, ids and payload (coordinates, radius) unchanged *)
Theorem C13_downsample_rows_are_original : forall t factor preserve q, In q (downsample t factor preserve) ->
  exists q0, In q0 t /\ rid q = rid q0 /\ rdat q = rdat q0.
Proof. exact downsample_rows_are_original. Qed.
Print Assumptions C13_downsample_rows_are_original.
(* roots, leafs, branch points, somas and preserved nodes are always retained *)
Theorem C13_downsample_keeps_fix_points : forall t factor preserve r, In r t ->
  label t r <> 3 \/ In (rid r) preserve -> In (rid r) (ids (downsample t factor preserve)).
Proof. exact downsample_keeps_fix_points. Qed.
Print Assumptions C13_downsample_keeps_fix_points.
(* every kept node is linked to its nearest kept ancestor *)
Theorem C13_downsample_parent_nearest : forall t factor preserve r, In r t ->
  memZ (rid r) (kept_nodes t factor preserve) = true -> 0 <= rpar r ->
  let K := kept_nodes t factor preserve in let p := first_in K (anc t (rpar r)) in
  In (set_par r p) (downsample t factor preserve) /\
  exists l1 l2, anc t (rpar r) = l1 ++ l2 /\ (forall y, In y l1 -> memZ y K = false) /\
    ((l2 = [] /\ p = -1) \/ (exists l2', l2 = p :: l2' /\ memZ p K = true)).
Proof. exact downsample_parent_nearest. Qed.
Print Assumptions C13_downsample_parent_nearest.
(* at most `factor` consecutive nodes are dropped: after factor non-fix nodes the next one is kept *)
Theorem C13_gap_le_factor : forall fx k l pre x rest, l = pre ++ x :: rest -> length pre = k ->
  (forall y, In y pre -> memZ y fx = false) -> memZ x fx = false -> In x (walk_keep fx (Some k) 0 l).
Proof. exact walk_gap_le_factor. Qed.
Print Assumptions C13_gap_le_factor.
Theorem C13_factor_infinity_keeps_fix_points_only : forall fx cnt l, walk_keep fx None cnt l = [].
Proof. exact walk_keep_inf. Qed.
Print Assumptions C13_factor_infinity_keeps_fix_points_only.

(* resampling: every new node is a convex combination of two consecutive original nodes (lies ON the cable),
   interpolated columns stay between their end values, at least the two end points are kept, and the topology is a forest *)
Theorem C13_sample_on_original_edge : forall dist d k,
  (forall a b pre post, dist = pre ++ a :: b :: post -> a <= b)%Q ->
  (match dist with a :: _ => a <= d | [] => True end)%Q ->
  (0 <= snd (locate dist d k) <= 1)%Q.
Proof. exact locate_fraction_in_unit. Qed.
Print Assumptions C13_sample_on_original_edge.
Theorem C13_interpolated_between : forall t a b, (0 <= t <= 1)%Q -> (a <= b)%Q -> (a <= lerp t a b <= b)%Q.
Proof. exact lerp_between. Qed.
Print Assumptions C13_interpolated_between.
Theorem C13_end_points_kept : forall L res, 2 <= n_samples L res.
Proof. exact n_samples_ge_2. Qed.
Print Assumptions C13_end_points_kept.
Theorem C13_resample_topology_wf_partial : forall t ends plan, WF t -> WF (resample_topology t ends plan).
Proof. exact resample_topology_wf. Qed.
Print Assumptions C13_resample_topology_wf_partial.

(* cable length: dropping interior nodes of a neurite (downsampling) never lengthens it, and a node placed ON an edge
   (linear interpolation: d y m + d m z = d y z) leaves it unchanged - for ANY distance function obeying the triangle inequality *)
Theorem C13_thinning_never_lengthens : forall (A : Type) (d : A -> A -> Q) (keep : A -> bool), triangle d ->
  forall p x, (path_len d x (thin keep p) <= path_len d x p)%Q.
Proof. intros A. exact (@thinning_never_lengthens A). Qed.
Print Assumptions C13_thinning_never_lengthens.
Theorem C13_thinning_keeps_ends : forall (A : Type) (keep : A -> bool) p x, p <> [] -> last (thin keep p) x = last p x.
Proof. intros A. exact (@thin_last A). Qed.
Print Assumptions C13_thinning_keeps_ends.
Theorem C13_interpolated_point_keeps_length : forall (A : Type) (d : A -> A -> Q) x y m p, (d x m + d m y == d x y)%Q ->
  (path_len d x (m :: y :: p) == path_len d x (y :: p))%Q.
Proof. intros A. exact (@subdividing_keeps_length A). Qed.
Print Assumptions C13_interpolated_point_keeps_length.
