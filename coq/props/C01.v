(* C01 — every operation that yields a skeleton yields a well-formed skeleton. *)
From Coq Require Import List ZArith Bool.
Import ListNotations.
From Navis Require Import model.Forest model.Ops proofs.ForestWF proofs.RerootProofs proofs.SubsetCut proofs.OpsWF.
Open Scope Z_scope.

(* HISTORY THEOREM: whatever finite sequence of operations (with whatever parameters -- inadmissible
   ones are rejected and leave the table as it was) is applied to a well-formed forest, the result is a
   well-formed forest: unique ids, every parent present, no cycles.  No bound on sizes or lengths. *)
Theorem C01_history_wf : forall ops t, WF t -> WF (run ops t).
Proof. exact run_wf. Qed.
Print Assumptions C01_history_wf.

Theorem C01_step_wf : forall t o t', WF t -> step t o = Some t' -> WF t'.
Proof. exact step_wf. Qed.
Print Assumptions C01_step_wf.

(* the checker run on every table the implementation produces decides WF exactly *)
Theorem C01_checker_exact : forall t, wfb t = true <-> WF t.
Proof. exact wfb_iff. Qed.
Print Assumptions C01_checker_exact.

(* labels are a function of parent sign and children count *)
Theorem C01_label_spec : forall t r,
  (label t r = 0 <-> rpar r < 0) /\
  (label t r = 1 <-> 0 <= rpar r /\ nchildren t (rid r) = 0%nat) /\
  (label t r = 3 <-> 0 <= rpar r /\ nchildren t (rid r) = 1%nat) /\
  (label t r = 2 <-> 0 <= rpar r /\ (2 <= nchildren t (rid r))%nat).
Proof. exact label_spec. Qed.
Print Assumptions C01_label_spec.

(* individual operations *)
Theorem C01_subset_wf : forall S t, WF t -> WF (subset S t).
Proof. exact subset_wf. Qed.
Print Assumptions C01_subset_wf.
Theorem C01_reroot_wf : forall t r0, WF t -> In r0 t -> WF (reroot (rid r0) t).
Proof. exact reroot_wf. Qed.
Print Assumptions C01_reroot_wf.
Theorem C01_contract_wf : forall K t, WF t -> WF (contract K t).
Proof. exact contract_wf. Qed.
Print Assumptions C01_contract_wf.
Theorem C01_insert_wf : forall c n d t t', WF t -> insert_above c n d t = Some t' -> WF t'.
Proof. exact insert_above_wf. Qed.
Print Assumptions C01_insert_wf.
Theorem C01_relabel_wf : forall m t t', WF t -> relabel m t = Some t' -> WF t'.
Proof. exact relabel_wf. Qed.
Print Assumptions C01_relabel_wf.
Theorem C01_concat_wf : forall t1 t2 t', WF t1 -> WF t2 -> concat t1 t2 = Some t' -> WF t'.
Proof. exact concat_wf. Qed.
Print Assumptions C01_concat_wf.
Theorem C01_join_wf : forall a b t t', WF t -> join a b t = Some t' -> WF t'.
Proof. exact join_wf. Qed.
Print Assumptions C01_join_wf.

(* non-vacuity *)
Theorem C01_example_wf : WF example_forest.
Proof. exact example_forest_wf. Qed.
Print Assumptions C01_example_wf.
