(* C14 — precomputed, NRRD, JSON, HDF5 and mesh files decode to what was written.
   The theorems cover the neuroglancer precomputed codec at the byte level and the batch error policy; the NRRD / HDF5 / JSON /
   mesh containers are written and parsed by pynrrd / h5py / json / trimesh and are covered by the correspondence run only (partial). *)
From Coq Require Import List ZArith Bool.
Import ListNotations.
From Navis Require Import model.Precomputed proofs.PrecomputedProofs model.Fmt proofs.FmtProofs.
Open Scope Z_scope.

Theorem C14_u32_roundtrip : forall w, word_ok w = true ->
  dec32 (w mod 256) ((w / 256) mod 256) ((w / 65536) mod 256) ((w / 16777216) mod 256) = w.
Proof. exact u32_roundtrip. Qed.
Print Assumptions C14_u32_roundtrip.
(* the independent decoder of the published skeleton format inverts the specification encoder on every well-formed skeleton *)
Theorem C14_decode_encode_skeleton : forall m, wf_skel m ->
  dec_skel (match sk_radii m with Some _ => true | None => false end) (enc_skel m) = Some m.
Proof. exact decode_encode_skeleton. Qed.
Print Assumptions C14_decode_encode_skeleton.
Theorem C14_encode_length : forall m, length (enc_skel m) =
  (8 + 4 * length (sk_verts m) + 8 * length (sk_edges m) + match sk_radii m with Some r => 4 * length r | None => 0 end)%nat.
Proof. exact encode_length. Qed.
Print Assumptions C14_encode_length.
Theorem C14_decode_encode_mesh : forall m, Forall (fun w => word_ok w = true) (me_verts m) -> Forall (fun w => word_ok w = true) (me_faces m) ->
  (exists k, length (me_verts m) = (3 * k)%nat) -> Z.of_nat (length (me_verts m)) < 3 * 4294967296 ->
  dec_mesh (enc_mesh m) = Some m.
Proof. exact decode_encode_mesh. Qed.
Print Assumptions C14_decode_encode_mesh.
(* node ids -> row indices on writing -> parents on reading gives back every parent link *)
Theorem C14_edges_index_roundtrip : forall ids edges c p, NoDup (map fst edges) ->
  (forall e, In e edges -> In (fst e) ids /\ In (snd e) ids) -> In (c, p) edges ->
  parent_of (stored_edges ids edges) (ix_of ids c 0) = ix_of ids p 0.
Proof. exact edges_index_roundtrip. Qed.
Print Assumptions C14_edges_index_roundtrip.
(* batch reads: a corrupt file is skipped without affecting the others, or aborts the read *)
Theorem C14_policy_skip_isolated : forall files,
  read_many false files = Some (flat_map (fun f => match f with FOk n => [n] | FCorrupt => [] end) files).
Proof. exact policy_skip_isolated. Qed.
Print Assumptions C14_policy_skip_isolated.
Theorem C14_policy_raise : forall files, In FCorrupt files -> read_many true files = None.
Proof. exact policy_raise. Qed.
Print Assumptions C14_policy_raise.
Theorem C14_policy_all_valid : forall files ns, files = map FOk ns -> read_many true files = Some ns.
Proof. exact policy_all_valid. Qed.
Print Assumptions C14_policy_all_valid.

(* ---- attributes parsed from the file name as the fmt pattern prescribes (model/Fmt.v = BaseReader.parse_filename) ---- *)
(* the matcher answers only with a genuine decomposition of the file name ... *)
Theorem C14_fmt_match_sound : forall toks s gs, search toks s = Some gs ->
  length gs = ngroups toks /\ Forall nonl_str gs /\ exists pre post, s = pre ++ render toks gs ++ post.
Proof. exact search_sound. Qed.
Print Assumptions C14_fmt_match_sound.
(* ... and raises ("unable to match") only when the name has no decomposition at all *)
Theorem C14_fmt_match_complete : forall toks pre gs post, length gs = ngroups toks -> Forall nonl_str gs ->
  search toks (pre ++ render toks gs ++ post) <> None.
Proof. exact search_complete. Qed.
Print Assumptions C14_fmt_match_complete.
(* a name rendered from separator-free values is parsed back to exactly those values, whatever ignored fields the pattern has *)
Theorem C14_fmt_roundtrip : forall sep toks vals, wellsep sep toks = true -> length vals = ngroups toks -> Forall (sepfree sep) vals ->
  search toks (render toks vals) = Some vals.
Proof. exact search_roundtrip. Qed.
Print Assumptions C14_fmt_roundtrip.
Theorem C14_fmt_tokenize_show : forall toks, wf_toks toks -> tokenize (show toks) = toks.
Proof. exact tokenize_show'. Qed.
Print Assumptions C14_fmt_tokenize_show.
(* every declared name receives the (converted) text of its own group, not of a neighbour *)
Theorem C14_fmt_own_group : forall bs gs d d' i b g n t, assign bs gs d = Some d' ->
  nth_error bs i = Some b -> nth_error gs i = Some g -> In (FName n t) (fields_of b) ->
  (forall t', In (FName n t') (fields_of b) -> t' = t) ->
  (forall j b' t', (i < j)%nat -> nth_error bs j = Some b' -> ~ In (FName n t') (fields_of b')) ->
  dget d' n = conv t g.
Proof. exact assign_own_group. Qed.
Print Assumptions C14_fmt_own_group.
Theorem C14_fmt_parse_rendered : forall sep toks vals dir,
  wf_toks toks -> wellsep sep toks = true -> length vals = ngroups toks -> Forall (sepfree sep) vals ->
  Forall (fun c => c <> 47) (render toks vals) ->
  parse_filename (show toks) (dir ++ 47 :: render toks vals) = assign (bodies toks) vals [(s_file, VStr (render toks vals))]
  /\ parse_filename (show toks) (render toks vals) = assign (bodies toks) vals [(s_file, VStr (render toks vals))].
Proof. exact parse_rendered. Qed.
Print Assumptions C14_fmt_parse_rendered.
