(* C03 — inputs are never modified unless inplace=True; inplace is equivalent.
   The heap model (model/Alias.v): a neuron is its attribute dict, attributes point to cells, containers (tags) point on to
   element cells; a function body is ANY sequence of in-place writes / element writes / rebinds through its working object.
   The tie to the code is (a) gen/Gen_Alias.v, regenerated from the source on every run: the per-attribute policy of every
   class' `copy` and the inplace shape of every catalogued function, with the obligations below, and (b) the correspondence run
   over the whole catalogue (checks/C03.py). *)
From Coq Require Import List ZArith Bool.
Import ListNotations.
From Navis Require Import model.Alias proofs.AliasProofs gen.Gen_Alias proofs.AliasObl.

(* a copy that deep-copies the container attributes is a separate object with the same observation *)
Theorem C03_copy_separates : forall s pol x s1 y, bounded s -> NoDup (map fst x) -> Good s x -> deep_boxes s pol x -> copy s pol x = (s1, y) ->
  Inv s1 y /\ Valid s1 x /\ Sep s1 x y /\ (forall p, obsp s1 y p = obsp s x p) /\ (forall p, obsp s1 x p = obsp s x p).
Proof. exact copy_separates. Qed.
Print Assumptions C03_copy_separates.

(* copy-then-operate: whatever the body does, and whatever is done to the result later, the input is observably unchanged *)
Theorem C03_noninplace_preserves : forall s pol x body s' y', bounded s -> NoDup (map fst x) -> Good s x -> deep_boxes s pol x ->
  call_noninplace s pol x body = (s', y') ->
  (forall p, obsp s' x p = obsp s x p) /\
  (forall later s'' y'', run s' y' later = (s'', y'') -> forall p, obsp s'' x p = obsp s x p).
Proof. exact noninplace_preserves. Qed.
Print Assumptions C03_noninplace_preserves.

(* inplace=True: the very object is modified (its observation is the body applied to the old one) and ends in the state of the non-inplace result *)
Theorem C03_inplace_equiv : forall s pol x body s2 y' s1 x', bounded s -> NoDup (map fst x) -> Good s x -> deep_boxes s pol x -> NoAlias s x ->
  call_noninplace s pol x body = (s2, y') -> call_inplace s x body = (s1, x') -> forall p, obsp s2 y' p = obsp s1 x' p.
Proof. exact inplace_equiv. Qed.
Print Assumptions C03_inplace_equiv.
Theorem C03_inplace_applies_body : forall s x body s1 x', bounded s -> Good s x -> NoAlias s x -> call_inplace s x body = (s1, x') ->
  forall p, obsp s1 x' p = orun body (obsp s x) p.
Proof. exact inplace_applies_body. Qed.
Print Assumptions C03_inplace_applies_body.

(* the general frame statement the two above rest on: operations through y never change what is observed through a separate x *)
Theorem C03_bystander_unchanged : forall ops s x y s' y', Inv s y -> Valid s x -> Sep s x y -> run s y ops = (s', y') ->
  (forall p, obsp s' x p = obsp s x p) /\ Valid s' x /\ Sep s' x y' /\ Inv s' y'.
Proof. exact run_preserves_bystander. Qed.
Print Assumptions C03_bystander_unchanged.

(* the full statement is FALSE for a shallow per-attribute copy of a container attribute (copy.copy of the `tags` dict, as navis had it):
   an edit to the copy's tag list shows in the original *)
Theorem C03_shallow_copy_leaks_refuted :
  exists s x later p s' y' s'' y'', bounded s /\ NoDup (map fst x) /\ Good s x /\
    call_noninplace s (fun _ => Shallow) x [] = (s', y') /\ run s' y' later = (s'', y'') /\ obsp s'' x p <> obsp s x p.
Proof. exact shallow_copy_leaks_refuted. Qed.
Print Assumptions C03_shallow_copy_leaks_refuted.

(* NeuronLists processed in place: same list, same length and order, each slot holds the processed neuron *)
Theorem C03_maplist_inplace : forall (A : Type) (f : A -> A) nl, length (maplist_inplace f nl) = length nl /\
  forall i, nth_error (maplist_inplace f nl) i = option_map f (nth_error nl i).
Proof. intros A. exact (@maplist_inplace_spec A). Qed.
Print Assumptions C03_maplist_inplace.

(* obligations on the current source *)
Theorem C03_policies_of_current_source : policies_ok = true.
Proof. exact policies_ok_holds. Qed.
Print Assumptions C03_policies_of_current_source.
Theorem C03_catalogue_of_current_source : catalogue_ok = true.
Proof. exact catalogue_ok_holds. Qed.
Print Assumptions C03_catalogue_of_current_source.
Theorem C03_listed_containers_deep : forall s pol x listed, (forall a, In a listed -> pol a = Deep) ->
  (forall a r es, In (a, r) x -> cellof s r = Some (Box es) -> In a listed) -> deep_boxes s pol x.
Proof. exact listed_containers_deep. Qed.
Print Assumptions C03_listed_containers_deep.

(* non-vacuity: a concrete neuron with a tag container meets every hypothesis, and a deep copy does not leak where a shallow one does *)
Example C03_nonvacuous : leak_after (fun _ => Deep) [OWriteElem 0 7 42; OWrite 1 3; ORebind 1 4] (PElem 0 7) = false
                         /\ leak_after (fun _ => Shallow) [OWriteElem 0 7 42] (PElem 0 7) = true
                         /\ leak_after (fun _ => Shallow) [OWrite 1 3; ORebind 0 1] (PTop 1) = false.
Proof. exact deep_copy_does_not_leak. Qed.
