(* C20 — Connectivity built from connector tables is exact and self-consistent.
   Property theorems only; each is closed by [exact] of a lemma proved in proofs/. *)
From Coq Require Import List ZArith Bool.
Import ListNotations.
From Navis Require Import model.Connectivity proofs.ConnectivityProofs.
Open Scope Z_scope.

(* every edge navis reports is a (pre row, post row) pair sharing a connector id, or a dangling
   side attributed to __OTHER__ -- and the latter only when include_other was requested *)
Theorem C20_edges_sound : forall io rows e, In e (edges io rows) -> justified io rows e.
Proof. exact edges_sound. Qed.
Print Assumptions C20_edges_sound.

(* every (pre on A, post on B) pair sharing a connector id yields the edge A -> B
   (hypothesis unique_pre: at most one presynaptic row per connector id -- see C20_multi_pre_refuted) *)
Theorem C20_edges_complete : forall io rows p q,
  unique_pre rows -> In p rows -> In q rows -> is_pre p = true -> is_post q = true -> ccid p = ccid q ->
  In {| e_cid := ccid p; e_src := cname p; e_tgt := cname q; e_srcn := Some (cnode p); e_tgtn := Some (cnode q) |}
     (edges io rows).
Proof. exact edges_complete_pair. Qed.
Print Assumptions C20_edges_complete.

(* polyadic synapses: one edge per postsynaptic row, counted with multiplicity *)
Theorem C20_edges_multiplicity : forall io rows p B nb,
  unique_pre rows -> In p rows -> is_pre p = true -> 0 <= B -> 0 <= nb ->
  let e := {| e_cid := ccid p; e_src := cname p; e_tgt := B; e_srcn := Some (cnode p); e_tgtn := Some nb |} in
  length (filter (edge_eqb e) (edges io rows))
  = length (filter (fun q => (cname q =? B) && (cnode q =? nb)) (posts_of (ccid p) rows)).
Proof. exact edges_multiplicity. Qed.
Print Assumptions C20_edges_multiplicity.

(* unknown partners go to __OTHER__ exactly when requested *)
Theorem C20_other_when_requested_pre : forall rows p,
  unique_pre rows -> In p rows -> is_pre p = true ->
  (forall q, In q rows -> is_post q = true -> ccid q <> ccid p) ->
  In {| e_cid := ccid p; e_src := cname p; e_tgt := OTHER; e_srcn := Some (cnode p); e_tgtn := None |} (edges true rows).
Proof. exact edges_complete_no_post. Qed.
Print Assumptions C20_other_when_requested_pre.

Theorem C20_other_when_requested_post : forall rows q,
  In q rows -> is_post q = true ->
  (forall p, In p rows -> is_pre p = true -> ccid p <> ccid q) ->
  In {| e_cid := ccid q; e_src := OTHER; e_tgt := cname q; e_srcn := None; e_tgtn := Some (cnode q) |} (edges true rows).
Proof. exact edges_complete_no_pre. Qed.
Print Assumptions C20_other_when_requested_post.

Theorem C20_no_other_unless_requested : forall rows e,
  (forall r, In r rows -> 0 <= cname r) ->
  In e (edges false rows) -> e_src e <> OTHER /\ e_tgt e <> OTHER.
Proof. exact no_other_unless_requested. Qed.
Print Assumptions C20_no_other_unless_requested.

(* adjacency matrix, weighted digraph and multigraph are three views of one edge multiset *)
Theorem C20_three_views_agree : forall io rows a b,
  adjacency io rows a b = digraph_weight io rows a b
  /\ digraph_weight io rows a b = Z.of_nat (length (filter (from_to a b) (multigraph io rows)))
  /\ digraph_rows io rows a b = map (fun e => (e_cid e, e_srcn e, e_tgtn e)) (filter (from_to a b) (multigraph io rows)).
Proof. exact three_views_agree. Qed.
Print Assumptions C20_three_views_agree.

(* grouping rows/columns conserves the synapse total; grouped matrices have one cell per key *)
Theorem C20_group_sum_conserves_total : forall dr dc m, total (group_matrix false dr dc m) = total m.
Proof. exact group_sum_conserves_total. Qed.
Print Assumptions C20_group_sum_conserves_total.

Theorem C20_group_one_cell_per_key : forall m r c, (length (filter (key_eqb r c) (merge m)) <= 1)%nat.
Proof. exact merge_one_cell_per_key. Qed.
Print Assumptions C20_group_one_cell_per_key.

(* the faithful model REFUTES completeness without unique_pre: with two presynaptic rows for one
   connector id the first one's edge is lost (navis keeps the last and logs a warning).  Known finding. *)
Theorem C20_multi_pre_refuted :
  let rows := [ {| cname := 0; ccid := 7; cnode := 1; ctyp := 0 |};
                {| cname := 1; ccid := 7; cnode := 2; ctyp := 0 |};
                {| cname := 2; ccid := 7; cnode := 3; ctyp := 1 |} ] in
  ~ In {| e_cid := 7; e_src := 0; e_tgt := 2; e_srcn := Some 1; e_tgtn := Some 3 |} (edges true rows).
Proof. exact multi_pre_refuted. Qed.
Print Assumptions C20_multi_pre_refuted.
