(* C11 — Healing and stitching connect fragments minimally and lose nothing. *)
From Coq Require Import List ZArith QArith Bool.
Import ListNotations.
From Navis Require Import model.Forest model.Ops model.Dist model.Heal
  proofs.ForestWF proofs.RerootProofs proofs.OpsWF proofs.HealProofs proofs.KruskalMin.
Open Scope Z_scope.

(* healing = one fragment join per added edge: nodes and payload (coordinates) are never removed or moved ... *)
Theorem C11_heal_keeps_nodes : forall t chosen, ids (heal t chosen) = ids t.
Proof. exact heal_keeps_nodes. Qed.
Print Assumptions C11_heal_keeps_nodes.
Theorem C11_join_keeps_nodes_and_payload : forall a b t t', join a b t = Some t' -> ids t' = ids t /\ map rdat t' = map rdat t.
Proof. exact join_keeps_nodes. Qed.
Print Assumptions C11_join_keeps_nodes_and_payload.
(* ... every existing (undirected) edge is kept ... *)
Theorem C11_heal_keeps_edges : forall t chosen x y, WF t -> und_edge t x y -> und_edge (heal t chosen) x y.
Proof. exact heal_keeps_edges. Qed.
Print Assumptions C11_heal_keeps_edges.
(* ... each join adds exactly its own edge, and the result is a well-formed forest *)
Theorem C11_join_adds_edge : forall a b t t', WF t -> join a b t = Some t' -> 0 <= a -> In (b, a) (edges t').
Proof. exact join_adds_edge. Qed.
Print Assumptions C11_join_adds_edge.
Theorem C11_heal_wf : forall t chosen, WF t -> WF (heal t chosen).
Proof. exact heal_wf. Qed.
Print Assumptions C11_heal_wf.

(* Kruskal on the fragment graph (candidate edges sorted by length): chooses candidate edges only, never closes a cycle (an edge is
   taken only when its end fragments are still apart), ends with every candidate edge's end fragments connected ... *)
Theorem C11_kruskal_spanning : forall es u chosen u',
  (forall e, In e es -> registered u (fa e) = true /\ registered u (fb e) = true) ->
  kruskal u es = (chosen, u') ->
  forall e, In e es -> find u' (fa e) = find u' (fb e).
Proof. exact kruskal_spanning. Qed.
Print Assumptions C11_kruskal_spanning.
(* ... and its total length is MINIMAL among all sets of candidate edges that connect what the candidates can connect
   (exchange argument, proofs/KruskalMin.v); the minimum is attained by the choice itself *)
Theorem C11_kruskal_minimal : forall es u chosen u' T,
  sorted_cd es -> regs u es -> nonneg es -> incl T es ->
  (forall e, In e es -> connected u T (fa e) (fb e)) ->
  kruskal u es = (chosen, u') ->
  (total_len chosen <= total_len T)%Q.
Proof. exact kruskal_minimal. Qed.
Print Assumptions C11_kruskal_minimal.
Theorem C11_kruskal_choice_spans : forall es u chosen u', regs u es -> kruskal u es = (chosen, u') ->
  incl chosen es /\ forall e, In e es -> connected u chosen (fa e) (fb e).
Proof. exact kruskal_choice_spans. Qed.
Print Assumptions C11_kruskal_choice_spans.
Theorem C11_kruskal_chooses_candidates : forall es u chosen u', kruskal u es = (chosen, u') -> incl chosen es.
Proof. exact kruskal_chosen_subset. Qed.
Print Assumptions C11_kruskal_chooses_candidates.

(* stitching / combining: the checker run on every output accepts only id-unique concatenations in which every input
   reappears with ids and parent links pushed through one id map (its internal topology is preserved) *)
Theorem C11_stitch_checker_sound : forall inputs out_, stitch_okb inputs out_ = true ->
  NoDup (ids out_) /\ nonneg_ids out_ /\
  forall i p, In (i, p) (combine inputs (pieces (map (@length row) inputs) out_)) ->
    ids p = ids (relabel_rows (zipmap (ids i) (ids p)) i) /\ pars p = pars (relabel_rows (zipmap (ids i) (ids p)) i).
Proof. exact stitch_okb_sound. Qed.
Print Assumptions C11_stitch_checker_sound.
(* and relabelled / concatenated tables are well formed (C01) *)
Theorem C11_relabel_concat_wf : forall m t t' t2 t3, WF t -> relabel m t = Some t' -> WF t2 -> concat t' t2 = Some t3 -> WF t3.
Proof. exact relabel_concat_wf. Qed.
Print Assumptions C11_relabel_concat_wf.
