(* C10 — Reroot, cut and subset change the tree exactly as specified. *)
From Coq Require Import List ZArith Bool.
Import ListNotations.
From Navis Require Import model.Forest model.Ops model.Subgraph proofs.ForestWF proofs.RerootProofs proofs.SubsetCut proofs.OpsWF proofs.SubgraphProofs proofs.SteinerMin.
Open Scope Z_scope.

(* --- reroot only re-orients edges --- *)
Theorem C10_reroot_undirected_edges : forall t r0 a b, WF t -> In r0 t ->
  (und_edge t a b <-> und_edge (reroot (rid r0) t) a b).
Proof. exact reroot_und_edges. Qed.
Print Assumptions C10_reroot_undirected_edges.

Theorem C10_reroot_keeps_nodes_and_payload : forall t r, ids (reroot r t) = ids t /\ map rdat (reroot r t) = map rdat t.
Proof. exact reroot_keeps_rows. Qed.
Print Assumptions C10_reroot_keeps_nodes_and_payload.

Theorem C10_reroot_makes_root : forall t r0 q, WF t -> In r0 t -> In q (reroot (rid r0) t) -> rid q = rid r0 -> rpar q = -1.
Proof. exact reroot_makes_root. Qed.
Print Assumptions C10_reroot_makes_root.

Theorem C10_reroot_other_fragments_untouched : forall t r q, In q t -> ~ In (rid q) (anc t r) -> In q (reroot r t).
Proof. exact reroot_off_path_untouched. Qed.
Print Assumptions C10_reroot_other_fragments_untouched.

Theorem C10_reroot_current_root_noop : forall t r0, WF t -> In r0 t -> rpar r0 = -1 -> reroot (rid r0) t = t.
Proof. exact reroot_root_noop. Qed.
Print Assumptions C10_reroot_current_root_noop.

Theorem C10_reroot_wf : forall t r0, WF t -> In r0 t -> WF (reroot (rid r0) t).
Proof. exact reroot_wf. Qed.
Print Assumptions C10_reroot_wf.

(* --- cut --- *)
Theorem C10_cut_distal_is_descendants : forall t c, ids (cut_distal c t) = filter (fun i => memZ i (desc_ids t c)) (ids t).
Proof. exact cut_distal_ids. Qed.
Print Assumptions C10_cut_distal_is_descendants.

Theorem C10_cut_share_only_cut_node : forall t c r, WF t -> In r t ->
  (In (rid r) (ids (cut_distal c t)) \/ In (rid r) (ids (cut_proximal c t))) /\
  (In (rid r) (ids (cut_distal c t)) -> In (rid r) (ids (cut_proximal c t)) -> rid r = c).
Proof. exact cut_partition. Qed.
Print Assumptions C10_cut_share_only_cut_node.

Theorem C10_cut_every_edge_exactly_once : forall t c a b, WF t -> In c (ids t) -> In (a, b) (edges t) ->
  (In (a, b) (edges (cut_distal c t)) /\ ~ In (a, b) (edges (cut_proximal c t)))
  \/ (In (a, b) (edges (cut_proximal c t)) /\ ~ In (a, b) (edges (cut_distal c t))).
Proof. exact cut_edges. Qed.
Print Assumptions C10_cut_every_edge_exactly_once.

Theorem C10_cut_node_roots_distal : forall t c q, In q (cut_distal c t) -> rid q = c -> rpar q = -1.
Proof. exact cut_distal_root. Qed.
Print Assumptions C10_cut_node_roots_distal.

Theorem C10_cut_many_wf : forall cs t, WF t -> Forall WF (cut_many cs t).
Proof. exact cut_many_wf. Qed.
Print Assumptions C10_cut_many_wf.

(* --- subset --- *)
Theorem C10_subset_ids : forall S t, ids (subset S t) = filter (fun i => memZ i S) (ids t).
Proof. exact subset_ids. Qed.
Print Assumptions C10_subset_ids.

Theorem C10_subset_rows : forall S t q,
  In q (subset S t) <->
  exists q0, In q0 t /\ memZ (rid q0) S = true /\
             q = (if memZ (rpar q0) (ids t) && memZ (rpar q0) S then q0 else set_par q0 (-1)).
Proof. exact subset_rows. Qed.
Print Assumptions C10_subset_rows.

Theorem C10_subset_connectors : forall S t cn c,
  In c (subset_connectors S t cn) <-> In c cn /\ In (snd c) (ids t) /\ memZ (snd c) S = true.
Proof. exact subset_connectors_spec. Qed.
Print Assumptions C10_subset_connectors.

Theorem C10_subset_tags : forall S t tags k ns,
  In (k, ns) (subset_tags S t tags) ->
  ns <> [] /\ exists ns0, In (k, ns0) tags /\ ns = filter (fun n => memZ n (ids (subset S t))) ns0.
Proof. exact subset_tags_spec. Qed.
Print Assumptions C10_subset_tags.

(* --- prevent_fragments: the SMALLEST connected superset: it contains the requested nodes, is connected, lies on the requested
   nodes' root paths, and is contained in every connected node set that contains the requested nodes (proofs/SteinerMin.v) --- *)
Theorem C10_connected_superset : forall t S s, WF t -> In s S -> In s (ids t) -> In s (steiner t S).
Proof. exact steiner_superset. Qed.
Print Assumptions C10_connected_superset.

Theorem C10_connected_subgraph_minimal : forall t Sc s0 rest U, WF t -> Sc = s0 :: rest -> incl Sc (ids t) ->
  common_anc t Sc s0 <> [] -> incl Sc U -> connected_set t U -> incl (steiner_comp t Sc) U.
Proof. exact steiner_comp_minimal. Qed.
Print Assumptions C10_connected_subgraph_minimal.

Theorem C10_connected_subgraph_connected : forall t Sc s0 rest v, WF t -> Sc = s0 :: rest -> incl Sc (ids t) ->
  In v (steiner_comp t Sc) -> v <> top_of t Sc s0 ->
  exists q, In q t /\ rid q = v /\ (rpar q < 0 \/ In (rpar q) (steiner_comp t Sc)).
Proof. exact steiner_comp_connected. Qed.
Print Assumptions C10_connected_subgraph_connected.

Theorem C10_connected_subgraph_on_paths : forall t S v, In v (steiner t S) -> exists s, In s S /\ In v (anc t s).
Proof. exact steiner_on_paths. Qed.
Print Assumptions C10_connected_subgraph_on_paths.
