(* C18 — inside/outside tests and nearest-neighbour snapping are geometrically exact.
   PARTIAL, stated plainly: the ray caster (ncollpyde, compiled) and the Jordan parity argument for arbitrary watertight meshes
   are not modelled.  The model gives the ground-truth solid for generated families (boxes, unions of boxes, nested shells)
   and the structural part of the property; navis' answers are compared with it by the correspondence run. *)
From Coq Require Import List ZArith QArith Bool.
Import ListNotations.
From Navis Require Import model.Volume proofs.VolumeProofs proofs.RayParity.
Open Scope Q_scope.

Theorem C18_in_out_partition : forall s pts, map negb (keep_in s pts) = keep_out s pts.
Proof. exact in_out_partition. Qed.
Print Assumptions C18_in_out_partition.
Theorem C18_in_out_exclusive : forall s pts i b1 b2, nth_error (keep_in s pts) i = Some b1 -> nth_error (keep_out s pts) i = Some b2 -> b1 = negb b2.
Proof. exact in_out_exclusive. Qed.
Print Assumptions C18_in_out_exclusive.
Theorem C18_volumes_independent : forall vs pts name s, In (name, s) vs -> In (name, keep_in s pts) (in_volumes vs pts).
Proof. exact volumes_independent. Qed.
Print Assumptions C18_volumes_independent.
Theorem C18_volumes_names : forall vs pts, map fst (in_volumes vs pts) = map fst vs.
Proof. exact volumes_names. Qed.
Print Assumptions C18_volumes_names.
Theorem C18_in_box_spec : forall b p, in_box b p = true <->
  (qx (lo b) <= qx p <= qx (hi b) /\ qy (lo b) <= qy p <= qy (hi b) /\ qz (lo b) <= qz p <= qz (hi b)).
Proof. exact in_box_spec. Qed.
Print Assumptions C18_in_box_spec.
(* snap returns a truly nearest point; the checker used on navis' answers accepts exactly nearest points *)
Theorem C18_snap_is_nearest : forall q pts k, nearest q pts = Some k ->
  exists pk, nth_error pts k = Some pk /\ forall j pj, nth_error pts j = Some pj -> d2 q pk <= d2 q pj.
Proof. exact snap_is_nearest. Qed.
Print Assumptions C18_snap_is_nearest.
Theorem C18_nearest_checker_exact : forall q pts k, is_nearest_b q pts k = true <->
  exists pk, nth_error pts k = Some pk /\ forall p, In p pts -> d2 q pk <= d2 q p.
Proof. exact is_nearest_b_spec. Qed.
Print Assumptions C18_nearest_checker_exact.

(* the crossing-parity rule a ray caster applies is correct on the ground-truth solid families: for a point in generic position
   (on no face plane) the number of mesh faces hit by the axis-parallel ray is odd exactly when the point is in the solid -
   for one box, and for disjoint boxes with disjoint box-shaped cavities inside them (proofs/RayParity.v).  This is the Jordan
   parity argument for these families; arbitrary watertight meshes remain outside the model. *)
Theorem C18_parity_box : forall b p, generic_box b p -> Nat.odd (crossings_box b p) = in_box b p.
Proof. exact parity_box. Qed.
Print Assumptions C18_parity_box.
Theorem C18_parity_solid : forall s p,
  (forall b, In b (plus s ++ minus s) -> generic_box b p) ->
  disjoint_boxes (plus s) p -> disjoint_boxes (minus s) p ->
  (existsb (fun b => in_box b p) (minus s) = true -> existsb (fun b => in_box b p) (plus s) = true) ->
  Nat.odd (crossings s p) = in_solid s p.
Proof. exact parity_solid. Qed.
Print Assumptions C18_parity_solid.
