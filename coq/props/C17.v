(* C17 — Morphometrics obey their defining recurrences and path counts. *)
From Coq Require Import List ZArith QArith Bool.
Import ListNotations.
From Navis Require Import proofs.Metric proofs.SegJensen model.Forest model.Dist model.Prune model.Strahler model.Flow
  proofs.ForestWF proofs.StrahlerProofs proofs.FlowProofs.
Open Scope Z_scope.

(* the Strahler recurrence holds at EVERY node of every well-formed forest (roots, branching roots, forests) *)
Theorem C17_strahler_recurrence : forall g ign t n, WF t -> In n (ids t) ->
  si g ign (S (length t)) t n = combine_si g (memZ n ign) (map (si g ign (S (length t)) t) (children t n)).
Proof. exact si_recurrence. Qed.
Print Assumptions C17_strahler_recurrence.
Theorem C17_leaf_is_one : forall g, combine_si g false [] = 1.
Proof. exact combine_leaf. Qed.
Print Assumptions C17_leaf_is_one.
Theorem C17_slab_continues : forall g b v, combine_si g b [v] = v.
Proof. exact combine_slab. Qed.
Print Assumptions C17_slab_continues.
Theorem C17_fork_standard : forall b v1 v2 vs,
  let l := v1 :: v2 :: vs in
  combine_si false b l = if (2 <=? zcount (zmaxl l) l)%nat then zmaxl l + 1 else zmaxl l.
Proof. exact combine_fork_standard. Qed.
Print Assumptions C17_fork_standard.
Theorem C17_fork_greedy : forall b v1 v2 vs, combine_si true b (v1 :: v2 :: vs) = zsum (v1 :: v2 :: vs).
Proof. exact combine_fork_greedy. Qed.
Print Assumptions C17_fork_greedy.
Theorem C17_ignored_leaf_contributes_zero : forall g, combine_si g true [] = 0.
Proof. exact combine_ignored_leaf. Qed.
Print Assumptions C17_ignored_leaf_contributes_zero.
Theorem C17_strahler_without_ignore : forall g t n, strahler g [] t n = si g [] (S (length t)) t n.
Proof. exact strahler_no_ignore. Qed.
Print Assumptions C17_strahler_without_ignore.
Theorem C17_strahler_ge_1 : forall g t f n, 1 <= si g [] f t n.
Proof. exact si_ge_1. Qed.
Print Assumptions C17_strahler_ge_1.

(* flow centralities count separated synapse (or tip) pairs *)
Theorem C17_centrifugal_counts_paths : forall t pre post n, WF t -> incl post (ids t) ->
  centrifugal t pre post n =
  Z.of_nat (length (filter (fun pq => (same_fragment t n (fst pq) && negb (distal_or_self t n (fst pq))) && distal_or_self t n (snd pq))
                           (list_prod post pre))).
Proof. exact centrifugal_counts_pairs. Qed.
Print Assumptions C17_centrifugal_counts_paths.
Theorem C17_centripetal_counts_paths : forall t pre post n, WF t -> incl pre (ids t) ->
  centripetal t pre post n =
  Z.of_nat (length (filter (fun pq => distal_or_self t n (fst pq) && (same_fragment t n (snd pq) && negb (distal_or_self t n (snd pq))))
                           (list_prod post pre))).
Proof. exact centripetal_counts_pairs. Qed.
Print Assumptions C17_centripetal_counts_paths.
Theorem C17_leaf_flow_counts_paths : forall t n, WF t ->
  leaf_raw t n =
  Z.of_nat (length (filter (fun ab => (same_fragment t n (fst ab) && negb (distal_or_self t n (fst ab))) && distal_or_self t n (snd ab))
                           (list_prod (leaves_of t) (leaves_of t)))).
Proof. exact leaf_flow_counts_pairs. Qed.
Print Assumptions C17_leaf_flow_counts_paths.
Theorem C17_forks_take_largest_child : forall t raw r,
  with_fork_rule t raw r = if label t r =? 2 then zmaxl (map raw (children t (rid r))) else raw (rid r).
Proof. exact fork_rule_spec. Qed.
Print Assumptions C17_forks_take_largest_child.

(* segregation index, parametric in the entropy function H (logarithms are irrational; navis' binary entropy is one instance):
   pure compartments give entropy 0 (index 1), and for every H that is non-negative and concave on [0,1] the index lies in [0,1]
   (finite Jensen inequality, proofs/SegJensen.v) *)
Theorem C17_segregation_separated : forall (H : Q -> Q) comps,
  (H 0 == 0)%Q -> (H 1 == 0)%Q -> (forall x y, x == y -> H x == H y)%Q ->
  (forall c, In c comps -> 0 <= fst c /\ 0 <= snd c /\ (fst c = 0 \/ snd c = 0)) ->
  (seg_entropy H comps == 0)%Q.
Proof. exact seg_separated. Qed.
Print Assumptions C17_segregation_separated.
Theorem C17_segregation_entropy_bounds : forall H comps, H_ext H -> H_nonneg H -> H_concave H -> nonneg_counts comps -> (0 < Ntot comps)%Z ->
  (0 <= seg_entropy H comps /\ seg_entropy H comps <= seg_norm H comps)%Q.
Proof. exact seg_entropy_bounds. Qed.
Print Assumptions C17_segregation_entropy_bounds.
Theorem C17_segregation_index_in_unit : forall H comps, H_ext H -> H_nonneg H -> H_concave H -> nonneg_counts comps -> (0 < Ntot comps)%Z ->
  (0 < seg_norm H comps -> 0 <= 1 - seg_entropy H comps / seg_norm H comps <= 1)%Q.
Proof. exact segregation_index_in_unit. Qed.
Print Assumptions C17_segregation_index_in_unit.

(* tortuosity = path length / end-to-end distance is never below 1, and is 1 on straight segments - for ANY distance function
   obeying the triangle inequality (square roots are irrational, so the statement is parametric in the metric rather than about R;
   the Euclidean distance of the implementation is one instance) *)
Theorem C17_tortuosity_ge_one : forall (A : Type) (d : A -> A -> Q), triangle d -> zero_diag d -> forall p x, (0 < d x (last p x))%Q ->
  (1 <= path_len d x p / d x (last p x))%Q.
Proof. intros A. exact (@tortuosity_ge_one A). Qed.
Print Assumptions C17_tortuosity_ge_one.
Theorem C17_tortuosity_straight : forall (A : Type) (d : A -> A -> Q) p x, (0 < d x (last p x))%Q -> (path_len d x p == d x (last p x))%Q ->
  (path_len d x p / d x (last p x) == 1)%Q.
Proof. intros A. exact (@tortuosity_straight A). Qed.
Print Assumptions C17_tortuosity_straight.

(* the known deviation of flow_centrality (executable variant leaf_raw_impl, used to key the known findings) differs from the
   specified tip-to-tip count only at nodes with at most one tip below them, where it reports 0 *)
Theorem C17_leaf_flow_deviation_confined : forall t n, (1 < count_distal t n (leaves_of t))%Z -> leaf_raw_impl false t n = leaf_raw t n.
Proof. exact leaf_raw_impl_agrees. Qed.
Print Assumptions C17_leaf_flow_deviation_confined.
Theorem C17_leaf_flow_deviation_zero : forall t n glob, (count_distal t n (leaves_of t) <= 1)%Z -> leaf_raw_impl glob t n = 0%Z.
Proof. exact leaf_raw_impl_terminal. Qed.
Print Assumptions C17_leaf_flow_deviation_zero.

Theorem C17_min_twig_size_selects_short_twigs : forall t k l,
  In l (short_twig_leaves t k) <->
  exists r, In r (leaf_rows t) /\ rid r = l /\ exists tw, twig_walk t (anc t l) = Some tw /\ (S (length tw) < k)%nat.
Proof. exact short_twig_leaves_spec. Qed.
Print Assumptions C17_min_twig_size_selects_short_twigs.
