(* C19 — conversions between representations are geometrically faithful.
   PARTIAL, stated plainly: the SVD (LAPACK), the kd-tree, marching cubes (skimage), tube meshing and skeletonisation (skeletor)
   are external numerical code and are not modelled.  What is proved: the bookkeeping of make_dotprops (rows used, k clipped),
   the range of alpha, positive semi-definiteness of the inertia matrix, the soundness of the checker that decides whether an
   implementation tangent IS a principal axis of the exact inertia matrix (Rayleigh/Sylvester), the k=0 tangent construction,
   and the whole voxel-index arithmetic (rounding, bounds -> shape/offset, within-one-pitch, count conservation).
   The correspondence run applies the checkers to navis' outputs and bounds checks to the mesh/skeleton conversions. *)
From Coq Require Import List ZArith QArith Qround Qabs Bool.
Import ListNotations.
From Navis Require Import model.Convert proofs.ConvertProofs.
Open Scope Q_scope.

Theorem C19_k_clipped : forall rows k, (k_used rows k <= length (finite_rows rows))%nat /\ (k_used rows k <= k)%nat.
Proof. exact k_clipped. Qed.
Print Assumptions C19_k_clipped.
Theorem C19_one_row_per_finite_point : forall rows p, In p (finite_rows rows) <-> In (Some p) rows.
Proof. exact finite_rows_spec. Qed.
Print Assumptions C19_one_row_per_finite_point.
Theorem C19_alpha_in_unit : forall l1 l2 l3, l3 <= l2 -> l2 <= l1 -> 0 <= l3 -> 0 < l1 + l2 + l3 ->
  0 <= alpha l1 l2 l3 /\ alpha l1 l2 l3 <= 1.
Proof. exact alpha_in_unit. Qed.
Print Assumptions C19_alpha_in_unit.
Theorem C19_inertia_psd : forall pts w, 0 <= quad (inertia pts) w.
Proof. exact inertia_psd. Qed.
Print Assumptions C19_inertia_psd.
Theorem C19_principal_axis_checker_sound : forall c v tol, principal_axis_b c v tol = true ->
  0 < norm2 v /\ forall w, quad c w <= (quad c v / norm2 v + tol) * norm2 w.
Proof. exact principal_axis_sound. Qed.
Print Assumptions C19_principal_axis_checker_sound.
Theorem C19_principal_axis_up_to_sign : forall c v tol,
  principal_axis_b c (mkP (- px v) (- py v) (- pz v)) tol = principal_axis_b c v tol.
Proof. exact principal_axis_sign. Qed.
Print Assumptions C19_principal_axis_up_to_sign.
Theorem C19_invariants_give_roots : forall c l1 l2 l3,
  e1 c == l1 + l2 + l3 -> e2 c == l1 * l2 + l1 * l3 + l2 * l3 -> e3 c == l1 * l2 * l3 ->
  forall x, charpoly c x == (x - l1) * (x - l2) * (x - l3).
Proof. exact invariants_give_roots. Qed.
Print Assumptions C19_invariants_give_roots.

Theorem C19_tangent_k0_spec : forall edges m v l2, In (m, v, l2) (tangents_k0 edges) ->
  exists c p, In (c, p) edges /\ v = psub c p /\ is_zero_vec v = false /\ l2 = norm2 v /\
              px m + px m == px c + px p /\ py m + py m == py c + py p /\ pz m + pz m == pz c + pz p.
Proof. exact tangent_k0_spec. Qed.
Print Assumptions C19_tangent_k0_spec.
Theorem C19_tangent_k0_complete : forall edges c p, In (c, p) edges -> is_zero_vec (psub c p) = false ->
  exists m, In (m, psub c p, norm2 (psub c p)) (tangents_k0 edges).
Proof. exact tangent_k0_complete. Qed.
Print Assumptions C19_tangent_k0_complete.
Theorem C19_tangent_k0_count : forall edges,
  length (tangents_k0 edges) = length (filter (fun e => negb (is_zero_vec (psub (fst e) (snd e)))) edges).
Proof. exact tangents_k0_count. Qed.
Print Assumptions C19_tangent_k0_count.
Theorem C19_tangent_k0_len_pos : forall v, is_zero_vec v = false -> 0 < norm2 v.
Proof. exact tangent_k0_len_pos. Qed.
Print Assumptions C19_tangent_k0_len_pos.

Theorem C19_round_within_half : forall q, q - (1 # 2) <= inject_Z (rhe q) /\ inject_Z (rhe q) <= q + (1 # 2).
Proof. exact rhe_within_half. Qed.
Print Assumptions C19_round_within_half.
Theorem C19_voxel_within_half_pitch : forall pitch p, 0 < pitch -> Qabs (p - pitch * inject_Z (vindex pitch p)) <= pitch / 2.
Proof. exact voxel_within_half_pitch. Qed.
Print Assumptions C19_voxel_within_half_pitch.
Theorem C19_point_within_pitch : forall pitch l p, 0 < pitch ->
  Qabs (p - vcoord1 pitch l (vindex pitch p - rhe (l / pitch))) <= pitch.
Proof. exact point_within_pitch. Qed.
Print Assumptions C19_point_within_pitch.
Theorem C19_default_bounds_inside : forall g p,
  0 < px (pitch3 g) -> 0 < py (pitch3 g) -> 0 < pz (pitch3 g) ->
  px (lo g) <= px p <= px (hi g) -> py (lo g) <= py p <= py (hi g) -> pz (lo g) <= pz p <= pz (hi g) ->
  in_grid g (vox g p) = true.
Proof. exact default_bounds_inside. Qed.
Print Assumptions C19_default_bounds_inside.
Theorem C19_grid_voxel_in_bounds : forall pitch l h i, 0 < pitch -> (0 <= i < shape1 pitch l h)%Z ->
  l <= vcoord1 pitch l i /\ vcoord1 pitch l i <= h + 2 * pitch.
Proof. exact grid_voxel_in_bounds. Qed.
Print Assumptions C19_grid_voxel_in_bounds.
Theorem C19_counts_conserved_general : forall g pts,
  total (voxel_counts g pts) = length (filter (fun p => in_grid g (vox g p)) pts).
Proof. exact counts_conserved_general. Qed.
Print Assumptions C19_counts_conserved_general.
Theorem C19_counts_conserved : forall g pts, (forall p, In p pts -> in_grid g (vox g p) = true) ->
  total (voxel_counts g pts) = length pts.
Proof. exact counts_conserved. Qed.
Print Assumptions C19_counts_conserved.
Theorem C19_filled_spec : forall g pts v n, In (v, n) (voxel_counts g pts) <->
  (In v (map (vox g) pts) /\ in_grid g v = true /\ n = count_v v (map (vox g) pts)).
Proof. exact filled_spec. Qed.
Print Assumptions C19_filled_spec.

(* non-vacuity: a concrete cloud meets the hypotheses *)
Example C19_nonvacuous :
  let g := mkG (mkP 2 2 2) (mkP 0 0 0) (mkP 9 9 9) in
  let pts := [mkP 1 1 1; mkP 3 3 3; mkP (7 # 2) 3 3; mkP 9 9 9] in
  forallb (fun p => in_grid g (vox g p)) pts = true /\ total (voxel_counts g pts) = 4%nat /\
  length (voxel_counts g pts) = 3%nat /\ rhe (1 # 2) = 0%Z /\ rhe (3 # 2) = 2%Z /\ rhe (- (1 # 2)) = 0%Z.
Proof. vm_compute. repeat split; reflexivity. Qed.
