(* C04 — results do not depend on the compute backend. *)
From Coq Require Import List ZArith Bool String.
Import ListNotations.
From Navis Require Import model.Forest model.Backend proofs.ForestWF proofs.BackendProofs gen.Gen_Dispatch.
Open Scope Z_scope.

(* what /repo itself contributes to backend independence: the id <-> index plumbing around igraph and the
   dispatch shape.  The compiled accelerator (navis-fastcore) is NOT part of /repo and is tied to the other two
   configurations only by the correspondence run. *)
Theorem C04_ix_roundtrip : forall l i, In i l -> exists k, id2ix l i = Some k /\ ix2id l k = Some i.
Proof. exact ix_roundtrip. Qed.
Print Assumptions C04_ix_roundtrip.
Theorem C04_ix_roundtrip_inv : forall l k i, NoDup l -> ix2id l k = Some i -> id2ix l i = Some k.
Proof. exact ix_roundtrip_inv. Qed.
Print Assumptions C04_ix_roundtrip_inv.
Theorem C04_builders_agree : forall t, WF t -> ig_edges_as_ids t = map (fun e => (Some (fst e), Some (snd e))) (nx_edges t).
Proof. exact builders_agree. Qed.
Print Assumptions C04_builders_agree.
(* every dispatching function of the current source has a pure-Python fall-through, and igraph branches honour config.use_igraph *)
Theorem C04_dispatch_shape_ok : dispatch_ok = true.
Proof. exact dispatch_shape_ok. Qed.
Print Assumptions C04_dispatch_shape_ok.
