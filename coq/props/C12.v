(* C12 — Pruning keeps exactly the nodes its criterion defines. *)
From Coq Require Import List ZArith QArith Bool.
Import ListNotations.
From Navis Require Import model.Forest model.Dist model.Segments model.Prune model.Strahler
  proofs.ForestWF proofs.SubsetCut proofs.PruneProofs proofs.StrahlerProofs.
Open Scope Z_scope.

(* a twig = leaf up to, but excluding, the next node with >= 2 children; all its nodes have <= 1 child *)
Theorem C12_twig_spec : forall t l tw, twig_walk t l = Some tw ->
  exists b rest, l = tw ++ b :: rest /\ (2 <= nchildren t b)%nat /\ forall x, In x tw -> (nchildren t x <= 1)%nat.
Proof. exact twig_walk_spec. Qed.
Print Assumptions C12_twig_spec.
Theorem C12_unbranched_chain_has_no_twig : forall t l, (forall x, In x l -> (nchildren t x <= 1)%nat) -> twig_walk t l = None.
Proof. exact twig_walk_none. Qed.
Print Assumptions C12_unbranched_chain_has_no_twig.

(* one round removes precisely the nodes of the twigs of length <= size that lie in the mask ... *)
Theorem C12_prune_once_ids : forall t w size mask,
  ids (prune_once t w size mask) = filter (fun i => negb (memZ i (removed_once t w size mask))) (ids t).
Proof. exact prune_once_ids. Qed.
Print Assumptions C12_prune_once_ids.
Theorem C12_removed_once_spec : forall t w size mask i,
  In i (removed_once t w size mask) <->
  exists tw, In tw (twigs t) /\ In i tw /\ Qle_bool (dsum w tw) size = true /\ in_mask mask tw = true.
Proof. exact removed_once_spec. Qed.
Print Assumptions C12_removed_once_spec.
(* ... and leaves every kept row as it was, parent link included, unless the parent went (subset semantics) *)
Theorem C12_kept_rows_untouched : forall S t q,
  In q (subset S t) <->
  exists q0, In q0 t /\ memZ (rid q0) S = true /\
             q = (if memZ (rpar q0) (ids t) && memZ (rpar q0) S then q0 else set_par q0 (-1)).
Proof. exact subset_rows. Qed.
Print Assumptions C12_kept_rows_untouched.

(* recursive=True terminates in a state where no qualifying twig is left *)
Theorem C12_recursive_fixpoint : forall t w size mask tw, WF t ->
  In tw (twigs (prune_twigs None t w size mask)) ->
  Qle_bool (dsum w tw) size && in_mask mask tw = false \/ tw = [].
Proof. exact prune_twigs_recursive_spec. Qed.
Print Assumptions C12_recursive_fixpoint.

Theorem C12_prune_at_depth : forall t w src depth i,
  In i (ids (prune_at_depth t w src depth)) <->
  In i (ids t) /\ exists d, geo t w src i = Some d /\ Qle_bool d depth = true.
Proof. exact prune_at_depth_ids. Qed.
Print Assumptions C12_prune_at_depth.

(* prune_by_strahler: which indices a selection denotes, and that exactly the others are kept *)
Theorem C12_selected_negative : forall k m l x, k < 0 -> selected (SInt k) m = Some l -> (In x l <-> 1 <= x < m + k + 1).
Proof. exact selected_negative. Qed.
Print Assumptions C12_selected_negative.
Theorem C12_selected_positive : forall k m, 1 <= k -> selected (SInt k) m = Some [k].
Proof. exact selected_positive. Qed.
Print Assumptions C12_selected_positive.
Theorem C12_selected_range : forall a b m l x, selected (SRange a b) m = Some l -> (In x l <-> a <= x < b).
Proof. exact selected_range. Qed.
Print Assumptions C12_selected_range.
Theorem C12_selected_slice : forall a b m l x, 0 <= m -> selected (SSlice a b) m = Some l ->
  (In x l <-> 1 + norm_ix a 0 m <= x < 1 + norm_ix b m m).
Proof. exact selected_slice. Qed.
Print Assumptions C12_selected_slice.
Theorem C12_prune_by_strahler_ids : forall t si sel i, map fst si = ids t -> NoDup (ids t) ->
  (In i (ids (prune_by_si t si sel)) <-> exists s, In (i, s) si /\ memZ s sel = false).
Proof. exact prune_by_si_ids. Qed.
Print Assumptions C12_prune_by_strahler_ids.

(* connectors on removed nodes: kept in place, moved to the NEAREST surviving ancestor, or dropped *)
Theorem C12_connectors_relocated : forall t kept cn c n, In (c, n) (relocate_connectors t kept cn) ->
  0 <= n /\ exists n0, In (c, n0) cn /\
    ((memZ n0 kept = true /\ n = n0) \/
     (memZ n0 kept = false /\ exists l1 l2, anc t n0 = l1 ++ n :: l2 /\ memZ n kept = true /\ forall y, In y l1 -> memZ y kept = false)).
Proof. exact relocate_connectors_spec. Qed.
Print Assumptions C12_connectors_relocated.
(* exact=True: which nodes stay, which are moved and where: a moved node ends up strictly inside the edge to its parent at EXACTLY
   `size` of cable above the farthest tip below it *)
Theorem C12_exact_plan_spec : forall t w size i f, In (i, f) (exact_plan t w size) <->
  exists r, In r t /\ rid r = i /\
    let h := height (length t) t w i in let e := wget w i in
    ((Qle_bool size h = true /\ f = 0%Q) \/
     (Qle_bool size h = false /\ is_root r = true /\ f = 0%Q) \/
     (Qle_bool size h = false /\ is_root r = false /\ Qle_bool (h + e) size = false /\ f = ((size - h) / e)%Q)).
Proof. exact exact_plan_spec. Qed.
Print Assumptions C12_exact_plan_spec.
Theorem C12_exact_cut_point : forall h e size : Q, (0 < e)%Q -> Qle_bool size h = false -> Qle_bool (h + e) size = false ->
  let f := ((size - h) / e)%Q in (0 < f)%Q /\ (f < 1)%Q /\ (h + f * e == size)%Q.
Proof. exact exact_cut_point. Qed.
Print Assumptions C12_exact_cut_point.
(* longest_neurite: the greedy longest-first decomposition long_segments is the specification the implementation is compared with;
   recursive twig pruning preserves well-formedness *)
Theorem C12_pruned_is_wf : forall fuel t w size mask, WF t -> WF (prune_rec fuel t w size mask).
Proof. exact prune_rec_wf. Qed.
Print Assumptions C12_pruned_is_wf.
