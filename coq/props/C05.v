(* C05 — Tree distances and segment decompositions match their definitions. *)
From Coq Require Import List ZArith QArith Bool.
Import ListNotations.
From Navis Require Import model.Forest model.Dist model.Segments proofs.ForestWF proofs.RerootProofs proofs.DistProofs proofs.SegmentsProofs proofs.SegPartition.
Open Scope Z_scope.

(* distance to root = sum of edge lengths along the parent links *)
Theorem C05_d_root_root : forall t w r, WF t -> In r t -> rpar r < 0 -> d_root t w (rid r) = 0%Q.
Proof. exact d_root_root. Qed.
Print Assumptions C05_d_root_root.
Theorem C05_d_root_step : forall t w r, WF t -> In r t -> 0 <= rpar r ->
  d_root t w (rid r) = (wget w (rid r) + d_root t w (rpar r))%Q.
Proof. exact d_root_step. Qed.
Print Assumptions C05_d_root_step.

(* the geodesic matrix is symmetric, zero on the diagonal, finite exactly within a fragment *)
Theorem C05_geo_sym : forall t w a b, WF t -> In a (ids t) -> In b (ids t) -> oq_eq (geo t w a b) (geo t w b a).
Proof. exact geo_sym. Qed.
Print Assumptions C05_geo_sym.
Theorem C05_geo_self : forall t w a, WF t -> In a (ids t) -> geo t w a a = Some (0 + 0)%Q.
Proof. exact geo_self. Qed.
Print Assumptions C05_geo_self.
Theorem C05_geo_reachable_iff : forall t w a b,
  (exists d, geo t w a b = Some d) <-> exists x, In x (anc t a) /\ In x (anc t b).
Proof. exact geo_reachable_iff. Qed.
Print Assumptions C05_geo_reachable_iff.

(* directed: defined exactly for child -> ancestor pairs, and then equal to the undirected distance *)
Theorem C05_directed_iff_ancestor : forall t w a b, (exists d, geo_dir t w a b = Some d) <-> In b (anc t a).
Proof. exact geo_dir_iff_ancestor. Qed.
Print Assumptions C05_directed_iff_ancestor.
Theorem C05_directed_agrees : forall t w a b, WF t -> In a (ids t) -> In b (anc t a) -> oq_eq (geo t w a b) (geo_dir t w a b).
Proof. exact geo_dir_agrees. Qed.
Print Assumptions C05_directed_agrees.
Theorem C05_distal_to_iff : forall t a b, distal_to t a b = true <-> In b (anc t a).
Proof. exact distal_to_iff. Qed.
Print Assumptions C05_distal_to_iff.
Theorem C05_limit : forall lim d v, apply_limit (Some lim) (Some d) = Some v -> v = d /\ (d <= lim)%Q.
Proof. exact apply_limit_spec. Qed.
Print Assumptions C05_limit.
Theorem C05_adjacency_by_id : forall t a b, NoDup (ids t) ->
  (adjacency t a b = true <-> exists r, In r t /\ rid r = a /\ rpar r = b /\ (0 <= b)%Z).
Proof. exact adjacency_spec. Qed.
Print Assumptions C05_adjacency_by_id.

(* segment decompositions: the checker run on every implementation output accepts only partitions of the edge set *)
Theorem C05_partition_checker_sound : forall t segs, NoDup (ids t) -> partition_okb t segs = true ->
  (forall a b, In (a, b) (pairs_of segs) -> In (a, b) (edges t))
  /\ NoDup (map fst (pairs_of segs))
  /\ (forall i, In i (nonroot_ids t) <-> In i (map fst (pairs_of segs)))
  /\ (forall s, In s segs -> s <> []).
Proof. exact partition_okb_sound. Qed.
Print Assumptions C05_partition_checker_sound.
Theorem C05_partition_pairs_are_edges : forall t segs, NoDup (ids t) -> partition_okb t segs = true ->
  forall a b, In (a, b) (edges t) <-> In (a, b) (pairs_of segs).
Proof. exact partition_pairs_are_edges. Qed.
Print Assumptions C05_partition_pairs_are_edges.
Theorem C05_shape_checker_sound : forall t segs s, shape_okb t segs = true -> In s segs ->
  exists a b rest, s = a :: b :: rest
    /\ (label_of t a = 1 \/ label_of t a = 2)
    /\ (label_of t (last s (-1)) = 2 \/ label_of t (last s (-1)) = 0)
    /\ forall i, In i (interior s) -> label_of t i = 3.
Proof. exact shape_okb_sound. Qed.
Print Assumptions C05_shape_checker_sound.
(* the model's small segments are child->parent chains ... *)
Theorem C05_break_segments_are_chains : forall t s, WF t -> In s (break_segments t) -> consecutive_ok t s = true.
Proof. exact break_segments_are_chains. Qed.
Print Assumptions C05_break_segments_are_chains.
(* ... and, for EVERY well-formed forest, they pass the partition checker: every non-root node is the child end of exactly one
   small segment, i.e. the decomposition covers every edge exactly once (proofs/SegPartition.v) *)
Theorem C05_break_segments_partition : forall t, WF t -> partition_okb t (break_segments t) = true.
Proof. exact break_segments_partition. Qed.
Print Assumptions C05_break_segments_partition.
Theorem C05_break_segments_cover_edges_once : forall t, WF t ->
  (forall a b, In (a, b) (edges t) <-> In (a, b) (pairs_of (break_segments t))) /\ NoDup (map fst (pairs_of (break_segments t))).
Proof.
  intros t Hwf. pose proof (break_segments_partition t Hwf) as H. split.
  - apply partition_pairs_are_edges; [apply (wf_nodup t Hwf) | exact H].
  - apply (partition_okb_sound t _ (wf_nodup t Hwf) H).
Qed.
Print Assumptions C05_break_segments_cover_edges_once.
