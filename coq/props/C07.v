(* C07 — SWC files round-trip and are valid, parent-first SWC tables. *)
From Coq Require Import List ZArith Bool.
Import ListNotations.
From Navis Require Import model.Forest model.Swc proofs.ForestWF proofs.SwcProofs model.Fmt proofs.FmtProofs.
Open Scope Z_scope.

(* ids 1..N without gaps, in file order *)
Theorem C07_ids_1N : forall t lab, WF t ->
  map (fun x => fst (fst (fst x))) (swc_table t lab) = map Z.of_nat (seq 1 (length t)).
Proof. exact swc_ids_1N. Qed.
Print Assumptions C07_ids_1N.
(* every non-root row's parent is numbered lower (hence listed earlier) -- for EVERY well-formed forest, whatever its labelling *)
Theorem C07_parent_first : forall t r, WF t -> In r t -> 0 <= rpar r ->
  let o := ids (swc_order t) in 0 < new_id o (rpar r) < new_id o (rid r).
Proof. exact swc_parent_first. Qed.
Print Assumptions C07_parent_first.
(* the node map is injective; the file order is a permutation of the rows *)
Theorem C07_node_map_injective : forall t a b, WF t -> In a (ids t) -> In b (ids t) ->
  new_id (ids (swc_order t)) a = new_id (ids (swc_order t)) b -> a = b.
Proof. exact node_map_injective. Qed.
Print Assumptions C07_node_map_injective.
Theorem C07_order_is_permutation : forall t r, WF t -> (In r (swc_order t) <-> In r t).
Proof. exact swc_order_In. Qed.
Print Assumptions C07_order_is_permutation.
(* the checker applied to every written file accepts only ids 1..N with parents earlier and lower *)
Theorem C07_file_checker_sound : forall rows, swc_valid_b rows = true ->
  map fst rows = map Z.of_nat (seq 1 (length rows)) /\
  forall pre i p post, rows = pre ++ (i, p) :: post -> p = -1 \/ (p < i /\ In p (map fst pre)).
Proof. exact swc_valid_b_sound. Qed.
Print Assumptions C07_file_checker_sound.

(* ---- name/id attributes taken from the file name as the fmt pattern prescribes (model/Fmt.v = BaseReader.parse_filename) ---- *)
Theorem C07_fmt_roundtrip : forall sep toks vals, wellsep sep toks = true -> length vals = ngroups toks -> Forall (sepfree sep) vals ->
  search toks (render toks vals) = Some vals.
Proof. exact search_roundtrip. Qed.
Print Assumptions C07_fmt_roundtrip.
Theorem C07_fmt_own_group : forall bs gs d d' i b g n t, assign bs gs d = Some d' ->
  nth_error bs i = Some b -> nth_error gs i = Some g -> In (FName n t) (fields_of b) ->
  (forall t', In (FName n t') (fields_of b) -> t' = t) ->
  (forall j b' t', (i < j)%nat -> nth_error bs j = Some b' -> ~ In (FName n t') (fields_of b')) ->
  dget d' n = conv t g.
Proof. exact assign_own_group. Qed.
Print Assumptions C07_fmt_own_group.
Theorem C07_fmt_parse_rendered : forall sep toks vals dir,
  wf_toks toks -> wellsep sep toks = true -> length vals = ngroups toks -> Forall (sepfree sep) vals ->
  Forall (fun c => c <> 47%Z) (render toks vals) ->
  parse_filename (show toks) (dir ++ 47%Z :: render toks vals) = assign (bodies toks) vals [(s_file, VStr (render toks vals))]
  /\ parse_filename (show toks) (render toks vals) = assign (bodies toks) vals [(s_file, VStr (render toks vals))].
Proof. exact parse_rendered. Qed.
Print Assumptions C07_fmt_parse_rendered.
