(* C16 — transforming or mirroring a neuron moves its coordinates and nothing else. *)
From Coq Require Import List ZArith QArith Bool.
From Navis Require Import model.XformN proofs.XformNProofs model.Magnitude proofs.MagnitudeProofs.

Theorem C16_slices_are_images : forall A (f : A -> A) (blocks : list (list A)), xform_blocks f blocks = map (map f) blocks.
Proof. intros A. exact (@slices_are_images A). Qed.
Print Assumptions C16_slices_are_images.
Theorem C16_mirror_involution : forall s x, (mirror1 s (mirror1 s x) == x)%Q.
Proof. exact mirror_involution. Qed.
Print Assumptions C16_mirror_involution.
Theorem C16_mirror_about_midplane : forall s, (mirror1 s (s / 2) == s / 2)%Q.
Proof. exact mirror_fixes_midplane. Qed.
Print Assumptions C16_mirror_about_midplane.
Theorem C16_rewind_flips_orientation : forall a b c, peq (normal c b a) (pneg (normal a b c)).
Proof. exact rewind_flips_normal. Qed.
Print Assumptions C16_rewind_flips_orientation.
Theorem C16_rewind_involution : forall A (f : A * A * A), rewind (rewind f) = f.
Proof. intros A. exact (@rewind_involution A). Qed.
Print Assumptions C16_rewind_involution.
Theorem C16_mirrored_rewound_face_keeps_outward_normal : forall s a b c,
  let n := normal a b c in
  peq (normal (mirror_x s c) (mirror_x s b) (mirror_x s a)) {| px := - px n; py := py n; pz := pz n |}.
Proof. exact mirror_rewind_normal. Qed.
Print Assumptions C16_mirrored_rewound_face_keeps_outward_normal.
Theorem C16_radius_units_follow_magnitude : forall r u k : Q, ~ (k == 0)%Q -> ((r * k) * (u / k) == r * u)%Q.
Proof. exact radius_units_follow_magnitude. Qed.
Print Assumptions C16_radius_units_follow_magnitude.
Theorem C16_helper_tangents_unit : forall vx vy vz n : Q, ~ (n == 0)%Q -> (n * n == vx * vx + vy * vy + vz * vz)%Q ->
  ((vx / n) * (vx / n) + (vy / n) * (vy / n) + (vz / n) * (vz / n) == 1)%Q.
Proof. exact helper_tangent_unit. Qed.
Print Assumptions C16_helper_tangents_unit.

(* ---- the detected power of ten (model/Magnitude.v = round(log10 mean distance ratio), computed exactly on squares) ---- *)
Theorem C16_magnitude_sound : forall c k, magnitude c = Some k -> (0 < c)%Q /\ in_decade (c * c)%Q k.
Proof. exact magnitude_sound. Qed.
Print Assumptions C16_magnitude_sound.
Theorem C16_magnitude_unique : forall c2 k k', in_decade c2 k -> in_decade c2 k' -> k = k'.
Proof. exact decade_unique. Qed.
Print Assumptions C16_magnitude_unique.
Theorem C16_magnitude_of_power_of_ten : forall k m, magnitude (ten ^ k) = Some m -> m = k.
Proof. exact magnitude_pow10. Qed.
Print Assumptions C16_magnitude_of_power_of_ten.
Theorem C16_magnitude_window : forall c k m, magnitude c = Some m -> (ten ^ (2 * k - 1) <= c * c)%Q -> (c * c < ten ^ (2 * k + 1))%Q -> m = k.
Proof. exact magnitude_window. Qed.
Print Assumptions C16_magnitude_window.
(* every pairwise distance changes by the same factor under a uniform scale and shift: the mean ratio IS the scale *)
Theorem C16_similarity_ratio : forall s t a b, (sqdist (scale_shift s t a) (scale_shift s t b) == (s * s) * sqdist a b)%Q.
Proof. exact similarity_sqdist. Qed.
Print Assumptions C16_similarity_ratio.
