(* C16 — transforming or mirroring a neuron moves its coordinates and nothing else. *)
From Coq Require Import List ZArith QArith Bool.
From Navis Require Import model.XformN proofs.XformNProofs.

Theorem C16_slices_are_images : forall A (f : A -> A) (blocks : list (list A)), xform_blocks f blocks = map (map f) blocks.
Proof. intros A. exact (@slices_are_images A). Qed.
Print Assumptions C16_slices_are_images.
Theorem C16_mirror_involution : forall s x, (mirror1 s (mirror1 s x) == x)%Q.
Proof. exact mirror_involution. Qed.
Print Assumptions C16_mirror_involution.
Theorem C16_mirror_about_midplane : forall s, (mirror1 s (s / 2) == s / 2)%Q.
Proof. exact mirror_fixes_midplane. Qed.
Print Assumptions C16_mirror_about_midplane.
Theorem C16_rewind_flips_orientation : forall a b c, peq (normal c b a) (pneg (normal a b c)).
Proof. exact rewind_flips_normal. Qed.
Print Assumptions C16_rewind_flips_orientation.
Theorem C16_rewind_involution : forall A (f : A * A * A), rewind (rewind f) = f.
Proof. intros A. exact (@rewind_involution A). Qed.
Print Assumptions C16_rewind_involution.
Theorem C16_mirrored_rewound_face_keeps_outward_normal : forall s a b c,
  let n := normal a b c in
  peq (normal (mirror_x s c) (mirror_x s b) (mirror_x s a)) {| px := - px n; py := py n; pz := pz n |}.
Proof. exact mirror_rewind_normal. Qed.
Print Assumptions C16_mirrored_rewound_face_keeps_outward_normal.
Theorem C16_radius_units_follow_magnitude : forall r u k : Q, ~ (k == 0)%Q -> ((r * k) * (u / k) == r * u)%Q.
Proof. exact radius_units_follow_magnitude. Qed.
Print Assumptions C16_radius_units_follow_magnitude.
Theorem C16_helper_tangents_unit : forall vx vy vz n : Q, ~ (n == 0)%Q -> (n * n == vx * vx + vy * vy + vz * vz)%Q ->
  ((vx / n) * (vx / n) + (vy / n) * (vy / n) + (vz / n) * (vz / n) == 1)%Q.
Proof. exact helper_tangent_unit. Qed.
Print Assumptions C16_helper_tangents_unit.
