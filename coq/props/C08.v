(* C08 — transforms, sequences and bridging paths map points as defined. *)
From Coq Require Import List ZArith QArith Bool.
Import ListNotations.
From Navis Require Import model.Xf proofs.XfProofs.

(* an affine transform's negation is its exact inverse (both ways), for every matrix with non-zero determinant *)
Theorem C08_affine_neg_inverse : forall (t : affine) (p : vec), ~ (det (lin t) == 0)%Q -> veq (axform (aneg t) (axform t p)) p.
Proof. exact affine_neg_inverse. Qed.
Print Assumptions C08_affine_neg_inverse.
Theorem C08_affine_inverse_neg : forall (t : affine) (p : vec), ~ (det (lin t) == 0)%Q -> veq (axform t (axform (aneg t) p)) p.
Proof. exact affine_inverse_neg. Qed.
Print Assumptions C08_affine_inverse_neg.

(* a sequence equals the composition of its members applied in order; NaN rows stay untouched; rows do not contaminate each other *)
Theorem C08_seq_is_composition : forall P (fs : list (P -> P)) (rows : list (option P)),
  seq_xform fs rows = map (row_map (compose_all fs)) rows.
Proof. intros P. exact (@seq_is_composition P). Qed.
Print Assumptions C08_seq_is_composition.
Theorem C08_seq_nan_rows_fixed : forall P (fs : list (P -> P)) rows i,
  nth_error rows i = Some None -> nth_error (seq_xform fs rows) i = Some None.
Proof. intros P. exact (@seq_nan_rows_fixed P). Qed.
Print Assumptions C08_seq_nan_rows_fixed.
Theorem C08_seq_no_contamination : forall P (fs : list (P -> P)) rows rows' i,
  nth_error rows i = nth_error rows' i -> nth_error (seq_xform fs rows) i = nth_error (seq_xform fs rows') i.
Proof. intros P. exact (@seq_no_contamination P). Qed.
Print Assumptions C08_seq_no_contamination.

(* bridging: along ANY path the composed steps equal the direct change of frame (group laws as explicit hypotheses) *)
Theorem C08_path_telescopes : forall (G : Type) (op : G -> G -> G) (e : G) (ginv : G -> G),
  (forall a b c, op a (op b c) = op (op a b) c) -> (forall a, op e a = a) -> (forall a, op a e = a) -> (forall a, op (ginv a) a = e) ->
  forall (F : Z -> G) a p, path_map op e ginv F (a :: p) = op (F (last (a :: p) a)) (ginv (F a)).
Proof. intros G op e ginv. exact (@path_telescopes G op e ginv). Qed.
Print Assumptions C08_path_telescopes.

(* what is accepted as a found path: from source to target over registered (or inverted) registrations, through every via, no avoid *)
Theorem C08_found_path_spec : forall es src tgt via avoid p, path_ok es src tgt via avoid p = true ->
  hd (-1)%Z p = src /\ last p (-1)%Z = tgt /\ path_valid es p = true /\
  (forall v, In v via -> In v p) /\ (forall v, In v avoid -> ~ In v p).
Proof. exact path_ok_spec. Qed.
Print Assumptions C08_found_path_spec.
(* the enumeration used to decide "no admissible path exists": it only yields real walks (soundness) ... *)
Theorem C08_enumerated_paths_valid : forall fuel es cur tgt visited p, In p (simple_paths fuel es cur tgt visited) ->
  hd (-1)%Z p = cur /\ last p (-1)%Z = tgt /\ path_valid es p = true.
Proof. exact simple_paths_valid. Qed.
Print Assumptions C08_enumerated_paths_valid.
(* ... it yields EVERY simple walk from cur to tgt that fits the fuel (completeness) ... *)
Theorem C08_enumerated_paths_complete : forall fuel es cur tgt visited p,
  hd (-1)%Z p = cur -> p <> [] -> last p (-1)%Z = tgt -> path_valid es p = true -> NoDup p ->
  (forall v, In v p -> ~ In v visited) -> (length p <= fuel)%nat ->
  In p (simple_paths fuel es cur tgt visited).
Proof. exact simple_paths_complete. Qed.
Print Assumptions C08_enumerated_paths_complete.
(* ... so "an admissible bridging path exists" is decided exactly *)
Theorem C08_admissible_exists_iff : forall es nodes src tgt via avoid,
  admissible_exists es nodes src tgt via avoid = true <->
  exists p, (length p <= S nodes)%nat /\ path_ok es src tgt via avoid p = true.
Proof. exact admissible_exists_iff. Qed.
Print Assumptions C08_admissible_exists_iff.

(* negated sequences: inverses of the members in reverse order undo the sequence (and the order matters) *)
Theorem C08_negated_sequence_is_inverse : forall (P : Type) (inv : (P -> P) -> (P -> P)) (fs : list (P -> P)),
  (forall f, In f fs -> forall p, inv f (f p) = p) -> forall p, compose_all (neg_seq inv fs) (compose_all fs p) = p.
Proof. intros P. exact (@neg_seq_inverse P). Qed.
Print Assumptions C08_negated_sequence_is_inverse.
