(* C09 — results are independent of cores, job partitioning and completion order. *)
From Coq Require Import List Arith Bool Permutation.
Import ListNotations.
From Navis Require Import model.JobGrid proofs.JobGridProofs.

(* np.array_split: the chunks, in order, are exactly 0..n-1, and there are k of them *)
Theorem C09_array_split_concat : forall n k, (1 <= k)%nat -> concat (array_split n k) = seq 0 n.
Proof. exact array_split_concat. Qed.
Print Assumptions C09_array_split_concat.
Theorem C09_array_split_count : forall n k, length (array_split n k) = k.
Proof. exact array_split_count. Qed.
Print Assumptions C09_array_split_count.

(* the block a job computes from its job-local indices is the score of the right global (query, target) pair *)
Theorem C09_block_is_global_score : forall V (F : nat -> nat -> V) (j : job) i k a b,
  pos i (fst j) = Some a -> pos k (snd j) = Some b -> block F j a b = F i k.
Proof. intros V. exact (@block_is_global_score V). Qed.
Print Assumptions C09_block_is_global_score.

(* for EVERY rows x cols partition (any sizes, also not dividing the list lengths, also more jobs than neurons) and
   EVERY order in which jobs complete, the assembled matrix is the direct score matrix *)
Theorem C09_assemble_any_order : forall V (F : nat -> nat -> V) nq nt rows cols (jobs : list job) i k,
  (1 <= rows)%nat -> (1 <= cols)%nat -> Permutation jobs (grid nq nt rows cols) ->
  (i < nq)%nat -> (k < nt)%nat -> assemble F jobs i k = Some (F i k).
Proof. intros V. exact (@assemble_any_order V). Qed.
Print Assumptions C09_assemble_any_order.
Theorem C09_nothing_else_written : forall V (F : nat -> nat -> V) jobs i k,
  assemble F jobs i k = None \/ assemble F jobs i k = Some (F i k).
Proof. intros V. exact (@assemble_none_outside V). Qed.
Print Assumptions C09_nothing_else_written.
(* all-by-all: equal job-local indices denote the same neuron (the self-hit shortcut is sound) *)
Theorem C09_allbyall_local_indices_injective : forall l x y a, NoDup l -> pos x l = Some a -> pos y l = Some a -> x = y.
Proof. exact ixmap_injective. Qed.
Print Assumptions C09_allbyall_local_indices_injective.

(* mapping over a NeuronList: chunked (parallel, order-preserving pool) = serial for every chunk size *)
Theorem C09_parallel_eq_serial : forall A B (f : A -> B) size (l : list A), map_chunked f size l = map f l.
Proof. intros A B. exact (@map_chunked_eq_map A B). Qed.
Print Assumptions C09_parallel_eq_serial.
Theorem C09_omit_failures_removes_only_failed : forall A B (f : A -> option B) l y,
  In y (map_omit f l) <-> exists x, In x l /\ f x = Some y.
Proof. intros A B. exact (@map_omit_spec A B). Qed.
Print Assumptions C09_omit_failures_removes_only_failed.
Theorem C09_no_failure_no_change : forall A B (f : A -> option B) (g : A -> B) l,
  (forall x, In x l -> f x = Some (g x)) -> map_omit f l = map g l.
Proof. intros A B. exact (@map_omit_all_ok A B). Qed.
Print Assumptions C09_no_failure_no_change.
Theorem C09_args_matched_by_position : forall A B C (f : A -> B -> C) l args i da db dc,
  length l = length args -> (i < length l)%nat -> nth i (map_zipped f l args) dc = f (nth i l da) (nth i args db).
Proof. intros A B C. exact (@map_zipped_nth A B C). Qed.
Print Assumptions C09_args_matched_by_position.
