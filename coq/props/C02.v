(* C02 — derived views always agree with the current node table. *)
From Coq Require Import List String Bool Arith.
Import ListNotations.
From Navis Require Import model.Cache proofs.CacheProofs gen.Gen_Cache proofs.CacheObl.

(* the generated facts about /repo's current source satisfy every obligation (recomputed on every run) *)
Theorem C02_source_meets_obligations : obligations = true.
Proof. exact source_meets_obligations. Qed.
Print Assumptions C02_source_meets_obligations.

(* for every history, every cached view read while unlocked is built from the current table *)
Theorem C02_read_fresh_current_source : forall (h : list sop) (v : view),
  v < nviews -> lock (run gen_facts (map lower h)) = 0 ->
  snd (do_read gen_facts v (run gen_facts (map lower h))) = ver (run gen_facts (map lower h)).
Proof. exact read_fresh_current_source. Qed.
Print Assumptions C02_read_fresh_current_source.

(* the general statement, for any source facts meeting the obligations *)
Theorem C02_read_fresh : forall F h v,
  Forall (excl_ok F) h -> view_ok F v -> lock (run F h) = 0 -> snd (do_read F v (run F h)) = ver (run F h).
Proof. exact read_fresh. Qed.
Print Assumptions C02_read_fresh.

Theorem C02_read_twice : forall F h v w,
  Forall (excl_ok F) h -> view_ok F v -> view_ok F w -> lock (run F h) = 0 ->
  snd (do_read F w (fst (do_read F v (run F h)))) = ver (run F h).
Proof. exact read_twice. Qed.
Print Assumptions C02_read_twice.

(* both obligations are necessary: concrete stale reads when one is dropped *)
Theorem C02_unguarded_view_refuted :
  let s := run F_unguarded7 [Read 7; Lock; Edit; Clear []; Unlock] in
  lock s = 0 /\ snd (do_read F_unguarded7 7 s) <> ver s.
Proof. exact unguarded_view_refuted. Qed.
Print Assumptions C02_unguarded_view_refuted.
Theorem C02_bad_exclude_refuted :
  let s := run F_all [Read 2; Edit; Clear [2]] in lock s = 0 /\ snd (do_read F_all 2 s) <> ver s.
Proof. exact bad_exclude_refuted. Qed.
Print Assumptions C02_bad_exclude_refuted.

Theorem C02_nonvacuous : nviews = 8 /\ List.length clear_sites >= 40.
Proof. exact current_source_nontrivial. Qed.
Print Assumptions C02_nonvacuous.
