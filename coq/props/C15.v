(* C15 — coordinate arithmetic and units keep physical quantities consistent. *)
From Coq Require Import List ZArith QArith Bool.
From Navis Require Import model.Units proofs.UnitsProofs.

Theorem C15_scale_preserves_physical : forall x k kr, nz3 k -> veq3 (phys (nmul x k kr)) (phys x) /\ veq3 (phys_conn (nmul x k kr)) (phys_conn x).
Proof. exact scale_preserves_physical. Qed.
Print Assumptions C15_scale_preserves_physical.
Theorem C15_divide_preserves_physical : forall x k kr, nz3 k -> veq3 (phys (ndiv x k kr)) (phys x) /\ veq3 (phys_conn (ndiv x k kr)) (phys_conn x).
Proof. exact divide_preserves_physical. Qed.
Print Assumptions C15_divide_preserves_physical.
Theorem C15_mul_div_id : forall x k kr, nz3 k -> ~ kr == 0 ->
  let y := ndiv (nmul x k kr) k kr in
  veq3 (node y) (node x) /\ veq3 (conn y) (conn x) /\ radius y == radius x /\ veq3 (units y) (units x).
Proof. exact mul_div_id. Qed.
Print Assumptions C15_mul_div_id.
Theorem C15_add_sub_id : forall x o, let y := nsub (nadd x o) o in
  veq3 (node y) (node x) /\ veq3 (conn y) (conn x) /\ radius y == radius x /\ veq3 (units y) (units x).
Proof. exact add_sub_id. Qed.
Print Assumptions C15_add_sub_id.
Theorem C15_connectors_move_with_nodes_add : forall x o, veq3 (vsub (conn (nadd x o)) (node (nadd x o))) (vsub (conn x) (node x)).
Proof. exact connectors_move_with_nodes_add. Qed.
Print Assumptions C15_connectors_move_with_nodes_add.
Theorem C15_connectors_move_with_nodes_mul : forall x k kr, veq3 (vsub (conn (nmul x k kr)) (node (nmul x k kr))) (vmul (vsub (conn x) (node x)) k).
Proof. exact connectors_move_with_nodes_mul. Qed.
Print Assumptions C15_connectors_move_with_nodes_mul.
Theorem C15_radius_fixed_by_offsets : forall x o, radius (nadd x o) = radius x /\ radius (nsub x o) = radius x.
Proof. exact radius_fixed_by_offsets. Qed.
Print Assumptions C15_radius_fixed_by_offsets.
Theorem C15_convert_units_spec : forall x target, nz3 (units x) -> ~ target == 0 ->
  veq3 (units (convert x target)) (iso target) /\ veq3 (phys (convert x target)) (phys x).
Proof. exact convert_units_spec. Qed.
Print Assumptions C15_convert_units_spec.
Theorem C15_spellings_normalise_equal :
  same_unit 0 1 = true /\ same_unit 0 2 = true /\ same_unit 4 5 = true /\ same_unit 5 6 = true /\ same_unit 6 7 = true /\
  same_unit 4 9 = true /\ same_unit 0 3 = false /\ same_unit 4 8 = false.
Proof. exact spellings_normalise_equal. Qed.
Print Assumptions C15_spellings_normalise_equal.
