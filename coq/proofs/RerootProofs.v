From Coq Require Import List ZArith Bool Lia Arith.
Import ListNotations.
From Navis Require Import model.Forest proofs.ForestWF.
Open Scope Z_scope.

Lemma index_of_Some x l j : index_of x l = Some j -> nth j l (-1) = x /\ (j < length l)%nat.
Proof.
  revert j. induction l as [|y l IH]; simpl; intros j H; [discriminate|].
  destruct (Z.eqb_spec x y) as [E|E].
  - inversion H; subst. split; [reflexivity|lia].
  - destruct (index_of x l) as [k|] eqn:Ei; simpl in H; [|discriminate].
    inversion H; subst. destruct (IH k eq_refl). split; [assumption|lia].
Qed.

Lemma index_of_In x l : In x l -> exists j, index_of x l = Some j.
Proof.
  induction l as [|y l IH]; simpl; intros H; [contradiction|].
  destruct (Z.eqb_spec x y) as [E|E]; [eauto|].
  destruct H as [H|H]; [congruence|]. destruct (IH H) as [j ->]. simpl. eauto.
Qed.

Lemma index_of_notin x l : ~ In x l -> index_of x l = None.
Proof.
  induction l as [|y l IH]; simpl; intros H; [reflexivity|].
  destruct (Z.eqb_spec x y) as [E|E]; [exfalso; apply H; left; congruence|].
  rewrite IH; [reflexivity|]. intro. apply H. right. assumption.
Qed.

Lemma index_of_nth l : NoDup l -> forall j, (j < length l)%nat -> index_of (nth j l (-1)) l = Some j.
Proof.
  induction 1 as [|y l Hn Hd IH]; simpl; intros j Hj; [lia|].
  destruct j as [|j].
  - rewrite Z.eqb_refl. reflexivity.
  - destruct (Z.eqb_spec (nth j l (-1)) y) as [E|E].
    + exfalso. apply Hn. rewrite <- E. apply nth_In. lia.
    + rewrite IH by lia. reflexivity.
Qed.

(* first element of chain c that lies on path p : (index on p, position in c) *)
Fixpoint first_hit (p c : list Z) : option (nat * nat) :=
  match c with
  | [] => None
  | y :: c' => match index_of y p with
               | Some j => Some (j, O)
               | None => match first_hit p c' with
                         | Some (j, d) => Some (j, S d)
                         | None => None
                         end
               end
  end.

Definition rk_new (t : table) (p : list Z) (rk : Z -> nat) (x : Z) : nat :=
  match first_hit p (anc t x) with
  | Some (j, d) => (j + d)%nat
  | None => rk x
  end.

Lemma ids_reroot_rows p t : ids (reroot_rows p t) = ids t.
Proof.
  unfold ids, reroot_rows. rewrite map_map. apply map_ext. intros r. unfold reroot_row.
  destruct (index_of (rid r) p) as [[|j]|]; reflexivity.
Qed.

Lemma anc_step t r : WF t -> In r t -> 0 <= rpar r -> anc t (rid r) = rid r :: anc t (rpar r).
Proof.
  intros Hwf Hr Hpos. assert (Hwf' := Hwf). destruct Hwf' as [Hnd Hnn Hcl Hac].
  assert (Hp : In (rpar r) (ids t)) by (apply Hcl; assumption).
  destruct (In_ids_row _ _ Hp) as [q [Hq Eq]].
  destruct (Path_total t Hwf q Hq) as [l Hl]. rewrite Eq in Hl.
  rewrite (anc_Path t _ _ Hwf Hl).
  apply (anc_Path t _ _ Hwf). apply Path_step; assumption.
Qed.

Lemma anc_head t r : WF t -> In r t -> exists l, anc t (rid r) = rid r :: l.
Proof.
  intros Hwf Hr. destruct (Path_total t Hwf r Hr) as [l Hl].
  rewrite (anc_Path t _ _ Hwf Hl). apply Path_head in Hl. exact Hl.
Qed.

Theorem reroot_wf t r0 : WF t -> In r0 t -> WF (reroot (rid r0) t).
Proof.
  intros Hwf Hr0. assert (Hwf' := Hwf). destruct Hwf' as [Hnd Hnn Hcl [rk Hrk]].
  destruct (Path_total t Hwf r0 Hr0) as [p Hp].
  unfold reroot. rewrite (anc_Path t _ _ Hwf Hp).
  assert (Hpn : NoDup p) by (eapply Path_NoDup; eassumption).
  assert (Hpi : incl p (ids t)) by (eapply Path_incl; eassumption).
  constructor.
  - rewrite ids_reroot_rows. exact Hnd.
  - intros r Hr. unfold reroot_rows in Hr. apply in_map_iff in Hr. destruct Hr as [q [E Hq]].
    subst r. unfold reroot_row. destruct (index_of (rid q) p) as [[|j]|]; simpl; apply Hnn; exact Hq.
  - intros r Hr Hpos. rewrite ids_reroot_rows. unfold reroot_rows in Hr. apply in_map_iff in Hr.
    destruct Hr as [q [E Hq]]. subst r. unfold reroot_row in *.
    destruct (index_of (rid q) p) as [[|j]|] eqn:Ei; simpl in *.
    + lia.
    + apply Hpi. apply index_of_Some in Ei. destruct Ei as [_ Hlen]. apply nth_In. lia.
    + apply Hcl; assumption.
  - exists (rk_new t p rk). intros r Hr Hpos. unfold reroot_rows in Hr. apply in_map_iff in Hr.
    destruct Hr as [q [E Hq]]. subst r. unfold reroot_row in *.
    destruct (index_of (rid q) p) as [[|j]|] eqn:Ei; simpl in *.
    + lia.
    + (* q = p_{j+1}, new parent p_j *)
      destruct (index_of_Some _ _ _ Ei) as [En Hlen].
      assert (Hj : (j < length p)%nat) by lia.
      set (y := nth j p (-1)).
      assert (Hy : In y (ids t)) by (apply Hpi; apply nth_In; lia).
      destruct (In_ids_row _ _ Hy) as [ry [Hry Ey]].
      unfold rk_new.
      destruct (anc_head t ry Hwf Hry) as [ly Ely]. rewrite Ey in Ely. rewrite Ely.
      destruct (anc_head t q Hwf Hq) as [lq Elq]. rewrite Elq.
      simpl. unfold y at 1. rewrite (index_of_nth p Hpn j Hj). rewrite Ei. lia.
    + (* q not on the path: parent unchanged *)
      unfold rk_new. rewrite (anc_step t q Hwf Hq Hpos). simpl. rewrite Ei.
      destruct (first_hit p (anc t (rpar q))) as [[j d]|].
      * lia.
      * apply Hrk; assumption.
Qed.

(* ================= reroot changes orientation only (C10) ================= *)
Lemma edges_In t a b : In (a, b) (edges t) <-> exists q, In q t /\ rid q = a /\ rpar q = b /\ 0 <= b.
Proof.
  unfold edges. rewrite in_map_iff. split.
  - intros [q [E H]]. apply filter_In in H. destruct H as [H1 H2]. inversion E; subst.
    exists q. unfold is_root in H2. apply negb_true_iff in H2. apply Z.ltb_ge in H2. auto.
  - intros [q [H1 [H2 [H3 H4]]]]. exists q. subst. split; [reflexivity|]. apply filter_In. split; [assumption|].
    unfold is_root. apply negb_true_iff. apply Z.ltb_ge. assumption.
Qed.

Lemma last_nth_cons (x : Z) l d : last (x :: l) d = nth (length l) (x :: l) d.
Proof.
  revert x. induction l as [|y l IH]; intros x; [reflexivity|].
  change (last (x :: y :: l) d) with (last (y :: l) d). rewrite IH. reflexivity.
Qed.

Definition und_edge (t : table) (a b : Z) : Prop := In (a, b) (edges t) \/ In (b, a) (edges t).

Lemma Path_nth t x l : Path t x l -> forall i, (S i < length l)%nat ->
  exists q, In q t /\ rid q = nth i l (-1) /\ rpar q = nth (S i) l (-1) /\ 0 <= rpar q.
Proof.
  induction 1 as [r Hr Hneg | r l Hr Hpos Hp IH]; intros i Hi; simpl in Hi; [lia|].
  destruct i as [|i].
  - exists r. simpl. destruct (Path_head _ _ _ Hp) as [l' ->]. simpl. auto.
  - destruct (IH i ltac:(lia)) as [q Hq]. exists q. exact Hq.
Qed.

Lemma Path_last_root t x l : Path t x l -> exists q, In q t /\ rid q = last l (-1) /\ rpar q < 0.
Proof.
  induction 1 as [r Hr Hneg | r l Hr Hpos Hp IH].
  - exists r. simpl. auto.
  - destruct IH as [q Hq]. exists q. destruct (Path_head _ _ _ Hp) as [l' ->]. exact Hq.
Qed.

Lemma reroot_rows_In p t q' : In q' (reroot_rows p t) <-> exists q, In q t /\ q' = reroot_row p q.
Proof. unfold reroot_rows. rewrite in_map_iff. split; intros [q [H1 H2]]; exists q; auto. Qed.

Lemma rid_reroot_row p q : rid (reroot_row p q) = rid q.
Proof. unfold reroot_row. destruct (index_of (rid q) p) as [[|j]|]; reflexivity. Qed.

Lemma rdat_reroot_row p q : rdat (reroot_row p q) = rdat q.
Proof. unfold reroot_row. destruct (index_of (rid q) p) as [[|j]|]; reflexivity. Qed.

Lemma row_eq_by_id t q1 q2 : NoDup (ids t) -> In q1 t -> In q2 t -> rid q1 = rid q2 -> q1 = q2.
Proof.
  intros Hnd H1 H2 E. assert (A := lookup_NoDup t q1 Hnd H1). assert (B := lookup_NoDup t q2 Hnd H2).
  rewrite E in A. rewrite A in B. inversion B. reflexivity.
Qed.

Theorem reroot_und_edges t r0 a b : WF t -> In r0 t ->
  (und_edge t a b <-> und_edge (reroot (rid r0) t) a b).
Proof.
  intros Hwf Hr0. assert (Hwf' := Hwf). destruct Hwf' as [Hnd Hnn Hcl _].
  destruct (Path_total t Hwf r0 Hr0) as [p Hp].
  unfold reroot. rewrite (anc_Path t _ _ Hwf Hp).
  assert (Hpn : NoDup p) by (eapply Path_NoDup; eassumption).
  assert (Hpi : incl p (ids t)) by (eapply Path_incl; eassumption).
  (* one direction for a single oriented edge, old -> new *)
  assert (Fwd : forall a b, In (a, b) (edges t) -> und_edge (reroot_rows p t) a b).
  { clear a b. intros a b H. apply edges_In in H. destruct H as [q [Hq [Ea [Eb Hb]]]].
    destruct (index_of a p) as [i|] eqn:Ei.
    - (* a = p_i, b = p_{i+1}: the edge is reversed *)
      destruct (index_of_Some _ _ _ Ei) as [En Hlen].
      assert (HSi : (S i < length p)%nat).
      { destruct (Nat.lt_ge_cases (S i) (length p)) as [L|L]; [exact L|]. exfalso.
        destruct (Path_last_root _ _ _ Hp) as [qr [Hqr [Eqr Hneg]]].
        destruct p as [|x0 p']; [simpl in Hlen; lia|].
        rewrite last_nth_cons in Eqr. simpl in L, Hlen. assert (i = length p') by lia. subst i.
        rewrite En in Eqr. assert (qr = q) by (apply (row_eq_by_id t); congruence). subst. lia. }
      destruct (Path_nth _ _ _ Hp i HSi) as [q1 [Hq1 [E1 [E2 _]]]].
      assert (q1 = q) by (apply (row_eq_by_id t); congruence). subst q1.
      (* the row of b = p_{i+1} now points at a = p_i *)
      assert (Hb_in : In b (ids t)) by (rewrite <- Eb; apply (Hcl q); [exact Hq|lia]).
      destruct (In_ids_row _ _ Hb_in) as [qb [Hqb Eqb]].
      right. apply edges_In. exists (reroot_row p qb). split; [apply reroot_rows_In; exists qb; auto|].
      rewrite rid_reroot_row. split; [exact Eqb|].
      unfold reroot_row. rewrite Eqb, <- Eb, E2. rewrite (index_of_nth p Hpn (S i) HSi). simpl.
      rewrite En. split; [reflexivity|]. rewrite <- Ea. apply Hnn. exact Hq.
    - left. apply edges_In. exists q. split; [|auto]. apply reroot_rows_In. exists q. split; [exact Hq|].
      unfold reroot_row. rewrite Ea, Ei. reflexivity. }
  assert (Bwd : forall a b, In (a, b) (edges (reroot_rows p t)) -> und_edge t a b).
  { clear a b. intros a b H. apply edges_In in H. destruct H as [q' [Hq' [Ea [Eb Hb]]]].
    apply reroot_rows_In in Hq'. destruct Hq' as [q [Hq ->]]. rewrite rid_reroot_row in Ea.
    unfold reroot_row in Eb, Hb. destruct (index_of (rid q) p) as [[|j]|] eqn:Ei; simpl in Eb, Hb.
    - lia.
    - destruct (index_of_Some _ _ _ Ei) as [En Hlen].
      destruct (Path_nth _ _ _ Hp j Hlen) as [q1 [Hq1 [E1 [E2 Hpos]]]].
      right. apply edges_In. exists q1. repeat split; try assumption; congruence.
    - left. apply edges_In. exists q. auto. }
  unfold und_edge. split; intros [H|H].
  - apply Fwd. exact H.
  - destruct (Fwd _ _ H) as [H'|H']; [right|left]; exact H'.
  - apply Bwd. exact H.
  - destruct (Bwd _ _ H) as [H'|H']; [right|left]; exact H'.
Qed.

(* node set, row order and payload (coordinates, radius, ...) are untouched *)
Theorem reroot_keeps_rows t r : ids (reroot r t) = ids t /\ map rdat (reroot r t) = map rdat t.
Proof.
  unfold reroot. split; [apply ids_reroot_rows|].
  unfold reroot_rows. rewrite map_map. apply map_ext. intros q. apply rdat_reroot_row.
Qed.

(* the requested node becomes a root *)
Theorem reroot_makes_root t r0 q : WF t -> In r0 t -> In q (reroot (rid r0) t) -> rid q = rid r0 -> rpar q = -1.
Proof.
  intros Hwf Hr0 Hq E. unfold reroot in Hq. apply reroot_rows_In in Hq. destruct Hq as [q0 [Hq0 ->]].
  rewrite rid_reroot_row in E.
  destruct (anc_head t r0 Hwf Hr0) as [l El]. unfold reroot_row. rewrite El, E. simpl. rewrite Z.eqb_refl. reflexivity.
Qed.

(* rows off the path from the new root to the old root -- in particular every other fragment -- are identical *)
Theorem reroot_off_path_untouched t r q : In q t -> ~ In (rid q) (anc t r) -> In q (reroot r t).
Proof.
  intros Hq Hn. unfold reroot. apply reroot_rows_In. exists q. split; [exact Hq|].
  unfold reroot_row. rewrite (index_of_notin _ _ Hn). reflexivity.
Qed.

(* rerooting at a node that is already a root changes nothing *)
Theorem reroot_root_noop t r0 : WF t -> In r0 t -> rpar r0 = -1 -> reroot (rid r0) t = t.
Proof.
  intros Hwf Hr0 Hroot. destruct Hwf as [Hnd Hnn Hcl Hac] eqn:EW.
  assert (Hp : Path t (rid r0) [rid r0]) by (constructor; [exact Hr0|lia]).
  unfold reroot. rewrite (anc_Path t _ _ Hwf Hp).
  unfold reroot_rows. rewrite <- (map_id t) at 2. apply map_ext_in. intros q Hq.
  unfold reroot_row. simpl. destruct (Z.eqb_spec (rid q) (rid r0)) as [E|E]; [|reflexivity].
  assert (q = r0) by (apply (row_eq_by_id t); assumption). subst q. clear - Hroot. destruct r0 as [i pp d]. unfold set_par. simpl in *. rewrite Hroot. reflexivity.
Qed.
