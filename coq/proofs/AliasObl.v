From Coq Require Import List String Bool Arith.
Import ListNotations.
From Navis Require Import model.Alias proofs.AliasProofs gen.Gen_Alias.
Open Scope string_scope.

(* ---- obligations on the CURRENT source, as extracted by translate/alias.py into gen/Gen_Alias.v ---- *)

(* attributes that hold containers of mutable elements (model knowledge; the correspondence run reports any other it finds) *)
Definition containers : list (string * list string) := [("TreeNeuron", ["tags"])].

Definition policy_of (cls a : string) : policy :=
  match find (fun c => String.eqb (fst (fst c)) cls) copy_policies with
  | Some (_, dflt, ovr) => match find (fun o => String.eqb (fst o) a) ovr with Some (_, p) => p | None => dflt end
  | None => Shallow
  end.
Definition is_deep (p : policy) : bool := match p with Deep => true | Shallow => false end.
Definition policies_ok : bool :=
  forallb (fun c => forallb (fun a => is_deep (policy_of (fst c) a)) (snd c)) containers
  && forallb (fun cls => existsb (fun c => String.eqb (fst (fst c)) cls) copy_policies) ["BaseNeuron"; "TreeNeuron"; "Dotprops"; "MeshNeuron"; "VoxelNeuron"].

Definition expected_shape (n : string) : option shape := option_map snd (find (fun e => String.eqb (fst e) n) expected).
(* every catalogued function has a sound shape, except the ones that were already unclassifiable when the framework was built *)
Definition catalogue_ok : bool :=
  forallb (fun e => shape_sound (snd e) || match expected_shape (fst e) with Some Unknown => true | _ => false end) catalogue
  && Nat.leb 100 (List.length catalogue).

Lemma policies_ok_holds : policies_ok = true.
Proof. vm_compute. reflexivity. Qed.
Lemma catalogue_ok_holds : catalogue_ok = true.
Proof. vm_compute. reflexivity. Qed.

(* what the obligation buys: a neuron whose only container attributes are the listed ones is copied with deep_boxes *)
Theorem listed_containers_deep (s : store) (pol : attr -> policy) (x : neuron) (listed : list attr) :
  (forall a, In a listed -> pol a = Deep) ->
  (forall a r es, In (a, r) x -> cellof s r = Some (Box es) -> In a listed) ->
  deep_boxes s pol x.
Proof.
  intros Hd Hl. unfold deep_boxes. apply Forall_forall. intros [a r] Hin es E. cbn [fst snd] in *. apply Hd. exact (Hl a r es Hin E).
Qed.
