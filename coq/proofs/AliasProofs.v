From Coq Require Import List ZArith Bool Arith Lia.
Import ListNotations.
From Navis Require Import model.Alias.

(* ---------------- basic facts ---------------- *)
Lemma upd_cell s r c r' : cellof (upd s r c) r' = if Nat.eqb r' r then Some c else cellof s r'.
Proof. reflexivity. Qed.
Lemma alloc_cell s c r' : cellof (fst (alloc s c)) r' = if Nat.eqb r' (next s) then Some c else cellof s r'.
Proof. reflexivity. Qed.
Lemma alloc_next s c : next (fst (alloc s c)) = S (next s) /\ snd (alloc s c) = next s.
Proof. split; reflexivity. Qed.

Lemma bounded_lt s r : bounded s -> cellof s r <> None -> r < next s.
Proof. intros Hb Hc. destruct (le_lt_dec (next s) r) as [H|H]; [|exact H]. exfalso. apply Hc, Hb, H. Qed.
Lemma bounded_alloc s c : bounded s -> bounded (fst (alloc s c)).
Proof.
  intros Hb r Hr. rewrite alloc_cell. cbn [next fst alloc] in Hr.
  destruct (Nat.eqb_spec r (next s)); [lia|]. apply Hb. lia.
Qed.
Lemma bounded_upd s r c : bounded s -> cellof s r <> None -> bounded (upd s r c).
Proof.
  intros Hb Hc r' Hr. rewrite upd_cell. cbn [next upd] in Hr.
  pose proof (bounded_lt s r Hb Hc). destruct (Nat.eqb_spec r' r); [lia|]. apply Hb. exact Hr.
Qed.

Lemma viewof_eq s s' r r' : cellof s' r' = cellof s r -> viewof s' r' = viewof s r.
Proof. unfold viewof. intros ->. reflexivity. Qed.
Lemma viewof_none s r : viewof s r = None <-> cellof s r = None.
Proof. unfold viewof. destruct (cellof s r) as [[v|es]|]; split; congruence. Qed.

Lemma lookup_rebind y a r b :
  lookup (rebind y a r) b = if Nat.eqb b a then (match lookup y a with Some _ => Some r | None => None end) else lookup y b.
Proof.
  induction y as [|[a' r'] t IH]; cbn [rebind lookup].
  - destruct (Nat.eqb b a); reflexivity.
  - destruct (Nat.eqb_spec a' a) as [Ea|Ea]; cbn [lookup].
    + subst a'. destruct (Nat.eqb_spec b a) as [Eb|Eb].
      * subst b. rewrite Nat.eqb_refl. reflexivity.
      * destruct (Nat.eqb_spec a b); [congruence | reflexivity].
    + rewrite IH. destruct (Nat.eqb_spec a' b) as [Eb|Eb].
      * subst b. destruct (Nat.eqb_spec a' a); [congruence | reflexivity].
      * reflexivity.
Qed.

Lemma path_eqb_eq p q : path_eqb p q = true <-> p = q.
Proof.
  destruct p as [a|a k], q as [b|b j]; cbn [path_eqb]; try (split; congruence).
  - rewrite Nat.eqb_eq. split; congruence.
  - rewrite andb_true_iff, Nat.eqb_eq, Z.eqb_eq. split; [intros [-> ->]; reflexivity | intros H; inversion H; auto].
Qed.

(* the observation through x only depends on the cells reachable from x *)
Lemma top_reach s x a r : lookup x a = Some r -> Reach s x r.
Proof. intros H. exists (PTop a). exact H. Qed.

Lemma frame_general s s' x :
  (forall r, Reach s x r -> cellof s' r = cellof s r) ->
  (forall p, pathref s' x p = pathref s x p) /\ (forall p, obsp s' x p = obsp s x p).
Proof.
  intros H.
  assert (Hp : forall p, pathref s' x p = pathref s x p).
  { intros [a|a k]; cbn [pathref]; [reflexivity|]. destruct (lookup x a) as [r|] eqn:E; [|reflexivity].
    rewrite (H r (top_reach s x a r E)). reflexivity. }
  split; [exact Hp|]. intros p. unfold obsp. rewrite Hp. destruct (pathref s x p) as [r|] eqn:E; [|reflexivity].
  apply viewof_eq, H. exists p. exact E.
Qed.

Lemma valid_lt s x p r : bounded s -> Valid s x -> pathref s x p = Some r -> r < next s.
Proof. intros Hb Hv H. apply bounded_lt; [exact Hb | exact (Hv p r H)]. Qed.

(* ---------------- one operation through y ---------------- *)
Record step_facts (s : store) (y : neuron) (s' : store) (y' : neuron) : Prop := {
  sf_next : next s <= next s';
  sf_bounded : bounded s';
  sf_reach : forall r, Reach s' y' r -> Reach s y r \/ next s <= r;
  sf_cells : forall r, ~ Reach s y r -> r < next s -> cellof s' r = cellof s r
}.

Lemma pathref_upd_flat s x r v0 v p : cellof s r = Some (Flat v0) -> pathref (upd s r (Flat v)) x p = pathref s x p.
Proof.
  intros Hc. destruct p as [a|a k]; cbn [pathref]; [reflexivity|].
  destruct (lookup x a) as [r0|]; [|reflexivity]. rewrite upd_cell.
  destruct (Nat.eqb_spec r0 r) as [->|]; [rewrite Hc|]; reflexivity.
Qed.

Lemma write_cell_facts s y r v0 v : Inv s y -> Reach s y r -> cellof s r = Some (Flat v0) ->
  Inv (upd s r (Flat v)) y /\ step_facts s y (upd s r (Flat v)) y /\
  (forall p, obsp (upd s r (Flat v)) y p = match pathref s y p with Some r' => if Nat.eqb r' r then Some (VFlat v) else viewof s r' | None => None end).
Proof.
  intros [Hb [Hv Hn]] Hr Hc.
  assert (Hp : forall p, pathref (upd s r (Flat v)) y p = pathref s y p) by (intros p; apply pathref_upd_flat with v0; exact Hc).
  assert (Hne : cellof s r <> None) by congruence.
  split; [|split].
  - split; [apply bounded_upd; assumption|]. split.
    + intros p r' H. rewrite Hp in H. rewrite upd_cell. destruct (Nat.eqb r' r); [discriminate | exact (Hv p r' H)].
    + intros p q r' H1 H2. rewrite Hp in H1, H2. exact (Hn p q r' H1 H2).
  - constructor.
    + cbn [next upd]. lia.
    + apply bounded_upd; assumption.
    + intros r' [p H]. rewrite Hp in H. left. exists p. exact H.
    + intros r' Hnr _. rewrite upd_cell. destruct (Nat.eqb_spec r' r) as [->|]; [contradiction | reflexivity].
  - intros p. unfold obsp. rewrite Hp. destruct (pathref s y p) as [r'|]; [|reflexivity].
    unfold viewof at 1. rewrite upd_cell. destruct (Nat.eqb r' r); reflexivity.
Qed.

Lemma pathref_rebind s y a r0 v : bounded s -> Valid s y -> lookup y a = Some r0 ->
  forall p, pathref (fst (alloc s (Flat v))) (rebind y a (next s)) p =
            match p with
            | PTop b => if Nat.eqb b a then Some (next s) else pathref s y p
            | PElem b _ => if Nat.eqb b a then None else pathref s y p
            end.
Proof.
  intros Hb Hv Ha [b|b k]; cbn [pathref]; rewrite lookup_rebind, Ha.
  - reflexivity.
  - destruct (Nat.eqb_spec b a) as [->|Hne].
    + rewrite alloc_cell, Nat.eqb_refl. reflexivity.
    + destruct (lookup y b) as [r|] eqn:E; [|reflexivity]. rewrite alloc_cell.
      pose proof (valid_lt s y (PTop b) r Hb Hv E) as Hlt.
      destruct (Nat.eqb_spec r (next s)); [lia | reflexivity].
Qed.

Lemma step_ok s y o s' y' : Inv s y -> step s y o = (s', y') ->
  Inv s' y' /\ step_facts s y s' y' /\ (forall p, obsp s' y' p = ostep o (obsp s y) p).
Proof.
  intros HI Hs. pose proof HI as [Hb [Hv Hn]].
  assert (Hid : Inv s y /\ step_facts s y s y).
  { split; [exact HI|]. constructor; [lia | exact Hb | intros r H; left; exact H | reflexivity]. }
  destruct o as [a v|a k v|a v]; cbn [step] in Hs.
  - (* OWrite *)
    destruct (lookup y a) as [r|] eqn:El.
    + destruct (cellof s r) as [[v0|es]|] eqn:Ec; try (inversion Hs; subst; destruct Hid; split; [assumption|split; [assumption|]];
        intros p; cbn [ostep]; unfold obsp at 2; cbn [pathref]; rewrite El; unfold viewof; rewrite Ec; cbn [is_flat]; rewrite andb_false_r; reflexivity).
      inversion Hs; subst.
      destruct (write_cell_facts s y' r v0 v HI (top_reach s y' a r El) Ec) as [H1 [H2 H3]].
      split; [exact H1|]. split; [exact H2|]. intros p. rewrite H3. cbn [ostep].
      assert (Hf : is_flat (obsp s y' (PTop a)) = true) by (unfold obsp; cbn [pathref]; rewrite El; unfold viewof; rewrite Ec; reflexivity).
      rewrite Hf, andb_true_r.
      destruct (path_eqb p (PTop a)) eqn:Ep.
      * apply path_eqb_eq in Ep. subst p. cbn [pathref]. rewrite El, Nat.eqb_refl. reflexivity.
      * unfold obsp. destruct (pathref s y' p) as [r'|] eqn:Er; [|reflexivity].
        destruct (Nat.eqb_spec r' r) as [->|]; [|reflexivity].
        assert (p = PTop a) by (apply (Hn p (PTop a) r Er El)). subst p.
        assert (path_eqb (PTop a) (PTop a) = true) by (apply path_eqb_eq; reflexivity). congruence.
    + inversion Hs; subst. destruct Hid. split; [assumption|split; [assumption|]].
      intros p. cbn [ostep]. unfold obsp at 2. cbn [pathref]. rewrite El. cbn [is_flat]. rewrite andb_false_r. reflexivity.
  - (* OWriteElem *)
    destruct (pathref s y (PElem a k)) as [r|] eqn:El.
    + destruct (cellof s r) as [[v0|es]|] eqn:Ec; try (inversion Hs; subst; destruct Hid; split; [assumption|split; [assumption|]];
        intros p; cbn [ostep]; unfold obsp at 2; rewrite El; unfold viewof; rewrite Ec; cbn [is_flat]; rewrite andb_false_r; reflexivity).
      inversion Hs; subst.
      assert (Hr : Reach s y' r) by (exists (PElem a k); exact El).
      destruct (write_cell_facts s y' r v0 v HI Hr Ec) as [H1 [H2 H3]].
      split; [exact H1|]. split; [exact H2|]. intros p. rewrite H3. cbn [ostep].
      assert (Hf : is_flat (obsp s y' (PElem a k)) = true) by (unfold obsp; rewrite El; unfold viewof; rewrite Ec; reflexivity).
      rewrite Hf, andb_true_r.
      destruct (path_eqb p (PElem a k)) eqn:Ep.
      * apply path_eqb_eq in Ep. subst p. rewrite El, Nat.eqb_refl. reflexivity.
      * unfold obsp. destruct (pathref s y' p) as [r'|] eqn:Er; [|reflexivity].
        destruct (Nat.eqb_spec r' r) as [->|]; [|reflexivity].
        assert (p = PElem a k) by (apply (Hn p (PElem a k) r Er El)). subst p.
        assert (path_eqb (PElem a k) (PElem a k) = true) by (apply path_eqb_eq; reflexivity). congruence.
    + inversion Hs; subst. destruct Hid. split; [assumption|split; [assumption|]].
      intros p. cbn [ostep]. unfold obsp at 2. rewrite El. cbn [is_flat]. rewrite andb_false_r. reflexivity.
  - (* ORebind *)
    destruct (lookup y a) as [r0|] eqn:El.
    + inversion Hs; subst. clear Hs.
      pose proof (pathref_rebind s y a r0 v Hb Hv El) as Hp.
      set (s' := fst (alloc s (Flat v))) in *. change (mkStore _ _) with s'.
      assert (Hb' : bounded s') by (apply bounded_alloc; exact Hb).
      assert (Hold : forall r, r < next s -> cellof s' r = cellof s r).
      { intros r Hr. unfold s'. rewrite alloc_cell. destruct (Nat.eqb_spec r (next s)); [lia | reflexivity]. }
      assert (Hnew : cellof s' (next s) = Some (Flat v)) by (unfold s'; rewrite alloc_cell, Nat.eqb_refl; reflexivity).
      assert (Hcase : forall p r, pathref s' (rebind y a (next s)) p = Some r ->
                                  (r = next s /\ p = PTop a) \/ (r < next s /\ pathref s y p = Some r /\ match p with PTop b | PElem b _ => b <> a end)).
      { intros p r H. rewrite Hp in H. destruct p as [b|b k]; destruct (Nat.eqb_spec b a) as [->|Hne]; try discriminate.
        - left. split; congruence.
        - right. split; [apply (valid_lt s y _ r Hb Hv H) | split; [exact H | exact Hne]].
        - right. split; [apply (valid_lt s y _ r Hb Hv H) | split; [exact H | exact Hne]]. }
      split; [|split].
      * split; [exact Hb'|]. split.
        -- intros p r H. destruct (Hcase p r H) as [[-> _]|[Hlt [Ho _]]]; [congruence|]. rewrite Hold by exact Hlt. exact (Hv p r Ho).
        -- intros p q r H1 H2. destruct (Hcase p r H1) as [[E1 ->]|[L1 [O1 _]]], (Hcase q r H2) as [[E2 ->]|[L2 [O2 _]]]; try lia; [reflexivity|].
           exact (Hn p q r O1 O2).
      * constructor.
        -- unfold s'. cbn. lia.
        -- exact Hb'.
        -- intros r [p H]. destruct (Hcase p r H) as [[-> _]|[_ [Ho _]]]; [right; lia | left; exists p; exact Ho].
        -- intros r _ Hr. apply Hold. exact Hr.
      * intros p. cbn [ostep]. unfold obsp at 2. cbn [pathref]. rewrite El.
        assert (Hv0 : viewof s r0 <> None) by (rewrite viewof_none; exact (Hv (PTop a) r0 El)).
        destruct (viewof s r0) as [w|] eqn:Ew; [|congruence].
        unfold obsp. rewrite Hp. destruct p as [b|b k]; destruct (Nat.eqb_spec b a) as [->|Hne].
        -- unfold viewof. rewrite Hnew. reflexivity.
        -- destruct (pathref s y (PTop b)) as [r|] eqn:Er; [|reflexivity]. apply viewof_eq, Hold, (valid_lt s y _ r Hb Hv Er).
        -- reflexivity.
        -- destruct (pathref s y (PElem b k)) as [r|] eqn:Er; [|reflexivity]. apply viewof_eq, Hold, (valid_lt s y _ r Hb Hv Er).
    + inversion Hs; subst. destruct Hid. split; [assumption|split; [assumption|]].
      intros p. cbn [ostep]. unfold obsp at 2. cbn [pathref]. rewrite El. reflexivity.
Qed.

(* ---------------- the bystander x: separation is a frame ---------------- *)
Lemma step_frame s x y s' y' : bounded s -> Valid s x -> Sep s x y -> step_facts s y s' y' ->
  (forall p, obsp s' x p = obsp s x p) /\ Valid s' x /\ Sep s' x y' /\ (forall p, pathref s' x p = pathref s x p).
Proof.
  intros Hb Hv Hsep F.
  assert (Hc : forall r, Reach s x r -> cellof s' r = cellof s r).
  { intros r Hr. apply (sf_cells _ _ _ _ F); [intros Hy; exact (Hsep r Hr Hy)|]. destruct Hr as [p Hp]. exact (valid_lt s x p r Hb Hv Hp). }
  destruct (frame_general s s' x Hc) as [Hp Ho].
  split; [exact Ho|]. split; [|split; [|exact Hp]].
  - intros p r H. rewrite Hp in H. rewrite Hc by (exists p; exact H). exact (Hv p r H).
  - intros r [p H1] H2. rewrite Hp in H1. destruct (sf_reach _ _ _ _ F r H2) as [H3|H3].
    + apply (Hsep r); [exists p; exact H1 | exact H3].
    + pose proof (valid_lt s x p r Hb Hv H1). lia.
Qed.

(* ---------------- any number of operations through y: x is observably unchanged, at every path ---------------- *)
Theorem run_preserves_bystander ops : forall s x y s' y', Inv s y -> Valid s x -> Sep s x y -> run s y ops = (s', y') ->
  (forall p, obsp s' x p = obsp s x p) /\ Valid s' x /\ Sep s' x y' /\ Inv s' y'.
Proof.
  induction ops as [|o t IH]; intros s x y s' y' HI Hv Hsep Hr; cbn [run] in Hr.
  - inversion Hr; subst. auto.
  - destruct (step s y o) as [s1 y1] eqn:Es.
    destruct (step_ok s y o s1 y1 HI Es) as [HI1 [F _]].
    destruct (step_frame s x y s1 y1 (proj1 HI) Hv Hsep F) as [Ho [Hv1 [Hsep1 _]]].
    destruct (IH s1 x y1 s' y' HI1 Hv1 Hsep1 Hr) as [Ho2 [Hv2 [Hsep2 HI2]]].
    split; [intros p; rewrite Ho2; apply Ho | auto].
Qed.

(* ---------------- what the operations do is a function of what is observed ---------------- *)
Lemma ostep_ext o ob ob' : (forall p, ob p = ob' p) -> forall p, ostep o ob p = ostep o ob' p.
Proof. intros H p. destruct o; cbn [ostep]; rewrite ?H; reflexivity. Qed.
Lemma orun_ext ops : forall ob ob', (forall p, ob p = ob' p) -> forall p, orun ops ob p = orun ops ob' p.
Proof. induction ops as [|o t IH]; intros ob ob' H p; cbn [orun]; [apply H|]. apply IH. apply ostep_ext. exact H. Qed.

Theorem run_obs ops : forall s y s' y', Inv s y -> run s y ops = (s', y') -> forall p, obsp s' y' p = orun ops (obsp s y) p.
Proof.
  induction ops as [|o t IH]; intros s y s' y' HI Hr p; cbn [run] in Hr.
  - inversion Hr; subst. reflexivity.
  - destruct (step s y o) as [s1 y1] eqn:Es. destruct (step_ok s y o s1 y1 HI Es) as [HI1 [_ Ho]].
    rewrite (IH s1 y1 s' y' HI1 Hr). cbn [orun]. apply orun_ext. exact Ho.
Qed.

(* in-place on x and not-in-place on a faithful copy y end in the same observable state *)
Theorem inplace_equiv_general ops s1 x s1' x' s2 y s2' y' :
  Inv s1 x -> Inv s2 y -> (forall p, obsp s2 y p = obsp s1 x p) ->
  run s1 x ops = (s1', x') -> run s2 y ops = (s2', y') -> forall p, obsp s2' y' p = obsp s1' x' p.
Proof.
  intros H1 H2 He R1 R2 p. rewrite (run_obs ops s1 x s1' x' H1 R1), (run_obs ops s2 y s2' y' H2 R2). apply orun_ext. exact He.
Qed.

(* ---------------- copy ---------------- *)
Definition cell_good (s : store) (r : ref) : Prop :=
  match cellof s r with
  | Some (Flat _) => True
  | Some (Box es) => forall k r', assoc es k = Some r' -> exists v, cellof s r' = Some (Flat v)
  | None => False
  end.
Definition Good (s : store) (x : neuron) : Prop := Forall (fun ar => cell_good s (snd ar)) x.
(* the policy deep-copies every attribute that currently holds a container *)
Definition deep_boxes (s : store) (pol : attr -> policy) (x : neuron) : Prop :=
  Forall (fun ar => forall es, cellof s (snd ar) = Some (Box es) -> pol (fst ar) = Deep) x.

Lemma cell_good_lt s r : bounded s -> cell_good s r -> r < next s.
Proof. intros Hb Hg. apply bounded_lt; [exact Hb|]. unfold cell_good in Hg. destruct (cellof s r); [discriminate | contradiction]. Qed.

Lemma cell_good_mono s s1 r : bounded s -> (forall r', r' < next s -> cellof s1 r' = cellof s r') -> cell_good s r -> cell_good s1 r.
Proof.
  intros Hb Hold Hg. pose proof (cell_good_lt s r Hb Hg) as Hlt. unfold cell_good in *. rewrite (Hold r Hlt).
  destruct (cellof s r) as [[v|es]|]; [exact I | | contradiction].
  intros k r' Ha. destruct (Hg k r' Ha) as [v Hv]. exists v. rewrite Hold; [exact Hv|]. apply bounded_lt; [exact Hb | congruence].
Qed.

Lemma copy_elems_spec es : forall s s' es', bounded s -> copy_elems s es = (s', es') ->
  bounded s' /\ next s <= next s' /\ (forall r, r < next s -> cellof s' r = cellof s r) /\
  (forall k, assoc es k = None -> assoc es' k = None) /\
  (forall k r, assoc es k = Some r -> r < next s ->
     exists r', assoc es' k = Some r' /\ cellof s' r' = Some (match cellof s r with Some c => c | None => Flat 0 end)) /\
  (forall k r', assoc es' k = Some r' -> next s <= r' < next s') /\
  (forall k k' r', assoc es' k = Some r' -> assoc es' k' = Some r' -> k = k').
Proof.
  induction es as [|[k0 r0] t IH]; intros s s' es' Hb Hc; cbn [copy_elems] in Hc.
  - inversion Hc; subst. repeat split; try (intros; cbn [assoc] in *; try discriminate; auto); lia.
  - set (c0 := match cellof s r0 with Some c => c | None => Flat 0 end) in *.
    destruct (alloc s c0) as [s1 r1] eqn:Ea. destruct (copy_elems s1 t) as [s2 t'] eqn:Et. inversion Hc; subst s' es'. clear Hc.
    assert (Es1 : s1 = fst (alloc s c0)) by (rewrite Ea; reflexivity). assert (Er1 : r1 = next s) by (pose proof (alloc_next s c0) as [_ H]; rewrite Ea in H; exact H).
    assert (Hb1 : bounded s1) by (rewrite Es1; apply bounded_alloc; exact Hb).
    assert (Hn1 : next s1 = S (next s)) by (rewrite Es1; reflexivity).
    assert (Hold1 : forall r, r < next s -> cellof s1 r = cellof s r).
    { intros r Hr. rewrite Es1, alloc_cell. destruct (Nat.eqb_spec r (next s)); [lia | reflexivity]. }
    assert (Hnew1 : cellof s1 r1 = Some c0) by (rewrite Es1, alloc_cell, Er1, Nat.eqb_refl; reflexivity).
    destruct (IH s1 s2 t' Hb1 Et) as [Hb2 [Hn2 [Hold2 [Hnone [Hsome [Hrange Hinj]]]]]].
    split; [exact Hb2|]. split; [lia|]. split; [intros r Hr; rewrite Hold2 by lia; apply Hold1; exact Hr|].
    split; [|split; [|split]].
    + intros k. cbn [assoc]. destruct (Z.eqb k0 k); [discriminate | apply Hnone].
    + intros k r. cbn [assoc]. destruct (Z.eqb k0 k) eqn:Ek.
      * intros H Hr. inversion H; subst r. exists r1. split; [reflexivity|]. rewrite Hold2 by lia. exact Hnew1.
      * intros H Hr. destruct (Hsome k r H ltac:(lia)) as [r' [H1 H2]]. exists r'. split; [exact H1|]. rewrite H2, Hold1 by exact Hr. reflexivity.
    + intros k r'. cbn [assoc]. destruct (Z.eqb k0 k); [intros H; inversion H; subst; lia | intros H; specialize (Hrange k r' H); lia].
    + intros k k' r'. cbn [assoc]. destruct (Z.eqb_spec k0 k) as [E1|E1], (Z.eqb_spec k0 k') as [E2|E2]; intros H1 H2.
      * congruence.
      * inversion H1; subst r'. specialize (Hrange k' r1 H2). lia.
      * inversion H2; subst r'. specialize (Hrange k r1 H1). lia.
      * exact (Hinj k k' r' H1 H2).
Qed.

Record attr_copy_facts (s : store) (pol : policy) (r : ref) (s1 : store) (r1 : ref) : Prop := {
  ac_bounded : bounded s1;
  ac_old : forall r', r' < next s -> cellof s1 r' = cellof s r';
  ac_range : next s <= r1 < next s1;
  ac_view : viewof s1 r1 = viewof s r;
  ac_flat : forall v, cellof s r = Some (Flat v) -> cellof s1 r1 = Some (Flat v);
  ac_box : forall es, cellof s r = Some (Box es) -> exists es', cellof s1 r1 = Some (Box es') /\
             (forall k, assoc es k = None -> assoc es' k = None) /\
             (forall k r', assoc es k = Some r' -> exists r'', assoc es' k = Some r'' /\ viewof s1 r'' = viewof s r' /\ r'' < next s1 /\
                                                            (pol = Deep -> next s <= r'' /\ r'' <> r1)) /\
             (pol = Deep -> forall k k' r', assoc es' k = Some r' -> assoc es' k' = Some r' -> k = k')
}.

Lemma copy_attr_spec s pol r s1 r1 : bounded s -> cell_good s r -> copy_attr s pol r = (s1, r1) -> attr_copy_facts s pol r s1 r1.
Proof.
  intros Hb Hg Hc. unfold copy_attr in Hc. unfold cell_good in Hg.
  assert (Halloc : forall s0 c s1 r1, alloc s0 c = (s1, r1) -> bounded s0 -> next s <= next s0 -> (forall r', r' < next s -> cellof s0 r' = cellof s r') ->
            bounded s1 /\ (forall r', r' < next s -> cellof s1 r' = cellof s r') /\ next s <= r1 < next s1 /\ cellof s1 r1 = Some c /\
            (forall r', r' < next s0 -> cellof s1 r' = cellof s0 r')).
  { intros s0 c s1' r1' Ha Hb0 Hle Hold0.
    assert (E1 : s1' = fst (alloc s0 c)) by (rewrite Ha; reflexivity). assert (E2 : r1' = next s0) by (apply (f_equal snd) in Ha; symmetry; exact Ha).
    subst s1' r1'. split; [apply bounded_alloc; exact Hb0|]. split; [|split; [|split]].
    - intros r' Hr. rewrite alloc_cell. destruct (Nat.eqb_spec r' (next s0)); [lia | apply Hold0; exact Hr].
    - cbn. lia.
    - rewrite alloc_cell, Nat.eqb_refl. reflexivity.
    - intros r' Hr. rewrite alloc_cell. destruct (Nat.eqb_spec r' (next s0)); [lia | reflexivity]. }
  destruct (cellof s r) as [[v|es]|] eqn:Ec; [| |contradiction].
  - (* flat *)
    destruct (Halloc s (Flat v) s1 r1 Hc Hb (le_n _) (fun _ _ => eq_refl)) as [H1 [H2 [H3 [H4 _]]]].
    constructor; try assumption.
    + unfold viewof. rewrite H4, Ec. reflexivity.
    + intros v' E. rewrite Ec in E. injection E as <-. exact H4.
    + intros es E. rewrite Ec in E. discriminate.
  - destruct pol.
    + (* shallow container: new box, same element cells *)
      destruct (Halloc s (Box es) s1 r1 Hc Hb (le_n _) (fun _ _ => eq_refl)) as [H1 [H2 [H3 [H4 _]]]].
      constructor; try assumption.
      * unfold viewof. rewrite H4, Ec. reflexivity.
      * intros v E. rewrite Ec in E. discriminate.
      * intros es0 E. rewrite Ec in E. injection E as <-. exists es. split; [exact H4|]. split; [auto|]. split; [|intros; discriminate].
        intros k r' Ha. destruct (Hg k r' Ha) as [v Hv]. assert (r' < next s) by (apply bounded_lt; [exact Hb | congruence]).
        exists r'. split; [exact Ha|]. split; [apply viewof_eq, H2; assumption|]. split; [cbn; lia | intros; discriminate].
    + (* deep container *)
      destruct (copy_elems s es) as [s0 es'] eqn:Ee.
      destruct (copy_elems_spec es s s0 es' Hb Ee) as [Hb0 [Hn0 [Hold0 [Hnone [Hsome [Hrange Hinj]]]]]].
      destruct (Halloc s0 (Box es') s1 r1 Hc Hb0 Hn0 Hold0) as [H1 [H2 [H3 [H4 H5]]]].
      assert (H6 : r1 = next s0 /\ next s1 = S (next s0)).
      { split; [apply (f_equal snd) in Hc; symmetry; exact Hc | apply (f_equal fst) in Hc; cbn [fst alloc] in Hc; rewrite <- Hc; reflexivity]. }
      constructor; try assumption.
      * unfold viewof. rewrite H4, Ec.
        assert (map fst es' = map fst es).
        { clear -Ee. revert s s0 es' Ee. induction es as [|[k0 r0] t IH]; intros s s0 es' Ee; cbn [copy_elems] in Ee; [inversion Ee; reflexivity|].
          destruct (alloc s _) as [sa ra]. destruct (copy_elems sa t) as [sb t'] eqn:Et. inversion Ee; subst. cbn [map fst]. f_equal. exact (IH _ _ _ Et). }
        rewrite H. reflexivity.
      * intros v E. rewrite Ec in E. discriminate.
      * intros es0 E. rewrite Ec in E. injection E as <-. exists es'. split; [exact H4|]. split; [exact Hnone|]. split; [|intros _; exact Hinj].
        intros k r' Ha. destruct (Hg k r' Ha) as [v Hv]. assert (Hlt : r' < next s) by (apply bounded_lt; [exact Hb | congruence]).
        destruct (Hsome k r' Ha Hlt) as [r'' [Hr1 Hr2]]. specialize (Hrange k r'' Hr1).
        exists r''. split; [exact Hr1|]. split; [|split; [lia | intros _; lia]].
        unfold viewof. rewrite H5 by lia. rewrite Hr2, Hv. reflexivity.
Qed.

Definition attr_of (p : path) : attr := match p with PTop a | PElem a _ => a end.
Lemma pathref_cons_ne s a r t p : attr_of p <> a -> pathref s ((a, r) :: t) p = pathref s t p.
Proof. destruct p as [b|b k]; cbn [attr_of pathref lookup]; intros H; destruct (Nat.eqb_spec a b); try congruence; reflexivity. Qed.

Lemma good_reach_lt s x r : bounded s -> Good s x -> Reach s x r -> r < next s.
Proof.
  intros Hb Hg [p Hp]. induction x as [|[a r0] t IH]; [destruct p; discriminate|].
  inversion Hg as [|? ? Hg0 Hgt]; subst. cbn [snd] in Hg0.
  destruct (Nat.eq_dec (attr_of p) a) as [E|E].
  - destruct p as [b|b k]; cbn [attr_of] in E; subst b; cbn [pathref lookup] in Hp; rewrite Nat.eqb_refl in Hp.
    + inversion Hp; subst. apply cell_good_lt; assumption.
    + unfold cell_good in Hg0. destruct (cellof s r0) as [[v|es]|]; try discriminate. destruct (Hg0 k r Hp) as [v Hv].
      apply bounded_lt; [exact Hb | congruence].
  - rewrite pathref_cons_ne in Hp by exact E. apply IH; assumption.
Qed.

Theorem copy_spec pol x : forall s s' y, bounded s -> Good s x -> NoDup (map fst x) -> copy s pol x = (s', y) ->
  bounded s' /\ next s <= next s' /\ (forall r, r < next s -> cellof s' r = cellof s r) /\
  (forall p, obsp s' y p = obsp s x p) /\ Valid s' y /\
  (deep_boxes s pol x -> (forall p r, pathref s' y p = Some r -> next s <= r < next s') /\ NoAlias s' y).
Proof.
  induction x as [|[a r] t IH]; intros s s' y Hb Hg Hnd Hc; cbn [copy] in Hc.
  - inversion Hc; subst. split; [exact Hb|]. split; [lia|]. split; [reflexivity|]. split; [reflexivity|]. split.
    + intros p r0 H0. destruct p; discriminate.
    + intros _. split; [intros p r0 H0; destruct p; discriminate | intros p q r0 H0; destruct p; discriminate].
  - destruct (copy_attr s (pol a) r) as [s1 r1] eqn:Ea. destruct (copy s1 pol t) as [s2 t'] eqn:Et. inversion Hc; subst s' y. clear Hc.
    inversion Hg as [|? ? Hg0 Hgt]; subst. cbn [snd] in Hg0. inversion Hnd as [|? ? Hna Hndt]; subst.
    destruct (copy_attr_spec s (pol a) r s1 r1 Hb Hg0 Ea) as [Hb1 Hold1 Hrange1 Hview1 Hflat1 Hbox1].
    assert (Hgt1 : Good s1 t).
    { unfold Good in *. rewrite Forall_forall in *. intros ar Hin. apply (cell_good_mono s s1); [exact Hb | exact Hold1 | apply Hgt; exact Hin]. }
    destruct (IH s1 s2 t' Hb1 Hgt1 Hndt Et) as [Hb2 [Hn2 [Hold2 [Hobs2 [Hval2 Hdeep2]]]]].
    assert (Hframe : forall p, obsp s1 t p = obsp s t p).
    { apply (frame_general s s1 t). intros r' Hr. apply Hold1. exact (good_reach_lt s t r' Hb Hgt Hr). }
    assert (Hcell1 : cellof s2 r1 = cellof s1 r1) by (apply Hold2; lia).
    (* paths through the head attribute *)
    assert (Hhead : forall p, attr_of p = a -> obsp s2 ((a, r1) :: t') p = obsp s ((a, r) :: t) p /\
               (forall r', pathref s2 ((a, r1) :: t') p = Some r' -> cellof s2 r' <> None /\ r' < next s1)).
    { intros p Ep. destruct p as [b|b k]; cbn [attr_of] in Ep; subst b; unfold obsp; cbn [pathref lookup]; rewrite !Nat.eqb_refl.
      - split.
        + rewrite (viewof_eq s1 s2 r1 r1 Hcell1). exact Hview1.
        + intros r' H. inversion H; subst r'. split; [|lia]. rewrite Hcell1. intros E. apply viewof_none in E. rewrite Hview1 in E. apply viewof_none in E.
          unfold cell_good in Hg0. rewrite E in Hg0. exact Hg0.
      - rewrite Hcell1. unfold cell_good in Hg0. destruct (cellof s r) as [[v|es]|] eqn:Ec; [| |contradiction].
        + rewrite (Hflat1 v eq_refl). split; [reflexivity | intros; discriminate].
        + destruct (Hbox1 es eq_refl) as [es' [Hc1 [Hnone [Hsome _]]]]. rewrite Hc1.
          destruct (assoc es k) as [r'|] eqn:Ek.
          * destruct (Hsome k r' Ek) as [r'' [H1 [H2 [H3 _]]]]. rewrite H1.
            assert (Hc2 : cellof s2 r'' = cellof s1 r'') by (apply Hold2; exact H3).
            split; [rewrite (viewof_eq s1 s2 r'' r'' Hc2); exact H2|].
            intros r0 H. inversion H; subst r0. split; [|exact H3]. rewrite Hc2. intros E. apply viewof_none in E. rewrite H2 in E. apply viewof_none in E.
            destruct (Hg0 k r' Ek) as [v Hv]. congruence.
          * rewrite (Hnone k Ek). split; [reflexivity | intros; discriminate]. }
    split; [exact Hb2|]. split; [lia|]. split; [intros r' Hr; rewrite Hold2 by lia; apply Hold1; exact Hr|]. split; [|split].
    + intros p. destruct (Nat.eq_dec (attr_of p) a) as [E|E]; [apply (Hhead p E)|].
      unfold obsp. rewrite !pathref_cons_ne by exact E. fold (obsp s2 t' p). fold (obsp s t p). rewrite Hobs2. apply Hframe.
    + intros p r' H. destruct (Nat.eq_dec (attr_of p) a) as [E|E]; [apply (Hhead p E); exact H|].
      rewrite pathref_cons_ne in H by exact E. exact (Hval2 p r' H).
    + intros Hd. inversion Hd as [|? ? Hd0 Hdt]; subst. cbn [fst snd] in Hd0.
      assert (Hdt1 : deep_boxes s1 pol t).
      { unfold deep_boxes in *. rewrite Forall_forall in *. intros ar Hin es E. apply (Hdt ar Hin es). rewrite <- E. symmetry. apply Hold1.
        unfold Good in Hgt. try rewrite Forall_forall in Hgt. apply cell_good_lt; [exact Hb | apply Hgt; exact Hin]. }
      destruct (Hdeep2 Hdt1) as [Hr2 Hna2].
      (* head paths: exact description *)
      assert (Hh : forall p r', attr_of p = a -> pathref s2 ((a, r1) :: t') p = Some r' ->
                 next s <= r' < next s1 /\ (p = PTop a /\ r' = r1 \/ exists k es', p = PElem a k /\ cellof s1 r1 = Some (Box es') /\ assoc es' k = Some r' /\ r' <> r1 /\
                     (forall k' , assoc es' k' = Some r' -> k' = k))).
      { intros p r' Ep H. destruct p as [b|b k]; cbn [attr_of] in Ep; subst b; cbn [pathref lookup] in H; rewrite Nat.eqb_refl in H.
        - inversion H; subst r'. split; [lia | left; auto].
        - rewrite Hcell1 in H. unfold cell_good in Hg0. destruct (cellof s r) as [[v|es]|] eqn:Ec; [| |contradiction].
          + rewrite (Hflat1 v eq_refl) in H. discriminate.
          + destruct (Hbox1 es eq_refl) as [es' [Hc1 [Hnone [Hsome Hinj]]]]. rewrite Hc1 in H.
            destruct (assoc es k) as [r0|] eqn:Ek; [|rewrite (Hnone k Ek) in H; discriminate].
            destruct (Hsome k r0 Ek) as [r'' [H1 [_ [H3 H4]]]]. rewrite H1 in H. inversion H; subst r''.
            destruct (H4 (Hd0 es eq_refl)) as [H5 H6]. split; [lia|]. right. exists k, es'. repeat split; try assumption.
            intros k' Hk'. exact (Hinj (Hd0 es eq_refl) k' k r' Hk' H1). }
      split.
      * intros p r' H. destruct (Nat.eq_dec (attr_of p) a) as [E|E].
        -- destruct (Hh p r' E H) as [Hr _]. lia.
        -- rewrite pathref_cons_ne in H by exact E. specialize (Hr2 p r' H). lia.
      * intros p q r' Hp Hq.
        destruct (Nat.eq_dec (attr_of p) a) as [Ep|Ep], (Nat.eq_dec (attr_of q) a) as [Eq|Eq].
        -- destruct (Hh p r' Ep Hp) as [_ [[P1 R1]|[k [es' [P1 [Hc1 [Hk [Hne Hu]]]]]]]], (Hh q r' Eq Hq) as [_ [[P2 R2]|[k2 [es2 [P2 [Hc2 [Hk2 [Hne2 Hu2]]]]]]]];
             subst p q; try congruence.
           rewrite Hc1 in Hc2. inversion Hc2; subst es2. rewrite (Hu k2 Hk2). reflexivity.
        -- destruct (Hh p r' Ep Hp) as [Hr _]. rewrite pathref_cons_ne in Hq by exact Eq. specialize (Hr2 q r' Hq). lia.
        -- destruct (Hh q r' Eq Hq) as [Hr _]. rewrite pathref_cons_ne in Hp by exact Ep. specialize (Hr2 p r' Hp). lia.
        -- rewrite pathref_cons_ne in Hp by exact Ep. rewrite pathref_cons_ne in Hq by exact Eq. exact (Hna2 p q r' Hp Hq).
Qed.

Lemma good_valid s x : Good s x -> Valid s x.
Proof.
  intros Hg p r Hp. induction x as [|[a r0] t IH]; [destruct p; discriminate|].
  inversion Hg as [|? ? Hg0 Hgt]; subst. cbn [snd] in Hg0.
  destruct (Nat.eq_dec (attr_of p) a) as [E|E].
  - destruct p as [b|b k]; cbn [attr_of] in E; subst b; cbn [pathref lookup] in Hp; rewrite Nat.eqb_refl in Hp; unfold cell_good in Hg0.
    + inversion Hp; subst. destruct (cellof s r); [discriminate | contradiction].
    + destruct (cellof s r0) as [[v|es]|]; try discriminate. destruct (Hg0 k r Hp) as [v Hv]. congruence.
  - rewrite pathref_cons_ne in Hp by exact E. apply IH; assumption.
Qed.

(* after copying with a policy that deep-copies the containers, input and copy are separate objects with equal observations *)
Theorem copy_separates s pol x s1 y : bounded s -> NoDup (map fst x) -> Good s x -> deep_boxes s pol x -> copy s pol x = (s1, y) ->
  Inv s1 y /\ Valid s1 x /\ Sep s1 x y /\ (forall p, obsp s1 y p = obsp s x p) /\ (forall p, obsp s1 x p = obsp s x p).
Proof.
  intros Hb Hnd Hg Hd Hc. destruct (copy_spec pol x s s1 y Hb Hg Hnd Hc) as [Hb1 [Hn1 [Hold [Hobs [Hval Hdeep]]]]].
  destruct (Hdeep Hd) as [Hfresh Hna].
  assert (Hcx : forall r, Reach s x r -> cellof s1 r = cellof s r) by (intros r Hr; apply Hold; exact (good_reach_lt s x r Hb Hg Hr)).
  destruct (frame_general s s1 x Hcx) as [Hpx Hox].
  split; [split; [exact Hb1 | split; [exact Hval | exact Hna]]|]. split; [|split; [|split; [exact Hobs | exact Hox]]].
  - intros p r H. rewrite Hpx in H. rewrite Hcx by (exists p; exact H). exact (good_valid s x Hg p r H).
  - intros r [p Hp] [q Hq]. rewrite Hpx in Hp. assert (r < next s) by (apply (good_reach_lt s x r Hb Hg); exists p; exact Hp).
    specialize (Hfresh q r Hq). lia.
Qed.

(* C03, first half: the call leaves the input observably unchanged at every path, and so does anything done later through the result *)
Theorem noninplace_preserves s pol x body s' y' : bounded s -> NoDup (map fst x) -> Good s x -> deep_boxes s pol x ->
  call_noninplace s pol x body = (s', y') ->
  (forall p, obsp s' x p = obsp s x p) /\
  (forall later s'' y'', run s' y' later = (s'', y'') -> forall p, obsp s'' x p = obsp s x p).
Proof.
  intros Hb Hnd Hg Hd Hc. unfold call_noninplace in Hc. destruct (copy s pol x) as [s1 y] eqn:Ec.
  destruct (copy_separates s pol x s1 y Hb Hnd Hg Hd Ec) as [HI [Hv [Hsep [_ Hox]]]].
  destruct (run_preserves_bystander body s1 x y s' y' HI Hv Hsep Hc) as [Ho [Hv' [Hsep' HI']]].
  split; [intros p; rewrite Ho; apply Hox|].
  intros later s'' y'' Hl p. destruct (run_preserves_bystander later s' x y' s'' y'' HI' Hv' Hsep' Hl) as [Ho2 _].
  rewrite Ho2, Ho. apply Hox.
Qed.

(* C03, second half: inplace=True ends in the same observable state as the result of the non-inplace call *)
Theorem inplace_equiv s pol x body s2 y' s1 x' : bounded s -> NoDup (map fst x) -> Good s x -> deep_boxes s pol x -> NoAlias s x ->
  call_noninplace s pol x body = (s2, y') -> call_inplace s x body = (s1, x') ->
  forall p, obsp s2 y' p = obsp s1 x' p.
Proof.
  intros Hb Hnd Hg Hd Hna Hc Hi. unfold call_noninplace in Hc. unfold call_inplace in Hi. destruct (copy s pol x) as [s0 y] eqn:Ec.
  destruct (copy_separates s pol x s0 y Hb Hnd Hg Hd Ec) as [HI [_ [_ [Hoy _]]]].
  apply (inplace_equiv_general body s x s1 x' s0 y s2 y'); try assumption.
  split; [exact Hb | split; [apply good_valid; exact Hg | exact Hna]].
Qed.

(* ... and the in-place call really changes the object it was given: its observation is the body applied to the old observation *)
Theorem inplace_applies_body s x body s1 x' : bounded s -> Good s x -> NoAlias s x -> call_inplace s x body = (s1, x') ->
  forall p, obsp s1 x' p = orun body (obsp s x) p.
Proof.
  intros Hb Hg Hna Hi. apply run_obs; [|exact Hi]. split; [exact Hb | split; [apply good_valid; exact Hg | exact Hna]].
Qed.

(* the shallow copy of a container attribute (copy.copy of the `tags` dict) is NOT separated: a witness *)
Definition w_store : store := mkStore (fun r => match r with 0 => Some (Box [(7%Z, 1)]) | 1 => Some (Flat 5) | 2 => Some (Flat 9) | _ => None end) 3.
Definition w_neuron : neuron := [(0, 0); (1, 2)].
Definition leak_after (pol : attr -> policy) (later : list op) (p : path) : bool :=
  let '(s1, y) := call_noninplace w_store pol w_neuron [] in
  let '(s2, _) := run s1 y later in
  match obsp s2 w_neuron p, obsp w_store w_neuron p with
  | Some (VFlat a), Some (VFlat b) => negb (Z.eqb a b)
  | _, _ => false
  end.
Theorem shallow_copy_leaks_refuted :
  exists s x later p s' y' s'' y'', bounded s /\ NoDup (map fst x) /\ Good s x /\
    call_noninplace s (fun _ => Shallow) x [] = (s', y') /\ run s' y' later = (s'', y'') /\ obsp s'' x p <> obsp s x p.
Proof.
  exists w_store, w_neuron, [OWriteElem 0 7 42], (PElem 0 7).
  destruct (call_noninplace w_store (fun _ => Shallow) w_neuron []) as [s' y'] eqn:E1.
  destruct (run s' y' [OWriteElem 0 7 42]) as [s'' y''] eqn:E2.
  exists s', y', s'', y''. split; [|split; [|split; [|split; [reflexivity | split; [exact E2|]]]]].
  - intros r Hr. do 3 (destruct r as [|r]; [cbn in Hr; lia|]). reflexivity.
  - cbn. repeat constructor; cbn; intuition discriminate.
  - unfold Good, w_neuron. apply Forall_cons; [|apply Forall_cons; [|apply Forall_nil]].
    + unfold cell_good. change (cellof w_store (snd (0, 0))) with (Some (Box [(7%Z, 1)])). cbv beta iota. intros k r'. cbn [assoc].
      destruct (Z.eqb 7 k); [intros H; injection H as <-; exists 5%Z; reflexivity | discriminate].
    + unfold cell_good. cbn. exact I.
  - vm_compute in E1. inversion E1; subst s' y'. vm_compute in E2. inversion E2; subst s'' y''. vm_compute. discriminate.
Qed.
Example deep_copy_does_not_leak : leak_after (fun _ => Deep) [OWriteElem 0 7 42; OWrite 1 3; ORebind 1 4] (PElem 0 7) = false
                                  /\ leak_after (fun _ => Shallow) [OWriteElem 0 7 42] (PElem 0 7) = true
                                  /\ leak_after (fun _ => Shallow) [OWrite 1 3; ORebind 0 1] (PTop 1) = false.
Proof. vm_compute. auto. Qed.

(* map_neuronlist(inplace=True): same length, same order, every slot holds the processed neuron *)
Theorem maplist_inplace_spec {A} (f : A -> A) nl : length (maplist_inplace f nl) = length nl /\
  forall i, nth_error (maplist_inplace f nl) i = option_map f (nth_error nl i).
Proof. unfold maplist_inplace. split; [apply map_length | intros i; apply nth_error_map]. Qed.

(* the catalogue obligation produced by the translator: every entry has a sound shape *)
Definition catalogue_sound (cat : list shape) : bool := forallb shape_sound cat.
Theorem catalogue_sound_spec cat : catalogue_sound cat = true <-> forall sh, In sh cat -> sh <> Unknown.
Proof.
  unfold catalogue_sound. rewrite forallb_forall. split; intros H sh Hin.
  - specialize (H sh Hin). destruct sh; cbn in H; congruence.
  - specialize (H sh Hin). destruct sh; cbn; congruence.
Qed.
