From Coq Require Import List ZArith QArith Bool Lia Arith.
Import ListNotations.
From Navis Require Import model.Forest model.Dist proofs.ForestWF proofs.RerootProofs.
Open Scope Z_scope.

(* ---------- distance to root obeys the parent recurrence ---------- *)
Theorem d_root_root t w r : WF t -> In r t -> rpar r < 0 -> d_root t w (rid r) = 0%Q.
Proof.
  intros Hwf Hr Hn. unfold d_root. assert (P : Path t (rid r) [rid r]) by (constructor; assumption).
  rewrite (anc_Path t _ _ Hwf P). reflexivity.
Qed.

Theorem d_root_step t w r : WF t -> In r t -> 0 <= rpar r ->
  d_root t w (rid r) = (wget w (rid r) + d_root t w (rpar r))%Q.
Proof.
  intros Hwf Hr Hp. unfold d_root. rewrite (anc_step t r Hwf Hr Hp).
  assert (Hwf' := Hwf). destruct Hwf' as [_ _ Hcl _].
  destruct (In_ids_row _ _ (Hcl r Hr Hp)) as [q [Hq Eq]].
  destruct (anc_head t q Hwf Hq) as [l El]. rewrite Eq in El. rewrite El. reflexivity.
Qed.

(* ---------- structure of ancestor chains ---------- *)
Lemma Path_suffix t a p x : WF t -> Path t a p -> In x p -> exists pre, p = pre ++ anc t x.
Proof.
  intros Hwf H. induction H as [r Hr Hneg | r l Hr Hpos Hp IH]; intros Hx.
  - destruct Hx as [<-|[]]. exists []. simpl. symmetry. apply (anc_Path t _ _ Hwf). constructor; assumption.
  - destruct Hx as [<-|Hx].
    + exists []. simpl. symmetry. apply (anc_Path t _ _ Hwf). apply Path_step; assumption.
    + destruct (IH Hx) as [pre E]. exists (rid r :: pre). simpl. rewrite <- E. reflexivity.
Qed.

Lemma anc_is_Path t a : WF t -> In a (ids t) -> Path t a (anc t a).
Proof.
  intros Hwf Ha. destruct (In_ids_row _ _ Ha) as [q [Hq Eq]]. destruct (Path_total t Hwf q Hq) as [l Hl].
  rewrite Eq in Hl. rewrite (anc_Path t _ _ Hwf Hl). exact Hl.
Qed.

Lemma first_common_spec l m x : first_common l m = Some x ->
  exists pre post, l = pre ++ x :: post /\ In x m /\ forall y, In y pre -> ~ In y m.
Proof.
  induction l as [|y l IH]; simpl; [discriminate|].
  destruct (memZ y m) eqn:E.
  - intros H; inversion H; subst. exists [], l. split; [reflexivity|]. split; [apply memZ_In; exact E|intros z []].
  - intros H. destruct (IH H) as [pre [post [E1 [E2 E3]]]]. exists (y :: pre), post. split; [simpl; congruence|].
    split; [exact E2|]. intros z [<-|Hz]; [|apply E3; exact Hz]. intro Hin. apply memZ_In in Hin. congruence.
Qed.

Lemma first_common_None l m : first_common l m = None -> forall y, In y l -> ~ In y m.
Proof.
  induction l as [|z l IH]; simpl; [intros _ y []|].
  destruct (memZ z m) eqn:E; [discriminate|]. intros H y [<-|Hy].
  - intro Hin. apply memZ_In in Hin. congruence.
  - apply IH; assumption.
Qed.

Lemma first_common_complete l m y : In y l -> In y m -> exists x, first_common l m = Some x.
Proof.
  induction l as [|z l IH]; simpl; [intros []|]. intros [<-|Hy] Hm.
  - apply memZ_In in Hm. rewrite Hm. eauto.
  - destruct (memZ z m); [eauto|apply IH; assumption].
Qed.

Lemma first_common_unique l m x pre post : l = pre ++ x :: post -> In x m -> (forall y, In y pre -> ~ In y m) ->
  first_common l m = Some x.
Proof.
  revert l. induction pre as [|z pre IH]; intros l E Hx Hpre; subst l; simpl.
  - apply memZ_In in Hx. rewrite Hx. reflexivity.
  - destruct (memZ z m) eqn:Ez.
    + exfalso. apply (Hpre z); [left; reflexivity|apply memZ_In; exact Ez].
    + apply IH; auto. intros y Hy. apply Hpre. right. exact Hy.
Qed.

Lemma NoDup_split_unique (x : Z) p1 s1 p2 s2 : NoDup (p1 ++ x :: s1) -> p1 ++ x :: s1 = p2 ++ x :: s2 -> p1 = p2.
Proof.
  revert p2. induction p1 as [|u p1 IH]; intros p2 Hn E; destruct p2 as [|v p2]; simpl in *.
  - reflexivity.
  - injection E as E1 E2. subst v. exfalso. simpl in Hn. assert (Hn2 : NoDup (x :: p2 ++ x :: s2)) by (rewrite <- E2; exact Hn).
    inversion Hn2 as [|? ? Hni _]; subst. apply Hni. apply in_or_app. right. left. reflexivity.
  - injection E as E1 E2. subst u. exfalso. inversion Hn as [|? ? Hni _]; subst. apply Hni. apply in_or_app. right. left. reflexivity.
  - injection E as E1 E2. subst v. f_equal. apply IH; [inversion Hn; assumption|assumption].
Qed.

Lemma NoDup_app_disjoint (p s : list Z) y : NoDup (p ++ s) -> In y p -> In y s -> False.
Proof.
  induction p as [|u p IH]; simpl; intros Hn Hp Hs; [contradiction|].
  inversion Hn as [|? ? Hni Hd]; subst. destruct Hp as [<-|Hp].
  - apply Hni. apply in_or_app. right. exact Hs.
  - apply IH; assumption.
Qed.

(* the deepest common ancestor is the same from both sides *)
Lemma first_common_sym t a b x : WF t -> In a (ids t) -> In b (ids t) ->
  first_common (anc t a) (anc t b) = Some x -> first_common (anc t b) (anc t a) = Some x.
Proof.
  intros Hwf Ha Hb H.
  assert (Pa := anc_is_Path t a Hwf Ha). assert (Pb := anc_is_Path t b Hwf Hb).
  assert (Na : NoDup (anc t a)) by (eapply Path_NoDup; eassumption).
  assert (Nb : NoDup (anc t b)) by (eapply Path_NoDup; eassumption).
  destruct (first_common_spec _ _ _ H) as [pa [posta [Ea [Hxb Hpa]]]].
  assert (Hxa : In x (anc t a)) by (rewrite Ea; apply in_or_app; right; left; reflexivity).
  destruct (Path_suffix t a _ x Hwf Pa Hxa) as [pa' Ea'].
  destruct (Path_suffix t b _ x Hwf Pb Hxb) as [pb Eb].
  assert (Hx_ids : In x (ids t)) by (eapply Path_incl; eassumption).
  destruct (In_ids_row _ _ Hx_ids) as [qx [Hqx Eqx]]. destruct (anc_head t qx Hwf Hqx) as [lx Elx]. rewrite Eqx in Elx.
  apply (first_common_unique _ _ x pb lx).
  - rewrite Eb at 1. rewrite Elx. reflexivity.
  - exact Hxa.
  - intros y Hy Hya. rewrite Ea' in Hya. apply in_app_or in Hya. destruct Hya as [Hya|Hya].
    + assert (pa' = pa).
      { apply (NoDup_split_unique x pa' lx pa posta).
        - rewrite <- Elx, <- Ea'. exact Na.
        - rewrite <- Elx, <- Ea'. exact Ea. }
      subst pa'. apply (Hpa y Hya). rewrite Eb. apply in_or_app. left. exact Hy.
    + rewrite Eb in Nb. exact (NoDup_app_disjoint _ _ y Nb Hy Hya).
Qed.

(* ---------- geodesic distance: symmetric, zero on the diagonal ---------- *)
Definition oq_eq (a b : option Q) : Prop :=
  match a, b with Some p, Some q => p == q | None, None => True | _, _ => False end.

Theorem geo_sym t w a b : WF t -> In a (ids t) -> In b (ids t) -> oq_eq (geo t w a b) (geo t w b a).
Proof.
  intros Hwf Ha Hb. unfold geo.
  destruct (first_common (anc t a) (anc t b)) as [x|] eqn:E1.
  - rewrite (first_common_sym t a b x Hwf Ha Hb E1). simpl. apply Qplus_comm.
  - destruct (first_common (anc t b) (anc t a)) as [y|] eqn:E2; simpl; [|exact I].
    rewrite (first_common_sym t b a y Hwf Hb Ha E2) in E1. discriminate.
Qed.

Theorem geo_self t w a : WF t -> In a (ids t) -> geo t w a a = Some (0 + 0)%Q.
Proof.
  intros Hwf Ha. unfold geo. destruct (In_ids_row _ _ Ha) as [q [Hq Eq]].
  destruct (anc_head t q Hwf Hq) as [l El]. rewrite Eq in El. rewrite El. simpl.
  rewrite Z.eqb_refl. simpl. rewrite Z.eqb_refl. reflexivity.
Qed.

(* reachable exactly when the two nodes share an ancestor, i.e. lie in the same fragment *)
Theorem geo_reachable_iff t w a b :
  (exists d, geo t w a b = Some d) <-> exists x, In x (anc t a) /\ In x (anc t b).
Proof.
  unfold geo. split.
  - intros [d H]. destruct (first_common (anc t a) (anc t b)) as [x|] eqn:E; [|discriminate].
    destruct (first_common_spec _ _ _ E) as [pre [post [E1 [E2 _]]]]. exists x. split; [|exact E2].
    rewrite E1. apply in_or_app. right. left. reflexivity.
  - intros [x [H1 H2]]. destruct (first_common_complete _ _ x H1 H2) as [y ->]. eauto.
Qed.

(* directed distance is defined exactly for ancestor-or-self targets *)
Theorem geo_dir_iff_ancestor t w a b : (exists d, geo_dir t w a b = Some d) <-> In b (anc t a).
Proof.
  unfold geo_dir. split.
  - intros [d H]. destruct (memZ b (anc t a)) eqn:E; [apply memZ_In; exact E|discriminate].
  - intros H. apply memZ_In in H. rewrite H. eauto.
Qed.

Theorem distal_to_iff t a b : distal_to t a b = true <-> In b (anc t a).
Proof. unfold distal_to. apply memZ_In. Qed.

(* when b is an ancestor of a, the undirected and the directed distance coincide *)
Theorem geo_dir_agrees t w a b : WF t -> In a (ids t) -> In b (anc t a) ->
  oq_eq (geo t w a b) (geo_dir t w a b).
Proof.
  intros Hwf Ha Hb. assert (Pa := anc_is_Path t a Hwf Ha).
  assert (Hb_ids : In b (ids t)) by (eapply Path_incl; eassumption).
  destruct (In_ids_row _ _ Hb_ids) as [qb [Hqb Eqb]]. destruct (anc_head t qb Hwf Hqb) as [lb Elb]. rewrite Eqb in Elb.
  destruct (Path_suffix t a _ b Hwf Pa Hb) as [pre E].
  assert (Na : NoDup (anc t a)) by (eapply Path_NoDup; eassumption).
  unfold geo, geo_dir. assert (M := Hb). apply memZ_In in M. rewrite M.
  (* first common element of a's chain with b's chain is b itself *)
  assert (F : first_common (anc t a) (anc t b) = Some b).
  { apply (first_common_unique _ _ b pre lb).
    - rewrite E at 1. rewrite Elb. reflexivity.
    - rewrite Elb. left. reflexivity.
    - intros y Hy Hyb. rewrite E in Na. exact (NoDup_app_disjoint _ _ y Na Hy Hyb). }
  rewrite F. simpl. rewrite Elb. simpl. rewrite Z.eqb_refl. simpl. unfold dsum. simpl. apply Qplus_0_r.
Qed.

(* limit: distances above the limit are reported as unreachable, others unchanged *)
Theorem apply_limit_spec lim d v : apply_limit (Some lim) (Some d) = Some v -> v = d /\ (d <= lim)%Q.
Proof.
  simpl. destruct (Qle_bool d lim) eqn:E; [|discriminate]. intros H; inversion H; subst. split; [reflexivity|].
  apply Qle_bool_iff. exact E.
Qed.

(* adjacency is the parent relation, looked up by id *)
Theorem adjacency_spec t a b : NoDup (ids t) ->
  (adjacency t a b = true <-> exists r, In r t /\ rid r = a /\ rpar r = b /\ (0 <= b)%Z).
Proof.
  intros Hnd. unfold adjacency. split.
  - destruct (lookup t a) as [r|] eqn:E; [|discriminate]. apply lookup_In in E. destruct E as [E1 E2].
    rewrite andb_true_iff, Z.leb_le, Z.eqb_eq. intros [H1 H2]. exists r. subst. auto.
  - intros [r [H1 [H2 [H3 H4]]]]. subst a. rewrite (lookup_NoDup t r Hnd H1).
    rewrite andb_true_iff, Z.leb_le, Z.eqb_eq. subst. auto.
Qed.
