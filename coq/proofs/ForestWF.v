From Coq Require Import List ZArith Bool Lia Arith.
Import ListNotations.
From Navis Require Import model.Forest.
Open Scope Z_scope.

Lemma memZ_In x l : memZ x l = true <-> In x l.
Proof.
  unfold memZ. rewrite existsb_exists. split.
  - intros [y [Hy He]]. apply Z.eqb_eq in He. subst. exact Hy.
  - intros H. exists x. split; [exact H | apply Z.eqb_refl].
Qed.

Lemma ids_repair t : ids (repair t) = ids t.
Proof.
  unfold ids, repair. rewrite map_map. apply map_ext. intros r.
  unfold ids. destruct (memZ (rpar r) (map rid t)); reflexivity.
Qed.

Lemma NoDup_map_filter {A B} (f : A -> B) p (l : list A) : NoDup (map f l) -> NoDup (map f (filter p l)).
Proof.
  induction l as [|a l IH]; simpl; intros H; [constructor|].
  inversion H as [|? ? Hn Hd]; subst.
  destruct (p a); simpl; [constructor|]; auto.
  intro Hin. apply Hn. apply in_map_iff in Hin. destruct Hin as [x [Hx Hf]].
  apply filter_In in Hf. destruct Hf as [Hf _]. apply in_map_iff. exists x. auto.
Qed.

Theorem subset_wf S t : WF t -> WF (subset S t).
Proof.
  intros [Hnd Hnn Hcl [rk Hrk]]. unfold subset. constructor.
  - rewrite ids_repair. unfold ids, keep_rows. apply NoDup_map_filter. exact Hnd.
  - intros r Hr. unfold repair in Hr. apply in_map_iff in Hr. destruct Hr as [r0 [He Hr0]].
    apply filter_In in Hr0. destruct Hr0 as [Hr0 _].
    destruct (memZ (rpar r0) (ids (keep_rows S t))); subst; simpl; apply Hnn; exact Hr0.
  - intros r Hr Hp. rewrite ids_repair. unfold repair in Hr. apply in_map_iff in Hr.
    destruct Hr as [r0 [He Hr0]].
    destruct (memZ (rpar r0) (ids (keep_rows S t))) eqn:Hm; subst; simpl in *.
    + apply memZ_In. exact Hm.
    + lia.
  - exists rk. intros r Hr Hp. unfold repair in Hr. apply in_map_iff in Hr.
    destruct Hr as [r0 [He Hr0]]. apply filter_In in Hr0. destruct Hr0 as [Hr0 _].
    destruct (memZ (rpar r0) (ids (keep_rows S t))) eqn:Hm; subst; simpl in *.
    + apply Hrk; assumption.
    + lia.
Qed.

(* relational parent chain: Path t x l  <->  l = [x; par x; par (par x); ...; root] *)
Inductive Path (t : table) : Z -> list Z -> Prop :=
| Path_root r : In r t -> rpar r < 0 -> Path t (rid r) [rid r]
| Path_step r l : In r t -> 0 <= rpar r -> Path t (rpar r) l -> Path t (rid r) (rid r :: l).

Lemma lookup_In t i r : lookup t i = Some r -> In r t /\ rid r = i.
Proof.
  induction t as [|a t IH]; simpl; [discriminate|].
  destruct (Z.eqb_spec (rid a) i) as [E|E]; intros H.
  - inversion H; subst; auto.
  - destruct (IH H); auto.
Qed.

Lemma lookup_NoDup t r : NoDup (ids t) -> In r t -> lookup t (rid r) = Some r.
Proof.
  induction t as [|a t IH]; simpl; intros Hnd Hin; [contradiction|].
  inversion Hnd as [|? ? Hn Hd]; subst.
  destruct Hin as [->|Hin].
  - rewrite Z.eqb_refl. reflexivity.
  - destruct (Z.eqb_spec (rid a) (rid r)) as [E|E].
    + exfalso. apply Hn. rewrite E. unfold ids. apply in_map. exact Hin.
    + apply IH; assumption.
Qed.

Lemma In_ids_row t i : In i (ids t) -> exists r, In r t /\ rid r = i.
Proof. unfold ids. intros H. apply in_map_iff in H. destruct H as [r [E H]]. eauto. Qed.

(* every node of a WF table has a path; proof by strong induction on the rank *)
Lemma Path_exists t : WF t -> forall n r, In r t -> (exists rk, ranked t rk /\ (rk (rid r) <= n)%nat) -> exists l, Path t (rid r) l.
Proof.
  intros Hwf n. induction n as [|n IH]; intros r Hr [rk [Hrk Hle]].
  - destruct (Z_lt_ge_dec (rpar r) 0) as [Hneg|Hpos].
    + exists [rid r]. constructor; assumption.
    + exfalso. assert (H := Hrk r Hr ltac:(lia)). lia.
  - destruct (Z_lt_ge_dec (rpar r) 0) as [Hneg|Hpos].
    + exists [rid r]. constructor; assumption.
    + destruct Hwf as [Hnd Hnn Hcl _].
      assert (Hp : In (rpar r) (ids t)) by (apply Hcl; [assumption|lia]).
      destruct (In_ids_row _ _ Hp) as [q [Hq Eq]].
      assert (Hlt := Hrk r Hr ltac:(lia)).
      destruct (IH q Hq) as [l Hl].
      { exists rk. split; [assumption|]. rewrite Eq. lia. }
      exists (rid r :: l). apply Path_step; [assumption|lia|]. rewrite <- Eq. exact Hl.
Qed.

Lemma Path_total t : WF t -> forall r, In r t -> exists l, Path t (rid r) l.
Proof.
  intros Hwf r Hr. destruct Hwf as [Hnd Hnn Hcl [rk Hrk]] eqn:E.
  apply (Path_exists t Hwf (rk (rid r)) r Hr). exists rk. split; [assumption|lia].
Qed.

Lemma Path_unique t : NoDup (ids t) -> forall x l1, Path t x l1 -> forall l2, Path t x l2 -> l1 = l2.
Proof.
  intros Hnd x l1 H1. induction H1 as [r Hr Hneg | r l Hr Hpos Hp IH]; intros l2 H2.
  - inversion H2 as [r' Hr' Hneg' E | r' l' Hr' Hpos' Hp' E]; subst.
    + rewrite E. reflexivity.
    + exfalso. assert (lookup t (rid r) = Some r) by (apply lookup_NoDup; assumption).
      assert (lookup t (rid r') = Some r') by (apply lookup_NoDup; assumption).
      rewrite E in H0. rewrite H in H0. inversion H0; subst. lia.
  - inversion H2 as [r' Hr' Hneg' E | r' l' Hr' Hpos' Hp' E]; subst.
    + exfalso. assert (lookup t (rid r) = Some r) by (apply lookup_NoDup; assumption).
      assert (lookup t (rid r') = Some r') by (apply lookup_NoDup; assumption).
      rewrite E in H0. rewrite H in H0. inversion H0; subst. lia.
    + assert (lookup t (rid r) = Some r) by (apply lookup_NoDup; assumption).
      assert (lookup t (rid r') = Some r') by (apply lookup_NoDup; assumption).
      rewrite E in H0. rewrite H in H0. inversion H0; subst.
      f_equal. apply IH. exact Hp'.
Qed.

(* rank strictly decreases along a path; elements are ids *)
Lemma Path_head t x l : Path t x l -> exists l', l = x :: l'.
Proof. intros H; inversion H; subst; eauto. Qed.

Lemma Path_incl t x l : Path t x l -> incl l (ids t).
Proof.
  induction 1 as [r Hr Hneg | r l Hr Hpos Hp IH]; intros y Hy.
  - destruct Hy as [<-|[]]. unfold ids. apply in_map. assumption.
  - destruct Hy as [<-|Hy]; [unfold ids; apply in_map; assumption | apply IH; assumption].
Qed.

Lemma Path_rank t rk x l : NoDup (ids t) -> ranked t rk -> Path t x l -> forall y, In y l -> (rk y <= rk x)%nat.
Proof.
  intros Hnd Hrk. induction 1 as [r Hr Hneg | r l Hr Hpos Hp IH]; intros y Hy.
  - destruct Hy as [<-|[]]. lia.
  - destruct Hy as [<-|Hy]; [lia|]. specialize (IH y Hy). specialize (Hrk r Hr Hpos). lia.
Qed.

Lemma chain_Path t : NoDup (ids t) -> forall x l, Path t x l -> forall f, (length l <= f)%nat -> chain f t x = l.
Proof.
  intros Hnd x l H. induction H as [r Hr Hneg | r l Hr Hpos Hp IH]; intros f Hf.
  - destruct f as [|f]; simpl in *; [lia|]. rewrite (lookup_NoDup t r Hnd Hr).
    destruct (Z.ltb_spec (rpar r) 0); [reflexivity|lia].
  - destruct f as [|f]; simpl in *; [lia|]. rewrite (lookup_NoDup t r Hnd Hr).
    destruct (Z.ltb_spec (rpar r) 0); [lia|]. f_equal. apply IH. lia.
Qed.

Lemma Path_NoDup t x l : WF t -> Path t x l -> NoDup l.
Proof.
  intros [Hnd Hnn Hcl [rk Hrk]]. induction 1 as [r Hr Hneg | r l Hr Hpos Hp IH].
  - constructor; [intros []|constructor].
  - constructor; [|exact IH]. intro Hin.
    assert (Hle := Path_rank t rk _ _ Hnd Hrk Hp _ Hin). specialize (Hrk r Hr Hpos). lia.
Qed.

Lemma Path_length t x l : WF t -> Path t x l -> (length l <= length t)%nat.
Proof.
  intros Hwf H. assert (Hn := Path_NoDup _ _ _ Hwf H). assert (Hi := Path_incl _ _ _ H).
  assert (Hl := NoDup_incl_length Hn Hi). unfold ids in Hl. rewrite map_length in Hl. exact Hl.
Qed.

Theorem anc_Path t x l : WF t -> Path t x l -> anc t x = l.
Proof.
  intros Hwf H. unfold anc. apply chain_Path; [destruct Hwf; assumption | assumption | eapply Path_length; eassumption].
Qed.

(* ================= boolean checker wfb <-> WF ================= *)
Lemma nodupb_NoDup l : nodupb l = true <-> NoDup l.
Proof.
  induction l as [|x l IH]; simpl.
  - split; [constructor|reflexivity].
  - rewrite andb_true_iff, negb_true_iff, IH. split.
    + intros [H1 H2]. constructor; [|assumption]. intro Hin. apply memZ_In in Hin. congruence.
    + intros H. inversion H as [|? ? Hn Hd]; subst. split; [|assumption].
      destruct (memZ x l) eqn:E; [|reflexivity]. apply memZ_In in E. contradiction.
Qed.

(* number of parent steps to the root *)
Fixpoint depth (fuel : nat) (t : table) (i : Z) : nat :=
  match fuel with
  | O => O
  | S f => match lookup t i with
           | None => O
           | Some r => if rpar r <? 0 then O else S (depth f t (rpar r))
           end
  end.

Lemma reaches_mono t : forall f i, reaches_root f t i = true ->
  forall f', (f <= f')%nat -> reaches_root f' t i = true /\ depth f' t i = depth f t i.
Proof.
  induction f as [|f IH]; intros i H f' Hle; simpl in H; [discriminate|].
  destruct f' as [|f']; [lia|]. simpl.
  destruct (lookup t i) as [r|]; [|discriminate].
  destruct (rpar r <? 0); [auto|].
  destruct (IH _ H f' ltac:(lia)) as [H1 H2]. rewrite H1, H2. auto.
Qed.

Theorem wfb_sound t : wfb t = true -> WF t.
Proof.
  unfold wfb. rewrite !andb_true_iff. intros [[[H1 H2] H3] H4].
  apply nodupb_NoDup in H1. rewrite forallb_forall in H2, H3, H4.
  constructor.
  - exact H1.
  - intros r Hr. apply Z.leb_le. apply H2. exact Hr.
  - intros r Hr Hp. specialize (H3 r Hr). apply orb_prop in H3. destruct H3 as [H3|H3].
    + apply Z.ltb_lt in H3. lia.
    + apply memZ_In. exact H3.
  - exists (depth (length t) t). intros r Hr Hp.
    assert (Hl := lookup_NoDup t r H1 Hr).
    specialize (H4 r Hr). destruct (length t) as [|n] eqn:En; [simpl in H4; discriminate|].
    assert (Hrr : reaches_root n t (rpar r) = true).
    { simpl in H4. rewrite Hl in H4. destruct (Z.ltb_spec (rpar r) 0); [lia|exact H4]. }
    assert (E1 : depth (S n) t (rid r) = S (depth n t (rpar r))).
    { simpl. rewrite Hl. destruct (Z.ltb_spec (rpar r) 0); [lia|reflexivity]. }
    destruct (reaches_mono t n _ Hrr (S n) ltac:(lia)) as [_ E2].
    rewrite E1, E2. lia.
Qed.

Lemma reaches_Path t : NoDup (ids t) -> forall x l, Path t x l -> forall f, (length l <= f)%nat -> reaches_root f t x = true.
Proof.
  intros Hnd x l H. induction H as [r Hr Hneg | r l Hr Hpos Hp IH]; intros f Hf.
  - destruct f as [|f]; simpl in *; [lia|]. rewrite (lookup_NoDup t r Hnd Hr).
    destruct (Z.ltb_spec (rpar r) 0); [reflexivity|lia].
  - destruct f as [|f]; simpl in *; [lia|]. rewrite (lookup_NoDup t r Hnd Hr).
    destruct (Z.ltb_spec (rpar r) 0); [reflexivity|]. apply IH. lia.
Qed.

Theorem wfb_complete t : WF t -> wfb t = true.
Proof.
  intros Hwf. assert (Hwf' := Hwf). destruct Hwf' as [Hnd Hnn Hcl Hac].
  unfold wfb. rewrite !andb_true_iff. repeat split.
  - apply nodupb_NoDup. exact Hnd.
  - apply forallb_forall. intros r Hr. apply Z.leb_le. apply Hnn. exact Hr.
  - apply forallb_forall. intros r Hr. destruct (Z.ltb_spec (rpar r) 0); [reflexivity|].
    simpl. apply memZ_In. apply Hcl; assumption.
  - apply forallb_forall. intros r Hr. destruct (Path_total t Hwf r Hr) as [l Hl].
    apply (reaches_Path t Hnd _ _ Hl). eapply Path_length; eassumption.
Qed.

Theorem wfb_iff t : wfb t = true <-> WF t.
Proof. split; [apply wfb_sound|apply wfb_complete]. Qed.

(* ================= node labels ================= *)
Lemma count_occ_Z_spec x l : count_occ_Z x l = length (filter (fun y => y =? x) l).
Proof.
  unfold count_occ_Z. induction l as [|y l IH]; simpl; [reflexivity|].
  rewrite (Z.eqb_sym x y). destruct (y =? x); simpl; rewrite IH; reflexivity.
Qed.

(* the label of a row is determined by its parent and by how many rows name it as parent *)
Theorem label_spec t r :
  (label t r = 0 <-> rpar r < 0) /\
  (label t r = 1 <-> 0 <= rpar r /\ nchildren t (rid r) = 0%nat) /\
  (label t r = 3 <-> 0 <= rpar r /\ nchildren t (rid r) = 1%nat) /\
  (label t r = 2 <-> 0 <= rpar r /\ (2 <= nchildren t (rid r))%nat).
Proof.
  unfold label, is_root. destruct (Z.ltb_spec (rpar r) 0) as [H|H].
  - repeat split; intros; try lia; try discriminate.
  - destruct (nchildren t (rid r)) as [|[|n]]; repeat split; intros; try lia; try discriminate.
Qed.

Lemma nchildren_spec t i : nchildren t i = length (filter (fun r => rpar r =? i) t).
Proof.
  unfold nchildren, pars. rewrite count_occ_Z_spec.
  induction t as [|r t IH]; simpl; [reflexivity|]. destruct (rpar r =? i); simpl; rewrite IH; reflexivity.
Qed.
