From Coq Require Import List ZArith QArith Bool Lia Arith.
Import ListNotations.
From Navis Require Import model.Forest model.Dist model.Segments proofs.ForestWF proofs.RerootProofs proofs.DistProofs.
Open Scope Z_scope.

Definition pairs (s : list Z) : list (Z * Z) := combine s (tl s).
Definition pairs_of (segs : list (list Z)) : list (Z * Z) := flat_map pairs segs.

Lemma removelast_pairs s : removelast s = map fst (pairs s).
Proof.
  unfold pairs. induction s as [|a s IH]; [reflexivity|]. destruct s as [|b s]; [reflexivity|].
  change (removelast (a :: b :: s)) with (a :: removelast (b :: s)). rewrite IH. reflexivity.
Qed.

Lemma child_ends_pairs segs : child_ends segs = map fst (pairs_of segs).
Proof.
  unfold child_ends, pairs_of. induction segs as [|s segs IH]; simpl; [reflexivity|].
  rewrite map_app, IH, removelast_pairs. reflexivity.
Qed.

Lemma consecutive_ok_pairs t s : NoDup (ids t) -> consecutive_ok t s = true ->
  forall a b, In (a, b) (pairs s) -> In (a, b) (edges t).
Proof.
  intros Hnd. unfold pairs. induction s as [|x s IH]; simpl; [intros _ a b []|].
  destruct s as [|y s]; [intros _ a b []|].
  intros H a b Hin. apply andb_prop in H. destruct H as [H1 H2].
  destruct Hin as [E|Hin].
  - inversion E; subst. destruct (lookup t a) as [r|] eqn:El; [|discriminate].
    apply lookup_In in El. destruct El as [Hr Er]. apply andb_prop in H1. destruct H1 as [P Q].
    apply Z.leb_le in P. apply Z.eqb_eq in Q. apply edges_In. exists r. subst. auto.
  - apply IH; assumption.
Qed.

Lemma nonroot_ids_In t i : In i (nonroot_ids t) <-> exists r, In r t /\ rid r = i /\ 0 <= rpar r.
Proof.
  unfold nonroot_ids. rewrite in_map_iff. split.
  - intros [r [E H]]. apply filter_In in H. destruct H as [H1 H2]. unfold is_root in H2.
    apply negb_true_iff, Z.ltb_ge in H2. exists r. auto.
  - intros [r [H1 [H2 H3]]]. exists r. split; [exact H2|]. apply filter_In. split; [exact H1|].
    unfold is_root. apply negb_true_iff, Z.ltb_ge. exact H3.
Qed.

(* the checker accepts exactly decompositions in which every listed consecutive pair is a child->parent edge
   and every non-root node is the child end of exactly one listed pair: a partition of the edges *)
Theorem partition_okb_sound t segs : NoDup (ids t) -> partition_okb t segs = true ->
  (forall a b, In (a, b) (pairs_of segs) -> In (a, b) (edges t))
  /\ NoDup (map fst (pairs_of segs))
  /\ (forall i, In i (nonroot_ids t) <-> In i (map fst (pairs_of segs)))
  /\ (forall s, In s segs -> s <> []).
Proof.
  intros Hnd. unfold partition_okb. rewrite !andb_true_iff. intros [[[[H1 H2] H3] H4] H5].
  rewrite forallb_forall in H1, H2, H4, H5. rewrite <- child_ends_pairs. repeat split.
  - intros a b Hin. unfold pairs_of in Hin. apply in_flat_map in Hin. destruct Hin as [s [Hs Hp]].
    apply (consecutive_ok_pairs t s Hnd (H1 s Hs)). exact Hp.
  - apply nodupb_NoDup. exact H3.
  - intros Hi. apply memZ_In. apply H4. exact Hi.
  - intros Hi. apply memZ_In. apply H5. exact Hi.
  - intros s Hs E. specialize (H2 s Hs). subst. discriminate.
Qed.

(* hence: the listed pairs are exactly the edges, each once *)
Corollary partition_pairs_are_edges t segs : NoDup (ids t) -> partition_okb t segs = true ->
  forall a b, In (a, b) (edges t) <-> In (a, b) (pairs_of segs).
Proof.
  intros Hnd H. destruct (partition_okb_sound t segs Hnd H) as [P1 [P2 [P3 _]]]. intros a b. split; [|apply P1].
  intros He. assert (Ha : In a (map fst (pairs_of segs))).
  { apply P3. apply edges_In in He. destruct He as [q [Hq [E1 [E2 E3]]]]. apply nonroot_ids_In. exists q. subst. auto. }
  apply in_map_iff in Ha. destruct Ha as [[a' b'] [E Hin]]. simpl in E. subst a'.
  assert (He' := P1 _ _ Hin). apply edges_In in He, He'.
  destruct He as [q [Hq [E1 [E2 _]]]]. destruct He' as [q' [Hq' [E1' [E2' _]]]].
  assert (q = q') by (apply (row_eq_by_id t); congruence). subst q'. congruence.
Qed.

Theorem shape_okb_sound t segs s : shape_okb t segs = true -> In s segs ->
  exists a b rest, s = a :: b :: rest
    /\ (label_of t a = 1 \/ label_of t a = 2)
    /\ (label_of t (last s (-1)) = 2 \/ label_of t (last s (-1)) = 0)
    /\ forall i, In i (interior s) -> label_of t i = 3.
Proof.
  unfold shape_okb. rewrite forallb_forall. intros H Hs. specialize (H s Hs).
  destruct s as [|a [|b rest]]; try discriminate. exists a, b, rest. split; [reflexivity|].
  rewrite !andb_true_iff, !orb_true_iff, !Z.eqb_eq in H. destruct H as [[H1 H2] H3].
  rewrite forallb_forall in H3. repeat split; auto. intros i Hi. apply Z.eqb_eq. apply H3. exact Hi.
Qed.

(* ---------- the model's small segments are parent chains ---------- *)
Lemma walk_to_stop_prefix t l : exists post, l = walk_to_stop t l ++ post.
Proof.
  induction l as [|x l IH]; simpl; [exists []; reflexivity|].
  destruct (is_stop t x); [exists l; reflexivity|]. destruct IH as [post E]. exists post. simpl. congruence.
Qed.

Lemma Path_consecutive t x p : NoDup (ids t) -> Path t x p -> forall pre post, p = pre ++ post -> consecutive_ok t pre = true.
Proof.
  intros Hnd H. induction H as [r Hr Hneg | r l Hr Hpos Hp IH]; intros pre post E.
  - destruct pre as [|a [|b pre]]; try reflexivity. destruct pre; discriminate.
  - destruct pre as [|a pre]; [reflexivity|]. simpl in E. inversion E; subst a.
    destruct pre as [|b pre]; [reflexivity|].
    change (consecutive_ok t (rid r :: b :: pre)) with
      (match lookup t (rid r) with Some r0 => (0 <=? rpar r0) && (rpar r0 =? b) | None => false end && consecutive_ok t (b :: pre)).
    rewrite (lookup_NoDup t r Hnd Hr). rewrite (IH (b :: pre) post H1).
    destruct (Path_head _ _ _ Hp) as [l' El]. rewrite El in H1. simpl in H1. inversion H1; subst b.
    rewrite Z.eqb_refl. replace (0 <=? rpar r) with true by (symmetry; apply Z.leb_le; lia). reflexivity.
Qed.

Theorem break_segments_are_chains t s : WF t -> In s (break_segments t) -> consecutive_ok t s = true.
Proof.
  intros Hwf Hs. assert (Hwf' := Hwf). destruct Hwf' as [Hnd _ Hcl _].
  unfold break_segments in Hs. apply in_map_iff in Hs. destruct Hs as [r [<- Hr]].
  apply filter_In in Hr. destruct Hr as [Hr Hseed]. unfold small_segment.
  assert (Hp : 0 <= rpar r).
  { unfold is_seed, label, is_root in Hseed. destruct (Z.ltb_spec (rpar r) 0); [discriminate|lia]. }
  assert (P : Path t (rid r) (rid r :: anc t (rpar r))).
  { rewrite <- (anc_step t r Hwf Hr Hp). apply anc_is_Path; [exact Hwf|]. unfold ids. apply in_map. exact Hr. }
  destruct (walk_to_stop_prefix t (anc t (rpar r))) as [post E].
  apply (Path_consecutive t _ _ Hnd P (rid r :: walk_to_stop t (anc t (rpar r))) post). simpl. congruence.
Qed.
