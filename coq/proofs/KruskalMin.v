(* C11: the edge set chosen by Kruskal on sorted candidate edges has MINIMUM total length among all sets of candidate
   edges that connect everything the candidates can connect (exchange argument, entirely in union-find terms). *)
From Coq Require Import List ZArith QArith Bool Lia Lqa Sorted.
Import ListNotations.
From Navis Require Import model.Forest model.Ops model.Dist model.Heal proofs.HealProofs.
Open Scope Z_scope.

Definition uf_add (u : uf) (S : list cand) : uf := fold_left (fun u f => union u (fa f) (fb f)) S u.
Definition Ru (u : uf) (x y : Z) : Prop := registered u x = true /\ registered u y = true /\ find u x = find u y.
Definition connected (u : uf) (S : list cand) (x y : Z) : Prop := Ru (uf_add u S) x y.
Definition regs (u : uf) (S : list cand) : Prop := forall f, In f S -> registered u (fa f) = true /\ registered u (fb f) = true.

Lemma uf_add_cons u g S : uf_add u (g :: S) = uf_add (union u (fa g) (fb g)) S.
Proof. reflexivity. Qed.
Lemma uf_add_app u S1 S2 : uf_add u (S1 ++ S2) = uf_add (uf_add u S1) S2.
Proof. unfold uf_add. apply fold_left_app. Qed.
Lemma uf_add_keys S : forall u x, registered (uf_add u S) x = registered u x.
Proof. induction S as [|g S IH]; intros u x; [reflexivity|]. rewrite uf_add_cons, IH. apply union_keys. Qed.

Lemma Ru_sym u x y : Ru u x y -> Ru u y x.
Proof. intros [A [B C]]. repeat split; auto. Qed.
Lemma Ru_trans u x y z : Ru u x y -> Ru u y z -> Ru u x z.
Proof. intros [A [B C]] [D [E F]]. repeat split; auto. congruence. Qed.
Lemma Ru_dec u x y : {Ru u x y} + {~ Ru u x y}.
Proof.
  unfold Ru. destruct (registered u x); [|right; intros [H _]; discriminate].
  destruct (registered u y); [|right; intros [_ [H _]]; discriminate].
  destruct (Z.eq_dec (find u x) (find u y)); [left; auto | right; tauto].
Qed.

Lemma Ru_union u a b x y : Ru u x y -> Ru (union u a b) x y.
Proof. intros [A [B C]]. repeat split; try (rewrite union_keys; assumption). apply union_preserves; assumption. Qed.
Lemma Ru_union_joins u a b : registered u a = true -> registered u b = true -> Ru (union u a b) a b.
Proof. intros A B. repeat split; try (rewrite union_keys; assumption). apply union_joins; assumption. Qed.

(* what a single union can newly relate *)
Lemma Ru_union_inv u a b x y : registered u a = true -> registered u b = true -> Ru (union u a b) x y ->
  Ru u x y \/ (Ru u x a /\ Ru u y b) \/ (Ru u x b /\ Ru u y a).
Proof.
  intros Ra Rb [A [B C]]. rewrite union_keys in A, B. rewrite !union_find, A, B in C.
  destruct (Z.eqb_spec (find u x) (find u b)) as [E1|E1], (Z.eqb_spec (find u y) (find u b)) as [E2|E2].
  - left. repeat split; auto. congruence.
  - right. right. split; repeat split; auto.
  - right. left. split; repeat split; auto.
  - left. repeat split; auto.
Qed.

Lemma connected_base S : forall u x y, Ru u x y -> connected u S x y.
Proof.
  induction S as [|g S IH]; intros u x y H; [exact H|]. unfold connected. rewrite uf_add_cons. apply IH. apply Ru_union. exact H.
Qed.
Lemma connected_edge S : forall u f, regs u S -> In f S -> connected u S (fa f) (fb f).
Proof.
  induction S as [|g S IH]; intros u f Hr Hin; [contradiction|]. unfold connected. rewrite uf_add_cons.
  destruct Hin as [<-|Hin].
  - apply connected_base. destruct (Hr g (or_introl eq_refl)). apply Ru_union_joins; assumption.
  - apply IH; [|exact Hin]. intros h Hh. rewrite !union_keys. apply Hr. right. exact Hh.
Qed.

(* (M): connectivity is the least symmetric transitive relation containing the partition and the edges *)
Lemma connected_least S : forall u (C : Z -> Z -> Prop), regs u S ->
  (forall x y, C x y -> C y x) -> (forall x y z, C x y -> C y z -> C x z) ->
  (forall x y, Ru u x y -> C x y) -> (forall f, In f S -> C (fa f) (fb f)) ->
  forall x y, connected u S x y -> C x y.
Proof.
  induction S as [|g S IH]; intros u C Hr Csym Ctr Cbase Cedge x y H; [apply Cbase; exact H|].
  unfold connected in H. rewrite uf_add_cons in H. destruct (Hr g (or_introl eq_refl)) as [Ra Rb].
  apply (IH (union u (fa g) (fb g)) C); try assumption.
  - intros h Hh. rewrite !union_keys. apply Hr. right. exact Hh.
  - intros p q Hpq. destruct (Ru_union_inv u (fa g) (fb g) p q Ra Rb Hpq) as [H1|[[H1 H2]|[H1 H2]]].
    + apply Cbase. exact H1.
    + apply (Ctr p (fa g)); [apply Cbase; exact H1|]. apply (Ctr (fa g) (fb g)); [apply Cedge; left; reflexivity|]. apply Csym, Cbase. exact H2.
    + apply (Ctr p (fb g)); [apply Cbase; exact H1|]. apply (Ctr (fb g) (fa g)); [apply Csym, Cedge; left; reflexivity|]. apply Csym, Cbase. exact H2.
  - intros h Hh. apply Cedge. right. exact Hh.
Qed.

Lemma connected_sym u S x y : connected u S x y -> connected u S y x. Proof. apply Ru_sym. Qed.
Lemma connected_trans u S x y z : connected u S x y -> connected u S y z -> connected u S x z. Proof. apply Ru_trans. Qed.

(* the first edge of T at which a and b become connected *)
Lemma first_merge T : forall u a b, regs u T -> ~ Ru u a b -> connected u T a b ->
  exists P f Q, T = P ++ f :: Q /\ ~ connected u P a b /\ connected u (P ++ [f]) a b.
Proof.
  induction T as [|g T IH]; intros u a b Hr Hn Hc; [contradiction|].
  destruct (Ru_dec (union u (fa g) (fb g)) a b) as [H1|H1].
  - exists [], g, T. split; [reflexivity|]. split; [exact Hn | exact H1].
  - assert (Hr1 : regs (union u (fa g) (fb g)) T) by (intros h Hh; rewrite !union_keys; apply Hr; right; exact Hh).
    unfold connected in Hc. rewrite uf_add_cons in Hc.
    destruct (IH (union u (fa g) (fb g)) a b Hr1 H1 Hc) as [P [f [Q [E [N C]]]]].
    exists (g :: P), f, Q. split; [rewrite E; reflexivity|]. split; [exact N | exact C].
Qed.

(* ---------- weights ---------- *)
Definition cand_eqb (f e : cand) : bool :=
  Z.eqb (fa f) (fa e) && Z.eqb (fb f) (fb e) && Z.eqb (na f) (na e) && Z.eqb (nb f) (nb e)
  && Z.eqb (Qnum (cd f)) (Qnum (cd e)) && Pos.eqb (Qden (cd f)) (Qden (cd e)).
Lemma cand_eqb_eq f e : cand_eqb f e = true <-> f = e.
Proof.
  destruct f as [a1 b1 c1 d1 [n1 m1]], e as [a2 b2 c2 d2 [n2 m2]]. unfold cand_eqb. cbn [fa fb na nb cd Qnum Qden].
  rewrite !andb_true_iff, !Z.eqb_eq, Pos.eqb_eq. split.
  - intros [[[[[-> ->] ->] ->] ->] ->]. reflexivity.
  - intros H. inversion H. repeat split; reflexivity.
Qed.
Definition without (e : cand) (T : list cand) : list cand := filter (fun f => negb (cand_eqb f e)) T.
Definition nonneg (T : list cand) : Prop := forall f, In f T -> (0 <= cd f)%Q.

Lemma without_in e T f : In f (without e T) <-> In f T /\ f <> e.
Proof.
  unfold without. rewrite filter_In, negb_true_iff. split; intros [A B]; split; auto.
  - intros ->. assert (cand_eqb e e = true) by (apply cand_eqb_eq; reflexivity). congruence.
  - destruct (cand_eqb f e) eqn:E; [apply cand_eqb_eq in E; contradiction | reflexivity].
Qed.
Lemma total_nonneg T : nonneg T -> (0 <= total_len T)%Q.
Proof.
  induction T as [|g T IH]; intros H; cbn [total_len fold_right]; [lra|].
  assert (0 <= cd g)%Q by (apply H; left; reflexivity). assert (0 <= total_len T)%Q by (apply IH; intros f Hf; apply H; right; exact Hf).
  unfold total_len in *. lra.
Qed.
Lemma total_without_le e T : nonneg T -> (total_len (without e T) <= total_len T)%Q.
Proof.
  induction T as [|g T IH]; intros H; [cbn; lra|].
  assert (0 <= cd g)%Q by (apply H; left; reflexivity). assert (Ht : nonneg T) by (intros f Hf; apply H; right; exact Hf). specialize (IH Ht).
  unfold without in *. cbn [filter]. destruct (cand_eqb g e); cbn [negb total_len fold_right] in *; unfold total_len in *; lra.
Qed.
Lemma total_without_in e T : nonneg T -> In e T -> (cd e + total_len (without e T) <= total_len T)%Q.
Proof.
  induction T as [|g T IH]; intros H Hin; [contradiction|].
  assert (0 <= cd g)%Q by (apply H; left; reflexivity). assert (Ht : nonneg T) by (intros f Hf; apply H; right; exact Hf).
  unfold without. cbn [filter]. destruct (cand_eqb g e) eqn:E; cbn [negb total_len fold_right].
  - apply cand_eqb_eq in E. subst g. pose proof (total_without_le e T Ht). unfold without, total_len in *. lra.
  - destruct Hin as [->|Hin]; [assert (cand_eqb e e = true) by (apply cand_eqb_eq; reflexivity); congruence|].
    specialize (IH Ht Hin). unfold without, total_len in *. lra.
Qed.

Definition sorted_cd (es : list cand) : Prop := StronglySorted (fun e f => (cd e <= cd f)%Q) es.

(* ---------- the theorem ---------- *)
Theorem kruskal_minimal es : forall u chosen u' T,
  sorted_cd es -> regs u es -> nonneg es -> incl T es ->
  (forall e, In e es -> connected u T (fa e) (fb e)) ->
  kruskal u es = (chosen, u') ->
  (total_len chosen <= total_len T)%Q.
Proof.
  induction es as [|e rest IH]; intros u chosen u' T Hs Hr Hnn Hincl Hspan Hk; cbn [kruskal] in Hk.
  - inversion Hk; subst. apply total_nonneg. intros f Hf. destruct (Hincl f Hf).
  - assert (HnnT : nonneg T) by (intros f Hf; apply Hnn, Hincl; exact Hf).
    assert (HrT : regs u T) by (intros f Hf; apply Hr, Hincl; exact Hf).
    inversion Hs as [|? ? Hs' Hle]; subst. rewrite Forall_forall in Hle.
    destruct (Hr e (or_introl eq_refl)) as [Ra Rb].
    assert (Hnnr : nonneg rest) by (intros f Hf; apply Hnn; right; exact Hf).
    assert (Hincl_wo : forall g, incl (without g T) (e :: rest)) by (intros g f Hf; apply Hincl; apply without_in in Hf; tauto).
    assert (Hincl_e : incl (without e T) rest).
    { intros f Hf. apply without_in in Hf. destruct Hf as [Hf Hne]. destruct (Hincl f Hf) as [E|E]; [congruence | exact E]. }
    destruct (Z.eqb_spec (find u (fa e)) (find u (fb e))) as [Eq|Ne].
    + (* e closes nothing new: skipped; T without e still spans *)
      apply (Qle_trans _ (total_len (without e T))); [|apply total_without_le; exact HnnT].
      apply (IH u chosen u' (without e T)); try assumption.
      * intros f Hf. apply Hr. right. exact Hf.
      * intros e1 H1. apply (connected_least T u (connected u (without e T)) HrT).
        -- apply connected_sym. -- apply connected_trans. -- intros x y H. apply connected_base. exact H.
        -- intros f Hf. destruct (cand_eqb f e) eqn:E.
           ++ apply cand_eqb_eq in E. subst f. apply connected_base. repeat split; assumption.
           ++ apply connected_edge; [intros h Hh; apply Hr, (Hincl_wo e); exact Hh|]. apply without_in. split; [exact Hf|]. intros ->.
              assert (cand_eqb e e = true) by (apply cand_eqb_eq; reflexivity). congruence.
        -- apply Hspan. right. exact H1.
    + destruct (kruskal (union u (fa e) (fb e)) rest) as [ch u2] eqn:K. inversion Hk; subst chosen u2. clear Hk.
      set (u1 := union u (fa e) (fb e)) in *.
      assert (Hr1 : regs u1 rest) by (intros f Hf; unfold u1; rewrite !union_keys; apply Hr; right; exact Hf).
      cbn [total_len fold_right]. fold (total_len ch).
      destruct (existsb (fun f => cand_eqb f e) T) eqn:Ein.
      * (* e is in T: compare the rests *)
        apply existsb_exists in Ein. destruct Ein as [f [Hf E]]. apply cand_eqb_eq in E. subst f.
        apply (Qle_trans _ (cd e + total_len (without e T))); [|apply total_without_in; assumption].
        assert (total_len ch <= total_len (without e T))%Q; [|lra].
        apply (IH u1 ch u' (without e T)); try assumption.
        intros e1 H1. apply (connected_least T u (connected u1 (without e T)) HrT).
        -- apply connected_sym. -- apply connected_trans.
        -- intros x y H. apply connected_base. apply Ru_union. exact H.
        -- intros f Hf0. destruct (cand_eqb f e) eqn:E.
           ++ apply cand_eqb_eq in E. subst f. apply connected_base. apply Ru_union_joins; assumption.
           ++ apply connected_edge; [intros h Hh; unfold u1; rewrite !union_keys; apply Hr, (Hincl_wo e); exact Hh|]. apply without_in. split; [exact Hf0|]. intros ->.
              assert (cand_eqb e e = true) by (apply cand_eqb_eq; reflexivity). congruence.
        -- apply Hspan. right. exact H1.
      * (* e is not in T: exchange it for the edge of T that first connects its end fragments *)
        assert (HnotT : ~ In e T).
        { intros Hin. assert (existsb (fun f => cand_eqb f e) T = true) by (apply existsb_exists; exists e; split; [exact Hin | apply cand_eqb_eq; reflexivity]). congruence. }
        assert (HTrest : incl T rest) by (intros f Hf; destruct (Hincl f Hf) as [E|E]; [subst f; contradiction | exact E]).
        assert (Hnab : ~ Ru u (fa e) (fb e)) by (intros [_ [_ E]]; contradiction).
        destruct (first_merge T u (fa e) (fb e) HrT Hnab (Hspan e (or_introl eq_refl))) as [P [f [Q [ET [HnP HcP]]]]].
        assert (HfT : In f T) by (rewrite ET; apply in_or_app; right; left; reflexivity).
        assert (HPT : incl P T) by (intros g Hg; rewrite ET; apply in_or_app; left; exact Hg).
        assert (HrP : regs u P) by (intros g Hg; apply HrT, HPT; exact Hg).
        destruct (HrT f HfT) as [Rfa Rfb].
        (* f is not in P, otherwise adding it again would connect nothing new *)
        set (uP := uf_add u P) in *.
        assert (RfaP : registered uP (fa f) = true) by (unfold uP; rewrite uf_add_keys; exact Rfa).
        assert (RfbP : registered uP (fb f) = true) by (unfold uP; rewrite uf_add_keys; exact Rfb).
        assert (HcP' : Ru (union uP (fa f) (fb f)) (fa e) (fb e)).
        { unfold connected in HcP. rewrite uf_add_app in HcP. exact HcP. }
        assert (HnP' : ~ Ru uP (fa e) (fb e)) by exact HnP.
        destruct (Ru_union_inv uP (fa f) (fb f) (fa e) (fb e) RfaP RfbP HcP') as [H0|Hcross]; [contradiction|].
        assert (HfP : ~ In f P).
        { intros Hin. pose proof (connected_edge P u f HrP Hin) as Hc. change (Ru uP (fa f) (fb f)) in Hc.
          destruct Hcross as [[A B]|[A B]]; apply HnP'.
          - apply (Ru_trans _ _ (fa f)); [exact A|]. apply (Ru_trans _ _ (fb f)); [exact Hc | apply Ru_sym; exact B].
          - apply (Ru_trans _ _ (fb f)); [exact A|]. apply (Ru_trans _ _ (fa f)); [apply Ru_sym; exact Hc | apply Ru_sym; exact B]. }
        assert (Hle_f : (cd e <= cd f)%Q) by (apply Hle, HTrest; exact HfT).
        apply (Qle_trans _ (cd f + total_len (without f T))); [|apply total_without_in; assumption].
        assert (total_len ch <= total_len (without f T))%Q; [|lra].
        assert (Hincl_f : incl (without f T) rest) by (intros g Hg; apply without_in in Hg; apply HTrest; tauto).
        assert (Hr1f : regs u1 (without f T)) by (intros h Hh; apply Hr1, Hincl_f; exact Hh).
        apply (IH u1 ch u' (without f T)); try assumption.
        (* everything P connects (from u) is connected by T without f (from u1) *)
        assert (HPsub : forall x y, connected u P x y -> connected u1 (without f T) x y).
        { apply (connected_least P u (connected u1 (without f T)) HrP).
          - apply connected_sym. - apply connected_trans.
          - intros x y H. apply connected_base. apply Ru_union. exact H.
          - intros g Hg. apply connected_edge; [exact Hr1f|]. apply without_in. split; [apply HPT; exact Hg | intros ->; contradiction]. }
        assert (Hab : connected u1 (without f T) (fa e) (fb e)) by (apply connected_base; apply Ru_union_joins; assumption).
        assert (Hfxy : connected u1 (without f T) (fa f) (fb f)).
        { destruct Hcross as [[A B]|[A B]].
          - apply (connected_trans _ _ _ (fa e)); [apply connected_sym, HPsub; exact A|]. apply (connected_trans _ _ _ (fb e)); [exact Hab | apply HPsub; exact B].
          - apply connected_sym. apply (connected_trans _ _ _ (fa e)); [apply connected_sym, HPsub; exact A|]. apply (connected_trans _ _ _ (fb e)); [exact Hab | apply HPsub; exact B]. }
        intros e1 H1. apply (connected_least T u (connected u1 (without f T)) HrT).
        -- apply connected_sym. -- apply connected_trans.
        -- intros x y H. apply connected_base. apply Ru_union. exact H.
        -- intros g Hg. destruct (cand_eqb g f) eqn:E.
           ++ apply cand_eqb_eq in E. subst g. exact Hfxy.
           ++ apply connected_edge; [exact Hr1f|]. apply without_in. split; [exact Hg|]. intros ->.
              assert (cand_eqb f f = true) by (apply cand_eqb_eq; reflexivity). congruence.
        -- apply Hspan. right. exact H1.
Qed.

(* the candidate set itself spans, so in particular Kruskal's choice is no longer than any spanning subset, and it is one *)
Theorem kruskal_is_spanning_subset es u chosen u' : regs u es -> kruskal u es = (chosen, u') ->
  incl chosen es /\ forall e, In e es -> find u' (fa e) = find u' (fb e).
Proof. intros Hr Hk. split; [eapply kruskal_chosen_subset; exact Hk | eapply kruskal_spanning; eassumption]. Qed.

Lemma kruskal_final_uf es : forall u chosen u', kruskal u es = (chosen, u') -> u' = uf_add u chosen.
Proof.
  induction es as [|e rest IH]; intros u chosen u' Hk; cbn [kruskal] in Hk; [inversion Hk; reflexivity|].
  destruct (find u (fa e) =? find u (fb e)); [apply IH; exact Hk|].
  destruct (kruskal (union u (fa e) (fb e)) rest) as [ch u2] eqn:K. inversion Hk; subst. rewrite uf_add_cons. apply IH. exact K.
Qed.
(* Kruskal's own choice is one of the spanning sets it is compared with: the minimum is attained *)
Theorem kruskal_choice_spans es u chosen u' : regs u es -> kruskal u es = (chosen, u') ->
  incl chosen es /\ forall e, In e es -> connected u chosen (fa e) (fb e).
Proof.
  intros Hr Hk. split; [eapply kruskal_chosen_subset; exact Hk|]. intros e He.
  unfold connected. rewrite <- (kruskal_final_uf es u chosen u' Hk). destruct (Hr e He) as [A B].
  pose proof (kruskal_final_uf es u chosen u' Hk) as E.
  repeat split; try (rewrite E, uf_add_keys; assumption). eapply kruskal_spanning; eassumption.
Qed.
