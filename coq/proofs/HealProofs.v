From Coq Require Import List ZArith QArith Bool Lia Arith.
Import ListNotations.
From Navis Require Import model.Forest model.Ops model.Dist model.Heal
  proofs.ForestWF proofs.RerootProofs proofs.SubsetCut proofs.OpsWF.
Open Scope Z_scope.

(* ---------- healing never removes nodes or edges ---------- *)
Lemma set_parent_of_ids b a t : ids (set_parent_of b a t) = ids t.
Proof. unfold set_parent_of, ids. rewrite map_map. apply map_ext. intros r. destruct (rid r =? b); reflexivity. Qed.

Theorem join_keeps_nodes a b t t' : join a b t = Some t' -> ids t' = ids t /\ map rdat t' = map rdat t.
Proof.
  unfold join. destruct (memZ a (ids t) && memZ b (ids t) && negb (memZ b (anc (reroot b t) a))); [|discriminate].
  intros E; inversion E; subst. split.
  - rewrite set_parent_of_ids. unfold reroot. apply ids_reroot_rows.
  - unfold set_parent_of. rewrite map_map.
    transitivity (map rdat (reroot b t)); [apply map_ext; intros r; destruct (rid r =? b); reflexivity|].
    apply reroot_keeps_rows.
Qed.

Theorem join_keeps_edges a b t t' x y : WF t -> join a b t = Some t' -> und_edge t x y -> und_edge t' x y.
Proof.
  intros Hwf. unfold join.
  destruct (memZ a (ids t) && memZ b (ids t) && negb (memZ b (anc (reroot b t) a))) eqn:G; [|discriminate].
  intros E; inversion E; subst. clear E.
  apply andb_prop in G. destruct G as [G _]. apply andb_prop in G. destruct G as [_ G2]. apply memZ_In in G2.
  destruct (In_ids_row _ _ G2) as [rb [Hrb Eb]]. intros H.
  apply (proj1 (reroot_und_edges t rb x y Hwf Hrb)) in H. rewrite Eb in H.
  (* rows other than b are unchanged by set_parent_of; b was a root, so it carried no edge *)
  assert (Keep : forall u v, In (u, v) (edges (reroot b t)) -> In (u, v) (edges (set_parent_of b a (reroot b t)))).
  { intros u v Huv. apply edges_In in Huv. destruct Huv as [q [Hq [E1 [E2 E3]]]].
    apply edges_In. exists q. split; [|auto]. unfold set_parent_of. apply in_map_iff. exists q. split; [|exact Hq].
    destruct (Z.eqb_spec (rid q) b) as [Eqb|N]; [|reflexivity]. exfalso.
    assert (rpar q = -1) by (apply (reroot_makes_root t rb q Hwf Hrb); [rewrite Eb; exact Hq|congruence]). lia. }
  destruct H as [H|H]; [left|right]; apply Keep; exact H.
Qed.

(* the new edge is there *)
Theorem join_adds_edge a b t t' : WF t -> join a b t = Some t' -> 0 <= a -> In (b, a) (edges t').
Proof.
  intros Hwf. unfold join.
  destruct (memZ a (ids t) && memZ b (ids t) && negb (memZ b (anc (reroot b t) a))) eqn:G; [|discriminate].
  intros E Ha; inversion E; subst. clear E.
  apply andb_prop in G. destruct G as [G _]. apply andb_prop in G. destruct G as [_ G2]. apply memZ_In in G2.
  assert (Hb : In b (ids (reroot b t))) by (unfold reroot; rewrite ids_reroot_rows; exact G2).
  destruct (In_ids_row _ _ Hb) as [q [Hq Eq]].
  apply edges_In. exists (set_par q a). split.
  - unfold set_parent_of. apply in_map_iff. exists q. split; [|exact Hq]. rewrite Eq, Z.eqb_refl. reflexivity.
  - simpl. auto.
Qed.

Theorem heal_wf t chosen : WF t -> WF (heal t chosen).
Proof.
  unfold heal. revert t. induction chosen as [|e es IH]; intros t H; simpl; [exact H|].
  apply IH. unfold step'. destruct (step t (OJoin (na e) (nb e))) as [t'|] eqn:E; [eapply step_wf; eassumption|exact H].
Qed.

Theorem heal_keeps_edges t chosen x y : WF t -> und_edge t x y -> und_edge (heal t chosen) x y.
Proof.
  unfold heal. revert t. induction chosen as [|e es IH]; intros t Hwf H; simpl; [exact H|].
  unfold step' at 2. destruct (step t (OJoin (na e) (nb e))) as [t'|] eqn:E.
  - apply IH; [eapply step_wf; eassumption|]. simpl in E. eapply join_keeps_edges; eassumption.
  - apply IH; assumption.
Qed.

Theorem heal_keeps_nodes t chosen : ids (heal t chosen) = ids t.
Proof.
  unfold heal. revert t. induction chosen as [|e es IH]; intros t; simpl; [reflexivity|].
  rewrite IH. unfold step'. destruct (step t (OJoin (na e) (nb e))) as [t'|] eqn:E; [|reflexivity].
  simpl in E. apply join_keeps_nodes in E. tauto.
Qed.

(* ---------- Kruskal: the chosen edges connect everything the candidate edges can connect ---------- *)
Definition registered (u : uf) (x : Z) : bool := existsb (fun kv => fst kv =? x) u.

Lemma find_map u (g : Z -> Z) x :
  find (map (fun kv => (fst kv, g (snd kv))) u) x = if registered u x then g (find u x) else x.
Proof.
  unfold registered. induction u as [|[k v] u IH]; simpl; [reflexivity|].
  destruct (Z.eqb_spec k x) as [E|N]; simpl; [reflexivity|exact IH].
Qed.

Lemma union_find u a b x : find (union u a b) x =
  if registered u x then (if find u x =? find u b then find u a else find u x) else x.
Proof. unfold union. apply (find_map u (fun v => if v =? find u b then find u a else v)). Qed.

(* after union, a and b (both registered) share a representative, and previously equal representatives stay equal *)
Lemma union_joins u a b : registered u a = true -> registered u b = true ->
  find (union u a b) a = find (union u a b) b.
Proof.
  intros Ha Hb. rewrite !union_find, Ha, Hb. rewrite Z.eqb_refl.
  destruct (find u a =? find u b) eqn:E; [reflexivity|reflexivity].
Qed.

Lemma union_preserves u a b x y : registered u x = true -> registered u y = true ->
  find u x = find u y -> find (union u a b) x = find (union u a b) y.
Proof. intros Hx Hy E. rewrite !union_find, Hx, Hy, E. reflexivity. Qed.

Lemma union_keys u a b x : registered (union u a b) x = registered u x.
Proof.
  unfold union, registered. generalize (find u a) (find u b). intros ra rb.
  induction u as [|[k v] u IH]; simpl; [reflexivity|]. rewrite IH. reflexivity.
Qed.

Lemma kruskal_keeps_equal es : forall u chosen u' x y,
  registered u x = true -> registered u y = true -> find u x = find u y ->
  kruskal u es = (chosen, u') -> find u' x = find u' y.
Proof.
  induction es as [|e es IH]; intros u chosen u' x y Rx Ry E H; simpl in H.
  - inversion H; subst. exact E.
  - destruct (find u (fa e) =? find u (fb e)).
    + eapply IH; eassumption.
    + destruct (kruskal (union u (fa e) (fb e)) es) as [ch u2] eqn:K. inversion H; subst.
      apply (IH (union u (fa e) (fb e)) ch u' x y); try (rewrite union_keys; assumption); [|exact K].
      apply union_preserves; assumption.
Qed.

Theorem kruskal_spanning es : forall u chosen u',
  (forall e, In e es -> registered u (fa e) = true /\ registered u (fb e) = true) ->
  kruskal u es = (chosen, u') ->
  forall e, In e es -> find u' (fa e) = find u' (fb e).
Proof.
  induction es as [|e0 es IH]; intros u chosen u' Hreg H e He; [contradiction|].
  destruct (Hreg e0 (or_introl eq_refl)) as [Ra Rb].
  simpl in H. destruct (find u (fa e0) =? find u (fb e0)) eqn:E0.
  - destruct He as [<-|He].
    + apply Z.eqb_eq in E0. eapply kruskal_keeps_equal; eassumption.
    + eapply IH; [|eassumption|exact He]. intros e1 H1. apply Hreg. right. exact H1.
  - destruct (kruskal (union u (fa e0) (fb e0)) es) as [ch u2] eqn:K. inversion H; subst. clear H.
    destruct He as [<-|He].
    + apply (kruskal_keeps_equal es (union u (fa e0) (fb e0)) ch u'); try (rewrite union_keys; assumption); [|exact K].
      apply union_joins; assumption.
    + eapply IH; [|exact K|exact He]. intros e1 H1. rewrite !union_keys. apply Hreg. right. exact H1.
Qed.

(* every chosen edge joined two fragments that were still apart when it was chosen: no cycle is ever closed *)
Theorem kruskal_chosen_subset es : forall u chosen u', kruskal u es = (chosen, u') -> incl chosen es.
Proof.
  induction es as [|e0 es IH]; intros u chosen u' H; simpl in H; [inversion H; subst; intros x []|].
  destruct (find u (fa e0) =? find u (fb e0)).
  - intros x Hx. right. eapply IH; eassumption.
  - destruct (kruskal (union u (fa e0) (fb e0)) es) as [ch u2] eqn:K. inversion H; subst.
    intros x [<-|Hx]; [left; reflexivity|right; eapply IH; eassumption].
Qed.

(* ---------- stitching ---------- *)
Lemma list_eqb_eq a b : list_eqb a b = true -> a = b.
Proof.
  revert b. induction a as [|x a IH]; intros [|y b]; simpl; try discriminate; [reflexivity|].
  intros H. apply andb_prop in H. destruct H as [H1 H2]. apply Z.eqb_eq in H1. subst. f_equal. apply IH. exact H2.
Qed.

(* the checker accepts only outputs whose ids are unique and non-negative and whose i-th piece is the i-th
   input with ids AND parent links pushed through one and the same id map (read off row by row) *)
Theorem stitch_okb_sound inputs out_ : stitch_okb inputs out_ = true ->
  NoDup (ids out_) /\ nonneg_ids out_ /\
  forall i p, In (i, p) (combine inputs (pieces (map (@length row) inputs) out_)) ->
    ids p = ids (relabel_rows (zipmap (ids i) (ids p)) i) /\ pars p = pars (relabel_rows (zipmap (ids i) (ids p)) i).
Proof.
  unfold stitch_okb. rewrite !andb_true_iff. intros [[[H0 H1] H2] H3]. split; [apply nodupb_NoDup; exact H1|]. split.
  - intros r Hr. rewrite forallb_forall in H2. apply Z.leb_le. apply H2. exact Hr.
  - intros i p Hip. rewrite forallb_forall in H3. specialize (H3 (i, p) Hip). simpl in H3.
    unfold table_eqb in H3. apply andb_prop in H3. destruct H3 as [A B]. apply list_eqb_eq in A, B. split; congruence.
Qed.

Lemma relabel_concat_wf m t t' t2 t3 : WF t -> relabel m t = Some t' -> WF t2 -> concat t' t2 = Some t3 -> WF t3.
Proof. intros H1 H2 H3 H4. apply (concat_wf t' t2 t3); [apply (relabel_wf m t t' H1 H2)|exact H3|exact H4]. Qed.
