From Coq Require Import List ZArith QArith Bool Lia Arith Lqa Field.
Import ListNotations.
From Navis Require Import model.Forest model.Dist model.Segments model.Prune
  proofs.ForestWF proofs.RerootProofs proofs.SubsetCut proofs.OpsWF proofs.DistProofs.
Open Scope Z_scope.

(* ---------- what a twig is ---------- *)
Theorem twig_walk_spec t l tw : twig_walk t l = Some tw ->
  exists b rest, l = tw ++ b :: rest /\ (2 <= nchildren t b)%nat /\ forall x, In x tw -> (nchildren t x <= 1)%nat.
Proof.
  revert tw. induction l as [|x l IH]; cbn [twig_walk]; intros tw H; [discriminate|].
  destruct (2 <=? nchildren t x)%nat eqn:E.
  - inversion H; subst. exists x, l. split; [reflexivity|]. split; [apply Nat.leb_le; exact E|intros y []].
  - destruct (twig_walk t l) as [tw'|] eqn:Et; [|discriminate]. inversion H; subst.
    destruct (IH tw' eq_refl) as [b [rest [E1 [E2 E3]]]]. exists b, rest. split; [simpl; congruence|].
    split; [exact E2|]. intros y [<-|Hy]; [|apply E3; exact Hy]. apply Nat.leb_gt in E. lia.
Qed.

(* an unbranched chain has no twig *)
Theorem twig_walk_none t l : (forall x, In x l -> (nchildren t x <= 1)%nat) -> twig_walk t l = None.
Proof.
  induction l as [|x l IH]; cbn [twig_walk]; intros H; [reflexivity|].
  assert (E : (2 <=? nchildren t x)%nat = false) by (apply Nat.leb_gt; specialize (H x (or_introl eq_refl)); lia).
  rewrite E. rewrite IH; [reflexivity|]. intros y Hy. apply H. right. exact Hy.
Qed.

(* ---------- one round ---------- *)
Lemma filter_mem_filter (p : Z -> bool) l : filter (fun i => memZ i (filter p l)) l = filter p l.
Proof.
  apply filter_ext_in. intros a Ha. rewrite memZ_filter.
  replace (memZ a l) with true by (symmetry; apply memZ_In; exact Ha). reflexivity.
Qed.

Theorem prune_once_ids t w size mask :
  ids (prune_once t w size mask) = filter (fun i => negb (memZ i (removed_once t w size mask))) (ids t).
Proof. unfold prune_once. rewrite subset_ids. apply filter_mem_filter. Qed.

Theorem removed_once_spec t w size mask i :
  In i (removed_once t w size mask) <->
  exists tw, In tw (twigs t) /\ In i tw /\ Qle_bool (dsum w tw) size = true /\ in_mask mask tw = true.
Proof.
  unfold removed_once, qualifying. rewrite in_concat. split.
  - intros [tw [H1 H2]]. apply filter_In in H1. destruct H1 as [H1 H3]. apply andb_prop in H3. exists tw. tauto.
  - intros [tw [H1 [H2 [H3 H4]]]]. exists tw. split; [|exact H2]. apply filter_In. rewrite H3, H4. auto.
Qed.

Theorem prune_once_wf t w size mask : WF t -> WF (prune_once t w size mask).
Proof. intros H. unfold prune_once. apply subset_wf. exact H. Qed.

(* ---------- recursion reaches a fixpoint: nothing qualifying is left ---------- *)
Lemma twigs_in_ids t tw i : WF t -> In tw (twigs t) -> In i tw -> In i (ids t).
Proof.
  intros Hwf Htw Hi. unfold twigs in Htw. apply in_flat_map in Htw. destruct Htw as [r [Hr Ht]].
  destruct (twig_walk t (anc t (rid r))) as [tw'|] eqn:E; [|contradiction]. destruct Ht as [<-|[]].
  destruct (twig_walk_spec _ _ _ E) as [b [rest [E1 _]]].
  apply (anc_incl t (rid r) Hwf). rewrite E1. apply in_or_app. left. exact Hi.
Qed.

Lemma filter_len_le2 {A} (p : A -> bool) l : (length (filter p l) <= length l)%nat.
Proof. induction l as [|a l IH]; simpl; [lia|]. destruct (p a); simpl; lia. Qed.

Lemma filter_length_lt {A} (p : A -> bool) l x : In x l -> p x = false -> (length (filter p l) < length l)%nat.
Proof.
  induction l as [|a l IH]; simpl; [intros []|]. intros [<-|Hx] Hp.
  - rewrite Hp. pose proof (filter_len_le2 p l). lia.
  - specialize (IH Hx Hp). destruct (p a); simpl; lia.
Qed.

Lemma prune_once_shrinks t w size mask i : WF t -> In i (removed_once t w size mask) ->
  (length (prune_once t w size mask) < length t)%nat.
Proof.
  intros Hwf Hi. assert (Hid : In i (ids t)).
  { apply removed_once_spec in Hi. destruct Hi as [tw [H1 [H2 _]]]. eapply twigs_in_ids; eassumption. }
  assert (L : forall t0 : table, length t0 = length (ids t0)) by (intros; unfold ids; rewrite map_length; reflexivity).
  rewrite (L (prune_once t w size mask)), (L t), prune_once_ids.
  apply (filter_length_lt _ _ i Hid). apply negb_false_iff. apply memZ_In. exact Hi.
Qed.

Theorem prune_rec_fixpoint fuel t w size mask : WF t -> (length t < fuel)%nat ->
  removed_once (prune_rec fuel t w size mask) w size mask = [].
Proof.
  revert t. induction fuel as [|f IH]; intros t Hwf Hl; [lia|]. simpl.
  destruct (removed_once t w size mask) as [|i rest] eqn:E; [exact E|].
  apply IH; [apply prune_once_wf; exact Hwf|].
  assert (Hi : In i (removed_once t w size mask)) by (rewrite E; left; reflexivity).
  pose proof (prune_once_shrinks t w size mask i Hwf Hi). lia.
Qed.

(* recursive=True: afterwards no terminal branch of length <= size inside the mask remains *)
Theorem prune_twigs_recursive_spec t w size mask tw : WF t ->
  In tw (twigs (prune_twigs None t w size mask)) ->
  Qle_bool (dsum w tw) size && in_mask mask tw = false \/ tw = [].
Proof.
  intros Hwf Htw. unfold prune_twigs in *.
  assert (F := prune_rec_fixpoint (S (length t)) t w size mask Hwf ltac:(lia)).
  set (t' := prune_rec (S (length t)) t w size mask) in *.
  destruct (Qle_bool (dsum w tw) size && in_mask mask tw) eqn:E; [|left; reflexivity]. right.
  destruct tw as [|i tw']; [reflexivity|]. exfalso.
  assert (Hi : In i (removed_once t' w size mask)).
  { apply removed_once_spec. exists (i :: tw'). apply andb_prop in E. split; [exact Htw|]. split; [left; reflexivity|tauto]. }
  rewrite F in Hi. contradiction.
Qed.

Theorem prune_rec_wf fuel t w size mask : WF t -> WF (prune_rec fuel t w size mask).
Proof.
  revert t. induction fuel as [|f IH]; intros t H; simpl; [exact H|].
  destruct (removed_once t w size mask); [exact H|]. apply IH. apply prune_once_wf. exact H.
Qed.

(* ---------- prune_at_depth ---------- *)
Theorem prune_at_depth_ids t w src depth i :
  In i (ids (prune_at_depth t w src depth)) <->
  In i (ids t) /\ exists d, geo t w src i = Some d /\ Qle_bool d depth = true.
Proof.
  unfold prune_at_depth. rewrite subset_ids, filter_In. unfold within_depth. split.
  - intros [H1 H2]. apply memZ_In in H2. apply filter_In in H2. destruct H2 as [_ H2].
    split; [exact H1|]. destruct (geo t w src i) as [d|]; [eauto|discriminate].
  - intros [H1 [d [H2 H3]]]. split; [exact H1|]. apply memZ_In. apply filter_In. split; [exact H1|]. rewrite H2. exact H3.
Qed.

(* ---------- Strahler selections ---------- *)
Lemma zrange_In a n x : In x (zrange a n) <-> a <= x < a + Z.of_nat n.
Proof.
  revert a. induction n as [|n IH]; intros a; simpl; [lia|]. rewrite IH. lia.
Qed.

(* a negative int k keeps the |k| highest indices: range(1, max + k + 1) is removed *)
Theorem selected_negative k m l x : k < 0 -> selected (SInt k) m = Some l -> (In x l <-> 1 <= x < m + k + 1).
Proof.
  intros Hk. unfold selected. destruct (Z.ltb_spec k 0); [|lia]. intros E; inversion E; subst. rewrite zrange_In.
  destruct (Z.le_gt_cases 0 (m + k)); [rewrite Z2Nat.id by lia; lia|].
  replace (Z.to_nat (m + k)) with 0%nat by lia. simpl. lia.
Qed.
Theorem selected_positive k m : 1 <= k -> selected (SInt k) m = Some [k].
Proof. intros Hk. simpl. destruct (Z.ltb_spec k 0); [lia|]. destruct (Z.ltb_spec k 1); [lia|reflexivity]. Qed.
Theorem selected_zero_rejected m : selected (SInt 0) m = None.
Proof. reflexivity. Qed.
Theorem selected_range a b m l x : selected (SRange a b) m = Some l -> (In x l <-> a <= x < b).
Proof.
  unfold selected. intros E; inversion E; subst. rewrite zrange_In.
  destruct (Z.le_gt_cases 0 (b - a)); [rewrite Z2Nat.id by lia; lia|].
  replace (Z.to_nat (b - a)) with 0%nat by lia. simpl. lia.
Qed.
(* slices index the list [1; ...; max] the way Python does *)
Theorem selected_slice a b m l x : 0 <= m -> selected (SSlice a b) m = Some l ->
  (In x l <-> 1 + norm_ix a 0 m <= x < 1 + norm_ix b m m).
Proof.
  intros Hm. unfold selected. cbv zeta. set (lo := norm_ix a 0 m). set (hi := norm_ix b m m). clearbody lo hi.
  remember (1 + lo) as s0 eqn:Es. intros E. injection E as <-. rewrite zrange_In.
  destruct (Z.le_gt_cases lo hi) as [L|L].
  - rewrite Z2Nat.id by lia. split; intros; lia.
  - replace (Z.to_nat (hi - lo)) with 0%nat by lia. change (Z.of_nat 0) with 0. split; intros; lia.
Qed.

Theorem prune_by_si_ids t si sel i : map fst si = ids t -> NoDup (ids t) ->
  (In i (ids (prune_by_si t si sel)) <-> exists s, In (i, s) si /\ memZ s sel = false).
Proof.
  intros Hk Hnd. unfold prune_by_si. rewrite subset_ids, filter_In. split.
  - intros [H1 H2]. apply memZ_In in H2. apply in_map_iff in H2. destruct H2 as [[i' s] [E H2]]. simpl in E. subst i'.
    apply filter_In in H2. destruct H2 as [H2 H3]. simpl in H3. apply negb_true_iff in H3. eauto.
  - intros [s [H1 H2]]. split.
    + rewrite <- Hk. apply in_map_iff. exists (i, s). auto.
    + apply memZ_In. apply in_map_iff. exists (i, s). split; [reflexivity|]. apply filter_In. simpl. rewrite H2. auto.
Qed.

(* ---------- connectors: kept, moved to the nearest surviving ancestor, or (no survivor upstream) dropped ---------- *)
Lemma first_in_kept_split kept l : exists l1 l2, l = l1 ++ l2 /\ (forall y, In y l1 -> memZ y kept = false) /\
  ((l2 = [] /\ first_in_kept kept l = -1) \/ (exists l2', l2 = first_in_kept kept l :: l2' /\ memZ (first_in_kept kept l) kept = true)).
Proof.
  induction l as [|x l IH]; simpl.
  - exists [], []. split; [reflexivity|]. split; [intros y []|]. left. auto.
  - destruct (memZ x kept) eqn:E.
    + exists [], (x :: l). split; [reflexivity|]. split; [intros y []|]. right. exists l. auto.
    + destruct IH as [l1 [l2 [E1 [H1 H2]]]]. exists (x :: l1), l2. split; [simpl; congruence|].
      split; [|exact H2]. intros y [<-|Hy]; [exact E|apply H1; exact Hy].
Qed.

Theorem relocate_connectors_spec t kept cn c n : In (c, n) (relocate_connectors t kept cn) ->
  0 <= n /\ exists n0, In (c, n0) cn /\
    ((memZ n0 kept = true /\ n = n0) \/
     (memZ n0 kept = false /\ exists l1 l2, anc t n0 = l1 ++ n :: l2 /\ memZ n kept = true /\ forall y, In y l1 -> memZ y kept = false)).
Proof.
  unfold relocate_connectors. rewrite filter_In. intros [H Hn]. simpl in Hn. apply Z.leb_le in Hn. split; [exact Hn|].
  apply in_map_iff in H. destruct H as [[c0 n0] [E H]]. simpl in E. exists n0.
  destruct (memZ n0 kept) eqn:M; inversion E; subst.
  - split; [exact H|]. left. auto.
  - split; [exact H|]. right. split; [reflexivity|].
    destruct (first_in_kept_split kept (anc t n0)) as [l1 [l2 [E1 [H1 [[E2 E3]|[l2' [E2 E3]]]]]]].
    + lia.
    + exists l1, l2'. split; [rewrite E1 at 1; rewrite E2; reflexivity|]. auto.
Qed.

(* ---- exact mode: where the cable is cut ---- *)
Theorem exact_plan_spec t w size i f : In (i, f) (exact_plan t w size) <->
  exists r, In r t /\ rid r = i /\
    let h := height (length t) t w i in let e := wget w i in
    ((Qle_bool size h = true /\ f = 0%Q) \/
     (Qle_bool size h = false /\ is_root r = true /\ f = 0%Q) \/
     (Qle_bool size h = false /\ is_root r = false /\ Qle_bool (h + e) size = false /\ f = ((size - h) / e)%Q)).
Proof.
  unfold exact_plan. rewrite in_flat_map. split.
  - intros [r [Hr H]]. exists r. split; [exact Hr|].
    destruct (Qle_bool size (height (length t) t w (rid r))) eqn:E1.
    + destruct H as [H|[]]. inversion H; subst. split; [reflexivity|]. left. split; [exact E1 | reflexivity].
    + destruct (is_root r) eqn:E2.
      * destruct H as [H|[]]. inversion H; subst. split; [reflexivity|]. right. left. rewrite E1. auto.
      * destruct (Qle_bool (height (length t) t w (rid r) + wget w (rid r)) size) eqn:E3; [destruct H|].
        destruct H as [H|[]]. inversion H; subst. split; [reflexivity|]. right. right. rewrite E1, E3. auto.
  - intros [r [Hr [<- H]]]. exists r. split; [exact Hr|]. cbv zeta in H.
    destruct H as [[E1 ->]|[[E1 [E2 ->]]|[E1 [E2 [E3 ->]]]]]; rewrite E1; try rewrite E2; try rewrite E3; left; reflexivity.
Qed.

(* a node that is moved ends up strictly inside the edge to its parent, at EXACTLY `size` of cable above the farthest tip below it *)
Theorem exact_cut_point (h e size : Q) : (0 < e)%Q -> Qle_bool size h = false -> Qle_bool (h + e) size = false ->
  let f := ((size - h) / e)%Q in (0 < f)%Q /\ (f < 1)%Q /\ (h + f * e == size)%Q.
Proof.
  intros He E1 E3. cbv zeta.
  assert (H1 : (h < size)%Q). { apply Qnot_le_lt. intros Hle. apply Qle_bool_iff in Hle. congruence. }
  assert (H3 : (size < h + e)%Q). { apply Qnot_le_lt. intros Hle. apply Qle_bool_iff in Hle. congruence. }
  split; [apply Qlt_shift_div_l; [exact He | lra]|]. split; [apply Qlt_shift_div_r; [exact He | lra]|]. field. lra.
Qed.
