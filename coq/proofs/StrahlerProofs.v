From Coq Require Import List ZArith QArith Bool Lia Arith.
Import ListNotations.
From Navis Require Import model.Forest model.Prune model.Strahler proofs.ForestWF proofs.RerootProofs proofs.OpsWF proofs.DistProofs.
Open Scope Z_scope.

Definition depth (t : table) (n : Z) : nat := length (anc t n).

Lemma children_In t n c : In c (children t n) <-> exists r, In r t /\ rid r = c /\ rpar r = n /\ 0 <= rpar r.
Proof.
  unfold children. rewrite in_map_iff. split.
  - intros [r [E H]]. apply filter_In in H. destruct H as [H1 H2]. apply andb_prop in H2. destruct H2 as [H2 H3].
    apply Z.leb_le in H2. apply Z.eqb_eq in H3. exists r. auto.
  - intros [r [H1 [H2 [H3 H4]]]]. exists r. split; [exact H2|]. apply filter_In. split; [exact H1|].
    apply andb_true_intro. split; [apply Z.leb_le; exact H4|apply Z.eqb_eq; exact H3].
Qed.

Lemma depth_child t n c : WF t -> In c (children t n) -> depth t c = S (depth t n) /\ In c (ids t).
Proof.
  intros Hwf Hc. apply children_In in Hc. destruct Hc as [r [Hr [E1 [E2 E3]]]]. unfold depth. subst c n.
  rewrite (anc_step t r Hwf Hr E3). simpl. split; [reflexivity|]. unfold ids. apply in_map. exact Hr.
Qed.

Lemma depth_le t n : WF t -> In n (ids t) -> (depth t n <= length t)%nat.
Proof.
  intros Hwf Hn. unfold depth. assert (P := anc_is_Path t n Hwf Hn). eapply Path_length; eassumption.
Qed.

(* enough fuel: the value no longer depends on it *)
Lemma si_stable g ign t : WF t -> forall k n, In n (ids t) -> (length t - depth t n <= k)%nat ->
  forall f1 f2, (k < f1)%nat -> (k < f2)%nat -> si g ign f1 t n = si g ign f2 t n.
Proof.
  intros Hwf. induction k as [|k IH]; intros n Hn Hk f1 f2 H1 H2;
    (destruct f1 as [|f1]; [lia|]); (destruct f2 as [|f2]; [lia|]); simpl; f_equal.
  - (* no slack: n has no children *)
    destruct (children t n) as [|c cs] eqn:E; [reflexivity|]. exfalso.
    assert (Hc : In c (children t n)) by (rewrite E; left; reflexivity).
    destruct (depth_child t n c Hwf Hc) as [D I]. pose proof (depth_le t c Hwf I). lia.
  - apply map_ext_in. intros c Hc. destruct (depth_child t n c Hwf Hc) as [D I].
    apply IH; [exact I| |lia|lia]. pose proof (depth_le t c Hwf I). lia.
Qed.

(* THE RECURRENCE, at every node (roots and forests included): the index of a node is the combination
   of its children's indices *)
Theorem si_recurrence g ign t n : WF t -> In n (ids t) ->
  si g ign (S (length t)) t n = combine_si g (memZ n ign) (map (si g ign (S (length t)) t) (children t n)).
Proof.
  intros Hwf Hn.
  change (si g ign (S (length t)) t n) with (combine_si g (memZ n ign) (map (si g ign (length t) t) (children t n))).
  f_equal. apply map_ext_in. intros c Hc.
  destruct (depth_child t n c Hwf Hc) as [D I].
  apply (si_stable g ign t Hwf (length t - depth t c) c I); [lia| |].
  - pose proof (depth_le t c Hwf I). lia.
  - pose proof (depth_le t c Hwf I). lia.
Qed.

(* the combination rule, spelled out *)
Theorem combine_leaf g : combine_si g false [] = 1.
Proof. reflexivity. Qed.
Theorem combine_ignored_leaf g : combine_si g true [] = 0.
Proof. reflexivity. Qed.
Theorem combine_slab g b v : combine_si g b [v] = v.
Proof. reflexivity. Qed.
Theorem combine_fork_standard b v1 v2 vs :
  let l := v1 :: v2 :: vs in
  combine_si false b l = if (2 <=? zcount (zmaxl l) l)%nat then zmaxl l + 1 else zmaxl l.
Proof. reflexivity. Qed.
Theorem combine_fork_greedy b v1 v2 vs : combine_si true b (v1 :: v2 :: vs) = zsum (v1 :: v2 :: vs).
Proof. reflexivity. Qed.

Lemma zmaxl_ge l x : In x l -> x <= zmaxl l.
Proof. induction l as [|y l IH]; simpl; [intros []|]. intros [<-|H]; [lia|]. specialize (IH H). lia. Qed.
Lemma zmaxl_In l : l <> [] -> (forall x, In x l -> 0 <= x) -> In (zmaxl l) l.
Proof.
  induction l as [|y l IH]; [congruence|]. intros _ Hp. simpl.
  destruct l as [|z l']; [left; simpl; specialize (Hp y (or_introl eq_refl)); lia|].
  assert (IH' : In (zmaxl (z :: l')) (z :: l')) by (apply IH; [discriminate|intros x Hx; apply Hp; right; exact Hx]).
  destruct (Z.max_spec y (zmaxl (z :: l'))) as [[_ E]|[_ E]]; rewrite E; [right; exact IH'|left; reflexivity].
Qed.

(* without ignored twigs the reported index is the recurrence value *)
Theorem strahler_no_ignore g t n : strahler g [] t n = si g [] (S (length t)) t n.
Proof.
  unfold strahler, on_ignored_twig.
  assert (E : forall (p : row -> bool) (q : row -> bool) (l : table), filter (fun r => p r && memZ (rid r) [] && q r) l = []).
  { intros p q l. induction l as [|r l IH]; [reflexivity|]. simpl. rewrite andb_false_r. simpl. exact IH. }
  rewrite E. reflexivity.
Qed.

(* indices are at least 1 when nothing is ignored *)
Lemma zsum_nonneg l : (forall v, In v l -> 1 <= v) -> 0 <= zsum l.
Proof.
  induction l as [|x l IH]; simpl; intros H; [lia|].
  assert (1 <= x) by (apply H; left; reflexivity).
  assert (0 <= zsum l) by (apply IH; intros v Hv; apply H; right; exact Hv). unfold zsum in *. lia.
Qed.

Lemma combine_ge_1 g vs : (forall v, In v vs -> 1 <= v) -> 1 <= combine_si g false vs.
Proof.
  intros H. destruct vs as [|v1 [|v2 vs]]; [simpl; lia|simpl; apply H; left; reflexivity|].
  assert (H1 : 1 <= v1) by (apply H; left; reflexivity).
  destruct g.
  - change (combine_si true false (v1 :: v2 :: vs)) with (zsum (v1 :: v2 :: vs)).
    assert (0 <= zsum (v2 :: vs)) by (apply zsum_nonneg; intros v Hv; apply H; right; exact Hv).
    change (zsum (v1 :: v2 :: vs)) with (v1 + zsum (v2 :: vs)). lia.
  - change (combine_si false false (v1 :: v2 :: vs)) with
      (if (2 <=? zcount (zmaxl (v1 :: v2 :: vs)) (v1 :: v2 :: vs))%nat then zmaxl (v1 :: v2 :: vs) + 1 else zmaxl (v1 :: v2 :: vs)).
    assert (v1 <= zmaxl (v1 :: v2 :: vs)) by (apply zmaxl_ge; left; reflexivity).
    destruct (2 <=? zcount (zmaxl (v1 :: v2 :: vs)) (v1 :: v2 :: vs))%nat; lia.
Qed.

Theorem si_ge_1 g t f n : 1 <= si g [] f t n.
Proof.
  revert n. induction f as [|f IH]; intros n; simpl; [lia|]. apply combine_ge_1.
  intros v Hv. apply in_map_iff in Hv. destruct Hv as [c [<- _]]. apply IH.
Qed.

(* min_twig_size: exactly the leaves whose twig (leaf .. branching node, inclusive) has fewer than k nodes are ignored; a leaf of an
   unbranched fragment never is *)
Lemma short_twig_leaves_spec t k l :
  In l (short_twig_leaves t k) <->
  exists r, In r (leaf_rows t) /\ rid r = l /\ exists tw, twig_walk t (anc t l) = Some tw /\ (S (length tw) < k)%nat.
Proof.
  unfold short_twig_leaves. rewrite in_map_iff. split.
  - intros [r [Hr Hin]]. apply filter_In in Hin. destruct Hin as [Hin Hc]. exists r. split; [exact Hin|]. split; [exact Hr|].
    subst l. destruct (twig_walk t (anc t (rid r))) as [tw|]; [|discriminate]. exists tw. split; [reflexivity|]. apply Nat.ltb_lt. exact Hc.
  - intros [r [Hin [Hr [tw [Htw Hlt]]]]]. exists r. split; [exact Hr|]. apply filter_In. split; [exact Hin|].
    subst l. rewrite Htw. apply Nat.ltb_lt. exact Hlt.
Qed.
