From Coq Require Import List ZArith Bool Lia.
Import ListNotations.
From Navis Require Import model.Connectivity.
Open Scope Z_scope.

(* ---------- basic facts on dedup / cids ---------- *)
Lemma filter_In_neq (x : Z) l y : In y (filter (fun z => negb (z =? x)) l) <-> In y l /\ y <> x.
Proof.
  rewrite filter_In. split; intros [H1 H2]; split; auto.
  - apply negb_true_iff in H2. apply Z.eqb_neq in H2. exact H2.
  - apply negb_true_iff. apply Z.eqb_neq. exact H2.
Qed.

Lemma dedup_In l x : In x (dedup l) <-> In x l.
Proof.
  induction l as [|a l IH]; simpl; [tauto|].
  rewrite filter_In_neq, IH. split.
  - intros [H|[H _]]; auto.
  - intros [H|H]; auto. destruct (Z.eq_dec x a); auto.
Qed.

Lemma NoDup_filter {A} (p : A -> bool) l : NoDup l -> NoDup (filter p l).
Proof.
  induction 1 as [|a l Hn Hd IH]; simpl; [constructor|].
  destruct (p a); [constructor|]; auto. intro H. apply Hn. apply filter_In in H. tauto.
Qed.

Lemma dedup_NoDup l : NoDup (dedup l).
Proof.
  induction l as [|a l IH]; simpl; constructor.
  - intro H. apply filter_In_neq in H. tauto.
  - apply NoDup_filter. exact IH.
Qed.

Lemma cids_In rows c : In c (cids rows) <-> exists r, In r rows /\ ccid r = c /\ (is_pre r || is_post r) = true.
Proof.
  unfold cids. rewrite dedup_In, in_map_iff. split.
  - intros [r [E H]]. apply filter_In in H. exists r. tauto.
  - intros [r [H [E P]]]. exists r. split; auto. apply filter_In. tauto.
Qed.

Lemma cids_NoDup rows : NoDup (cids rows).
Proof. apply dedup_NoDup. Qed.

(* ---------- pre_of / posts_of ---------- *)
Lemma pre_of_Some c rows p : pre_of c rows = Some p -> In p rows /\ is_pre p = true /\ ccid p = c.
Proof.
  induction rows as [|r rows IH]; simpl; [discriminate|].
  destruct (pre_of c rows) as [p'|] eqn:E.
  - intros H; inversion H; subst. destruct (IH eq_refl) as [H1 H2]. tauto.
  - destruct (is_pre r && (ccid r =? c)) eqn:B; [|discriminate].
    intros H; inversion H; subst. apply andb_prop in B. destruct B as [B1 B2]. apply Z.eqb_eq in B2. tauto.
Qed.

Lemma pre_of_None c rows : pre_of c rows = None -> forall r, In r rows -> is_pre r = true -> ccid r <> c.
Proof.
  induction rows as [|r0 rows IH]; simpl; [contradiction|].
  destruct (pre_of c rows) as [p'|] eqn:E; [discriminate|].
  destruct (is_pre r0 && (ccid r0 =? c)) eqn:B; [discriminate|].
  intros _ r [->|Hr] Hp.
  - rewrite Hp in B. simpl in B. apply Z.eqb_neq. exact B.
  - apply IH; auto.
Qed.

(* at most one presynaptic row per connector id *)
Definition unique_pre (rows : list crow) : Prop :=
  forall p p', In p rows -> In p' rows -> is_pre p = true -> is_pre p' = true -> ccid p = ccid p' -> p = p'.

Lemma pre_of_unique rows p : unique_pre rows -> In p rows -> is_pre p = true -> pre_of (ccid p) rows = Some p.
Proof.
  intros U Hp Pp. destruct (pre_of (ccid p) rows) as [p'|] eqn:E.
  - destruct (pre_of_Some _ _ _ E) as [H1 [H2 H3]]. f_equal. apply U; auto.
  - exfalso. exact (pre_of_None _ _ E p Hp Pp eq_refl).
Qed.

Lemma posts_of_In c rows q : In q (posts_of c rows) <-> In q rows /\ is_post q = true /\ ccid q = c.
Proof.
  unfold posts_of. rewrite filter_In. rewrite andb_true_iff, Z.eqb_eq. tauto.
Qed.

(* ---------- edges: soundness ---------- *)
Inductive justified (io : bool) (rows : list crow) : edge -> Prop :=
| J_pair p q : In p rows -> In q rows -> is_pre p = true -> is_post q = true -> ccid p = ccid q ->
    justified io rows {| e_cid := ccid p; e_src := cname p; e_tgt := cname q; e_srcn := Some (cnode p); e_tgtn := Some (cnode q) |}
| J_no_post p : io = true -> In p rows -> is_pre p = true ->
    (forall q, In q rows -> is_post q = true -> ccid q <> ccid p) ->
    justified io rows {| e_cid := ccid p; e_src := cname p; e_tgt := OTHER; e_srcn := Some (cnode p); e_tgtn := None |}
| J_no_pre q : io = true -> In q rows -> is_post q = true ->
    (forall p, In p rows -> is_pre p = true -> ccid p <> ccid q) ->
    justified io rows {| e_cid := ccid q; e_src := OTHER; e_tgt := cname q; e_srcn := None; e_tgtn := Some (cnode q) |}.

Theorem edges_sound io rows e : In e (edges io rows) -> justified io rows e.
Proof.
  unfold edges. rewrite in_flat_map. intros [c [Hc He]].
  apply cids_In in Hc. destruct Hc as [r [Hr [Ec Pr]]].
  unfold edges_for in He.
  destruct (pre_of c rows) as [p|] eqn:Ep.
  - destruct (pre_of_Some _ _ _ Ep) as [Hp [Pp Cp]].
    destruct (posts_of c rows) as [|q0 qs] eqn:Eq.
    + destruct io; [|contradiction]. destruct He as [<-|[]]. rewrite <- Cp.
      apply J_no_post; auto. intros q Hq Pq Cq.
      assert (In q (posts_of c rows)) by (apply posts_of_In; split; [|split]; auto; congruence).
      rewrite Eq in H. contradiction.
    + apply in_map_iff in He. destruct He as [q [<- Hq]]. rewrite <- Eq in Hq.
      apply posts_of_In in Hq. destruct Hq as [Hq [Pq Cq]]. rewrite <- Cp.
      apply J_pair; auto. congruence.
  - destruct io; [|contradiction].
    destruct (posts_of c rows) as [|q0 qs] eqn:Eq.
    + (* neither pre nor post: impossible since c came from a pre or post row *)
      exfalso. apply orb_prop in Pr. destruct Pr as [Pr|Pr].
      * exact (pre_of_None _ _ Ep r Hr Pr Ec).
      * assert (In r (posts_of c rows)) by (apply posts_of_In; auto). rewrite Eq in H. contradiction.
    + apply in_map_iff in He. destruct He as [q [<- Hq]]. rewrite <- Eq in Hq.
      apply posts_of_In in Hq. destruct Hq as [Hq [Pq Cq]]. rewrite <- Cq.
      apply J_no_pre; auto. intros p Hp Pp Cp. apply (pre_of_None _ _ Ep p Hp Pp). congruence.
Qed.

(* ---------- edges: completeness ---------- *)
Theorem edges_complete_pair io rows p q :
  unique_pre rows -> In p rows -> In q rows -> is_pre p = true -> is_post q = true -> ccid p = ccid q ->
  In {| e_cid := ccid p; e_src := cname p; e_tgt := cname q; e_srcn := Some (cnode p); e_tgtn := Some (cnode q) |}
     (edges io rows).
Proof.
  intros U Hp Hq Pp Pq C. unfold edges. apply in_flat_map. exists (ccid p). split.
  - apply cids_In. exists p. rewrite Pp. auto.
  - unfold edges_for. rewrite (pre_of_unique rows p U Hp Pp).
    assert (Hin : In q (posts_of (ccid p) rows)) by (apply posts_of_In; auto).
    destruct (posts_of (ccid p) rows) as [|q0 qs] eqn:Eq; [contradiction|].
    apply in_map_iff. exists q. auto.
Qed.

Theorem edges_complete_no_post rows p :
  unique_pre rows -> In p rows -> is_pre p = true ->
  (forall q, In q rows -> is_post q = true -> ccid q <> ccid p) ->
  In {| e_cid := ccid p; e_src := cname p; e_tgt := OTHER; e_srcn := Some (cnode p); e_tgtn := None |} (edges true rows).
Proof.
  intros U Hp Pp Hno. unfold edges. apply in_flat_map. exists (ccid p). split.
  - apply cids_In. exists p. rewrite Pp. auto.
  - unfold edges_for. rewrite (pre_of_unique rows p U Hp Pp).
    destruct (posts_of (ccid p) rows) as [|q0 qs] eqn:Eq; [left; reflexivity|].
    exfalso. assert (In q0 (posts_of (ccid p) rows)) by (rewrite Eq; left; reflexivity).
    apply posts_of_In in H. destruct H as [H1 [H2 H3]]. exact (Hno q0 H1 H2 H3).
Qed.

Theorem edges_complete_no_pre rows q :
  In q rows -> is_post q = true ->
  (forall p, In p rows -> is_pre p = true -> ccid p <> ccid q) ->
  In {| e_cid := ccid q; e_src := OTHER; e_tgt := cname q; e_srcn := None; e_tgtn := Some (cnode q) |} (edges true rows).
Proof.
  intros Hq Pq Hno. unfold edges. apply in_flat_map. exists (ccid q). split.
  - apply cids_In. exists q. rewrite Pq. rewrite orb_true_r. auto.
  - unfold edges_for.
    destruct (pre_of (ccid q) rows) as [p|] eqn:Ep.
    + exfalso. destruct (pre_of_Some _ _ _ Ep) as [H1 [H2 H3]]. exact (Hno p H1 H2 H3).
    + assert (Hin : In q (posts_of (ccid q) rows)) by (apply posts_of_In; auto).
      destruct (posts_of (ccid q) rows) as [|q0 qs] eqn:Eq; [contradiction|].
      apply in_map_iff. exists q. auto.
Qed.

(* __OTHER__ appears exactly when requested (names of real neurons are >= 0) *)
Theorem no_other_unless_requested rows e :
  (forall r, In r rows -> 0 <= cname r) ->
  In e (edges false rows) -> e_src e <> OTHER /\ e_tgt e <> OTHER.
Proof.
  intros Hn He. apply edges_sound in He. unfold OTHER.
  inversion He as [p q Hp Hq _ _ _| p Hio | q Hio]; subst; simpl; try discriminate.
  split; [specialize (Hn p Hp) | specialize (Hn q Hq)]; lia.
Qed.

(* ---------- multiplicity (polyadic synapses are counted once per postsynaptic row) ---------- *)
Definition edge_eqb (a b : edge) : bool :=
  (e_cid a =? e_cid b) && (e_src a =? e_src b) && (e_tgt a =? e_tgt b)
  && (oz (e_srcn a) =? oz (e_srcn b)) && (oz (e_tgtn a) =? oz (e_tgtn b)).

Lemma filter_flat_map_nil {A B} (f : A -> list B) (p : B -> bool) (l : list A) :
  (forall c', In c' l -> filter p (f c') = []) -> filter p (flat_map f l) = [].
Proof.
  induction l as [|a l IH]; simpl; intros H; [reflexivity|].
  rewrite filter_app, (H a (or_introl eq_refl)). simpl. apply IH. intros c' Hc'. apply H. right. exact Hc'.
Qed.

Lemma flat_map_filter_other {A B} (f : A -> list B) (p : B -> bool) (l : list A) (c : A) :
  NoDup l -> In c l -> (forall c', In c' l -> c' <> c -> filter p (f c') = []) ->
  filter p (flat_map f l) = filter p (f c).
Proof.
  induction l as [|a l IH]; simpl; intros Hnd Hin Hoth; [contradiction|].
  inversion Hnd as [|? ? Hn Hd]; subst. rewrite filter_app.
  destruct Hin as [->|Hin].
  - rewrite (filter_flat_map_nil f p l); [apply app_nil_r|].
    intros c' Hc'. apply Hoth; [right; exact Hc'|]. intro; subst. contradiction.
  - rewrite (Hoth a); [|left; reflexivity|intro; subst; contradiction]. simpl.
    apply IH; auto.
Qed.

Lemma edges_for_cid io c p qs e : In e (edges_for io c p qs) -> e_cid e = c.
Proof.
  unfold edges_for. destruct p as [p|]; destruct qs as [|q0 qs]; destruct io; simpl;
    try contradiction; intros H;
    repeat match goal with
           | H : _ \/ _ |- _ => destruct H as [H|H]
           | H : False |- _ => contradiction
           | H : In _ (map _ _) |- _ => apply in_map_iff in H; destruct H as [? [<- _]]
           end; subst; reflexivity.
Qed.

Lemma mult_aux c A na B nb l :
  length (filter (edge_eqb {| e_cid := c; e_src := A; e_tgt := B; e_srcn := Some na; e_tgtn := Some nb |})
                 (map (fun q => {| e_cid := c; e_src := A; e_tgt := cname q; e_srcn := Some na; e_tgtn := Some (cnode q) |}) l))
  = length (filter (fun q => (cname q =? B) && (cnode q =? nb)) l).
Proof.
  induction l as [|q l IH]; [reflexivity|].
  cbn [map filter]. unfold edge_eqb at 1. cbn [e_cid e_src e_tgt e_srcn e_tgtn oz].
  rewrite !Z.eqb_refl. cbn [andb].
  rewrite (Z.eqb_sym B (cname q)), (Z.eqb_sym nb (cnode q)). rewrite andb_true_r.
  destruct ((cname q =? B) && (cnode q =? nb)); cbn [length]; rewrite IH; reflexivity.
Qed.

(* the number of edges carrying connector c from (A, na) to a real neuron (B, nb) equals the number
   of postsynaptic rows (B, nb, c), provided (A, na) is c's presynaptic row *)
Theorem edges_multiplicity io rows p B nb :
  unique_pre rows -> In p rows -> is_pre p = true -> 0 <= B -> 0 <= nb ->
  let e := {| e_cid := ccid p; e_src := cname p; e_tgt := B; e_srcn := Some (cnode p); e_tgtn := Some nb |} in
  length (filter (edge_eqb e) (edges io rows))
  = length (filter (fun q => (cname q =? B) && (cnode q =? nb)) (posts_of (ccid p) rows)).
Proof.
  intros U Hp Pp HB Hnb e. unfold edges.
  rewrite (flat_map_filter_other _ (edge_eqb e) (cids rows) (ccid p)).
  - unfold edges_for. rewrite (pre_of_unique rows p U Hp Pp).
    destruct (posts_of (ccid p) rows) as [|q0 qs] eqn:Eq.
    + destruct io; simpl; [|reflexivity]. unfold edge_eqb, e, OTHER. simpl.
      rewrite !Z.eqb_refl. simpl.
      destruct (Z.eqb_spec B (-1)); [lia|]. reflexivity.
    + apply mult_aux.
  - apply cids_NoDup.
  - apply cids_In. exists p. rewrite Pp. auto.
  - intros c' _ Hne.
    destruct (filter (edge_eqb e) (edges_for io c' (pre_of c' rows) (posts_of c' rows))) as [|x xs] eqn:Ef; [reflexivity|].
    exfalso. assert (Hx : In x (filter (edge_eqb e) (edges_for io c' (pre_of c' rows) (posts_of c' rows)))) by (rewrite Ef; left; reflexivity).
    apply filter_In in Hx. destruct Hx as [Hx1 Hx2]. apply edges_for_cid in Hx1.
    unfold edge_eqb in Hx2. repeat (apply andb_prop in Hx2; destruct Hx2 as [Hx2 ?]).
    apply Z.eqb_eq in Hx2. unfold e in Hx2. simpl in Hx2. congruence.
Qed.

(* ---------- the three views are views of one edge multiset ---------- *)
Theorem three_views_agree io rows a b :
  adjacency io rows a b = digraph_weight io rows a b
  /\ digraph_weight io rows a b = Z.of_nat (length (filter (from_to a b) (multigraph io rows)))
  /\ digraph_rows io rows a b = map (fun e => (e_cid e, e_srcn e, e_tgtn e)) (filter (from_to a b) (multigraph io rows)).
Proof.
  unfold adjacency, digraph_weight, digraph_rows, multigraph. rewrite map_length. auto.
Qed.

(* ---------- grouping conserves the synapse total ---------- *)
Lemma total_app m1 m2 : total (m1 ++ m2) = total m1 + total m2.
Proof. induction m1 as [|[[r c] v] m1 IH]; simpl; [reflexivity|]. rewrite IH. lia. Qed.

Lemma total_filter_split (p : cell -> bool) m : total m = total (filter p m) + total (filter (fun x => negb (p x)) m).
Proof.
  induction m as [|[[r c] v] m IH]; simpl; [reflexivity|].
  destruct (p (r, c, v)); simpl; rewrite IH; lia.
Qed.

Lemma merge_f_total f m : total (merge_f f m) = total m.
Proof.
  revert m. induction f as [|f IH]; intros m; simpl; [reflexivity|].
  destruct m as [|[[r c] v] rest]; simpl; [reflexivity|].
  rewrite IH. rewrite (total_filter_split (key_eqb r c) rest). lia.
Qed.

Lemma total_map_relabel (f : cell -> cell) m : (forall x, snd (f x) = snd x) -> total (map f m) = total m.
Proof.
  intros Hf. induction m as [|x m IH]; simpl; [reflexivity|].
  specialize (Hf x). destruct (f x) as [[r' c'] v'] eqn:E. destruct x as [[r c] v]. simpl in *. subst. rewrite IH. reflexivity.
Qed.

Theorem group_sum_conserves_total dr dc m : total (group_matrix false dr dc m) = total m.
Proof.
  unfold group_matrix, group_cols, group_rows.
  assert (R : total (match dr with [] => m | _ => merge (map (fun '(r, c, v) => (gmap dr r, c, v)) m) end) = total m).
  { destruct dr; [reflexivity|]. unfold merge. rewrite merge_f_total. apply total_map_relabel. intros [[r c] v]. reflexivity. }
  destruct dc as [|d dc'].
  - destruct dr; [reflexivity|exact R].
  - unfold merge. rewrite merge_f_total. rewrite total_map_relabel; [|intros [[r c] v]; reflexivity].
    destruct dr; [reflexivity|exact R].
Qed.

Lemma filter_len_le {A} (p : A -> bool) l : (length (filter p l) <= length l)%nat.
Proof. induction l as [|a l IH]; simpl; [lia|]. destruct (p a); simpl; lia. Qed.

(* merged matrices have one cell per key *)
Lemma merge_f_no_key f l r c :
  (forall x, In x l -> key_eqb r c x = false) -> filter (key_eqb r c) (merge_f f l) = [].
Proof.
  revert l. induction f as [|f IHf]; intros l Hall; simpl.
  - induction l as [|x l IHl]; simpl; [reflexivity|]. rewrite (Hall x (or_introl eq_refl)).
    apply IHl. intros y Hy. apply Hall. right. exact Hy.
  - destruct l as [|[[r1 c1] v1] l]; simpl; [reflexivity|].
    assert (H1 := Hall (r1, c1, v1) (or_introl eq_refl)). simpl in H1. rewrite H1.
    apply IHf. intros x Hx. apply filter_In in Hx. destruct Hx as [Hx _]. apply Hall. right. exact Hx.
Qed.

Theorem merge_one_cell_per_key m r c : (length (filter (key_eqb r c) (merge m)) <= 1)%nat.
Proof.
  unfold merge. assert (Hl : (length m <= length m)%nat) by lia. revert Hl. generalize (length m) at 2 3.
  intros f. revert m. induction f as [|f IH]; intros m Hl; simpl.
  - destruct m; simpl in *; lia.
  - destruct m as [|[[r0 c0] v0] rest]; simpl; [lia|].
    assert (Hlen : (length (filter (fun x => negb (key_eqb r0 c0 x)) rest) <= f)%nat).
    { simpl in Hl. pose proof (filter_len_le (fun x => negb (key_eqb r0 c0 x)) rest). lia. }
    destruct ((r0 =? r) && (c0 =? c)) eqn:K.
    + apply andb_prop in K. destruct K as [K1 K2]. apply Z.eqb_eq in K1, K2. subst.
      rewrite merge_f_no_key; [simpl; lia|].
      intros x Hx. apply filter_In in Hx. destruct Hx as [_ Hx]. apply negb_true_iff in Hx. exact Hx.
    + apply IH. exact Hlen.
Qed.

(* ---------- the defect on the unchanged tree: two presynaptic rows for one connector ---------- *)
Example multi_pre_refuted :
  let rows := [ {| cname := 0; ccid := 7; cnode := 1; ctyp := 0 |};
                {| cname := 1; ccid := 7; cnode := 2; ctyp := 0 |};
                {| cname := 2; ccid := 7; cnode := 3; ctyp := 1 |} ] in
  ~ In {| e_cid := 7; e_src := 0; e_tgt := 2; e_srcn := Some 1; e_tgtn := Some 3 |} (edges true rows).
Proof. vm_compute. intros [H|[]]. discriminate. Qed.

(* non-vacuity: a table with a polyadic synapse and a dangling one satisfies unique_pre *)
Example unique_pre_example :
  unique_pre [ {| cname := 0; ccid := 7; cnode := 1; ctyp := 0 |};
               {| cname := 1; ccid := 7; cnode := 2; ctyp := 1 |};
               {| cname := 2; ccid := 7; cnode := 3; ctyp := 1 |};
               {| cname := 2; ccid := 9; cnode := 4; ctyp := 1 |} ].
Proof.
  intros p p' Hp Hp' Pp Pp' _. simpl in Hp, Hp'.
  repeat (destruct Hp as [<-|Hp]; [|]); try contradiction; try discriminate;
  repeat (destruct Hp' as [<-|Hp']; [|]); try contradiction; try discriminate; reflexivity.
Qed.
