From Coq Require Import List ZArith Bool Lia Arith.
Import ListNotations.
From Navis Require Import model.Forest model.Swc proofs.ForestWF proofs.RerootProofs proofs.DistProofs.
Open Scope Z_scope.

(* ---------- positions ---------- *)
Lemma index_of_app_l x (a b : list Z) k : index_of x a = Some k -> index_of x (a ++ b) = Some k.
Proof.
  revert k. induction a as [|y a IH]; simpl; intros k H; [discriminate|].
  destruct (x =? y); [exact H|]. destruct (index_of x a) as [k'|] eqn:E; simpl in H; [|discriminate].
  rewrite (IH k' eq_refl). exact H.
Qed.
Lemma index_of_app_r x (a b : list Z) : ~ In x a -> index_of x (a ++ b) = option_map (fun k => (length a + k)%nat) (index_of x b).
Proof.
  induction a as [|y a IH]; simpl; intros H.
  - destruct (index_of x b); reflexivity.
  - destruct (Z.eqb_spec x y) as [E|N]; [exfalso; apply H; left; congruence|].
    rewrite IH by (intro; apply H; right; assumption). destruct (index_of x b); reflexivity.
Qed.
Lemma index_of_lt x l k : index_of x l = Some k -> (k < length l)%nat.
Proof. intros H. destruct (index_of_Some _ _ _ H). assumption. Qed.

(* ---------- the order is a permutation of the rows, level by level ---------- *)
Lemma depthn_bounds t r : WF t -> In r t -> (1 <= depthn t (rid r) <= length t)%nat.
Proof.
  intros Hwf Hr. unfold depthn. destruct (anc_head t r Hwf Hr) as [l El]. rewrite El. split; [simpl; lia|].
  rewrite <- El. assert (Hi : In (rid r) (ids t)) by (unfold ids; apply in_map; exact Hr).
  eapply Path_length; [exact Hwf|apply anc_is_Path; assumption].
Qed.

Lemma swc_order_In t r : WF t -> (In r (swc_order t) <-> In r t).
Proof.
  intros Hwf. unfold swc_order. rewrite in_flat_map. split.
  - intros [d [_ H]]. unfold level in H. apply filter_In in H. tauto.
  - intros H. exists (depthn t (rid r)). split.
    + apply in_seq. destruct (depthn_bounds t r Hwf H). lia.
    + unfold level. apply filter_In. split; [exact H|apply Nat.eqb_refl].
Qed.

Lemma levels_prefix t (ds : list nat) d r : In r (flat_map (level t) ds) -> (forall d', In d' ds -> (d' < d)%nat) -> (depthn t (rid r) < d)%nat.
Proof.
  intros H Hd. apply in_flat_map in H. destruct H as [d' [H1 H2]]. unfold level in H2. apply filter_In in H2.
  destruct H2 as [_ H2]. apply Nat.eqb_eq in H2. specialize (Hd d' H1). lia.
Qed.

(* split the order at level d *)
Lemma swc_order_split t d : (d <= length t)%nat ->
  swc_order t = flat_map (level t) (seq 0 d) ++ level t d ++ flat_map (level t) (seq (S d) (length t - d)).
Proof.
  intros Hd. unfold swc_order.
  replace (S (length t)) with (d + S (length t - d))%nat by lia. rewrite seq_app, flat_map_app. f_equal.
Qed.

Lemma depth_parent t r : WF t -> In r t -> 0 <= rpar r -> depthn t (rid r) = S (depthn t (rpar r)).
Proof. intros Hwf Hr Hp. unfold depthn. rewrite (anc_step t r Hwf Hr Hp). reflexivity. Qed.

Lemma NoDup_ids_filter (t : table) p : NoDup (ids t) -> NoDup (ids (filter p t)).
Proof. intros H. unfold ids. apply NoDup_map_filter. exact H. Qed.

(* PARENT FIRST: every non-root row's parent gets a smaller number (hence is listed earlier) *)
Theorem swc_parent_first t r : WF t -> In r t -> 0 <= rpar r ->
  let o := ids (swc_order t) in 0 < new_id o (rpar r) < new_id o (rid r).
Proof.
  intros Hwf Hr Hp o. assert (Hwf' := Hwf). destruct Hwf' as [Hnd Hnn Hcl _].
  destruct (In_ids_row _ _ (Hcl r Hr Hp)) as [p [Hpin Ep]].
  set (d := depthn t (rid r)).
  assert (Dp : depthn t (rid p) = (d - 1)%nat /\ (1 <= d - 1)%nat /\ (d <= length t)%nat).
  { pose proof (depth_parent t r Hwf Hr Hp) as A. rewrite <- Ep in A. pose proof (depthn_bounds t p Hwf Hpin) as B. pose proof (depthn_bounds t r Hwf Hr) as C.
    unfold d. lia. }
  destruct Dp as [Dp [D1 D2]].
  (* order = (levels < d) ++ level d ++ rest ; p is in the first part, r is not *)
  unfold o. rewrite (swc_order_split t d D2). unfold ids. rewrite !map_app. fold (ids (flat_map (level t) (seq 0 d))).
  set (A := ids (flat_map (level t) (seq 0 d))). set (B := map rid (level t d)). set (C := map rid (flat_map (level t) (seq (S d) (length t - d)))).
  assert (HpA : In (rid p) A).
  { unfold A, ids. apply in_map. apply in_flat_map. exists (d - 1)%nat. split; [apply in_seq; lia|].
    unfold level. apply filter_In. split; [exact Hpin|]. apply Nat.eqb_eq. exact Dp. }
  assert (HrA : ~ In (rid r) A).
  { unfold A, ids. intro H. apply in_map_iff in H. destruct H as [q [Eq Hq]].
    assert (L := levels_prefix t (seq 0 d) d q Hq (fun d' Hd' => proj2 (proj1 (in_seq _ _ _) Hd'))).
    rewrite Eq in L. unfold d in L. lia. }
  assert (HrB : In (rid r) B).
  { unfold B. apply in_map. unfold level. apply filter_In. split; [exact Hr|apply Nat.eqb_refl]. }
  unfold new_id. rewrite <- Ep.
  destruct (index_of_In (rid p) A HpA) as [kp Ekp]. rewrite (index_of_app_l _ A (B ++ C) kp Ekp).
  rewrite (index_of_app_r _ A (B ++ C) HrA).
  destruct (index_of_In (rid r) B HrB) as [kr Ekr]. rewrite (index_of_app_l _ B C kr Ekr). simpl.
  pose proof (index_of_lt _ _ _ Ekp). lia.
Qed.

(* ids are exactly 1..N in file order *)
Lemma idx_map_offset (pre l : list Z) : NoDup (pre ++ l) ->
  map (fun i => match index_of i (pre ++ l) with Some k => Z.of_nat k + 1 | None => -1 end) l = map Z.of_nat (seq (S (length pre)) (length l)).
Proof.
  revert pre. induction l as [|x l IH]; intros pre Hnd; [reflexivity|].
  cbn [map length seq]. f_equal.
  - assert (Hx : ~ In x pre).
    { intro H. apply NoDup_remove_2 in Hnd. apply Hnd. apply in_or_app. left. exact H. }
    rewrite (index_of_app_r x pre (x :: l) Hx). simpl. rewrite Z.eqb_refl. simpl. lia.
  - replace (pre ++ x :: l) with ((pre ++ [x]) ++ l) in * by (rewrite <- app_assoc; reflexivity).
    rewrite (IH (pre ++ [x]) Hnd). rewrite app_length. simpl. replace (length pre + 1)%nat with (S (length pre)) by lia. reflexivity.
Qed.

Lemma index_of_self_map (l : list Z) : NoDup l -> map (fun i => match index_of i l with Some k => Z.of_nat k + 1 | None => -1 end) l = map Z.of_nat (seq 1 (length l)).
Proof. intros H. exact (idx_map_offset [] l H). Qed.

Lemma NoDup_app_intro {A} (a b : list A) : NoDup a -> NoDup b -> (forall x, In x a -> In x b -> False) -> NoDup (a ++ b).
Proof.
  induction a as [|x a IH]; simpl; intros Ha Hb Hd; [exact Hb|]. inversion Ha as [|? ? Hn Ha']; subst. constructor.
  - intro H. apply in_app_or in H. destruct H; [contradiction|]. apply (Hd x); [left; reflexivity|assumption].
  - apply IH; [assumption|assumption|]. intros y Hy. apply Hd. right. exact Hy.
Qed.

Lemma swc_order_NoDup t : WF t -> NoDup (ids (swc_order t)).
Proof.
  intros Hwf. assert (Hnd : NoDup (ids t)) by (destruct Hwf; assumption). unfold swc_order.
  assert (G : forall ds, NoDup ds -> NoDup (ids (flat_map (level t) ds))).
  { induction ds as [|d ds IH]; intros Hd; simpl; [constructor|]. inversion Hd as [|? ? Hn Hd']; subst.
    unfold ids. rewrite map_app. apply NoDup_app_intro.
    - apply NoDup_ids_filter. exact Hnd.
    - apply IH. exact Hd'.
    - intros x Hx Hy. apply in_map_iff in Hx. destruct Hx as [q [Eq Hq]]. apply filter_In in Hq. destruct Hq as [Hq Dq]. apply Nat.eqb_eq in Dq.
      apply in_map_iff in Hy. destruct Hy as [q' [Eq' Hq']]. apply in_flat_map in Hq'. destruct Hq' as [d' [Hd1 Hq']].
      apply filter_In in Hq'. destruct Hq' as [Hq' Dq']. apply Nat.eqb_eq in Dq'.
      assert (q = q') by (apply (row_eq_by_id t); congruence). subst q'. apply Hn. congruence. }
  apply G. apply seq_NoDup.
Qed.

Theorem swc_ids_1N t lab : WF t ->
  map (fun x => fst (fst (fst x))) (swc_table t lab) = map Z.of_nat (seq 1 (length t)).
Proof.
  intros Hwf. unfold swc_table. rewrite map_map. simpl.
  assert (L : length (swc_order t) = length t).
  { assert (P : NoDup (ids (swc_order t))) by (apply swc_order_NoDup; exact Hwf).
    assert (Q : NoDup (ids t)) by (destruct Hwf; assumption).
    assert (I1 : incl (ids (swc_order t)) (ids t)).
    { intros x Hx. unfold ids in *. apply in_map_iff in Hx. destruct Hx as [q [<- Hq]]. apply in_map. apply (swc_order_In t q Hwf). exact Hq. }
    assert (I2 : incl (ids t) (ids (swc_order t))).
    { intros x Hx. unfold ids in *. apply in_map_iff in Hx. destruct Hx as [q [<- Hq]]. apply in_map. apply (swc_order_In t q Hwf). exact Hq. }
    pose proof (NoDup_incl_length P I1). pose proof (NoDup_incl_length Q I2). unfold ids in *. rewrite !map_length in *. lia. }
  rewrite <- L. rewrite <- (map_length rid (swc_order t)). fold (ids (swc_order t)).
  rewrite <- (index_of_self_map (ids (swc_order t)) (swc_order_NoDup t Hwf)).
  unfold ids at 3. rewrite map_map. reflexivity.
Qed.

(* the node map is injective: different nodes get different numbers *)
Theorem node_map_injective t a b : WF t -> In a (ids t) -> In b (ids t) ->
  new_id (ids (swc_order t)) a = new_id (ids (swc_order t)) b -> a = b.
Proof.
  intros Hwf Ha Hb E. unfold new_id in E.
  assert (I : forall x, In x (ids t) -> In x (ids (swc_order t))).
  { intros x Hx. unfold ids in *. apply in_map_iff in Hx. destruct Hx as [q [<- Hq]]. apply in_map. apply (swc_order_In t q Hwf). exact Hq. }
  destruct (index_of_In a _ (I a Ha)) as [ka Ea]. destruct (index_of_In b _ (I b Hb)) as [kb Eb]. rewrite Ea, Eb in E.
  assert (ka = kb) by lia. subst kb. destruct (index_of_Some _ _ _ Ea). destruct (index_of_Some _ _ _ Eb). congruence.
Qed.

(* checker soundness: accepted files have ids 1..N without gaps and every parent earlier and lower *)
Lemma parent_first_b_sound seen rows : parent_first_b seen rows = true ->
  forall pre i p post, rows = pre ++ (i, p) :: post -> p = -1 \/ (p < i /\ (In p seen \/ In p (map fst pre))).
Proof.
  revert seen. induction rows as [|[i0 p0] rows IH]; intros seen H pre i p post E; [destruct pre; discriminate|].
  simpl in H. apply andb_prop in H. destruct H as [H1 H2].
  destruct pre as [|[i1 p1] pre]; simpl in E; inversion E; subst.
  - apply orb_prop in H1. destruct H1 as [H1|H1]; [left; apply Z.eqb_eq; exact H1|].
    apply andb_prop in H1. destruct H1 as [A B]. right. split; [apply Z.ltb_lt; exact B|left; apply memZ_In; exact A].
  - destruct (IH (i1 :: seen) H2 pre i p post eq_refl) as [L|[L1 [L2|L2]]]; [left; exact L| |].
    + right. split; [exact L1|]. destruct L2 as [<-|L2]; [right; left; reflexivity|left; exact L2].
    + right. split; [exact L1|]. right. right. exact L2.
Qed.

Theorem swc_valid_b_sound rows : swc_valid_b rows = true ->
  map fst rows = map Z.of_nat (seq 1 (length rows)) /\
  forall pre i p post, rows = pre ++ (i, p) :: post -> p = -1 \/ (p < i /\ In p (map fst pre)).
Proof.
  unfold swc_valid_b. intros H. apply andb_prop in H. destruct H as [H1 H2]. split.
  - clear H2. revert H1. generalize (map fst rows) (map Z.of_nat (seq 1 (length rows))). induction l as [|x l IH]; intros [|y l0]; simpl; try discriminate; [reflexivity|].
    intros H. apply andb_prop in H. destruct H as [A B]. apply Z.eqb_eq in A. subst. f_equal. apply IH. exact B.
  - intros pre i p post E. destruct (parent_first_b_sound [] rows H2 pre i p post E) as [L|[L1 [[]|L2]]]; [left; exact L|right; auto].
Qed.
