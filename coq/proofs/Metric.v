(* Path length against chord length, for ANY distance function satisfying the triangle inequality
   (instantiated in the harness by the Euclidean distance; square roots are not rational, so the statement is
   parametric in the metric instead of being about R).  Used by C13 (thinning / resampling never lengthens the cable)
   and C17 (tortuosity >= 1, = 1 for straight segments). *)
From Coq Require Import List QArith Lqa.
Import ListNotations.

Definition triangle {A} (d : A -> A -> Q) : Prop := forall x y z, d x z <= d x y + d y z.
Definition zero_diag {A} (d : A -> A -> Q) : Prop := forall x, d x x == 0.

(* length of the polyline x, p1, p2, ... *)
Fixpoint path_len {A} (d : A -> A -> Q) (x : A) (p : list A) : Q :=
  match p with [] => 0 | y :: p' => d x y + path_len d y p' end.

Lemma last_default {A} (l : list A) u v : l <> [] -> last l u = last l v.
Proof. induction l as [|b l IHl]; intros Hl; [contradiction|]. destruct l; [reflexivity|]. cbn [last]. apply IHl. discriminate. Qed.
Lemma last_cons {A} (y : A) p x : last (y :: p) x = last p y.
Proof. destruct p as [|z p]; [reflexivity|]. change (last (y :: z :: p) x) with (last (z :: p) x). apply last_default. discriminate. Qed.

Theorem chord_le_path {A} (d : A -> A -> Q) : triangle d -> zero_diag d -> forall p x, d x (last p x) <= path_len d x p.
Proof.
  intros Ht Hz. induction p as [|y p IH]; intros x; cbn [path_len].
  - cbn [last]. rewrite (Hz x). lra.
  - rewrite last_cons. specialize (IH y). pose proof (Ht x y (last p y)). lra.
Qed.

(* tortuosity = path length / chord length *)
Theorem tortuosity_ge_one {A} (d : A -> A -> Q) : triangle d -> zero_diag d -> forall p x, 0 < d x (last p x) ->
  1 <= path_len d x p / d x (last p x).
Proof. intros Ht Hz p x Hpos. apply Qle_shift_div_l; [exact Hpos|]. pose proof (chord_le_path d Ht Hz p x). lra. Qed.
(* a straight segment (every step adds up exactly) has tortuosity 1 *)
Theorem tortuosity_straight {A} (d : A -> A -> Q) p x : 0 < d x (last p x) -> path_len d x p == d x (last p x) ->
  path_len d x p / d x (last p x) == 1.
Proof. intros Hpos E. rewrite E. field. lra. Qed.

(* thinning: drop any interior points, keep the last one *)
Fixpoint thin {A} (keep : A -> bool) (p : list A) : list A :=
  match p with
  | [] => []
  | [z] => [z]
  | y :: p' => if keep y then y :: thin keep p' else thin keep p'
  end.
Lemma thin_nonempty {A} (keep : A -> bool) p : p <> [] -> thin keep p <> [].
Proof.
  induction p as [|y p IH]; intros H; [contradiction|]. destruct p as [|z p]; [discriminate|].
  change (thin keep (y :: z :: p)) with (if keep y then y :: thin keep (z :: p) else thin keep (z :: p)).
  destruct (keep y); [discriminate | apply IH; discriminate].
Qed.
Lemma thin_last {A} (keep : A -> bool) p x : p <> [] -> last (thin keep p) x = last p x.
Proof.
  induction p as [|y p IH]; intros H; [contradiction|]. destruct p as [|z p]; [reflexivity|].
  change (thin keep (y :: z :: p)) with (if keep y then y :: thin keep (z :: p) else thin keep (z :: p)).
  assert (Hne : z :: p <> []) by discriminate. specialize (IH Hne).
  pose proof (thin_nonempty keep (z :: p) Hne) as Hn.
  rewrite (last_cons y (z :: p) x), (last_default (z :: p) y x Hne).
  destruct (keep y); [|exact IH].
  rewrite last_cons, (last_default _ y x Hn). exact IH.
Qed.
Lemma first_step {A} (d : A -> A -> Q) : triangle d -> forall q x y, q <> [] -> path_len d x q <= d x y + path_len d y q.
Proof. intros Ht q x y Hq. destruct q as [|a q]; [contradiction|]. cbn [path_len]. pose proof (Ht x y a). lra. Qed.

Theorem thinning_never_lengthens {A} (d : A -> A -> Q) (keep : A -> bool) : triangle d ->
  forall p x, path_len d x (thin keep p) <= path_len d x p.
Proof.
  intros Ht. induction p as [|y p IH]; intros x; [cbn; lra|]. destruct p as [|z p]; [cbn; lra|].
  change (thin keep (y :: z :: p)) with (if keep y then y :: thin keep (z :: p) else thin keep (z :: p)).
  cbn [path_len]. fold (path_len d y (z :: p)).
  destruct (keep y).
  - cbn [path_len]. specialize (IH y). cbn [path_len] in IH. lra.
  - pose proof (first_step d Ht (thin keep (z :: p)) x y (thin_nonempty keep (z :: p) ltac:(discriminate))).
    specialize (IH y). cbn [path_len] in IH. lra.
Qed.

(* placing new points ON the cable (subdividing a step y->z by a point m with d y m + d m z == d y z) keeps the length *)
Theorem subdividing_keeps_length {A} (d : A -> A -> Q) x y m p : d x m + d m y == d x y ->
  path_len d x (m :: y :: p) == path_len d x (y :: p).
Proof. intros E. cbn [path_len]. lra. Qed.
