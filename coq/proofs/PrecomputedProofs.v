From Coq Require Import List ZArith Bool Lia.
Import ListNotations.
From Navis Require Import model.Precomputed.
Open Scope Z_scope.

Lemma u32_roundtrip w : word_ok w = true ->
  dec32 (w mod 256) ((w / 256) mod 256) ((w / 65536) mod 256) ((w / 16777216) mod 256) = w.
Proof.
  unfold word_ok, dec32. rewrite andb_true_iff, Z.leb_le, Z.ltb_lt. intros [H0 H1].
  pose proof (Z.div_mod w 256 ltac:(lia)). pose proof (Z.div_mod (w / 256) 256 ltac:(lia)).
  pose proof (Z.div_mod (w / 65536) 256 ltac:(lia)).
  assert (E1 : w / 65536 = w / 256 / 256) by (rewrite Z.div_div by lia; reflexivity).
  assert (E2 : w / 16777216 = w / 65536 / 256) by (rewrite Z.div_div by lia; reflexivity).
  assert (L : w / 16777216 < 256) by (apply Z.div_lt_upper_bound; lia).
  assert (P : 0 <= w / 16777216) by (apply Z.div_pos; lia).
  rewrite (Z.mod_small (w / 16777216) 256) by lia. rewrite E1 in *. rewrite E2 in *. lia.
Qed.

Lemma enc32_bytes w : Forall (fun b => byte_ok b = true) (enc32 w).
Proof.
  unfold enc32, byte_ok. repeat constructor; rewrite andb_true_iff, Z.leb_le, Z.ltb_lt;
    match goal with |- 0 <= ?x mod 256 < 256 => apply Z.mod_pos_bound; lia end.
Qed.

(* words survive the byte stream, whatever follows them *)
Lemma dec_enc_words ws rest : Forall (fun w => word_ok w = true) ws ->
  dec_words (length ws) (enc_words ws ++ rest) = Some (ws, rest).
Proof.
  induction 1 as [|w ws Hw Hws IH]; [reflexivity|].
  cbn [length enc_words flat_map dec_words]. unfold enc32 at 1. cbn [app].
  fold (enc_words ws). rewrite IH. rewrite (u32_roundtrip w Hw). reflexivity.
Qed.

Lemma enc_words_length ws : length (enc_words ws) = (4 * length ws)%nat.
Proof. induction ws as [|w ws IH]; [reflexivity|]. cbn [enc_words flat_map]. rewrite app_length. fold (enc_words ws). rewrite IH. simpl. lia. Qed.

Lemma pairs_of_flat es : pairs_of (flat_map (fun e : Z * Z => [fst e; snd e]) es) = es.
Proof. induction es as [|[a b] es IH]; [reflexivity|]. simpl. rewrite IH. reflexivity. Qed.

Lemma word_ok_of_nat n : Z.of_nat n < 4294967296 -> word_ok (Z.of_nat n) = true.
Proof. intros H. unfold word_ok. rewrite andb_true_iff, Z.leb_le, Z.ltb_lt. lia. Qed.

(* DECODE (ENCODE m) = m : the decoder is an inverse of the specification encoder on every well-formed skeleton *)
Theorem decode_encode_skeleton m : wf_skel m ->
  dec_skel (match sk_radii m with Some _ => true | None => false end) (enc_skel m) = Some m.
Proof.
  destruct m as [vs es rs]. unfold wf_skel. cbn [sk_verts sk_edges sk_radii]. intros [Hv [He [[k Hk] [Lv [Le Hr]]]]].
  unfold dec_skel, enc_skel, nverts. cbn [sk_verts sk_edges sk_radii].
  assert (NV : Z.of_nat (length vs) / 3 = Z.of_nat k).
  { rewrite Hk. rewrite Nat2Z.inj_mul. rewrite Z.mul_comm. apply Z.div_mul. lia. }
  rewrite NV.
  assert (W1 : word_ok (Z.of_nat k) = true) by (apply word_ok_of_nat; lia).
  assert (W2 : word_ok (Z.of_nat (length es)) = true) by (apply word_ok_of_nat; lia).
  (* header *)
  change (enc32 (Z.of_nat k) ++ enc32 (Z.of_nat (length es)) ++ ?r) with (enc_words [Z.of_nat k; Z.of_nat (length es)] ++ r) at 1.
  replace (enc32 (Z.of_nat k) ++ enc32 (Z.of_nat (length es)) ++ enc_words vs ++ enc_words (flat_map (fun e => [fst e; snd e]) es) ++ match rs with Some r => enc_words r | None => [] end)
    with (enc_words [Z.of_nat k; Z.of_nat (length es)] ++ (enc_words vs ++ enc_words (flat_map (fun e => [fst e; snd e]) es) ++ match rs with Some r => enc_words r | None => [] end)).
  2:{ cbn [enc_words flat_map]. rewrite app_nil_r, <- app_assoc. reflexivity. }
  change (dec_words 2) with (dec_words (length [Z.of_nat k; Z.of_nat (length es)])).
  rewrite dec_enc_words by (repeat constructor; assumption).
  (* vertices *)
  replace (Z.to_nat (3 * Z.of_nat k)) with (length vs) by lia.
  rewrite dec_enc_words by exact Hv.
  (* edges *)
  set (ew := flat_map (fun e : Z * Z => [fst e; snd e]) es).
  assert (Lew : length ew = (2 * length es)%nat).
  { unfold ew. clear. induction es as [|e es IH]; [reflexivity|]. simpl. rewrite IH. lia. }
  replace (Z.to_nat (2 * Z.of_nat (length es))) with (length ew) by lia.
  assert (Few : Forall (fun w => word_ok w = true) ew).
  { unfold ew. clear - He. induction He as [|e es [A B] _ IH]; [constructor|]. simpl. repeat constructor; assumption. }
  rewrite dec_enc_words by exact Few. unfold ew. rewrite pairs_of_flat.
  destruct rs as [r|].
  - destruct Hr as [Fr Lr]. replace (Z.to_nat (Z.of_nat k)) with (length r) by lia.
    rewrite <- (app_nil_r (enc_words r)). rewrite dec_enc_words by exact Fr. reflexivity.
  - reflexivity.
Qed.

Theorem encode_length m : length (enc_skel m) =
  (8 + 4 * length (sk_verts m) + 8 * length (sk_edges m) + match sk_radii m with Some r => 4 * length r | None => 0 end)%nat.
Proof.
  destruct m as [vs es rs]. unfold enc_skel. cbn [sk_verts sk_edges sk_radii]. rewrite !app_length, !enc_words_length.
  assert (L : length (flat_map (fun e : Z * Z => [fst e; snd e]) es) = (2 * length es)%nat) by (clear; induction es as [|e es IH]; [reflexivity|]; simpl; rewrite IH; lia).
  rewrite L. destruct rs; [rewrite enc_words_length|]; simpl; lia.
Qed.

Theorem decode_encode_mesh m : Forall (fun w => word_ok w = true) (me_verts m) -> Forall (fun w => word_ok w = true) (me_faces m) ->
  (exists k, length (me_verts m) = (3 * k)%nat) -> Z.of_nat (length (me_verts m)) < 3 * 4294967296 ->
  dec_mesh (enc_mesh m) = Some m.
Proof.
  destruct m as [vs fs]. cbn [me_verts me_faces]. intros Hv Hf [k Hk] Lv. unfold dec_mesh, enc_mesh. cbn [me_verts me_faces].
  assert (NV : Z.of_nat (length vs) / 3 = Z.of_nat k) by (rewrite Hk, Nat2Z.inj_mul, Z.mul_comm; apply Z.div_mul; lia).
  rewrite NV.
  replace (enc32 (Z.of_nat k) ++ enc_words vs ++ enc_words fs) with (enc_words [Z.of_nat k] ++ (enc_words vs ++ enc_words fs))
    by (cbn [enc_words flat_map]; rewrite app_nil_r; reflexivity).
  change (dec_words 1) with (dec_words (length [Z.of_nat k])).
  rewrite dec_enc_words by (repeat constructor; apply word_ok_of_nat; lia).
  replace (Z.to_nat (3 * Z.of_nat k)) with (length vs) by lia.
  rewrite dec_enc_words by exact Hv.
  rewrite enc_words_length. replace (4 * length fs / 4)%nat with (length fs) by (rewrite Nat.mul_comm, Nat.div_mul; lia).
  rewrite <- (app_nil_r (enc_words fs)). rewrite dec_enc_words by exact Hf. reflexivity.
Qed.

(* error policy: with errors='log'/'ignore' exactly the valid files come back, in order; with errors='raise' any corrupt file aborts *)
Theorem policy_skip_isolated files : read_many false files = Some (flat_map (fun f => match f with FOk n => [n] | FCorrupt => [] end) files).
Proof. reflexivity. Qed.
Theorem policy_raise files : In FCorrupt files -> read_many true files = None.
Proof.
  intros H. unfold read_many. replace (existsb _ files) with true; [reflexivity|]. symmetry. apply existsb_exists. exists FCorrupt. auto.
Qed.
Theorem policy_all_valid files ns : files = map FOk ns -> read_many true files = Some ns.
Proof.
  intros ->. unfold read_many. replace (existsb _ (map FOk ns)) with false.
  - simpl. f_equal. induction ns as [|n ns IH]; [reflexivity|]. simpl. rewrite IH. reflexivity.
  - symmetry. induction ns as [|n ns IH]; [reflexivity|]. simpl. exact IH.
Qed.

(* ---------- node ids -> row indices -> parents ---------- *)
Lemma ix_of_ge ids i k : In i ids -> k <= ix_of ids i k.
Proof.
  revert k. induction ids as [|x ids IH]; intros k H; [contradiction|]. simpl.
  destruct (Z.eqb_spec x i); [lia|]. destruct H as [H|H]; [congruence|]. specialize (IH (k + 1) H). lia.
Qed.

Lemma ix_of_inj ids a b k : In a ids -> In b ids -> ix_of ids a k = ix_of ids b k -> a = b.
Proof.
  revert k. induction ids as [|x ids IH]; intros k Ha Hb E; [contradiction|]. simpl in E.
  destruct (Z.eqb_spec x a) as [Ea|Na]; destruct (Z.eqb_spec x b) as [Eb|Nb].
  - congruence.
  - destruct Hb as [Hb|Hb]; [congruence|]. pose proof (ix_of_ge ids b (k + 1) Hb). lia.
  - destruct Ha as [Ha|Ha]; [congruence|]. pose proof (ix_of_ge ids a (k + 1) Ha). lia.
  - destruct Ha as [Ha|Ha]; [congruence|]. destruct Hb as [Hb|Hb]; [congruence|]. exact (IH (k + 1) Ha Hb E).
Qed.

Lemma parent_of_none stored j : (forall p c, In (p, c) stored -> c <> j) -> parent_of stored j = -1.
Proof.
  induction stored as [|[p c] rest IH]; intros H; [reflexivity|]. simpl.
  rewrite IH by (intros p' c' Hin; apply (H p' c'); right; exact Hin).
  destruct (Z.eqb_spec c j) as [E|N]; [exfalso; apply (H p c); [left; reflexivity|exact E]|reflexivity].
Qed.

(* writing edges as row indices and reading parents back recovers every parent link (and -1 for roots):
   ids are unique, every node has at most one parent edge, edges mention only existing nodes *)
Theorem edges_index_roundtrip ids edges c p : NoDup (map fst edges) ->
  (forall e, In e edges -> In (fst e) ids /\ In (snd e) ids) -> In (c, p) edges ->
  parent_of (stored_edges ids edges) (ix_of ids c 0) = ix_of ids p 0.
Proof.
  intros Hnd Hin Hcp. induction edges as [|[c0 p0] rest IH]; [contradiction|].
  simpl in Hnd. inversion Hnd as [|? ? Hn Hd]; subst.
  assert (Hin' : forall e, In e rest -> In (fst e) ids /\ In (snd e) ids) by (intros e He; apply Hin; right; exact He).
  cbn [stored_edges map parent_of fst snd]. fold (stored_edges ids rest).
  destruct Hcp as [E|Hcp].
  - inversion E; subst c0 p0.
    rewrite parent_of_none.
    + rewrite Z.eqb_refl. reflexivity.
    + intros p' c' H. unfold stored_edges in H. apply in_map_iff in H. destruct H as [[c2 p2] [E2 H2]]. inversion E2; subst. simpl.
      intro Eq. apply Hn. destruct (Hin' _ H2) as [A _]. destruct (Hin (c, p) (or_introl eq_refl)) as [B _]. simpl in A, B.
      assert (c2 = c) by (apply (ix_of_inj ids c2 c 0); assumption). subst c2. apply in_map_iff. exists (c, p2). auto.
  - rewrite (IH Hd Hin' Hcp). destruct (Hin' _ Hcp) as [_ B]. simpl in B. pose proof (ix_of_ge ids p 0 B).
    destruct (ix_of ids p 0) eqn:Ep; try reflexivity. lia.
Qed.
