From Coq Require Import List ZArith Bool Lia Arith String.
Import ListNotations.
From Navis Require Import model.Forest model.Backend proofs.ForestWF gen.Gen_Dispatch.
Open Scope Z_scope.

Lemma id2ix_ix2id l i k : id2ix l i = Some k -> ix2id l k = Some i.
Proof.
  revert k. induction l as [|x l IH]; simpl; intros k H; [discriminate|].
  destruct (Z.eqb_spec x i) as [->|N].
  - inversion H; subst. reflexivity.
  - destruct (id2ix l i) as [k'|] eqn:E; simpl in H; [|discriminate]. inversion H; subst. simpl. apply IH. reflexivity.
Qed.

Lemma id2ix_In l i : In i l -> exists k, id2ix l i = Some k.
Proof.
  induction l as [|x l IH]; simpl; [intros []|]. intros [->|H].
  - rewrite Z.eqb_refl. eauto.
  - destruct (x =? i); [eauto|]. destruct (IH H) as [k ->]. simpl. eauto.
Qed.

(* ids -> indices -> ids is the identity on every node of the table *)
Theorem ix_roundtrip l i : In i l -> exists k, id2ix l i = Some k /\ ix2id l k = Some i.
Proof. intros H. destruct (id2ix_In l i H) as [k E]. exists k. split; [exact E|apply id2ix_ix2id; exact E]. Qed.

(* indices -> ids -> indices is the identity when ids are unique *)
Theorem ix_roundtrip_inv l k i : NoDup l -> ix2id l k = Some i -> id2ix l i = Some k.
Proof.
  unfold ix2id. revert k. induction l as [|x l IH]; intros k Hnd H; [destruct k; discriminate|].
  inversion Hnd as [|? ? Hn Hd]; subst. destruct k as [|k]; simpl in *.
  - inversion H; subst. rewrite Z.eqb_refl. reflexivity.
  - destruct (Z.eqb_spec x i) as [->|N].
    + exfalso. apply Hn. eapply nth_error_In. exact H.
    + rewrite (IH k Hd H). reflexivity.
Qed.

(* the igraph builder and the networkx builder describe the same edges (same order, same orientation) *)
Theorem builders_agree t : WF t -> ig_edges_as_ids t = map (fun e => (Some (fst e), Some (snd e))) (nx_edges t).
Proof.
  intros [Hnd Hnn Hcl _]. unfold ig_edges_as_ids, ig_edges, nx_edges, edges. rewrite !map_map.
  apply map_ext_in. intros r Hr. apply filter_In in Hr. destruct Hr as [Hr Hroot]. simpl.
  unfold is_root in Hroot. apply negb_true_iff, Z.ltb_ge in Hroot.
  assert (H1 : In (rid r) (ids t)) by (unfold ids; apply in_map; exact Hr).
  assert (H2 : In (rpar r) (ids t)) by (apply Hcl; assumption).
  destruct (ix_roundtrip _ _ H1) as [k1 [E1 F1]]. destruct (ix_roundtrip _ _ H2) as [k2 [E2 F2]].
  rewrite E1, E2, F1, F2. reflexivity.
Qed.

(* obligations on the dispatch shape of the CURRENT source (gen/Gen_Dispatch.v) *)
Open Scope string_scope.
Definition dispatch_ok : bool :=
  forallb (fun d => match d with (name, fc, ig, guarded, fallback) =>
                      fallback && (guarded || String.eqb name "dist_between") && (fc || ig) end) dispatch
  && Nat.eqb (List.length dispatch) 13.
Lemma dispatch_shape_ok : dispatch_ok = true.
Proof. vm_compute. reflexivity. Qed.
