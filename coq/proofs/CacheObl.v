(* Obligations that the CURRENT source (gen/Gen_Cache.v, regenerated on every run) must meet for the
   C02 theorem to apply, discharged by computation; and the instantiated theorem. *)
From Coq Require Import List String Bool Arith Lia.
Import ListNotations.
From Navis Require Import model.Cache proofs.CacheProofs gen.Gen_Cache.
Open Scope string_scope.

Definition smem (s : string) (l : list string) : bool := existsb (String.eqb s) l.

Definition nviews : nat := List.length views.
Definition guarded_of (v : view) : bool := match nth_error views v with Some (_, _, g) => g | None => false end.
Definition in_temp_of (v : view) : bool := match nth_error views v with Some (_, a, _) => smem a temp_attr | None => false end.
Definition gen_facts : facts := {| guarded := guarded_of; in_temp := in_temp_of |}.

(* views whose cached attribute a call site's exclude list would keep *)
Definition site_excl (ex : list string) : list view :=
  filter (fun v => match nth_error views v with Some (_, a, _) => smem a ex | None => false end) (seq 0 nviews).

(* the views the property lists *)
Definition required_views : list string :=
  ["graph"; "igraph"; "segments"; "small_segments"; "geodesic_matrix"; "cable_length"; "adjacency_matrix"; "simple"].

Definition obligations : bool :=
  (* every cached view is stale-checked and its attribute is cleared by _clear_temp_attr *)
  forallb (fun v => guarded_of v && in_temp_of v) (seq 0 nviews)
  (* every view named by the property is among them *)
  && forallb (fun n => existsb (fun x => String.eqb (fst (fst x)) n) views) required_views
  (* no call site keeps a TEMP_ATTR cache *)
  && forallb (fun site => match site_excl (snd (fst site)) with [] => true | _ => false end) clear_sites
  (* no clear is skipped depending on `inplace`, and every re-initialisation of a neuron object (which resets the stored hash, so the
     stale check cannot fire) is followed by an unconditional clear of that object *)
  && match conditional_clears with [] => true | _ => false end
  && forallb (fun s => snd s) reinit_sites
  (* pickling drops the graphs, copying a stale neuron clears, and the two library routines have the modelled shape *)
  && smem "_graph_nx" getstate_pops && smem "_igraph" getstate_pops
  && copy_clears_when_stale && temp_property_shape_ok && clear_shape_ok
  (* the hash covers ids, parents and coordinates *)
  && smem "nodes:node_id,parent_id,x,y,z" core_data
  (* a lock taken by @lock_neuron is released in a `finally`: every Lock of a history is followed by its Unlock even when the
     operation raises *)
  && lock_released_in_finally.

Lemma source_meets_obligations : obligations = true.
Proof. vm_compute. reflexivity. Qed.

(* histories over the current source: Clear ops are the call sites found in /repo *)
Inductive sop := SEdit | SRead (v : view) | SClearSite (k : nat) | SLock | SUnlock | SCarry (v : view) | SCopy | SPickle.
Definition pickle_dropped : list view :=
  filter (fun v => match nth_error views v with Some (_, a, _) => smem a getstate_pops | None => false end) (seq 0 nviews).
Definition lower (o : sop) : op :=
  match o with
  | SEdit => Edit | SRead v => Read v | SLock => Lock | SUnlock => Unlock | SCarry v => Carry v | SCopy => Copy
  | SPickle => Pickle pickle_dropped
  | SClearSite k => Clear (match nth_error clear_sites k with Some site => site_excl (snd (fst site)) | None => [] end)
  end.

Lemma lower_excl_ok o : excl_ok gen_facts (lower o).
Proof.
  destruct o as [|v|k| | |v| |]; simpl; try exact I.
  destruct (nth_error clear_sites k) as [site|] eqn:E; [|intros v []].
  assert (H := source_meets_obligations). unfold obligations in H. rewrite !andb_true_iff in H.
  destruct H as [[[[[[[[[[[_ _] H3] _] _] _] _] _] _] _] _] _]. rewrite forallb_forall in H3.
  specialize (H3 site (nth_error_In _ _ E)). destruct (site_excl (snd (fst site))); [intros v []|discriminate].
Qed.

Lemma view_ok_gen v : v < nviews -> view_ok gen_facts v.
Proof.
  intros Hv. assert (H := source_meets_obligations). unfold obligations in H. rewrite !andb_true_iff in H.
  destruct H as [[[[[[[[[[[H1 _] _] _] _] _] _] _] _] _] _] _]. rewrite forallb_forall in H1.
  specialize (H1 v). rewrite in_seq in H1. specialize (H1 ltac:(lia)). apply andb_prop in H1. exact H1.
Qed.

(* C02 for the current source: for every history of edits, reads, call-site clears, locked sections,
   carried caches, copies and pickle round trips, an unlocked read of ANY cached view of TreeNeuron returns
   the value computed from the current node table *)
Theorem read_fresh_current_source (h : list sop) (v : view) :
  v < nviews -> lock (run gen_facts (map lower h)) = 0 ->
  snd (do_read gen_facts v (run gen_facts (map lower h))) = ver (run gen_facts (map lower h)).
Proof.
  intros Hv Hl. apply read_fresh; [|apply view_ok_gen; exact Hv|exact Hl].
  apply Forall_forall. intros o Ho. apply in_map_iff in Ho. destruct Ho as [so [<- _]]. apply lower_excl_ok.
Qed.

Example current_source_nontrivial : nviews = 8 /\ List.length clear_sites >= 40.
Proof. vm_compute. split; [reflexivity|]. repeat constructor. Qed.
