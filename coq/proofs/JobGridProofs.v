From Coq Require Import List Arith Bool Lia Permutation.
Import ListNotations.
From Navis Require Import model.JobGrid.

Local Arguments Nat.min : simpl never.
Local Arguments Nat.mul : simpl never.
Local Arguments Nat.div : simpl never.
Local Arguments Nat.modulo : simpl never.

(* ---------- array_split ---------- *)
Lemma chunks_from_concat start sizes : concat (chunks_from start sizes) = seq start (fold_right Nat.add 0 sizes).
Proof.
  revert start. induction sizes as [|s rest IH]; intros start; simpl; [reflexivity|].
  rewrite IH, <- seq_app. reflexivity.
Qed.

Lemma sum_split_sizes n k : (1 <= k)%nat -> fold_right Nat.add 0 (split_sizes n k) = n.
Proof.
  intros Hk. unfold split_sizes.
  assert (G : forall m, (m <= k)%nat ->
    fold_right Nat.add 0 (map (fun i => if Nat.ltb i (n mod k) then S (n / k) else n / k) (seq 0 m)) = (m * (n / k) + Nat.min m (n mod k))%nat).
  { induction m as [|m IH]; intros Hm; [reflexivity|].
    rewrite seq_S, map_app, fold_right_app. simpl.
    assert (E : forall a l, fold_right Nat.add a l = (fold_right Nat.add 0 l + a)%nat).
    { intros a l. induction l as [|x l IHl]; simpl; lia. }
    rewrite E, IH by lia. rewrite Nat.mul_succ_l. generalize (m * (n / k))%nat. intros mq.
    destruct (Nat.ltb_spec m (n mod k)); lia. }
  rewrite (G k (le_n k)).
  assert (n mod k < k)%nat by (apply Nat.mod_upper_bound; lia).
  rewrite Nat.min_r by lia. pose proof (Nat.div_mod n k ltac:(lia)). rewrite Nat.mul_comm. lia.
Qed.

(* the chunks, in order, are exactly 0 .. n-1: nothing lost, nothing duplicated, order kept *)
Theorem array_split_concat n k : (1 <= k)%nat -> concat (array_split n k) = seq 0 n.
Proof. intros Hk. unfold array_split. rewrite chunks_from_concat, sum_split_sizes by exact Hk. reflexivity. Qed.

Lemma chunks_from_length start sizes : length (chunks_from start sizes) = length sizes.
Proof. revert start. induction sizes as [|x l IH]; intros start; simpl; [reflexivity|]. rewrite IH. reflexivity. Qed.

Theorem array_split_count n k : length (array_split n k) = k.
Proof. unfold array_split, split_sizes. rewrite chunks_from_length, map_length, seq_length. reflexivity. Qed.

Lemma array_split_covers n k i : (1 <= k)%nat -> (i < n)%nat -> exists c, In c (array_split n k) /\ In i c.
Proof.
  intros Hk Hi. assert (H : In i (concat (array_split n k))) by (rewrite array_split_concat by exact Hk; apply in_seq; lia).
  apply in_concat in H. destruct H as [c [H1 H2]]. eauto.
Qed.

(* ---------- local <-> global indices inside a job ---------- *)
Lemma pos_nth x l a : pos x l = Some a -> nth a l 0 = x /\ (a < length l)%nat.
Proof.
  revert a. induction l as [|y l IH]; simpl; intros a H; [discriminate|].
  destruct (Nat.eqb_spec x y) as [->|N].
  - inversion H; subst. split; [reflexivity|lia].
  - destruct (pos x l) as [a'|] eqn:E; simpl in H; [|discriminate]. inversion H; subst.
    destruct (IH a' eq_refl). split; [assumption|lia].
Qed.

Lemma pos_In x l : In x l -> exists a, pos x l = Some a.
Proof.
  induction l as [|y l IH]; simpl; [intros []|]. intros [->|H].
  - rewrite Nat.eqb_refl. eauto.
  - destruct (Nat.eqb x y); [eauto|]. destruct (IH H) as [a ->]. simpl. eauto.
Qed.

(* the block entry a job computes from its LOCAL indices is the score of the right GLOBAL pair *)
Theorem block_is_global_score {V} (F : nat -> nat -> V) (j : job) i k a b :
  pos i (fst j) = Some a -> pos k (snd j) = Some b -> block F j a b = F i k.
Proof.
  intros Ha Hb. destruct (pos_nth _ _ _ Ha) as [E1 L1]. destruct (pos_nth _ _ _ Hb) as [E2 L2].
  unfold block, local_list. rewrite app_nth1 by exact L1. rewrite app_nth2 by lia.
  replace (length (fst j) + b - length (fst j))%nat with b by lia. rewrite E1, E2. reflexivity.
Qed.

(* ---------- assembling in ANY order ---------- *)
Lemma write_covered {V} (F : nat -> nat -> V) m j i k : In i (fst j) -> In k (snd j) -> write F m j i k = Some (F i k).
Proof.
  intros Hi Hk. unfold write. destruct (pos_In _ _ Hi) as [a Ea]. destruct (pos_In _ _ Hk) as [b Eb].
  rewrite Ea, Eb. f_equal. apply block_is_global_score; assumption.
Qed.

Lemma write_other {V} (F : nat -> nat -> V) m j i k : write F m j i k = m i k \/ write F m j i k = Some (F i k).
Proof.
  unfold write. destruct (pos i (fst j)) as [a|] eqn:Ea; [|left; reflexivity].
  destruct (pos k (snd j)) as [b|] eqn:Eb; [|left; reflexivity]. right. f_equal. apply block_is_global_score; assumption.
Qed.

Lemma assemble_sound {V} (F : nat -> nat -> V) jobs : forall m i k,
  (m i k = None \/ m i k = Some (F i k)) ->
  fold_left (write F) jobs m i k = None \/ fold_left (write F) jobs m i k = Some (F i k).
Proof.
  induction jobs as [|j jobs IH]; intros m i k H; simpl; [exact H|]. apply IH.
  destruct (write_other F m j i k) as [E|E]; rewrite E; [exact H|right; reflexivity].
Qed.

Lemma assemble_covered {V} (F : nat -> nat -> V) jobs : forall m i k,
  (m i k = None \/ m i k = Some (F i k)) ->
  (exists j, In j jobs /\ In i (fst j) /\ In k (snd j)) ->
  fold_left (write F) jobs m i k = Some (F i k).
Proof.
  induction jobs as [|j jobs IH]; intros m i k H [j0 [Hj [Hi Hk]]]; [contradiction|]. simpl.
  destruct Hj as [<-|Hj].
  - destruct (assemble_sound F jobs (write F m j) i k) as [E|E]; [right; apply write_covered; assumption| |exact E].
    (* once written it stays written with the same value *)
    exfalso. revert E. generalize (write_covered F m j i k Hi Hk). generalize (write F m j).
    clear. induction jobs as [|j2 jobs IH2]; intros m Hm E; simpl in E; [congruence|].
    apply (IH2 (write F m j2)); [|exact E]. destruct (write_other F m j2 i k) as [E2|E2]; rewrite E2; [exact Hm|reflexivity].
  - apply IH; [|exists j0; auto]. destruct (write_other F m j i k) as [E|E]; rewrite E; [exact H|right; reflexivity].
Qed.

(* THE PROPERTY: for every partition into rows x cols jobs and every order in which the jobs complete, the assembled
   matrix holds, at every (query i, target k), the score of query i against target k *)
Theorem assemble_any_order {V} (F : nat -> nat -> V) nq nt rows cols (jobs : list job) i k :
  (1 <= rows)%nat -> (1 <= cols)%nat -> Permutation jobs (grid nq nt rows cols) ->
  (i < nq)%nat -> (k < nt)%nat -> assemble F jobs i k = Some (F i k).
Proof.
  intros Hr Hc Hp Hi Hk. unfold assemble. apply assemble_covered; [left; reflexivity|].
  destruct (array_split_covers nq rows i Hr Hi) as [q [Hq Hiq]].
  destruct (array_split_covers nt cols k Hc Hk) as [t [Ht Hkt]].
  exists (q, t). split; [|auto]. apply (Permutation_in _ (Permutation_sym Hp)).
  unfold grid. apply in_flat_map. exists q. split; [exact Hq|]. apply in_map. exact Ht.
Qed.

(* nothing outside the matrix is ever written *)
Theorem assemble_none_outside {V} (F : nat -> nat -> V) jobs i k :
  assemble F jobs i k = None \/ assemble F jobs i k = Some (F i k).
Proof. unfold assemble. apply assemble_sound. left. reflexivity. Qed.

(* all-by-all: the job's neuron list is a duplicate-free list of global indices; two local indices are equal exactly
   when they denote the same neuron, so the "self hit = 1" shortcut on equal local indices is sound *)
Theorem ixmap_injective l x y a : NoDup l -> pos x l = Some a -> pos y l = Some a -> x = y.
Proof. intros _ Hx Hy. destruct (pos_nth _ _ _ Hx). destruct (pos_nth _ _ _ Hy). congruence. Qed.

(* ---------- mapping over a NeuronList ---------- *)
Lemma chunk_concat {A} fuel size (l : list A) : concat (chunk fuel size l) = l.
Proof.
  revert l. induction fuel as [|f IH]; intros l; simpl; [apply app_nil_r|].
  destruct l as [|x l]; [reflexivity|]. simpl concat. rewrite IH.
  change (x :: firstn size l ++ skipn size l = x :: l). rewrite firstn_skipn. reflexivity.
Qed.

(* serial and chunked (parallel) mapping agree for every chunk size: results in list order *)
Theorem map_chunked_eq_map {A B} (f : A -> B) size (l : list A) : map_chunked f size l = map f l.
Proof. unfold map_chunked. rewrite <- concat_map, chunk_concat. reflexivity. Qed.

(* omit_failures removes exactly the failing neurons and keeps the order of the others *)
Theorem map_omit_spec {A B} (f : A -> option B) l y :
  In y (map_omit f l) <-> exists x, In x l /\ f x = Some y.
Proof.
  unfold map_omit. rewrite in_flat_map. split.
  - intros [x [Hx H]]. destruct (f x) as [y'|] eqn:E; [|contradiction]. destruct H as [<-|[]]. eauto.
  - intros [x [Hx E]]. exists x. rewrite E. split; [exact Hx|left; reflexivity].
Qed.
Theorem map_omit_all_ok {A B} (f : A -> option B) (g : A -> B) l : (forall x, In x l -> f x = Some (g x)) -> map_omit f l = map g l.
Proof.
  induction l as [|x l IH]; intros H; simpl; [reflexivity|]. rewrite (H x (or_introl eq_refl)). simpl. f_equal.
  apply IH. intros y Hy. apply H. right. exact Hy.
Qed.
(* per-neuron arguments go to the neuron at the same position *)
Theorem map_zipped_nth {A B C} (f : A -> B -> C) l args i da db dc : length l = length args -> (i < length l)%nat ->
  nth i (map_zipped f l args) dc = f (nth i l da) (nth i args db).
Proof.
  intros Hl Hi. unfold map_zipped.
  rewrite (nth_indep _ dc (f (fst (da, db)) (snd (da, db)))) by (rewrite map_length, combine_length; lia).
  rewrite (map_nth (fun p => f (fst p) (snd p)) (combine l args) (da, db) i). rewrite combine_nth by exact Hl. reflexivity.
Qed.
