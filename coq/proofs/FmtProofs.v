(* Theorems about model/Fmt.v: the backtracking matcher finds a match exactly when one exists (soundness and completeness with respect
   to the declarative reading "file name = prefix ++ pattern instantiated with newline-free texts ++ suffix"), file names rendered
   from separator-free values are parsed back to exactly those values whatever ignored fields the pattern contains, and every
   declared name receives the text of ITS OWN group. *)
From Coq Require Import List ZArith QArith Bool Lia Arith.
Import ListNotations.
From Navis Require Import model.Fmt.
Open Scope Z_scope.

Lemma str_eqb_eq a b : str_eqb a b = true <-> a = b.
Proof.
  revert b; induction a as [|x a IH]; intros [|y b]; cbn [str_eqb]; split; intros H; try reflexivity; try discriminate.
  - apply andb_prop in H. destruct H as [H1 H2]. apply Z.eqb_eq in H1. apply IH in H2. subst. reflexivity.
  - injection H as -> ->. rewrite Z.eqb_refl. cbn [andb]. apply IH. reflexivity.
Qed.
Lemma str_eqb_refl a : str_eqb a a = true.
Proof. apply str_eqb_eq. reflexivity. Qed.
Lemma str_eqb_neq a b : a <> b -> str_eqb a b = false.
Proof. intros H. destruct (str_eqb a b) eqn:E; [|reflexivity]. apply str_eqb_eq in E. contradiction. Qed.

(* ---------- strip ---------- *)
Lemma strip_app l s : strip l (l ++ s) = Some s.
Proof. induction l as [|a l IH]; [reflexivity|]. cbn [strip app]. rewrite Z.eqb_refl. exact IH. Qed.
Lemma strip_some l s s' : strip l s = Some s' -> s = l ++ s'.
Proof.
  revert s; induction l as [|a l IH]; intros s H; cbn [strip] in H.
  - injection H as ->. reflexivity.
  - destruct s as [|b s]; [discriminate|]. destruct (a =? b) eqn:E; [|discriminate]. apply Z.eqb_eq in E. subst b.
    cbn [app]. f_equal. apply IH. exact H.
Qed.

(* ---------- span ---------- *)
Definition nonl_str (s : str) : Prop := Forall (fun c => nonl c = true) s.
Lemma span_le s : (span s <= length s)%nat.
Proof. induction s as [|c r IH]; cbn [span length]; [lia|]. destruct (nonl c); lia. Qed.
Lemma firstn_span_nonl s k : (k <= span s)%nat -> nonl_str (firstn k s).
Proof.
  revert k; induction s as [|c r IH]; intros k H.
  - rewrite firstn_nil. constructor.
  - destruct k as [|k]; [constructor|]. cbn [span] in H. destruct (nonl c) eqn:E; [|lia]. cbn [firstn]. constructor; [exact E|]. apply IH. lia.
Qed.
Lemma span_app_nonl g r : nonl_str g -> (length g <= span (g ++ r))%nat.
Proof.
  induction 1 as [|c g Hc Hg IH]; cbn [app span length]; [lia|]. rewrite Hc. lia.
Qed.

(* ---------- greedy ---------- *)
Lemma greedy_some f s k r : greedy f s k = Some r -> exists j gs, (j <= k)%nat /\ f (skipn j s) = Some gs /\ r = firstn j s :: gs.
Proof.
  induction k as [|k IH]; cbn [greedy]; intros H.
  - destruct (f (skipn 0 s)) as [gs|] eqn:E; [|discriminate]. injection H as <-. exists O, gs. repeat split; [lia | exact E].
  - destruct (f (skipn (S k) s)) as [gs|] eqn:E.
    + injection H as <-. exists (S k), gs. repeat split; [lia | exact E].
    + destruct (IH H) as [j [gs [Hj [Hf Hr]]]]. exists j, gs. repeat split; [lia | exact Hf | exact Hr].
Qed.
Lemma greedy_complete f s k j : (j <= k)%nat -> f (skipn j s) <> None -> greedy f s k <> None.
Proof.
  induction k as [|k IH]; intros Hj Hf; cbn [greedy].
  - assert (j = O) by lia. subst j. destruct (f (skipn 0 s)); [discriminate | contradiction].
  - destruct (f (skipn (S k) s)) eqn:E; [discriminate|]. apply IH; [|exact Hf].
    destruct (Nat.eq_dec j (S k)) as [->|]; [rewrite E in Hf; contradiction | lia].
Qed.
Lemma greedy_hit f s k gs : f (skipn k s) = Some gs -> greedy f s k = Some (firstn k s :: gs).
Proof. intros H. destruct k; cbn [greedy]; rewrite H; reflexivity. Qed.
(* positions above n all fail: the search continues from n *)
Lemma greedy_skip f s k n : (n <= k)%nat -> (forall j, (n < j <= k)%nat -> f (skipn j s) = None) -> greedy f s k = greedy f s n.
Proof.
  induction k as [|k IH]; intros Hn Hfail.
  - assert (n = O) by lia. subst n. reflexivity.
  - destruct (Nat.eq_dec n (S k)) as [->|Hne]; [reflexivity|]. cbn [greedy]. rewrite (Hfail (S k)) by lia.
    apply IH; [lia|]. intros j Hj. apply Hfail. lia.
Qed.

(* ---------- soundness ---------- *)
Lemma mtoks_sound toks : forall s gs, mtoks toks s = Some gs ->
  length gs = ngroups toks /\ Forall nonl_str gs /\ exists post, s = render toks gs ++ post.
Proof.
  induction toks as [|t r IH]; intros s gs H; cbn [mtoks] in H.
  - injection H as <-. repeat split; [constructor | exists s; reflexivity].
  - destruct t as [l|b].
    + destruct (strip l s) as [s'|] eqn:E; [|discriminate]. destruct (IH _ _ H) as [Hl [Hn [post Hp]]].
      repeat split; [exact Hl | exact Hn |]. exists post. cbn [render]. rewrite <- app_assoc, <- Hp. apply strip_some. exact E.
    + apply greedy_some in H. destruct H as [j [gs' [Hj [Hf ->]]]]. destruct (IH _ _ Hf) as [Hl [Hn [post Hp]]].
      repeat split.
      * cbn [length ngroups]. rewrite Hl. reflexivity.
      * constructor; [apply firstn_span_nonl; exact Hj | exact Hn].
      * exists post. cbn [render]. rewrite <- app_assoc, <- Hp. symmetry. apply firstn_skipn.
Qed.

Lemma skipn_app_length {A} (g r : list A) : skipn (length g) (g ++ r) = r.
Proof. induction g as [|a g IH]; [reflexivity|]. exact IH. Qed.
Lemma firstn_app_length {A} (g r : list A) : firstn (length g) (g ++ r) = g.
Proof. induction g as [|a g IH]; [reflexivity|]. cbn [length app firstn]. rewrite IH. reflexivity. Qed.

Lemma skipn_add {A} (a b : nat) (s : list A) : skipn (a + b) s = skipn b (skipn a s).
Proof. revert s; induction a as [|a IH]; intros s; [reflexivity|]. destruct s as [|x s]; [cbn [Nat.add skipn]; destruct b; reflexivity|]. cbn [Nat.add skipn]. apply IH. Qed.

(* ---------- completeness ---------- *)
Lemma mtoks_complete toks : forall gs post, length gs = ngroups toks -> Forall nonl_str gs -> mtoks toks (render toks gs ++ post) <> None.
Proof.
  induction toks as [|t r IH]; intros gs post Hl Hn; cbn [mtoks render].
  - discriminate.
  - destruct t as [l|b].
    + rewrite <- app_assoc, strip_app. apply IH; assumption.
    + destruct gs as [|g gs]; [discriminate|]. cbn [length ngroups] in Hl. inversion Hn as [|? ? Hg Hn']; subst.
      rewrite <- app_assoc. apply (greedy_complete _ _ _ (length g)).
      * apply span_app_nonl. exact Hg.
      * rewrite skipn_app_length. apply IH; [lia | exact Hn'].
Qed.

Lemma search_sound toks : forall s gs, search toks s = Some gs ->
  length gs = ngroups toks /\ Forall nonl_str gs /\ exists pre post, s = pre ++ render toks gs ++ post.
Proof.
  induction s as [|c s IH]; intros gs H; cbn [search] in H.
  - destruct (mtoks toks []) as [g|] eqn:E; [|discriminate]. injection H as ->. destruct (mtoks_sound _ _ _ E) as [A [B [post C]]].
    repeat split; [exact A | exact B |]. exists [], post. exact C.
  - destruct (mtoks toks (c :: s)) as [g|] eqn:E.
    + injection H as ->. destruct (mtoks_sound _ _ _ E) as [A [B [post C]]]. repeat split; [exact A | exact B |]. exists [], post. exact C.
    + destruct (IH _ H) as [A [B [pre [post C]]]]. repeat split; [exact A | exact B |]. exists (c :: pre), post. cbn [app]. rewrite C. reflexivity.
Qed.
Lemma search_complete toks : forall pre gs post, length gs = ngroups toks -> Forall nonl_str gs ->
  search toks (pre ++ render toks gs ++ post) <> None.
Proof.
  induction pre as [|c pre IH]; intros gs post Hl Hn.
  - cbn [app]. pose proof (mtoks_complete toks gs post Hl Hn) as M.
    destruct (render toks gs ++ post) as [|c s] eqn:E; cbn [search]; destruct (mtoks toks _); try discriminate; contradiction.
  - cbn [app search]. destruct (mtoks toks _); [discriminate|]. apply IH; assumption.
Qed.

(* ---------- round trip on separator-free values ---------- *)
Section Sep.
  Context (sep : Z -> bool).   (* section-local binder, generalised when the section closes *)
  Definition cnt (s : str) : nat := length (filter sep s).
  Fixpoint litcnt (toks : list tok) : nat :=
    match toks with [] => O | TLit l :: r => (cnt l + litcnt r)%nat | TGrp _ :: r => litcnt r end.
  (* every literal that follows a field starts with a separator; no two fields are adjacent *)
  Fixpoint wellsep (toks : list tok) : bool :=
    match toks with
    | [] => true
    | TLit _ :: r => wellsep r
    | TGrp _ :: r => match r with [] => true | TLit (c :: _) :: _ => sep c && wellsep r | _ => false end
    end.
  Definition sepfree (s : str) : Prop := Forall (fun c => sep c = false /\ nonl c = true) s.

  Lemma cnt_app a b : cnt (a ++ b) = (cnt a + cnt b)%nat.
  Proof. unfold cnt. rewrite filter_app, app_length. reflexivity. Qed.
  Lemma cnt_sepfree s : sepfree s -> cnt s = O.
  Proof. induction 1 as [|c s [Hc _] _ IH]; [reflexivity|]. unfold cnt in *. cbn [filter]. rewrite Hc. exact IH. Qed.
  Lemma cnt_skipn k s : (cnt (skipn k s) <= cnt s)%nat.
  Proof.
    revert s; induction k as [|k IH]; intros s; [cbn [skipn]; lia|]. destruct s as [|c s]; [cbn [skipn]; lia|].
    cbn [skipn]. specialize (IH s). unfold cnt in *. cbn [filter]. destruct (sep c); cbn [length]; lia.
  Qed.
  Lemma render_cnt_ge toks : forall gs, (litcnt toks <= cnt (render toks gs))%nat.
  Proof.
    induction toks as [|t r IH]; intros gs; cbn [litcnt render]; [lia|]. destruct t as [l|b].
    - rewrite cnt_app. specialize (IH gs). lia.
    - destruct gs as [|g gs]; [apply IH|]. rewrite cnt_app. specialize (IH gs). lia.
  Qed.
  Lemma render_cnt_eq toks : forall vals, length vals = ngroups toks -> Forall sepfree vals -> cnt (render toks vals) = litcnt toks.
  Proof.
    induction toks as [|t r IH]; intros vals Hl Hv; cbn [litcnt render]; [reflexivity|]. destruct t as [l|b].
    - rewrite cnt_app, IH by assumption. reflexivity.
    - destruct vals as [|v vals]; [discriminate|]. inversion Hv as [|? ? Hv1 Hv2]; subst. cbn [length ngroups] in Hl.
      rewrite cnt_app, (cnt_sepfree _ Hv1), IH by (assumption || lia). reflexivity.
  Qed.
  (* a match needs at least as many separator characters as the literals contain *)
  Lemma mtoks_needs toks s gs : mtoks toks s = Some gs -> (litcnt toks <= cnt s)%nat.
  Proof.
    intros H. destruct (mtoks_sound _ _ _ H) as [_ [_ [post ->]]]. rewrite cnt_app. pose proof (render_cnt_ge toks gs). lia.
  Qed.
  Lemma sepfree_nonl v : sepfree v -> nonl_str v.
  Proof. induction 1 as [|c v [_ Hc] _ IH]; constructor; assumption. Qed.
  Lemma span_nonl v : nonl_str v -> span v = length v.
  Proof. induction 1 as [|c v Hc _ IH]; [reflexivity|]. cbn [span length]. rewrite Hc, IH. reflexivity. Qed.

  Theorem roundtrip toks : forall vals, wellsep toks = true -> length vals = ngroups toks -> Forall sepfree vals ->
    mtoks toks (render toks vals) = Some vals.
  Proof.
    induction toks as [|t r IH]; intros vals Hw Hl Hv.
    - destruct vals; [reflexivity | discriminate].
    - destruct t as [l|b].
      + cbn [mtoks render]. rewrite strip_app. apply IH; assumption.
      + destruct vals as [|v vals]; [discriminate|]. inversion Hv as [|? ? Hv1 Hv2]; subst. cbn [length ngroups] in Hl.
        assert (Hl' : length vals = ngroups r) by lia. cbn [mtoks render].
        assert (Hlen : (length v <= span (v ++ render r vals))%nat) by (apply span_app_nonl, sepfree_nonl; exact Hv1).
        destruct r as [|t2 r2].
        * (* the field is the last token: it takes everything *)
          destruct vals; [|discriminate]. cbn [render]. rewrite app_nil_r.
          rewrite (span_nonl v (sepfree_nonl _ Hv1)).
          rewrite (greedy_hit _ _ _ [] eq_refl), firstn_all. reflexivity.
        * destruct t2 as [l2|b2]; [|cbn [wellsep] in Hw; discriminate]. destruct l2 as [|c l2]; [cbn [wellsep] in Hw; discriminate|].
          cbn [wellsep] in Hw. apply andb_prop in Hw. destruct Hw as [Hc Hw].
          rewrite (greedy_skip _ _ _ (length v) Hlen).
          -- assert (E0 : mtoks (TLit (c :: l2) :: r2) (skipn (length v) (v ++ render (TLit (c :: l2) :: r2) vals)) = Some vals).
             { rewrite skipn_app_length. apply IH; assumption. }
             rewrite (greedy_hit _ _ _ _ E0), firstn_app_length. reflexivity.
          -- intros j Hj. destruct (mtoks (TLit (c :: l2) :: r2) (skipn j (v ++ render (TLit (c :: l2) :: r2) vals))) as [gs|] eqn:E; [|reflexivity].
             exfalso. apply mtoks_needs in E.
             assert (Es : skipn j (v ++ render (TLit (c :: l2) :: r2) vals) = skipn (j - length v - 1) (l2 ++ render r2 vals)).
             { replace j with (length v + S (j - length v - 1))%nat at 1 by lia. rewrite skipn_add. rewrite skipn_app_length.
               cbn [render app skipn]. reflexivity. }
             rewrite Es in E. pose proof (cnt_skipn (j - length v - 1) (l2 ++ render r2 vals)) as Hs.
             pose proof (render_cnt_eq (TLit (c :: l2) :: r2) vals Hl' Hv2) as Heq. cbn [render] in Heq.
             change ((c :: l2) ++ render r2 vals) with (c :: (l2 ++ render r2 vals)) in Heq. unfold cnt in Heq at 1. cbn [filter] in Heq. rewrite Hc in Heq.
             cbn [length] in Heq. fold (cnt (l2 ++ render r2 vals)) in Heq. lia.
  Qed.

  Theorem search_roundtrip toks vals : wellsep toks = true -> length vals = ngroups toks -> Forall sepfree vals ->
    search toks (render toks vals) = Some vals.
  Proof.
    intros Hw Hl Hv. pose proof (roundtrip toks vals Hw Hl Hv) as R. destruct (render toks vals); cbn [search]; rewrite R; reflexivity.
  Qed.
End Sep.

(* ---------- tokeniser ---------- *)
Definition lit_ok (l : str) : Prop := l <> [] /\ Forall (fun c => c <> 123) l.
Definition body_ok (b : str) : Prop := Forall (fun c => c <> 125 /\ nonl c = true) b.
Fixpoint wf_toks (toks : list tok) : Prop :=
  match toks with
  | [] => True
  | TLit l :: r => lit_ok l /\ (match r with TLit _ :: _ => False | _ => True end) /\ wf_toks r
  | TGrp b :: r => body_ok b /\ wf_toks r
  end.

Lemma upto_close_body b rest : body_ok b -> upto_close (b ++ 125 :: rest) = Some (b, rest).
Proof.
  induction 1 as [|c b [Hc Hn] _ IH]; cbn [app upto_close].
  - rewrite Z.eqb_refl. reflexivity.
  - destruct (c =? 125) eqn:E; [apply Z.eqb_eq in E; contradiction|]. rewrite Hn, IH. reflexivity.
Qed.

Lemma tokenize_lit l : forall fuel rest r', Forall (fun c => c <> 123) l -> l <> [] ->
  (length l + length rest <= fuel)%nat ->
  (forall f, (length rest <= f)%nat -> tokenize_f f rest = r') -> (match r' with TLit _ :: _ => False | _ => True end) ->
  tokenize_f fuel (l ++ rest) = TLit l :: r'.
Proof.
  induction l as [|c l IH]; intros fuel rest r' Hl Hne Hf Hr Hh; [contradiction|].
  inversion Hl as [|? ? Hc Hl']; subst. destruct fuel as [|fuel]; [cbn [length] in Hf; lia|]. cbn [app tokenize_f].
  destruct (c =? 123) eqn:E; [apply Z.eqb_eq in E; contradiction|].
  destruct l as [|c2 l].
  - cbn [app]. rewrite (Hr fuel) by (cbn [length] in Hf; lia). unfold push_lit. destruct r' as [|[l'|b'] r'']; [reflexivity | contradiction | reflexivity].
  - rewrite (IH fuel rest r' Hl'); [reflexivity | discriminate | cbn [length] in *; lia | exact Hr | exact Hh].
Qed.

Theorem tokenize_show toks : wf_toks toks -> forall fuel, (length (show toks) <= fuel)%nat -> tokenize_f fuel (show toks) = toks.
Proof.
  induction toks as [|t r IH]; intros Hw fuel Hf.
  - destruct fuel; reflexivity.
  - destruct t as [l|b]; cbn [wf_toks] in Hw; cbn [show] in *.
    + destruct Hw as [[Hne Hl] [Hh Hw]]. apply tokenize_lit; [exact Hl | exact Hne | rewrite app_length in Hf; lia | | exact Hh].
      intros f Hf'. apply IH; assumption.
    + destruct Hw as [Hb Hw]. destruct fuel as [|fuel]; [cbn [length] in Hf; lia|]. cbn [tokenize_f]. rewrite Z.eqb_refl.
      rewrite upto_close_body by exact Hb. f_equal. apply IH; [exact Hw|]. cbn [length] in Hf. rewrite app_length in Hf. cbn [length] in Hf. lia.
Qed.
Corollary tokenize_show' toks : wf_toks toks -> tokenize (show toks) = toks.
Proof. intros H. apply tokenize_show; [exact H | lia]. Qed.

(* ---------- every name receives the text of its own group ---------- *)
Lemma dget_dset_same d k v : dget (dset d k v) k = Some v.
Proof.
  induction d as [|[k' v'] d IH]; cbn [dset dget]; [rewrite str_eqb_refl; reflexivity|].
  destruct (str_eqb k' k) eqn:E; cbn [dget]; rewrite E; [reflexivity | exact IH].
Qed.
Lemma dget_dset_other d k v n : k <> n -> dget (dset d k v) n = dget d n.
Proof.
  intros Hne. induction d as [|[k' v'] d IH]; cbn [dset dget]; [rewrite (str_eqb_neq _ _ Hne); reflexivity|].
  destruct (str_eqb k' k) eqn:E; cbn [dget].
  - apply str_eqb_eq in E. subst k'. rewrite (str_eqb_neq _ _ Hne). reflexivity.
  - destruct (str_eqb k' n); [reflexivity | exact IH].
Qed.
(* keys keep their position: the dictionary's key order is first-assignment order *)
Lemma dset_keys_in d k v : In k (map fst d) -> map fst (dset d k v) = map fst d.
Proof.
  induction d as [|[k' v'] d IH]; intros H; [destruct H|]. cbn [dset]. destruct (str_eqb k' k) eqn:E; [reflexivity|].
  cbn [map fst]. f_equal. apply IH. destruct H as [H|H]; [cbn [fst] in H; subst; rewrite str_eqb_refl in E; discriminate | exact H].
Qed.
Lemma dset_keys_new d k v : ~ In k (map fst d) -> map fst (dset d k v) = map fst d ++ [k].
Proof.
  induction d as [|[k' v'] d IH]; intros H; [reflexivity|]. cbn [dset]. destruct (str_eqb k' k) eqn:E.
  - apply str_eqb_eq in E. subst. exfalso. apply H. left. reflexivity.
  - cbn [map fst app]. f_equal. apply IH. intros Hin. apply H. right. exact Hin.
Qed.

Lemma assign_fields_own fs g n t : (forall t', In (FName n t') fs -> t' = t) ->
  forall d d', assign_fields fs g d = Some d' -> (dget d n = conv t g \/ In (FName n t) fs) -> dget d' n = conv t g.
Proof.
  induction fs as [|f fs IH]; intros Hu d d' H Hor; cbn [assign_fields] in H.
  - injection H as <-. destruct Hor as [Hd|[]]. exact Hd.
  - assert (Hu' : forall t', In (FName n t') fs -> t' = t) by (intros t' Hin; apply Hu; right; exact Hin).
    destruct f as [| |n0 t0]; [| discriminate |].
    + apply (IH Hu' _ _ H). destruct Hor as [Hd|[Hd|Hd]]; [left; exact Hd | discriminate | right; exact Hd].
    + destruct (conv t0 g) as [v|] eqn:Ec; [|discriminate]. apply (IH Hu' _ _ H).
      destruct (str_eqb n0 n) eqn:En.
      * apply str_eqb_eq in En. subst n0. left. rewrite dget_dset_same. assert (t0 = t) by (apply Hu; left; reflexivity). subst t0. symmetry. exact Ec.
      * assert (Hne : n0 <> n) by (intros ->; rewrite str_eqb_refl in En; discriminate).
        destruct Hor as [Hd|[Hd|Hd]]; [left; rewrite dget_dset_other by exact Hne; exact Hd | injection Hd as -> _; contradiction | right; exact Hd].
Qed.
Lemma assign_fields_keeps fs g n : (forall t', ~ In (FName n t') fs) -> forall d d', assign_fields fs g d = Some d' -> dget d' n = dget d n.
Proof.
  induction fs as [|f fs IH]; intros Hno d d' H; cbn [assign_fields] in H.
  - injection H as <-. reflexivity.
  - assert (Hno' : forall t', ~ In (FName n t') fs) by (intros t' Hin; apply (Hno t'); right; exact Hin).
    destruct f as [| |n0 t0]; [apply (IH Hno' _ _ H) | discriminate |].
    destruct (conv t0 g) as [v|]; [|discriminate]. rewrite (IH Hno' _ _ H). apply dget_dset_other. intros ->. apply (Hno t0). left. reflexivity.
Qed.
Lemma assign_keeps bs n : (forall b t', In b bs -> ~ In (FName n t') (fields_of b)) -> forall gs d d', assign bs gs d = Some d' -> dget d' n = dget d n.
Proof.
  induction bs as [|b bs IH]; intros Hno gs d d' H; cbn [assign] in H.
  - injection H as <-. reflexivity.
  - destruct gs as [|g gs]; [injection H as <-; reflexivity|]. destruct (assign_fields (fields_of b) g d) as [d1|] eqn:E; [|discriminate].
    rewrite (IH (fun b' t' Hin => Hno b' t' (or_intror Hin)) _ _ _ H). apply (assign_fields_keeps _ _ _ (fun t' => Hno b t' (or_introl eq_refl)) _ _ E).
Qed.

Theorem assign_own_group bs : forall gs d d' i b g n t, assign bs gs d = Some d' ->
  nth_error bs i = Some b -> nth_error gs i = Some g -> In (FName n t) (fields_of b) ->
  (forall t', In (FName n t') (fields_of b) -> t' = t) ->
  (forall j b' t', (i < j)%nat -> nth_error bs j = Some b' -> ~ In (FName n t') (fields_of b')) ->
  dget d' n = conv t g.
Proof.
  induction bs as [|b0 bs IH]; intros gs d d' i b g n t H Hb Hg Hin Hu Hlater.
  - destruct i; discriminate.
  - destruct gs as [|g0 gs]; [destruct i; discriminate|]. cbn [assign] in H.
    destruct (assign_fields (fields_of b0) g0 d) as [d1|] eqn:E; [|discriminate].
    destruct i as [|i].
    + cbn [nth_error] in Hb, Hg. injection Hb as ->. injection Hg as ->.
      rewrite (assign_keeps bs n) with (gs := gs) (d := d1) (d' := d'); [| | exact H].
      * apply (assign_fields_own _ _ _ _ Hu _ _ E). right. exact Hin.
      * intros b' t' Hb'. apply In_nth_error in Hb'. destruct Hb' as [j Hj]. apply (Hlater (S j) b' t'); [lia | exact Hj].
    + cbn [nth_error] in Hb, Hg. apply (IH gs d1 d' i b g n t H Hb Hg Hin Hu). intros j b' t' Hj Hn. apply (Hlater (S j) b' t'); [lia | exact Hn].
Qed.

(* ---------- end to end ---------- *)
Lemma basename_acc_noslash s : Forall (fun c => c <> 47) s -> forall acc, basename_acc acc s = rev acc ++ s.
Proof.
  induction 1 as [|c s Hc _ IH]; intros acc; cbn [basename_acc]; [rewrite app_nil_r; reflexivity|].
  destruct (c =? 47) eqn:E; [apply Z.eqb_eq in E; contradiction|]. rewrite IH. cbn [rev]. rewrite <- app_assoc. reflexivity.
Qed.
Lemma basename_noslash s : Forall (fun c => c <> 47) s -> basename s = s.
Proof. intros H. unfold basename. rewrite basename_acc_noslash by exact H. reflexivity. Qed.
Lemma basename_dir d s : Forall (fun c => c <> 47) s -> basename (d ++ 47 :: s) = s.
Proof.
  intros H. unfold basename. generalize (@nil Z). induction d as [|c d IH]; intros acc; cbn [app basename_acc].
  - rewrite Z.eqb_refl. rewrite basename_acc_noslash by exact H. reflexivity.
  - destruct (c =? 47); apply IH.
Qed.
Lemma bodies_tokens toks : length (bodies toks) = ngroups toks.
Proof. induction toks as [|[l|b] r IH]; cbn [bodies ngroups length]; [reflexivity | exact IH | rewrite IH; reflexivity]. Qed.

Theorem parse_rendered sep toks vals dir :
  wf_toks toks -> wellsep sep toks = true -> length vals = ngroups toks -> Forall (sepfree sep) vals ->
  Forall (fun c => c <> 47) (render toks vals) ->
  parse_filename (show toks) (dir ++ 47 :: render toks vals) = assign (bodies toks) vals [(s_file, VStr (render toks vals))]
  /\ parse_filename (show toks) (render toks vals) = assign (bodies toks) vals [(s_file, VStr (render toks vals))].
Proof.
  intros Hw Hs Hl Hv Hn. unfold parse_filename. rewrite (tokenize_show' _ Hw), (basename_dir _ _ Hn), (basename_noslash _ Hn).
  rewrite (search_roundtrip sep toks vals Hs Hl Hv). split; reflexivity.
Qed.

(* non-vacuity: "{name}_{}_{id:int}.swc" on "DA1_lPN_4711.swc" *)
Definition ex_toks : list tok :=
  [TGrp [110; 97; 109; 101]; TLit [95]; TGrp []; TLit [95]; TGrp [105; 100; 58; 105; 110; 116]; TLit [46; 115; 119; 99]].
Definition ex_vals : list str := [[68; 65; 49]; [108; 80; 78]; [52; 55; 49; 49]].
Definition ex_sep (c : Z) : bool := (c =? 95) || (c =? 46).
Example ex_hyps : wf_toks ex_toks /\ wellsep ex_sep ex_toks = true /\ length ex_vals = ngroups ex_toks /\ Forall (sepfree ex_sep) ex_vals.
Proof.
  repeat split; try discriminate; repeat constructor; try discriminate.
Qed.
Example ex_parse : out_dict (parse_filename (show ex_toks) (render ex_toks ex_vals)) =
  Some [(s_file, (0, render ex_toks ex_vals, 0, 1)); ([110; 97; 109; 101], (0, [68; 65; 49], 0, 1)); ([105; 100], (1, [], 4711, 1))].
Proof. vm_compute. reflexivity. Qed.
