(* C18: the crossing-parity rule (what a ray caster computes) is correct on the solid families used as ground truth:
   for a point in generic position, the number of mesh faces hit by the axis-parallel ray from the point is odd exactly when the
   point belongs to the solid (disjoint boxes, with disjoint box-shaped cavities cut out of them). *)
From Coq Require Import List ZArith QArith Bool Lia Arith.
Import ListNotations.
From Navis Require Import model.Volume.
Open Scope Q_scope.

Definition qltb (a b : Q) : bool := negb (Qle_bool b a).
(* strictly inside the box's shadow on the y-z plane: the +x ray can hit the two faces perpendicular to x *)
Definition in_shadow (b : box) (p : p3) : bool :=
  qltb (qy (lo b)) (qy p) && qltb (qy p) (qy (hi b)) && qltb (qz (lo b)) (qz p) && qltb (qz p) (qz (hi b)).
(* faces of the box hit by the ray p + t (1,0,0), t > 0 *)
Definition crossings_box (b : box) (p : p3) : nat :=
  if in_shadow b p then ((if qltb (qx p) (qx (lo b)) then 1 else 0) + (if qltb (qx p) (qx (hi b)) then 1 else 0))%nat else 0%nat.
(* the mesh of a solid = the faces of its boxes and (inverted) the faces of its cavities *)
Definition crossings (s : solid) (p : p3) : nat :=
  fold_right Nat.add 0%nat (map (fun b => crossings_box b p) (plus s ++ minus s)).

(* generic position: p lies on none of the face planes; boxes are not degenerate *)
Definition generic_box (b : box) (p : p3) : Prop :=
  qx (lo b) < qx (hi b) /\ qy (lo b) < qy (hi b) /\ qz (lo b) < qz (hi b) /\
  ~ qx p == qx (lo b) /\ ~ qx p == qx (hi b) /\ ~ qy p == qy (lo b) /\ ~ qy p == qy (hi b) /\ ~ qz p == qz (lo b) /\ ~ qz p == qz (hi b).

Lemma qltb_lt a b : qltb a b = true <-> a < b.
Proof.
  unfold qltb. rewrite negb_true_iff. split.
  - intros H. apply Qnot_le_lt. intros Hle. apply Qle_bool_iff in Hle. congruence.
  - intros H. destruct (Qle_bool b a) eqn:E; [|reflexivity]. apply Qle_bool_iff in E. exfalso. apply (Qlt_not_le _ _ H E).
Qed.
Lemma qle_of_lt_generic a b : ~ a == b -> (Qle_bool b a = qltb b a).
Proof.
  intros N. unfold qltb. destruct (Qle_bool b a) eqn:E1, (Qle_bool a b) eqn:E2; try reflexivity.
  - apply Qle_bool_iff in E1, E2. exfalso. apply N. apply Qle_antisym; assumption.
  - exfalso. destruct (Qlt_le_dec a b) as [H|H].
    + assert (Qle_bool a b = true) by (apply Qle_bool_iff; apply Qlt_le_weak; exact H). congruence.
    + assert (Qle_bool b a = true) by (apply Qle_bool_iff; exact H). congruence.
Qed.

Theorem parity_box b p : generic_box b p -> Nat.odd (crossings_box b p) = in_box b p.
Proof.
  intros [Hx [Hy [Hz [N1 [N2 [N3 [N4 [N5 N6]]]]]]]]. unfold crossings_box, in_box, in_shadow.
  rewrite (qle_of_lt_generic (qx p) (qx (lo b)) N1), (qle_of_lt_generic (qy p) (qy (lo b)) N3), (qle_of_lt_generic (qz p) (qz (lo b)) N5).
  assert (E2 : Qle_bool (qx p) (qx (hi b)) = qltb (qx p) (qx (hi b))) by (apply qle_of_lt_generic; intros E; apply N2; symmetry; exact E).
  assert (E4 : Qle_bool (qy p) (qy (hi b)) = qltb (qy p) (qy (hi b))) by (apply qle_of_lt_generic; intros E; apply N4; symmetry; exact E).
  assert (E6 : Qle_bool (qz p) (qz (hi b)) = qltb (qz p) (qz (hi b))) by (apply qle_of_lt_generic; intros E; apply N6; symmetry; exact E).
  rewrite E2, E4, E6.
  destruct (qltb (qy (lo b)) (qy p)), (qltb (qy p) (qy (hi b))), (qltb (qz (lo b)) (qz p)), (qltb (qz p) (qz (hi b)));
    cbn [andb]; try (rewrite ?andb_false_r; reflexivity).
  rewrite !andb_true_r.
  destruct (qltb (qx p) (qx (lo b))) eqn:A, (qltb (qx (lo b)) (qx p)) eqn:B, (qltb (qx p) (qx (hi b))) eqn:C; try reflexivity; exfalso.
  - apply qltb_lt in A, B. apply (Qlt_irrefl (qx p)). apply (Qlt_trans _ (qx (lo b))); assumption.
  - apply qltb_lt in A, B. apply (Qlt_irrefl (qx p)). apply (Qlt_trans _ (qx (lo b))); assumption.
  - apply qltb_lt in A. assert (qx p < qx (hi b)) by (apply (Qlt_trans _ (qx (lo b))); assumption). apply qltb_lt in H. congruence.
  - (* neither p < lo nor lo < p: impossible in generic position *)
    destruct (Qlt_le_dec (qx p) (qx (lo b))) as [H|H]; [apply qltb_lt in H; congruence|].
    destruct (Qlt_le_dec (qx (lo b)) (qx p)) as [H'|H']; [apply qltb_lt in H'; congruence|]. apply N1. apply Qle_antisym; assumption.
Qed.

(* parity of a sum = exclusive-or of the parities *)
Fixpoint xor_all (l : list bool) : bool := match l with [] => false | x :: r => xorb x (xor_all r) end.
Lemma odd_sum l : Nat.odd (fold_right Nat.add 0%nat l) = xor_all (map Nat.odd l).
Proof. induction l as [|a r IH]; [reflexivity|]. cbn [fold_right map xor_all]. rewrite Nat.odd_add, IH. reflexivity. Qed.
(* at most one member true: exclusive-or = "some member true" *)
Lemma xor_at_most_one l : (forall i j, nth_error l i = Some true -> nth_error l j = Some true -> i = j) -> xor_all l = existsb (fun x => x) l.
Proof.
  induction l as [|a r IH]; intros H; [reflexivity|]. cbn [xor_all existsb].
  assert (Hr : forall i j, nth_error r i = Some true -> nth_error r j = Some true -> i = j).
  { intros i j Hi Hj. assert (S i = S j) by (apply H; assumption). lia. }
  rewrite (IH Hr). destruct a; [|destruct (existsb (fun x => x) r); reflexivity]. cbn [xorb orb].
  destruct (existsb (fun x => x) r) eqn:E; [|reflexivity]. exfalso. apply existsb_exists in E. destruct E as [x [Hin Hx]]. subst x.
  apply In_nth_error in Hin. destruct Hin as [j Hj]. assert (0%nat = S j) by (apply H; [reflexivity | exact Hj]). discriminate.
Qed.
Lemma xor_all_app a b : xor_all (a ++ b) = xorb (xor_all a) (xor_all b).
Proof. induction a as [|x r IH]; [cbn [app xor_all]; destruct (xor_all b); reflexivity|]. cbn [app xor_all]. rewrite IH. destruct x, (xor_all r), (xor_all b); reflexivity. Qed.

Definition disjoint_boxes (bs : list box) (p : p3) : Prop :=
  forall i j bi bj, nth_error bs i = Some bi -> nth_error bs j = Some bj -> in_box bi p = true -> in_box bj p = true -> i = j.

Theorem parity_solid s p :
  (forall b, In b (plus s ++ minus s) -> generic_box b p) ->
  disjoint_boxes (plus s) p -> disjoint_boxes (minus s) p ->
  (existsb (fun b => in_box b p) (minus s) = true -> existsb (fun b => in_box b p) (plus s) = true) ->   (* cavities lie inside the boxes *)
  Nat.odd (crossings s p) = in_solid s p.
Proof.
  intros Hg Dp Dm Hsub. unfold crossings, in_solid. rewrite odd_sum, map_map.
  assert (E : map (fun b => Nat.odd (crossings_box b p)) (plus s ++ minus s) = map (fun b => in_box b p) (plus s ++ minus s)).
  { apply map_ext_in. intros b Hb. apply parity_box. apply Hg. exact Hb. }
  rewrite E, map_app, xor_all_app.
  assert (X : forall bs, disjoint_boxes bs p -> xor_all (map (fun b => in_box b p) bs) = existsb (fun b => in_box b p) bs).
  { intros bs D. rewrite xor_at_most_one.
    - clear. induction bs as [|b r IH]; [reflexivity|]. cbn [map existsb]. rewrite IH. reflexivity.
    - intros i j Hi Hj. rewrite nth_error_map in Hi, Hj.
      destruct (nth_error bs i) as [bi|] eqn:Ei; [|discriminate]. destruct (nth_error bs j) as [bj|] eqn:Ej; [|discriminate].
      cbn [option_map] in Hi, Hj. injection Hi as Hi. injection Hj as Hj. exact (D i j bi bj Ei Ej Hi Hj). }
  rewrite (X _ Dp), (X _ Dm).
  destruct (existsb (fun b => in_box b p) (plus s)) eqn:A, (existsb (fun b => in_box b p) (minus s)) eqn:B; try reflexivity.
  specialize (Hsub eq_refl). discriminate.
Qed.
