From Coq Require Import List ZArith QArith Bool Lia Arith Field.
Import ListNotations.
From Navis Require Import model.XformN.

(* every block of the result is the image of the corresponding input block: no row ends up in the wrong table *)
Lemma slices_concat {A} (blocks : list (list A)) : slices (map (@length A) blocks) (concat blocks) = blocks.
Proof.
  induction blocks as [|b bs IH]; simpl; [reflexivity|].
  rewrite firstn_app, Nat.sub_diag, firstn_all, firstn_O, app_nil_r.
  rewrite skipn_app, Nat.sub_diag, skipn_all. simpl. rewrite IH. reflexivity.
Qed.

Theorem slices_are_images {A} (f : A -> A) (blocks : list (list A)) : xform_blocks f blocks = map (map f) blocks.
Proof.
  unfold xform_blocks. rewrite concat_map.
  replace (map (@length A) blocks) with (map (@length A) (map (map f) blocks)).
  - apply slices_concat.
  - rewrite map_map. apply map_ext. intros b. apply map_length.
Qed.

(* mirroring without a warp transform is an involution about the midplane *)
Theorem mirror_involution s x : (mirror1 s (mirror1 s x) == x)%Q.
Proof. unfold mirror1. ring. Qed.
Theorem mirror_fixes_midplane s : (mirror1 s (s / 2) == s / 2)%Q.
Proof. unfold mirror1. field. Qed.

(* re-winding a face reverses its orientation (the normal is negated), and doing it twice restores the face *)
Theorem rewind_flips_normal a b c : peq (normal c b a) (pneg (normal a b c)).
Proof.
  destruct a as [ax ay az]. destruct b as [bx by_ bz]. destruct c as [cx cy cz].
  unfold peq, normal, cross, sub, pneg. cbn [px py pz]. repeat split; ring.
Qed.
Theorem rewind_involution {A} (f : A * A * A) : rewind (rewind f) = f.
Proof. destruct f as [[a b] c]. reflexivity. Qed.
(* a mirrored AND re-wound triangle has the mirror image of the original normal: outward stays outward *)
Theorem mirror_rewind_normal s a b c :
  let n := normal a b c in
  peq (normal (mirror_x s c) (mirror_x s b) (mirror_x s a)) {| px := - px n; py := py n; pz := pz n |}.
Proof.
  destruct a as [ax ay az]. destruct b as [bx by_ bz]. destruct c as [cx cy cz].
  unfold peq, normal, cross, sub, mirror_x, mirror1. cbn [px py pz]. repeat split; ring.
Qed.

(* a detected power-of-ten change of scale: radius is multiplied, units divided, their product is unchanged *)
Theorem radius_units_follow_magnitude (r u k : Q) : ~ (k == 0)%Q -> ((r * k) * (u / k) == r * u)%Q.
Proof. intros H. field. exact H. Qed.

(* tangents carried through helper points are re-normalised: unit squared norm *)
Theorem helper_tangent_unit (vx vy vz n : Q) : ~ (n == 0)%Q -> (n * n == vx * vx + vy * vy + vz * vz)%Q ->
  ((vx / n) * (vx / n) + (vy / n) * (vy / n) + (vz / n) * (vz / n) == 1)%Q.
Proof.
  intros Hn E. setoid_replace ((vx / n) * (vx / n) + (vy / n) * (vy / n) + (vz / n) * (vz / n))%Q with ((vx * vx + vy * vy + vz * vz) / (n * n))%Q by (field; exact Hn).
  rewrite <- E. field. exact Hn.
Qed.
