From Coq Require Import ZArith QArith Qpower Bool Lia.
From Navis Require Import model.Magnitude.
Open Scope Q_scope.

Definition in_decade (c2 : Q) (k : Z) : Prop := ten ^ (2 * k - 1) <= c2 /\ c2 < ten ^ (2 * k + 1).

Lemma qltb_lt a b : qltb a b = true <-> a < b.
Proof.
  unfold qltb. rewrite negb_true_iff. split.
  - intros H. apply Qnot_le_lt. intros Hle. apply Qle_bool_iff in Hle. congruence.
  - intros H. destruct (Qle_bool b a) eqn:E; [|reflexivity]. apply Qle_bool_iff in E. exfalso. apply (Qlt_not_le _ _ H E).
Qed.
Lemma qltb_false a b : qltb a b = false -> b <= a.
Proof. unfold qltb. rewrite negb_false_iff. apply Qle_bool_iff. Qed.

Lemma magnitude_f_sound fuel : forall c2 k m, magnitude_f fuel c2 k = Some m -> in_decade c2 m.
Proof.
  induction fuel as [|f IH]; intros c2 k m H; cbn [magnitude_f] in H; [discriminate|].
  destruct (qltb c2 (ten ^ (2 * k - 1))) eqn:A; [apply (IH _ _ _ H)|].
  destruct (Qle_bool (ten ^ (2 * k + 1)) c2) eqn:B; [apply (IH _ _ _ H)|].
  injection H as <-. split; [apply qltb_false; exact A|].
  apply Qnot_le_lt. intros Hle. apply Qle_bool_iff in Hle. congruence.
Qed.
Theorem magnitude_sound c k : magnitude c = Some k -> 0 < c /\ in_decade (c * c) k.
Proof.
  unfold magnitude. destruct (Qle_bool c 0) eqn:E; [discriminate|]. intros H. split.
  - apply Qnot_le_lt. intros Hle. apply Qle_bool_iff in Hle. congruence.
  - apply (magnitude_f_sound _ _ _ _ H).
Qed.

Lemma ten_gt1 : 1 < ten. Proof. reflexivity. Qed.
Theorem decade_unique c2 k k' : in_decade c2 k -> in_decade c2 k' -> k = k'.
Proof.
  intros [A B] [A' B'].
  assert (H1 : ten ^ (2 * k - 1) < ten ^ (2 * k' + 1)) by (apply (Qle_lt_trans _ c2); assumption).
  assert (H2 : ten ^ (2 * k' - 1) < ten ^ (2 * k + 1)) by (apply (Qle_lt_trans _ c2); assumption).
  apply Qpower_lt_compat_l_inv in H1; [|exact ten_gt1]. apply Qpower_lt_compat_l_inv in H2; [|exact ten_gt1]. lia.
Qed.
(* an exact power of ten is detected as itself *)
Theorem decade_pow10 k : in_decade (ten ^ k * ten ^ k) k.
Proof.
  assert (E : ten ^ k * ten ^ k == ten ^ (2 * k)).
  { rewrite <- Qpower_plus by discriminate. replace (k + k)%Z with (2 * k)%Z by lia. reflexivity. }
  unfold in_decade. rewrite E. split.
  - apply Qpower_le_compat_l; [lia | discriminate].
  - apply Qpower_lt_compat_l; [lia | exact ten_gt1].
Qed.
Corollary magnitude_pow10 k m : magnitude (ten ^ k) = Some m -> m = k.
Proof. intros H. apply magnitude_sound in H. destruct H as [_ H]. apply (decade_unique _ _ _ H (decade_pow10 k)). Qed.
(* any factor within sqrt(10) of 10^k is detected as k: stated on squares *)
Theorem magnitude_window c k m : magnitude c = Some m -> ten ^ (2 * k - 1) <= c * c -> c * c < ten ^ (2 * k + 1) -> m = k.
Proof. intros H A B. apply magnitude_sound in H. destruct H as [_ H]. apply (decade_unique _ _ _ H). split; assumption. Qed.

(* under a uniform scale-and-shift EVERY pairwise distance changes by the same factor |s| (on squares: s^2), so the mean ratio is |s| *)
Theorem similarity_sqdist s t a b : sqdist (scale_shift s t a) (scale_shift s t b) == (s * s) * sqdist a b.
Proof. unfold sqdist, scale_shift; cbn [x3 y3 z3]. ring. Qed.

Example magnitude_examples :
  magnitude (2 # 1) = Some 0%Z /\ magnitude (300 # 1) = Some 2%Z /\ magnitude (3 # 100) = Some (-2)%Z /\ magnitude (8 # 1) = Some 1%Z
  /\ magnitude (1 # 8) = Some (-1)%Z /\ magnitude (316 # 100) = Some 0%Z /\ magnitude (317 # 100) = Some 1%Z /\ magnitude (1 # 1000) = Some (-3)%Z.
Proof. vm_compute. repeat split. Qed.
