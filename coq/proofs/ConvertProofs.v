From Coq Require Import List ZArith QArith Qround Qabs Bool Arith Lia Lqa Field.
Import ListNotations.
From Navis Require Import model.Convert.

(* ---------------- make_dotprops bookkeeping ---------------- *)
Lemma finite_rows_le rows : (length (finite_rows rows) <= length rows)%nat.
Proof. induction rows as [|[p|] r IH]; simpl; lia. Qed.

Theorem k_clipped rows k : (k_used rows k <= length (finite_rows rows))%nat /\ (k_used rows k <= k)%nat.
Proof. unfold k_used. split; [apply Nat.le_min_l | apply Nat.le_min_r]. Qed.
Theorem k_exact_when_enough rows k : (k <= length (finite_rows rows))%nat -> k_used rows k = k.
Proof. unfold k_used. intros H. apply Nat.min_r. exact H. Qed.

(* one output row per finite input row, in order, and none for NaN rows *)
Theorem finite_rows_spec rows p : In p (finite_rows rows) <-> In (Some p) rows.
Proof.
  unfold finite_rows. rewrite in_flat_map. split.
  - intros [[q|] [Hin Hq]]; simpl in Hq; [destruct Hq as [<-|[]]; exact Hin | destruct Hq].
  - intros H. exists (Some p). split; [exact H | left; reflexivity].
Qed.
Theorem finite_rows_all_finite pts : finite_rows (map Some pts) = pts.
Proof. induction pts as [|p r IH]; simpl; [reflexivity | f_equal; exact IH]. Qed.

(* ---------------- alpha ---------------- *)
Theorem alpha_in_unit l1 l2 l3 : l3 <= l2 -> l2 <= l1 -> 0 <= l3 -> 0 < l1 + l2 + l3 -> 0 <= alpha l1 l2 l3 /\ alpha l1 l2 l3 <= 1.
Proof.
  intros H32 H21 H3 Hs. unfold alpha.
  split.
  - apply Qle_shift_div_l; [exact Hs|]. lra.
  - apply Qle_shift_div_r; [exact Hs|]. lra.
Qed.
(* collinear neighbourhood: alpha = 1; isotropic: alpha = 0 *)
Theorem alpha_collinear l1 : 0 < l1 -> alpha l1 0 0 == 1.
Proof. intros H. unfold alpha. field. lra. Qed.
Theorem alpha_isotropic l : 0 < l -> alpha l l l == 0.
Proof. intros H. unfold alpha. field. lra. Qed.

(* ---------------- principal axis: Rayleigh characterisation ---------------- *)
Lemma quad_shift mu c w : quad (shift mu c) w == mu * norm2 w - quad c w.
Proof. unfold quad, shift, norm2. cbn [sxx sxy sxz syy syz szz]. ring. Qed.

(* Sylvester's criterion (sufficiency) for symmetric 3x3 matrices, via the LDL^T identity *)
Lemma ldl_identity m w :
  minor1 m * minor2 m * quad m w ==
    minor2 m * ((sxx m * px w + sxy m * py w + sxz m * pz w) * (sxx m * px w + sxy m * py w + sxz m * pz w))
    + (minor2 m * py w + (sxx m * syz m - sxy m * sxz m) * pz w) * (minor2 m * py w + (sxx m * syz m - sxy m * sxz m) * pz w)
    + minor1 m * det3 m * (pz w * pz w).
Proof. unfold minor1, minor2, det3, quad. ring. Qed.

Lemma qpos_spec q : qpos q = true <-> 0 < q.
Proof.
  unfold qpos. rewrite negb_true_iff. split.
  - intros H. apply Qnot_le_lt. intros Hle. apply Qle_bool_iff in Hle. congruence.
  - intros H. destruct (Qle_bool q 0) eqn:E; [|reflexivity]. apply Qle_bool_iff in E. lra.
Qed.

Lemma sq_nonneg (x : Q) : 0 <= x * x.
Proof. nra. Qed.

Lemma sylvester3 m w : 0 < minor1 m -> 0 < minor2 m -> 0 < det3 m -> 0 <= quad m w.
Proof.
  intros H1 H2 H3.
  pose proof (ldl_identity m w) as E.
  set (A := sxx m * px w + sxy m * py w + sxz m * pz w) in *.
  set (B := minor2 m * py w + (sxx m * syz m - sxy m * sxz m) * pz w) in *.
  pose proof (sq_nonneg A) as HA. pose proof (sq_nonneg B) as HB. pose proof (sq_nonneg (pz w)) as HC.
  set (q := quad m w) in *. set (a := minor1 m) in *. set (d2 := minor2 m) in *. set (d3 := det3 m) in *.
  set (AA := A * A) in *. set (BB := B * B) in *. set (CC := pz w * pz w) in *.
  clearbody q a d2 d3 AA BB CC. clear A B.
  assert (Hp : 0 < a * d2) by nra.
  assert (Hr : 0 <= a * d2 * q).
  { rewrite E. assert (0 <= d2 * AA) by nra. assert (0 <= a * d3 * CC) by (assert (0 < a * d3) by nra; nra). lra. }
  destruct (Qlt_le_dec q 0) as [Hn|Hn]; [|exact Hn]. exfalso. nra.
Qed.

Theorem dominates_sound mu c : dominates_b mu c = true -> forall w, quad c w <= mu * norm2 w.
Proof.
  unfold dominates_b. rewrite !andb_true_iff, !qpos_spec. intros [[H1 H2] H3] w.
  pose proof (sylvester3 (shift mu c) w H1 H2 H3) as H. rewrite quad_shift in H. lra.
Qed.

(* the checker applied to implementation output: v's Rayleigh quotient is within tol of the maximum
   over ALL directions w, which is what "principal axis" means *)
Theorem principal_axis_sound c v tol : principal_axis_b c v tol = true ->
  0 < norm2 v /\ forall w, quad c w <= (quad c v / norm2 v + tol) * norm2 w.
Proof.
  unfold principal_axis_b. rewrite andb_true_iff, qpos_spec. intros [Hv Hd]. split; [exact Hv|].
  apply dominates_sound. exact Hd.
Qed.

(* a vector and its negation are equally principal (sign is not determined) *)
Theorem principal_axis_sign c v tol :
  principal_axis_b c (mkP (- px v) (- py v) (- pz v)) tol = principal_axis_b c v tol.
Proof.
  unfold principal_axis_b.
  assert (En : norm2 (mkP (- px v) (- py v) (- pz v)) == norm2 v) by (unfold norm2; cbn [px py pz]; ring).
  assert (Eq : quad c (mkP (- px v) (- py v) (- pz v)) == quad c v) by (unfold quad; cbn [px py pz]; ring).
  assert (Hq : forall a b, a == b -> qpos a = qpos b).
  { intros a b E. unfold qpos. f_equal. destruct (Qle_bool a 0) eqn:Ea, (Qle_bool b 0) eqn:Eb; try reflexivity.
    - apply Qle_bool_iff in Ea. rewrite E in Ea. apply Qle_bool_iff in Ea. congruence.
    - apply Qle_bool_iff in Eb. rewrite <- E in Eb. apply Qle_bool_iff in Eb. congruence. }
  rewrite (Hq _ _ En). f_equal.
  unfold dominates_b. f_equal; [f_equal|]; apply Hq.
  - unfold minor1, shift. cbn [sxx]. rewrite En, Eq. reflexivity.
  - unfold minor2, shift. cbn [sxx syy sxy]. rewrite En, Eq. reflexivity.
  - unfold det3, shift. cbn [sxx syy szz sxy sxz syz]. rewrite En, Eq. reflexivity.
Qed.

(* if three numbers match the three invariants of C they are exactly the roots of its characteristic polynomial *)
Theorem invariants_give_roots c l1 l2 l3 :
  e1 c == l1 + l2 + l3 -> e2 c == l1 * l2 + l1 * l3 + l2 * l3 -> e3 c == l1 * l2 * l3 ->
  forall x, charpoly c x == (x - l1) * (x - l2) * (x - l3).
Proof. intros H1 H2 H3 x. unfold charpoly. rewrite H1, H2, H3. ring. Qed.

(* the inertia matrix is positive semi-definite: singular values = eigenvalues >= 0 *)
Lemma qsum_nonneg l : (forall x, In x l -> 0 <= x) -> 0 <= qsum l.
Proof.
  induction l as [|a r IH]; simpl; intros H; [lra|].
  assert (0 <= a) by (apply H; left; reflexivity). assert (0 <= qsum r) by (apply IH; intros; apply H; right; assumption). lra.
Qed.
Lemma qsum_scale k l : qsum (map (fun x => k * x) l) == k * qsum l.
Proof. induction l as [|a r IH]; simpl; [ring | rewrite IH; ring]. Qed.
Lemma qsum_add {A} (f g : A -> Q) l : qsum (map (fun x => f x + g x) l) == qsum (map f l) + qsum (map g l).
Proof. induction l as [|a r IH]; simpl; [ring | rewrite IH; ring]. Qed.
Lemma qsum_ext {A} (f g : A -> Q) l : (forall x, f x == g x) -> qsum (map f l) == qsum (map g l).
Proof. intros H. induction l as [|a r IH]; simpl; [reflexivity | rewrite IH, H; reflexivity]. Qed.
Lemma qsum_scale_f {A} k (f : A -> Q) l : qsum (map (fun x => k * f x) l) == k * qsum (map f l).
Proof. induction l as [|a r IH]; simpl; [ring | rewrite IH; ring]. Qed.

Theorem inertia_quad_is_sum_of_squares pts w :
  quad (inertia pts) w ==
  qsum (map (fun p => let d := psub p (centre pts) in (px d * px w + py d * py w + pz d * pz w) * (px d * px w + py d * py w + pz d * pz w)) pts).
Proof.
  unfold quad, inertia. cbn [sxx sxy sxz syy syz szz]. rewrite !map_map.
  set (c := centre pts). clearbody c.
  induction pts as [|p r IH]; simpl; [ring|].
  simpl in IH. rewrite <- IH. ring.
Qed.
Theorem inertia_psd pts w : 0 <= quad (inertia pts) w.
Proof.
  rewrite inertia_quad_is_sum_of_squares. apply qsum_nonneg. intros x Hx. apply in_map_iff in Hx.
  destruct Hx as [p [<- _]]. cbv zeta. apply sq_nonneg.
Qed.

(* ---------------- k = 0: edge midpoints and child - parent vectors ---------------- *)
Lemma is_zero_vec_spec v : is_zero_vec v = true <-> (px v == 0 /\ py v == 0 /\ pz v == 0).
Proof. unfold is_zero_vec. rewrite !andb_true_iff, !Qeq_bool_iff. tauto. Qed.

Theorem tangents_k0_nil : tangents_k0 [] = [].
Proof. reflexivity. Qed.
Theorem tangents_k0_cons c p es :
  tangents_k0 ((c, p) :: es) =
  (if is_zero_vec (psub c p) then [] else
     [(mkP (px c + (px p - px c) / 2) (py c + (py p - py c) / 2) (pz c + (pz p - pz c) / 2), psub c p, norm2 (psub c p))])
  ++ tangents_k0 es.
Proof. reflexivity. Qed.

Theorem tangent_k0_spec edges m v l2 : In (m, v, l2) (tangents_k0 edges) ->
  exists c p, In (c, p) edges /\ v = psub c p /\ is_zero_vec v = false /\ l2 = norm2 v /\
              px m + px m == px c + px p /\ py m + py m == py c + py p /\ pz m + pz m == pz c + pz p.
Proof.
  unfold tangents_k0. rewrite in_flat_map. intros [[c p] [Hin H]].
  destruct (is_zero_vec (psub c p)) eqn:E; [destruct H|]. destruct H as [H|[]]. inversion H; subst.
  exists c, p. repeat split; try assumption; cbn [px py pz]; field.
Qed.
Theorem tangent_k0_complete edges c p : In (c, p) edges -> is_zero_vec (psub c p) = false ->
  exists m, In (m, psub c p, norm2 (psub c p)) (tangents_k0 edges).
Proof.
  intros Hin E. eexists. unfold tangents_k0. apply in_flat_map. exists (c, p). split; [exact Hin|].
  rewrite E. left. reflexivity.
Qed.
Theorem tangents_k0_count edges :
  length (tangents_k0 edges) = length (filter (fun e => negb (is_zero_vec (psub (fst e) (snd e)))) edges).
Proof.
  induction edges as [|[c p] r IH]; [reflexivity|]. rewrite tangents_k0_cons, app_length, IH. cbn [filter fst snd].
  destruct (is_zero_vec (psub c p)); reflexivity.
Qed.
(* the squared length is strictly positive, so the normalisation never divides by zero *)
Theorem tangent_k0_len_pos v : is_zero_vec v = false -> 0 < norm2 v.
Proof.
  intros E. unfold norm2.
  destruct (Qlt_le_dec 0 (px v * px v + py v * py v + pz v * pz v)) as [H|H]; [exact H|]. exfalso.
  pose proof (sq_nonneg (px v)). pose proof (sq_nonneg (py v)). pose proof (sq_nonneg (pz v)).
  assert (Hx : px v * px v == 0) by lra. assert (Hy : py v * py v == 0) by lra. assert (Hz : pz v * pz v == 0) by lra.
  assert (Z0 : forall x : Q, x * x == 0 -> x == 0).
  { intros x Hxx. destruct (Qeq_dec x 0) as [e|n]; [exact e|]. exfalso. apply n. apply Qmult_integral in Hxx. tauto. }
  assert (is_zero_vec v = true) by (apply is_zero_vec_spec; auto). congruence.
Qed.
(* a unit vector u and a length l with l*u = v and l > 0: u is v normalised and l*l = |v|^2 *)
Theorem normalised_is_unit v u l : 0 < l -> px v == l * px u -> py v == l * py u -> pz v == l * pz u ->
  norm2 u == 1 -> norm2 v == l * l.
Proof. unfold norm2. intros Hl Hx Hy Hz Hu. rewrite Hx, Hy, Hz. nra. Qed.

(* ---------------- voxelisation ---------------- *)
Lemma inj_succ f : inject_Z (f + 1) == inject_Z f + 1.
Proof. rewrite inject_Z_plus. reflexivity. Qed.

Lemma rhe_cases q : rhe q = Qfloor q \/ rhe q = (Qfloor q + 1)%Z.
Proof. unfold rhe. destruct (_ ?= _); [destruct (Z.even _)|..]; auto. Qed.

Theorem rhe_within_half q : q - (1 # 2) <= inject_Z (rhe q) /\ inject_Z (rhe q) <= q + (1 # 2).
Proof.
  pose proof (Qfloor_le q) as Hf. pose proof (Qlt_floor q) as Hc. rewrite inj_succ in Hc.
  unfold rhe. set (f := Qfloor q) in *.
  destruct (Qcompare_spec (q - inject_Z f) (1 # 2)) as [E|E|E].
  - destruct (Z.even f); [|rewrite inj_succ]; lra.
  - lra.
  - rewrite inj_succ. lra.
Qed.
Theorem rhe_between q : (Qfloor q <= rhe q <= Qceiling q)%Z.
Proof.
  split; [destruct (rhe_cases q) as [-> | ->]; lia|].
  pose proof (Qle_ceiling q) as Hc. pose proof (Qfloor_le q) as Hf. pose proof (Qlt_floor q) as Hl. rewrite inj_succ in Hl.
  unfold rhe. set (f := Qfloor q) in *.
  assert (Hfc : (f <= Qceiling q)%Z) by (rewrite Zle_Qle; lra).
  assert (Hstrict : inject_Z f < q -> (f + 1 <= Qceiling q)%Z).
  { intros Hlt. assert (inject_Z f < inject_Z (Qceiling q)) by lra. rewrite <- Zlt_Qlt in H. lia. }
  destruct (Qcompare_spec (q - inject_Z f) (1 # 2)) as [E|E|E].
  - destruct (Z.even f); [exact Hfc|]. apply Hstrict. lra.
  - exact Hfc.
  - apply Hstrict. lra.
Qed.
Theorem rhe_int z : rhe (inject_Z z) = z.
Proof.
  pose proof (rhe_between (inject_Z z)) as H. rewrite Qfloor_Z, Qceiling_Z in H. lia.
Qed.
Theorem rhe_mono q q' : q <= q' -> (rhe q <= rhe q')%Z.
Proof.
  intros Hle. pose proof (Qfloor_resp_le _ _ Hle) as Hfl.
  destruct (Z.eq_dec (Qfloor q) (Qfloor q')) as [E|N].
  - unfold rhe. rewrite <- E. set (f := Qfloor q) in *.
    destruct (Qcompare_spec (q - inject_Z f) (1 # 2)) as [A|A|A], (Qcompare_spec (q' - inject_Z f) (1 # 2)) as [B|B|B];
      try destruct (Z.even f); try lia; exfalso; lra.
  - pose proof (rhe_between q') as [Hb _]. destruct (rhe_cases q) as [-> | ->]; lia.
Qed.

Theorem voxel_within_half_pitch pitch p : 0 < pitch ->
  Qabs (p - pitch * inject_Z (vindex pitch p)) <= pitch / 2.
Proof.
  intros Hp. unfold vindex. pose proof (rhe_within_half (p / pitch)) as [Hl Hu].
  set (i := inject_Z (rhe (p / pitch))) in *. clearbody i.
  assert (E : p == pitch * (p / pitch)) by (field; lra).
  set (t := p / pitch) in *. clearbody t.
  apply Qabs_Qle_condition. split.
  - assert (pitch * i <= pitch * (t + (1 # 2))) by nra. rewrite E. assert (pitch / 2 == pitch * (1 # 2)) by field. lra.
  - assert (pitch * (t - (1 # 2)) <= pitch * i) by nra. rewrite E. assert (pitch / 2 == pitch * (1 # 2)) by field. lra.
Qed.

(* in the grid's own coordinates (offset = lower bound, not rounded): within ONE pitch *)
Theorem point_within_pitch pitch l p : 0 < pitch ->
  Qabs (p - vcoord1 pitch l (vindex pitch p - rhe (l / pitch))) <= pitch.
Proof.
  intros Hp. unfold vcoord1.
  pose proof (voxel_within_half_pitch pitch p Hp) as H1. pose proof (voxel_within_half_pitch pitch l Hp) as H2.
  unfold vindex in *. apply Qabs_Qle_condition in H1. apply Qabs_Qle_condition in H2. apply Qabs_Qle_condition.
  unfold Zminus. rewrite inject_Z_plus, inject_Z_opp.
  set (a := inject_Z (rhe (p / pitch))) in *. set (b := inject_Z (rhe (l / pitch))) in *. clearbody a b.
  assert (E : pitch / 2 + pitch / 2 == pitch) by field.
  split; nra.
Qed.

Lemma shape1_bound pitch l h p : 0 < pitch -> l <= p -> p <= h ->
  (0 <= vindex pitch p - rhe (l / pitch) < shape1 pitch l h)%Z.
Proof.
  intros Hp Hl Hh. unfold vindex, shape1.
  assert (Hdiv : forall a b, a <= b -> a / pitch <= b / pitch).
  { intros a b Hab. apply Qle_shift_div_l; [exact Hp|]. assert (a / pitch * pitch == a) by (field; lra). lra. }
  pose proof (rhe_mono _ _ (Hdiv _ _ Hl)) as Hm.
  pose proof (rhe_between (p / pitch)) as [_ Hc]. pose proof (rhe_between (l / pitch)) as [Hf _].
  pose proof (Qceiling_resp_le _ _ (Hdiv _ _ Hh)) as Hcc. lia.
Qed.

Theorem default_bounds_inside g p :
  0 < px (pitch3 g) -> 0 < py (pitch3 g) -> 0 < pz (pitch3 g) ->
  px (lo g) <= px p <= px (hi g) -> py (lo g) <= py p <= py (hi g) -> pz (lo g) <= pz p <= pz (hi g) ->
  in_grid g (vox g p) = true.
Proof.
  intros Hx Hy Hz [Lx Ux] [Ly Uy] [Lz Uz]. unfold in_grid, vox, gshape. cbn [vx vy vz].
  pose proof (shape1_bound _ _ _ _ Hx Lx Ux). pose proof (shape1_bound _ _ _ _ Hy Ly Uy). pose proof (shape1_bound _ _ _ _ Hz Lz Uz).
  rewrite !andb_true_iff, !Z.leb_le, !Z.ltb_lt. lia.
Qed.

(* every voxel of the grid lies between the requested lower bound and the upper bound plus the rounding slack *)
Theorem grid_voxel_in_bounds pitch l h i : 0 < pitch -> (0 <= i < shape1 pitch l h)%Z ->
  l <= vcoord1 pitch l i /\ vcoord1 pitch l i <= h + 2 * pitch.
Proof.
  intros Hp [H0 H1]. unfold vcoord1, shape1 in *.
  assert (Hi0 : 0 <= inject_Z i) by (change 0 with (inject_Z 0); rewrite <- Zle_Qle; exact H0).
  assert (Hi1 : inject_Z i <= inject_Z (Qceiling (h / pitch)) - inject_Z (Qfloor (l / pitch))).
  { unfold Qminus. rewrite <- inject_Z_opp, <- inject_Z_plus, <- Zle_Qle. lia. }
  pose proof (Qceiling_lt (h / pitch)) as Hc. unfold Zminus in Hc. rewrite inject_Z_plus in Hc. change (inject_Z (- (1))) with (-1) in Hc.
  pose proof (Qlt_floor (l / pitch)) as Hf. rewrite inj_succ in Hf.
  assert (Eh : h == pitch * (h / pitch)) by (field; lra). assert (El : l == pitch * (l / pitch)) by (field; lra).
  set (th := h / pitch) in *. set (tl := l / pitch) in *. set (c := inject_Z (Qceiling th)) in *. set (f := inject_Z (Qfloor tl)) in *.
  clearbody th tl c f. set (ii := inject_Z i) in *. clearbody ii.
  split; [nra|].
  assert (A1 : ii * pitch <= (c - f) * pitch) by nra.
  assert (A0 : c - f <= th - tl + 2) by lra.
  assert (A2 : (c - f) * pitch <= (th - tl + 2) * pitch) by (apply Qmult_le_compat_r; lra).
  assert (A3 : (th - tl + 2) * pitch == pitch * th - pitch * tl + 2 * pitch) by ring.
  lra.
Qed.

(* ---- counts ---- *)
Lemma V3_eqb_eq a b : V3_eqb a b = true <-> a = b.
Proof.
  destruct a as [a1 a2 a3], b as [b1 b2 b3]. unfold V3_eqb. cbn [vx vy vz]. rewrite !andb_true_iff, !Z.eqb_eq. split.
  - intros [[-> ->] ->]. reflexivity.
  - intros H. inversion H. auto.
Qed.
Lemma V3_eqb_refl a : V3_eqb a a = true. Proof. apply V3_eqb_eq. reflexivity. Qed.
Lemma V3_eqb_neq a b : V3_eqb a b = false <-> a <> b.
Proof. rewrite <- V3_eqb_eq. destruct (V3_eqb a b); split; congruence. Qed.

Definition sumc (U l : list V3) : nat := fold_right (fun v a => count_v v l + a)%nat O U.
Definition memb (x : V3) (U : list V3) : bool := existsb (V3_eqb x) U.

Lemma memb_In x U : memb x U = true <-> In x U.
Proof. unfold memb. rewrite existsb_exists. split; [intros [y [Hy E]]; apply V3_eqb_eq in E; subst; exact Hy | intros H; exists x; split; [exact H | apply V3_eqb_refl]]. Qed.

Lemma sumc_nil U : sumc U [] = O.
Proof. induction U as [|u r IH]; simpl; [reflexivity | exact IH]. Qed.
Lemma sumc_cons U x l : sumc U (x :: l) = (count_v x U + sumc U l)%nat.
Proof.
  induction U as [|u r IH]; simpl; [reflexivity|]. rewrite IH.
  assert (V3_eqb u x = V3_eqb x u).
  { destruct (V3_eqb u x) eqn:A, (V3_eqb x u) eqn:B; try reflexivity.
    - apply V3_eqb_eq in A. subst. rewrite V3_eqb_refl in B. discriminate.
    - apply V3_eqb_eq in B. subst. rewrite V3_eqb_refl in A. discriminate. }
  rewrite H. lia.
Qed.
Lemma count_nodup x U : NoDup U -> count_v x U = if memb x U then 1%nat else O.
Proof.
  induction 1 as [|u r Hn Hd IH]; [reflexivity|]. cbn [count_v memb existsb]. fold (memb x r). rewrite IH.
  destruct (V3_eqb x u) eqn:E; [|reflexivity]. apply V3_eqb_eq in E. subst.
  destruct (memb u r) eqn:M; [apply memb_In in M; contradiction | reflexivity].
Qed.
Lemma sumc_nodup U l : NoDup U -> sumc U l = length (filter (fun x => memb x U) l).
Proof.
  intros Hd. induction l as [|x r IH]; [apply sumc_nil|]. rewrite sumc_cons, IH, (count_nodup _ _ Hd). cbn [filter].
  destruct (memb x U); reflexivity.
Qed.

Lemma uniq_In l x : In x (uniq l) <-> In x l.
Proof.
  induction l as [|a r IH]; [reflexivity|]. cbn [uniq]. split.
  - intros [->|H]; [left; reflexivity|]. apply filter_In in H. right. apply IH. tauto.
  - intros [->|H]; [left; reflexivity|]. destruct (V3_eqb a x) eqn:E; [apply V3_eqb_eq in E; left; exact E|].
    right. apply filter_In. split; [apply IH; exact H | rewrite E; reflexivity].
Qed.
Lemma NoDup_filter {A} (f : A -> bool) l : NoDup l -> NoDup (filter f l).
Proof.
  induction 1 as [|a r Hn Hd IH]; simpl; [constructor|]. destruct (f a); [constructor; [|exact IH] | exact IH].
  intros H. apply filter_In in H. tauto.
Qed.
Lemma uniq_NoDup l : NoDup (uniq l).
Proof.
  induction l as [|a r IH]; cbn [uniq]; [constructor|]. constructor; [|apply NoDup_filter; exact IH].
  intros H. apply filter_In in H. destruct H as [_ H]. rewrite V3_eqb_refl in H. discriminate.
Qed.

Lemma total_sumc ix U : total (map (fun v => (v, count_v v ix)) U) = sumc U ix.
Proof. induction U as [|u r IH]; simpl; [reflexivity | rewrite IH; reflexivity]. Qed.

(* with counts=True the grid's values add up to the number of points that fall inside the bounds *)
Lemma filter_map_length {A B} (f : A -> B) (P : B -> bool) l :
  length (filter P (map f l)) = length (filter (fun a => P (f a)) l).
Proof. induction l as [|a r IH]; [reflexivity|]. cbn [map filter]. destruct (P (f a)); cbn [length]; rewrite IH; reflexivity. Qed.

Theorem counts_conserved_general g pts :
  total (voxel_counts g pts) = length (filter (fun p => in_grid g (vox g p)) pts).
Proof.
  unfold voxel_counts. rewrite total_sumc.
  rewrite sumc_nodup by (apply NoDup_filter, uniq_NoDup).
  rewrite <- filter_map_length. f_equal. apply filter_ext_in. intros x Hx.
  destruct (in_grid g x) eqn:E.
  - apply memb_In, filter_In. split; [apply uniq_In; exact Hx | exact E].
  - destruct (memb x _) eqn:M; [|reflexivity]. apply memb_In, filter_In in M. destruct M; congruence.
Qed.
(* ... and to ALL points when none falls outside (always the case with the default bounds, by default_bounds_inside) *)
Theorem counts_conserved g pts : (forall p, In p pts -> in_grid g (vox g p) = true) ->
  total (voxel_counts g pts) = length pts.
Proof.
  intros H. rewrite counts_conserved_general. f_equal.
  induction pts as [|p r IH]; [reflexivity|]. cbn [filter]. rewrite (H p (or_introl eq_refl)). f_equal. apply IH.
  intros q Hq. apply H. right. exact Hq.
Qed.
(* the filled voxels are exactly the in-bounds voxel indices of the points, each listed once *)
Theorem filled_spec g pts v n : In (v, n) (voxel_counts g pts) <->
  (In v (map (vox g) pts) /\ in_grid g v = true /\ n = count_v v (map (vox g) pts)).
Proof.
  unfold voxel_counts. rewrite in_map_iff. split.
  - intros [u [E H]]. inversion E; subst. apply filter_In in H. destruct H as [H1 H2]. apply (proj1 (uniq_In _ _)) in H1. split; [exact H1 | split; [exact H2 | reflexivity]].
  - intros [H1 [H2 ->]]. exists v. split; [reflexivity|]. apply filter_In. split; [apply uniq_In; exact H1 | exact H2].
Qed.
Theorem filled_nodup g pts : NoDup (map fst (voxel_counts g pts)).
Proof.
  unfold voxel_counts. rewrite map_map. cbn [fst]. rewrite map_id. apply NoDup_filter, uniq_NoDup.
Qed.
Theorem count_positive v l : In v l -> (1 <= count_v v l)%nat.
Proof.
  induction l as [|a r IH]; [intros []|]. intros [->|H]; cbn [count_v]; [rewrite V3_eqb_refl; lia|]. specialize (IH H). lia.
Qed.
