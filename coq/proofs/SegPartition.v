(* C05: the MODEL's small segments (break_segments) partition the edge set of every well-formed forest:
   every non-root node is the child end of exactly one segment.  (Non-vacuity of the partition checker, and the
   "for all inputs" statement for the decomposition itself.) *)
From Coq Require Import List ZArith QArith Bool Lia Arith.
Import ListNotations.
From Navis Require Import model.Forest model.Dist model.Segments proofs.ForestWF proofs.RerootProofs proofs.DistProofs proofs.SegmentsProofs.
Open Scope Z_scope.

(* the ancestors of x (x included) before the first branch point / root *)
Fixpoint ns (t : table) (l : list Z) : list Z :=
  match l with [] => [] | x :: l' => if is_stop t x then [] else x :: ns t l' end.
Definition upns (t : table) (x : Z) : list Z := ns t (anc t x).

Lemma removelast_walk t l : (exists x, In x l /\ is_stop t x = true) -> removelast (walk_to_stop t l) = ns t l.
Proof.
  induction l as [|x l IH]; intros [y [Hy Hs]]; [contradiction|]. cbn [walk_to_stop ns].
  destruct (is_stop t x) eqn:E; [reflexivity|]. destruct Hy as [->|Hy]; [congruence|].
  assert (Hex : exists x, In x l /\ is_stop t x = true) by (exists y; auto). specialize (IH Hex).
  destruct (walk_to_stop t l) as [|w ws] eqn:W.
  - destruct l as [|z l]; [contradiction|]. cbn [walk_to_stop] in W. destruct (is_stop t z); discriminate.
  - cbn [removelast]. rewrite <- IH. reflexivity.
Qed.

Lemma label_of_row t r : NoDup (ids t) -> In r t -> label_of t (rid r) = label t r.
Proof. intros Hnd Hr. unfold label_of. rewrite (lookup_NoDup t r Hnd Hr). reflexivity. Qed.

Lemma root_is_stop t r : NoDup (ids t) -> In r t -> rpar r < 0 -> is_stop t (rid r) = true.
Proof.
  intros Hnd Hr Hn. unfold is_stop. rewrite (label_of_row t r Hnd Hr).
  assert (label t r = 0) by (apply (label_spec t r); exact Hn). rewrite H. reflexivity.
Qed.

Lemma Path_has_stop t x l : NoDup (ids t) -> Path t x l -> exists y, In y l /\ is_stop t y = true.
Proof.
  intros Hnd H. induction H as [r Hr Hneg | r l Hr Hpos Hp IH].
  - exists (rid r). split; [left; reflexivity | apply root_is_stop; assumption].
  - destruct IH as [y [Hy Hs]]. exists y. split; [right; exact Hy | exact Hs].
Qed.

Lemma upns_row t r : WF t -> In r t ->
  upns t (rid r) = if is_stop t (rid r) then [] else rid r :: (if rpar r <? 0 then [] else upns t (rpar r)).
Proof.
  intros Hwf Hr. unfold upns. destruct (Z.ltb_spec (rpar r) 0) as [Hn|Hp].
  - rewrite (root_is_stop t r (wf_nodup t Hwf) Hr Hn).
    assert (P : Path t (rid r) [rid r]) by (apply Path_root; assumption). rewrite (anc_Path t _ _ Hwf P). cbn [ns].
    rewrite (root_is_stop t r (wf_nodup t Hwf) Hr Hn). reflexivity.
  - rewrite (anc_step t r Hwf Hr Hp). reflexivity.
Qed.

(* child ends of a small segment *)
Definition ce (t : table) (s : row) : list Z := rid s :: upns t (rpar s).

Lemma seed_nonroot t s : is_seed t s = true -> 0 <= rpar s.
Proof. unfold is_seed, label, is_root. destruct (Z.ltb_spec (rpar s) 0); [discriminate | lia]. Qed.

Lemma child_end_of_segment t s : WF t -> In s t -> is_seed t s = true -> removelast (small_segment t s) = ce t s.
Proof.
  intros Hwf Hs Hseed. pose proof (seed_nonroot t s Hseed) as Hp. unfold small_segment, ce, upns.
  assert (Hin : In (rpar s) (ids t)) by (apply (wf_closed t Hwf); assumption).
  pose proof (anc_is_Path t (rpar s) Hwf Hin) as P.
  pose proof (removelast_walk t (anc t (rpar s)) (Path_has_stop t _ _ (wf_nodup t Hwf) P)) as E.
  destruct (walk_to_stop t (anc t (rpar s))) as [|w ws] eqn:W.
  - destruct (Path_head _ _ _ P) as [l' El]. rewrite El in W. cbn [walk_to_stop] in W. destruct (is_stop t (rpar s)); discriminate.
  - cbn [removelast]. rewrite <- E. reflexivity.
Qed.

Lemma child_ends_break t : WF t -> child_ends (break_segments t) = flat_map (ce t) (filter (is_seed t) t).
Proof.
  intros Hwf. unfold child_ends, break_segments. rewrite flat_map_concat_map, map_map, <- flat_map_concat_map.
  assert (H : forall l, incl l t -> flat_map (fun s => removelast (small_segment t s)) (filter (is_seed t) l) = flat_map (ce t) (filter (is_seed t) l)).
  { induction l as [|s l IH]; intros Hincl; [reflexivity|]. cbn [filter]. destruct (is_seed t s) eqn:E.
    - cbn [flat_map]. rewrite (child_end_of_segment t s Hwf (Hincl s (or_introl eq_refl)) E), IH; [reflexivity|]. intros x Hx. apply Hincl. right. exact Hx.
    - apply IH. intros x Hx. apply Hincl. right. exact Hx. }
  apply H. apply incl_refl.
Qed.

(* ---- facts about upns along a path ---- *)
Lemma upns_in_path t x l : WF t -> Path t x l -> forall i, In i (upns t x) -> In i l /\ is_stop t i = false.
Proof.
  intros Hwf P. unfold upns. rewrite (anc_Path t x l Hwf P). clear P. induction l as [|y l IH]; intros i Hi; [contradiction|].
  cbn [ns] in Hi. destruct (is_stop t y) eqn:E; [contradiction|]. destruct Hi as [<-|Hi]; [split; [left; reflexivity | exact E]|].
  destruct (IH i Hi). split; [right; assumption | assumption].
Qed.

(* moving one step up inside the same run of non-stop nodes *)
Lemma upns_up t x l : WF t -> Path t x l -> forall c, In c t -> 0 <= rpar c -> In (rid c) (upns t x) -> is_stop t (rpar c) = false ->
  In (rpar c) (upns t x).
Proof.
  intros Hwf P. induction P as [r Hr Hneg | r l Hr Hpos Hp IH]; intros c Hc Hpc Hin Hns.
  - rewrite (upns_row t r Hwf Hr), (root_is_stop t r (wf_nodup t Hwf) Hr Hneg) in Hin. contradiction.
  - rewrite (upns_row t r Hwf Hr) in Hin |- *. destruct (is_stop t (rid r)) eqn:E; [contradiction|].
    destruct (Z.ltb_spec (rpar r) 0); [lia|]. destruct Hin as [Eq|Hin].
    + assert (c = r) by (apply (row_eq_by_id t); [exact (wf_nodup t Hwf) | exact Hc | exact Hr | symmetry; exact Eq]). subst c.
      right. assert (Hq : In (rpar r) (ids t)) by (apply (wf_closed t Hwf); assumption).
      destruct (In_ids_row _ _ Hq) as [q [Hq1 Hq2]]. rewrite <- Hq2, (upns_row t q Hwf Hq1), Hq2, Hns. left. reflexivity.
    + right. apply IH; assumption.
Qed.

(* every element of the run is x itself or has a child inside the run *)
Lemma upns_pred t x l : WF t -> Path t x l -> forall i, In i (upns t x) -> i = x \/ exists c, In c t /\ rpar c = i /\ In (rid c) (upns t x).
Proof.
  intros Hwf P. induction P as [r Hr Hneg | r l Hr Hpos Hp IH]; intros i Hin.
  - rewrite (upns_row t r Hwf Hr), (root_is_stop t r (wf_nodup t Hwf) Hr Hneg) in Hin. contradiction.
  - rewrite (upns_row t r Hwf Hr) in Hin |- *. destruct (is_stop t (rid r)) eqn:E; [contradiction|].
    destruct (Z.ltb_spec (rpar r) 0); [lia|]. destruct Hin as [Eq|Hin]; [left; symmetry; exact Eq|].
    right. destruct (IH i Hin) as [Ei|[c [Hc [Ec Hcin]]]].
    + exists r. split; [exact Hr|]. split; [symmetry; exact Ei | left; reflexivity].
    + exists c. split; [exact Hc|]. split; [exact Ec | right; exact Hcin].
Qed.

(* ---- ranks are bounded ---- *)
Lemma rank_bound t (rk : Z -> nat) : exists M, forall r, In r t -> (rk (rid r) <= M)%nat.
Proof.
  exists (list_max (map (fun r => rk (rid r)) t)). intros r Hr.
  assert (H : Forall (fun k => (k <= list_max (map (fun r => rk (rid r)) t))%nat) (map (fun r => rk (rid r)) t)) by (apply list_max_le; lia).
  rewrite Forall_forall in H. apply H. apply in_map_iff. exists r. auto.
Qed.

Lemma has_child t i : (1 <= nchildren t i)%nat -> exists c, In c t /\ rpar c = i.
Proof.
  rewrite nchildren_spec. intros H. destruct (filter (fun r => rpar r =? i) t) as [|c l] eqn:E; [cbn in H; lia|].
  assert (Hc : In c (filter (fun r => rpar r =? i) t)) by (rewrite E; left; reflexivity). apply filter_In in Hc. destruct Hc as [Hc Hp].
  exists c. split; [exact Hc | apply Z.eqb_eq; exact Hp].
Qed.
Lemma child_counts t c : In c t -> (1 <= nchildren t (rpar c))%nat.
Proof.
  intros Hc. rewrite nchildren_spec. assert (H : In c (filter (fun r => rpar r =? rpar c) t)) by (apply filter_In; split; [exact Hc | apply Z.eqb_refl]).
  destruct (filter (fun r => rpar r =? rpar c) t); [contradiction | cbn; lia].
Qed.
(* a node with exactly one child: any two rows naming it as parent are the same row *)
Lemma only_child t i c1 c2 : NoDup (ids t) -> nchildren t i = 1%nat -> In c1 t -> In c2 t -> rpar c1 = i -> rpar c2 = i -> c1 = c2.
Proof.
  intros Hnd H1 Hc1 Hc2 E1 E2. rewrite nchildren_spec in H1.
  assert (Hn : NoDup t) by (apply (NoDup_map_inv rid); exact Hnd).
  assert (Hf : NoDup (filter (fun r => rpar r =? i) t)) by (apply NoDup_filter; exact Hn).
  assert (I1 : In c1 (filter (fun r => rpar r =? i) t)) by (apply filter_In; split; [exact Hc1 | apply Z.eqb_eq; exact E1]).
  assert (I2 : In c2 (filter (fun r => rpar r =? i) t)) by (apply filter_In; split; [exact Hc2 | apply Z.eqb_eq; exact E2]).
  destruct (filter (fun r => rpar r =? i) t) as [|a [|b l]]; cbn in H1; try lia.
  destruct I1 as [<-|[]], I2 as [<-|[]]. reflexivity.
Qed.

Lemma nonstop_label t r : NoDup (ids t) -> In r t -> is_stop t (rid r) = false -> label t r = 1 \/ label t r = 3.
Proof.
  intros Hnd Hr Hs. unfold is_stop in Hs. rewrite (label_of_row t r Hnd Hr) in Hs. apply orb_false_iff in Hs. destruct Hs as [H2 H0].
  apply Z.eqb_neq in H2, H0. unfold label in *. destruct (is_root r); [congruence|]. destruct (nchildren t (rid r)) as [|[|n]]; auto; congruence.
Qed.

(* ---- existence: every non-root node is a child end of some segment ---- *)
Lemma ce_exists t : WF t -> forall r, In r t -> 0 <= rpar r -> exists s, In s t /\ is_seed t s = true /\ In (rid r) (ce t s).
Proof.
  intros Hwf. destruct (wf_acyc t Hwf) as [rk Hrk]. destruct (rank_bound t rk) as [M HM].
  assert (H : forall n r, In r t -> 0 <= rpar r -> (M - rk (rid r) <= n)%nat -> exists s, In s t /\ is_seed t s = true /\ In (rid r) (ce t s)).
  { induction n as [|n IH]; intros r Hr Hp Hn.
    - (* maximal rank: no children, hence an end node *)
      destruct (Nat.eq_dec (nchildren t (rid r)) 0) as [E0|E0].
      + exists r. split; [exact Hr|]. split; [|left; reflexivity]. unfold is_seed.
        assert (label t r = 1) by (apply (label_spec t r); auto). rewrite H. reflexivity.
      + destruct (has_child t (rid r)) as [c [Hc Ec]]; [lia|]. assert (Hpc : 0 <= rpar c) by (rewrite Ec; apply (wf_nonneg t Hwf); exact Hr).
        pose proof (Hrk c Hc Hpc) as Hlt. rewrite Ec in Hlt. pose proof (HM c Hc). pose proof (HM r Hr). lia.
    - destruct (nchildren t (rid r)) as [|[|k]] eqn:En.
      + exists r. split; [exact Hr|]. split; [|left; reflexivity]. unfold is_seed.
        assert (label t r = 1) by (apply (label_spec t r); auto). rewrite H. reflexivity.
      + (* slab: go down to the only child *)
        destruct (has_child t (rid r)) as [c [Hc Ec]]; [lia|]. assert (Hpc : 0 <= rpar c) by (rewrite Ec; apply (wf_nonneg t Hwf); exact Hr).
        pose proof (Hrk c Hc Hpc) as Hlt. rewrite Ec in Hlt.
        destruct (IH c Hc Hpc ltac:(lia)) as [s [Hs [Hseed Hin]]]. exists s. split; [exact Hs|]. split; [exact Hseed|].
        assert (Hns : is_stop t (rid r) = false).
        { unfold is_stop. rewrite (label_of_row t r (wf_nodup t Hwf) Hr). assert (label t r = 3) by (apply (label_spec t r); auto). rewrite H. reflexivity. }
        pose proof (seed_nonroot t s Hseed) as Hps.
        assert (Hq : In (rpar s) (ids t)) by (apply (wf_closed t Hwf); assumption).
        pose proof (anc_is_Path t (rpar s) Hwf Hq) as P.
        unfold ce in *. destruct Hin as [Eq|Hin].
        * (* the child is the seed itself: r is its parent, the first element of the run *)
          assert (c = s) by (apply (row_eq_by_id t); [exact (wf_nodup t Hwf) | exact Hc | exact Hs | symmetry; exact Eq]). subst c.
          right. rewrite Ec. rewrite (upns_row t r Hwf Hr), Hns. left. reflexivity.
        * right. rewrite <- Ec. apply (upns_up t (rpar s) _ Hwf P c Hc Hpc Hin). rewrite Ec. exact Hns.
      + exists r. split; [exact Hr|]. split; [|left; reflexivity]. unfold is_seed.
        assert (label t r = 2) by (apply (label_spec t r); split; [exact Hp | lia]). rewrite H. reflexivity. }
  intros r Hr Hp. apply (H (M - rk (rid r))%nat r Hr Hp). lia.
Qed.

(* ---- uniqueness ---- *)
Lemma ce_unique t : WF t -> forall i s1 s2, In s1 t -> In s2 t -> is_seed t s1 = true -> is_seed t s2 = true ->
  In i (ce t s1) -> In i (ce t s2) -> s1 = s2.
Proof.
  intros Hwf. pose proof (wf_nodup t Hwf) as Hnd. destruct (wf_acyc t Hwf) as [rk Hrk]. destruct (rank_bound t rk) as [M HM].
  (* a seed is never inside the run of another segment *)
  assert (Hseed_not_inside : forall s s', In s t -> In s' t -> is_seed t s = true -> is_seed t s' = true -> In (rid s) (upns t (rpar s')) -> False).
  { intros s s' Hs Hs' Hseed Hseed' Hin. pose proof (seed_nonroot t s' Hseed') as Hp'.
    assert (Hq : In (rpar s') (ids t)) by (apply (wf_closed t Hwf); assumption). pose proof (anc_is_Path t (rpar s') Hwf Hq) as P.
    destruct (upns_in_path t _ _ Hwf P _ Hin) as [_ Hns].
    destruct (nonstop_label t s Hnd Hs Hns) as [L|L].
    - (* an end node has no child, but something below it is in the run or is s' *)
      assert (E0 : nchildren t (rid s) = 0%nat) by (apply (label_spec t s); exact L).
      destruct (upns_pred t _ _ Hwf P _ Hin) as [E|[c [Hc [Ec _]]]].
      + pose proof (child_counts t s' Hs'). rewrite <- E in H. lia.
      + pose proof (child_counts t c Hc). rewrite Ec in H. lia.
    - unfold is_seed in Hseed. rewrite L in Hseed. discriminate. }
  assert (H : forall n i s1 s2 ri, In ri t -> rid ri = i -> (M - rk i <= n)%nat -> In s1 t -> In s2 t -> is_seed t s1 = true -> is_seed t s2 = true ->
              In i (ce t s1) -> In i (ce t s2) -> s1 = s2).
  { induction n as [|n IH]; intros i s1 s2 ri Hri Ei Hn Hs1 Hs2 Hd1 Hd2 H1 H2; unfold ce in H1, H2;
      destruct H1 as [E1|H1], H2 as [E2|H2].
    1, 5: apply (row_eq_by_id t); [exact Hnd | exact Hs1 | exact Hs2 | congruence].
    1, 4: exfalso; rewrite <- E1 in H2; exact (Hseed_not_inside s1 s2 Hs1 Hs2 Hd1 Hd2 H2).
    1, 3: exfalso; rewrite <- E2 in H1; exact (Hseed_not_inside s2 s1 Hs2 Hs1 Hd2 Hd1 H1).
    all: pose proof (seed_nonroot t s1 Hd1) as Hp1; pose proof (seed_nonroot t s2 Hd2) as Hp2;
      assert (Hq1 : In (rpar s1) (ids t)) by (apply (wf_closed t Hwf); assumption);
      assert (Hq2 : In (rpar s2) (ids t)) by (apply (wf_closed t Hwf); assumption);
      pose proof (anc_is_Path t (rpar s1) Hwf Hq1) as P1; pose proof (anc_is_Path t (rpar s2) Hwf Hq2) as P2;
      destruct (upns_in_path t _ _ Hwf P1 _ H1) as [_ Hns]; subst i;
      (* i is a non-stop node with a child: a slab, with exactly one child *)
      assert (Hc1 : exists c, In c t /\ rpar c = rid ri /\ In (rid c) (ce t s1))
        by (destruct (upns_pred t _ _ Hwf P1 _ H1) as [E|[c [Hc [Ec Hcin]]]]; [exists s1; split; [exact Hs1|]; split; [symmetry; exact E | left; reflexivity] | exists c; split; [exact Hc|]; split; [exact Ec | right; exact Hcin]]);
      assert (Hc2 : exists c, In c t /\ rpar c = rid ri /\ In (rid c) (ce t s2))
        by (destruct (upns_pred t _ _ Hwf P2 _ H2) as [E|[c [Hc [Ec Hcin]]]]; [exists s2; split; [exact Hs2|]; split; [symmetry; exact E | left; reflexivity] | exists c; split; [exact Hc|]; split; [exact Ec | right; exact Hcin]]);
      destruct Hc1 as [c1 [Hc1 [Ec1 Hin1]]]; destruct Hc2 as [c2 [Hc2 [Ec2 Hin2]]];
      assert (L3 : nchildren t (rid ri) = 1%nat)
        by (destruct (nonstop_label t ri Hnd Hri Hns) as [L|L]; [assert (nchildren t (rid ri) = 0%nat) by (apply (label_spec t ri); exact L); pose proof (child_counts t c1 Hc1) as Hcc; rewrite Ec1 in Hcc; lia | apply (label_spec t ri); exact L]);
      assert (c1 = c2) by (apply (only_child t (rid ri)); assumption); subst c2;
      assert (Hpc : 0 <= rpar c1) by (rewrite Ec1; apply (wf_nonneg t Hwf); exact Hri);
      pose proof (Hrk c1 Hc1 Hpc) as Hlt; rewrite Ec1 in Hlt; pose proof (HM c1 Hc1) as Hb.
    - exfalso. lia.
    - apply (IH (rid c1) s1 s2 c1 Hc1 eq_refl); try assumption. lia. }
  intros i s1 s2 Hs1 Hs2 Hd1 Hd2 H1 H2.
  assert (Hi : In i (ids t)).
  { unfold ce in H1. destruct H1 as [<-|H1]; [unfold ids; apply in_map; exact Hs1|].
    pose proof (seed_nonroot t s1 Hd1) as Hp1. assert (Hq1 : In (rpar s1) (ids t)) by (apply (wf_closed t Hwf); assumption).
    destruct (upns_in_path t _ _ Hwf (anc_is_Path t (rpar s1) Hwf Hq1) _ H1) as [Hin _].
    exact (Path_incl t _ _ (anc_is_Path t (rpar s1) Hwf Hq1) i Hin). }
  destruct (In_ids_row _ _ Hi) as [ri [Hri Ei]].
  apply (H (M - rk i)%nat i s1 s2 ri Hri Ei (le_n _) Hs1 Hs2 Hd1 Hd2 H1 H2).
Qed.

Lemma ce_nodup t s : WF t -> In s t -> is_seed t s = true -> NoDup (ce t s).
Proof.
  intros Hwf Hs Hseed. pose proof (seed_nonroot t s Hseed) as Hp.
  assert (P : Path t (rid s) (rid s :: anc t (rpar s))).
  { rewrite <- (anc_step t s Hwf Hs Hp). apply anc_is_Path; [exact Hwf|]. unfold ids. apply in_map. exact Hs. }
  pose proof (Path_NoDup t _ _ Hwf P) as Hn. unfold ce, upns. inversion Hn as [|? ? Hnin Hrest]; subst.
  assert (Hsub : forall l, incl (ns t l) l /\ (NoDup l -> NoDup (ns t l))).
  { induction l as [|y l [IH1 IH2]]; [split; [intros x [] | intros; constructor]|]. cbn [ns]. destruct (is_stop t y).
    - split; [intros x [] | intros; constructor].
    - split; [intros x [<-|Hx]; [left; reflexivity | right; apply IH1; exact Hx]|].
      intros Hd. inversion Hd; subst. constructor; [intros Hx; apply IH1 in Hx; contradiction | apply IH2; assumption]. }
  destruct (Hsub (anc t (rpar s))) as [S1 S2]. constructor; [intros Hx; apply S1 in Hx; contradiction | apply S2; exact Hrest].
Qed.

Lemma NoDup_flat_map_disjoint {A} (f : A -> list Z) (l : list A) :
  NoDup l -> (forall a, In a l -> NoDup (f a)) -> (forall a b i, In a l -> In b l -> In i (f a) -> In i (f b) -> a = b) ->
  NoDup (flat_map f l).
Proof.
  induction l as [|a l IH]; intros Hn Hf Hd; [constructor|]. cbn [flat_map]. inversion Hn as [|? ? Hnin Hnl]; subst.
  assert (Hrest : NoDup (flat_map f l)).
  { apply IH; [exact Hnl | intros b Hb; apply Hf; right; exact Hb | intros b c i Hb Hc; apply Hd; right; assumption]. }
  assert (Ha : NoDup (f a)) by (apply Hf; left; reflexivity).
  revert Ha. generalize (f a) (fun i Hi => fun b Hb Hib => Hd a b i (or_introl eq_refl) (or_intror Hb) Hi Hib). intros fa Hdis.
  induction fa as [|x fa IHfa]; intros Hna; [exact Hrest|]. cbn [app]. inversion Hna; subst. constructor.
  - intros Hin. apply in_app_or in Hin. destruct Hin as [Hin|Hin]; [contradiction|]. apply in_flat_map in Hin. destruct Hin as [b [Hb Hxb]].
    assert (a = b) by (apply (Hdis x (or_introl eq_refl) b Hb Hxb)). subst b. contradiction.
  - apply IHfa; [intros i Hi b Hb Hib; apply (Hdis i (or_intror Hi) b Hb Hib) | assumption].
Qed.

(* ---- the theorem: the model's decomposition passes the partition checker on every well-formed forest ---- *)
Theorem break_segments_partition t : WF t -> partition_okb t (break_segments t) = true.
Proof.
  intros Hwf. pose proof (wf_nodup t Hwf) as Hnd. unfold partition_okb. rewrite !andb_true_iff. repeat split.
  - apply forallb_forall. intros s Hs. apply break_segments_are_chains; assumption.
  - apply forallb_forall. intros s Hs. unfold break_segments in Hs. apply in_map_iff in Hs. destruct Hs as [r [<- _]]. reflexivity.
  - apply nodupb_NoDup. rewrite (child_ends_break t Hwf). apply NoDup_flat_map_disjoint.
    + apply NoDup_filter. apply (NoDup_map_inv rid). exact Hnd.
    + intros s Hs. apply filter_In in Hs. destruct Hs. apply ce_nodup; assumption.
    + intros a b i Ha Hb Hia Hib. apply filter_In in Ha, Hb. destruct Ha, Hb. apply (ce_unique t Hwf i); assumption.
  - apply forallb_forall. intros i Hi. apply memZ_In. rewrite (child_ends_break t Hwf). apply nonroot_ids_In in Hi. destruct Hi as [r [Hr [Ei Hp]]].
    destruct (ce_exists t Hwf r Hr Hp) as [s [Hs [Hseed Hin]]]. apply in_flat_map. exists s. split; [apply filter_In; auto | rewrite <- Ei; exact Hin].
  - apply forallb_forall. intros i Hi. apply memZ_In. rewrite (child_ends_break t Hwf) in Hi. apply in_flat_map in Hi. destruct Hi as [s [Hs Hin]].
    apply filter_In in Hs. destruct Hs as [Hs Hseed]. apply nonroot_ids_In. pose proof (seed_nonroot t s Hseed) as Hp.
    unfold ce in Hin. destruct Hin as [<-|Hin]; [exists s; auto|].
    assert (Hq : In (rpar s) (ids t)) by (apply (wf_closed t Hwf); assumption). pose proof (anc_is_Path t (rpar s) Hwf Hq) as P.
    destruct (upns_in_path t _ _ Hwf P _ Hin) as [Hil Hns]. pose proof (Path_incl t _ _ P i Hil) as Hi.
    destruct (In_ids_row _ _ Hi) as [ri [Hri Ei]]. exists ri. split; [exact Hri|]. split; [exact Ei|].
    destruct (Z.ltb_spec (rpar ri) 0) as [Hn|Hn]; [|exact Hn]. rewrite <- Ei, (root_is_stop t ri Hnd Hri Hn) in Hns. discriminate.
Qed.
