From Coq Require Import List ZArith QArith Bool Lia Arith.
Import ListNotations.
From Navis Require Import model.Forest model.Dist model.Prune model.Strahler model.Flow
  proofs.ForestWF proofs.RerootProofs proofs.DistProofs.
Open Scope Z_scope.

(* ---------- counting pairs ---------- *)
Lemma filter_prod_length {A B} (g : A -> bool) (h : B -> bool) (la : list A) (lb : list B) :
  length (filter (fun p => g (fst p) && h (snd p)) (list_prod la lb)) = (length (filter g la) * length (filter h lb))%nat.
Proof.
  induction la as [|a la IH]; simpl; [reflexivity|].
  rewrite filter_app, app_length, IH.
  assert (E : length (filter (fun p => g (fst p) && h (snd p)) (map (fun y => (a, y)) lb)) = if g a then length (filter h lb) else 0%nat).
  { clear. induction lb as [|b lb IH]; simpl; [destruct (g a); reflexivity|].
    destruct (g a) eqn:G; simpl.
    - destruct (h b); simpl; rewrite IH; reflexivity.
    - exact IH. }
  rewrite E. destruct (g a); simpl; lia.
Qed.

(* a synapse below n lies in n's fragment *)
Lemma last_app_nonempty (l1 l2 : list Z) d : l2 <> [] -> last (l1 ++ l2) d = last l2 d.
Proof.
  intros H. induction l1 as [|x l1 IH]; [reflexivity|]. simpl.
  destruct (l1 ++ l2) eqn:E; [destruct l1; simpl in E; [congruence|discriminate]|]. exact IH.
Qed.

Lemma distal_same_fragment t n s : WF t -> In s (ids t) -> distal_or_self t n s = true -> same_fragment t n s = true.
Proof.
  intros Hwf Hs H. unfold distal_or_self in H. apply memZ_In in H.
  assert (P := anc_is_Path t s Hwf Hs). destruct (Path_suffix t s _ n Hwf P H) as [pre E].
  unfold same_fragment, root_of. rewrite E.
  assert (Hn : In n (ids t)) by (eapply Path_incl; eassumption).
  destruct (In_ids_row _ _ Hn) as [q [Hq Eq]]. destruct (anc_head t q Hwf Hq) as [l El]. rewrite Eq in El.
  rewrite last_app_nonempty; [apply Z.eqb_refl|]. rewrite El. discriminate.
Qed.

Lemma count_split_nat (g h : Z -> bool) l : (forall x, In x l -> h x = true -> g x = true) ->
  length (filter g l) = (length (filter h l) + length (filter (fun x => g x && negb (h x)) l))%nat.
Proof.
  induction l as [|x l IH]; intros H; [reflexivity|].
  assert (IH' := IH (fun y Hy => H y (or_intror Hy))). cbn [filter].
  destruct (h x) eqn:Hx.
  - rewrite (H x (or_introl eq_refl) Hx). cbn [andb negb length]. lia.
  - destruct (g x); cbn [andb negb length]; lia.
Qed.

Lemma count_split (g h : Z -> bool) l : (forall x, In x l -> h x = true -> g x = true) ->
  Z.of_nat (length (filter g l)) - Z.of_nat (length (filter h l)) = Z.of_nat (length (filter (fun x => g x && negb (h x)) l)).
Proof. intros H. rewrite (count_split_nat g h l H). lia. Qed.

(* THE PATH COUNT: the centrifugal flow at n is the number of (postsynapse p, presynapse q) pairs of n's
   fragment that the edge above n separates with p on the root side and q below n -- i.e. the number of
   post->pre paths running through n away from the root *)
Theorem centrifugal_counts_pairs t pre post n : WF t -> incl post (ids t) ->
  centrifugal t pre post n =
  Z.of_nat (length (filter (fun pq => (same_fragment t n (fst pq) && negb (distal_or_self t n (fst pq))) && distal_or_self t n (snd pq))
                           (list_prod post pre))).
Proof.
  intros Hwf Hp. unfold centrifugal, count_frag, count_distal.
  rewrite (filter_prod_length (fun p => same_fragment t n p && negb (distal_or_self t n p)) (distal_or_self t n) post pre).
  rewrite count_split; [lia|]. intros x Hx. apply distal_same_fragment; [exact Hwf|apply Hp; exact Hx].
Qed.

Theorem centripetal_counts_pairs t pre post n : WF t -> incl pre (ids t) ->
  centripetal t pre post n =
  Z.of_nat (length (filter (fun pq => distal_or_self t n (fst pq) && (same_fragment t n (snd pq) && negb (distal_or_self t n (snd pq))))
                           (list_prod post pre))).
Proof.
  intros Hwf Hp. unfold centripetal, count_frag, count_distal.
  rewrite (filter_prod_length (distal_or_self t n) (fun q => same_fragment t n q && negb (distal_or_self t n q)) post pre).
  rewrite count_split; [lia|]. intros x Hx. apply distal_same_fragment; [exact Hwf|apply Hp; exact Hx].
Qed.

Theorem leaf_flow_counts_pairs t n : WF t ->
  leaf_raw t n =
  Z.of_nat (length (filter (fun ab => (same_fragment t n (fst ab) && negb (distal_or_self t n (fst ab))) && distal_or_self t n (snd ab))
                           (list_prod (leaves_of t) (leaves_of t)))).
Proof.
  intros Hwf. unfold leaf_raw, count_frag, count_distal. cbv zeta.
  rewrite (filter_prod_length (fun p => same_fragment t n p && negb (distal_or_self t n p)) (distal_or_self t n)).
  rewrite count_split; [lia|]. intros x Hx. apply distal_same_fragment; [exact Hwf|].
  unfold leaves_of, leaf_rows in Hx. apply in_map_iff in Hx. destruct Hx as [r [<- Hr]]. apply filter_In in Hr.
  unfold ids. apply in_map. tauto.
Qed.

(* forks take their largest child's value; everything else its own *)
Theorem fork_rule_spec t raw r :
  with_fork_rule t raw r = if label t r =? 2 then zmaxl (map raw (children t (rid r))) else raw (rid r).
Proof. reflexivity. Qed.

(* ---------- segregation index (parametric in the entropy function) ---------- *)
Lemma qsum_zero l : (forall x, In x l -> x == 0)%Q -> (qsum l == 0)%Q.
Proof.
  induction l as [|x l IH]; simpl; intros H; [reflexivity|].
  rewrite (H x (or_introl eq_refl)). rewrite IH; [reflexivity|]. intros y Hy. apply H. right. exact Hy.
Qed.

(* perfectly separated mixture: every compartment is pure => entropy term 0 => index 1 *)
Theorem seg_separated (H : Q -> Q) comps :
  (H 0 == 0)%Q -> (H 1 == 0)%Q -> (forall x y, x == y -> H x == H y)%Q ->
  (forall c, In c comps -> 0 <= fst c /\ 0 <= snd c /\ (fst c = 0 \/ snd c = 0)) ->
  (seg_entropy H comps == 0)%Q.
Proof.
  intros H0 H1 Hext Hc. unfold seg_entropy. apply qsum_zero. intros x Hx. apply in_map_iff in Hx.
  destruct Hx as [c [<- Hin]]. destruct (Hc c Hin) as [Pa [Pb Pz]].
  assert (E : (H (frac (fst c) (snd c)) == 0)%Q).
  { unfold frac. destruct (Z.eqb_spec (fst c + snd c) 0) as [Z0|NZ]; [exact H0|].
    destruct Pz as [Pz|Pz]; rewrite Pz in *.
    - rewrite (Hext _ 0%Q); [exact H0|]. unfold Qdiv. simpl. rewrite Qmult_0_l. reflexivity.
    - rewrite Z.add_0_r in *. rewrite (Hext _ 1%Q); [exact H1|]. apply Qmult_inv_r. intro E0.
      assert (inject_Z (fst c) == inject_Z 0)%Q by exact E0. apply (proj1 (inject_Z_injective _ _)) in H2. lia. }
  rewrite E. apply Qmult_0_r.
Qed.

(* the recorded deviation of navis' flow_centrality (model/Flow.v leaf_raw_impl) is confined to nodes with at most one tip below
   them: everywhere else the variant computes the specified tip-to-tip count *)
Lemma leaf_raw_impl_agrees t n : (1 < count_distal t n (leaves_of t))%Z -> leaf_raw_impl false t n = leaf_raw t n.
Proof.
  intros H. unfold leaf_raw_impl, leaf_raw. cbv zeta.
  destruct (count_distal t n (leaves_of t) <=? 1)%Z eqn:E; [apply Z.leb_le in E; lia | reflexivity].
Qed.
Lemma leaf_raw_impl_terminal t n glob : (count_distal t n (leaves_of t) <= 1)%Z -> leaf_raw_impl glob t n = 0%Z.
Proof.
  intros H. unfold leaf_raw_impl. cbv zeta. apply Z.leb_le in H. rewrite H. reflexivity.
Qed.
