From Coq Require Import List Arith Bool Lia.
Import ListNotations.
From Navis Require Import model.Cache.

(* invariant: an out-of-date cache entry of a TEMP_ATTR view is always detectable *)
Definition Inv (F : facts) (s : st) : Prop :=
  saved s <= ver s /\
  forall v n, in_temp F v = true -> cache s v = Some n ->
    n = ver s \/ (n <= saved s /\ saved s < ver s) \/ (stale s = true /\ n <= ver s) \/ (n < ver s /\ saved s < ver s).

Lemma Inv_init F : Inv F init.
Proof. split; simpl; [lia|]. intros v n _ H. discriminate. Qed.

Lemma Inv_clear F excl s : (forall v, excl v = true -> in_temp F v = false) -> Inv F s -> Inv F (do_clear F excl s).
Proof.
  intros Hex [Hle Hc]. unfold do_clear. destruct (Nat.ltb 0 (lock s)); [split; assumption|].
  split; simpl; [lia|]. intros w m Hw Hm. unfold clear_all in Hm. rewrite Hw in Hm. simpl in Hm.
  destruct (excl w) eqn:Em; simpl in Hm; [|discriminate]. rewrite (Hex w Em) in Hw. discriminate.
Qed.

Lemma Inv_step F s o : excl_ok F o -> Inv F s -> Inv F (step F s o).
Proof.
  intros Hex HI. assert (HI' := HI). destruct HI' as [Hle Hc]. destruct o as [|v|excl| | |v| |d]; simpl.
  - (* Edit *) split; simpl; [lia|]. intros w n Hw Hn. destruct (Hc w n Hw Hn) as [->|[[H1 H2]|[[H1 H2]|[H1 H2]]]].
    + destruct (Nat.eq_dec (saved s) (ver s)) as [E|E].
      * right. left. lia.
      * right. right. right. lia.
    + right. left. lia.
    + right. right. left. split; [assumption|lia].
    + right. right. right. lia.
  - (* Read *) unfold do_read.
    destruct (guarded F v && Nat.eqb (lock s) 0 && is_stale s) eqn:G.
    + unfold do_clear. simpl.
      apply andb_prop in G. destruct G as [G1 G3]. apply andb_prop in G1. destruct G1 as [G1 G2].
      apply Nat.eqb_eq in G2. rewrite G2. simpl.
      destruct (clear_all F (fun _ => false) (cache s) v) eqn:Ec; simpl.
      * split; simpl; [lia|]. intros w m Hw Hm. unfold clear_all in Hm. rewrite Hw in Hm. simpl in Hm. discriminate.
      * split; simpl; [lia|]. intros w m Hw Hm. unfold upd in Hm. destruct (Nat.eqb w v).
        -- inversion Hm. left. reflexivity.
        -- unfold clear_all in Hm. rewrite Hw in Hm. simpl in Hm. discriminate.
    + destruct (cache s v) eqn:Ec; simpl; [split; assumption|].
      split; simpl; [assumption|]. intros w m Hw Hm. unfold upd in Hm. destruct (Nat.eqb w v).
      * inversion Hm. left. reflexivity.
      * exact (Hc w m Hw Hm).
  - (* Clear *) apply Inv_clear; [|exact HI]. intros w Em. unfold memb in Em. apply existsb_exists in Em.
    destruct Em as [y [Hy Ey]]. apply Nat.eqb_eq in Ey. subst y. exact (Hex w Hy).
  - split; simpl; assumption.
  - split; simpl; assumption.
  - (* Carry *) split; simpl; [assumption|]. intros w m Hw Hm. unfold upd in Hm. destruct (Nat.eqb w v).
    + inversion Hm. left. reflexivity.
    + exact (Hc w m Hw Hm).
  - (* Copy *) unfold do_copy. destruct (is_stale s).
    + apply Inv_clear; [intros; discriminate|]. split; simpl; assumption.
    + split; simpl; assumption.
  - (* Pickle *) unfold do_pickle. split; simpl; [assumption|]. intros w m Hw Hm.
    destruct (memb d w); [discriminate|]. exact (Hc w m Hw Hm).
Qed.

Lemma Inv_run F h : Forall (excl_ok F) h -> Inv F (run F h).
Proof.
  unfold run. generalize (Inv_init F). generalize init.
  induction h as [|o h IH]; simpl; intros s0 H0 Hh; [assumption|].
  inversion Hh; subst. apply IH; [apply Inv_step; assumption|assumption].
Qed.

(* THE PROPERTY: whatever the history, an unlocked read of a listed view returns the value built
   from the current node table *)
Theorem read_fresh F h v :
  Forall (excl_ok F) h -> view_ok F v ->
  lock (run F h) = 0 -> snd (do_read F v (run F h)) = ver (run F h).
Proof.
  intros Hh [Hg Ht]. assert (HI := Inv_run F h Hh). set (s := run F h) in *. clearbody s. intros Hl.
  destruct HI as [Hle Hc]. unfold do_read. rewrite Hg, Hl. simpl.
  destruct (is_stale s) eqn:Es.
  - unfold do_clear. simpl. unfold clear_all. rewrite Ht. simpl. reflexivity.
  - destruct (cache s v) as [n|] eqn:Ec; simpl; [|reflexivity].
    unfold is_stale in Es. apply orb_false_elim in Es. destruct Es as [Es1 Es2].
    apply negb_false_iff in Es2. apply Nat.eqb_eq in Es2.
    destruct (Hc v n Ht Ec) as [->|[[H1 H2]|[[H1 H2]|[H1 H2]]]]; [reflexivity|lia|congruence|lia].
Qed.

(* a second read without an edit in between returns the same (current) value: reads do not disturb freshness *)
Theorem read_twice F h v w :
  Forall (excl_ok F) h -> view_ok F v -> view_ok F w -> lock (run F h) = 0 ->
  snd (do_read F w (fst (do_read F v (run F h)))) = ver (run F h).
Proof.
  intros Hh Hv Hw Hl.
  assert (E := read_fresh F (h ++ [Read v]) w).
  unfold run in E. rewrite fold_left_app in E. simpl in E. fold (run F h) in E.
  assert (Hver : ver (fst (do_read F v (run F h))) = ver (run F h) /\ lock (fst (do_read F v (run F h))) = 0).
  { unfold do_read. destruct (guarded F v && Nat.eqb (lock (run F h)) 0 && is_stale (run F h)).
    - unfold do_clear. simpl. rewrite Hl. simpl. destruct (clear_all F (fun _ => false) (cache (run F h)) v); simpl; auto.
    - destruct (cache (run F h) v); simpl; auto. }
  destruct Hver as [Hv1 Hv2]. rewrite <- Hv1. apply E; auto.
  apply Forall_app. split; [exact Hh|]. constructor; [exact I|constructor].
Qed.

(* the obligation is necessary: an unguarded view can be read stale.  This is the concrete history that
   failed on the unrepaired tree for `simple` (view 7): warm it, run an in-place operation, read again. *)
Definition F_unguarded7 : facts := {| guarded := fun v => negb (Nat.eqb v 7); in_temp := fun _ => true |}.
Example unguarded_view_refuted :
  let s := run F_unguarded7 [Read 7; Lock; Edit; Clear []; Unlock] in
  lock s = 0 /\ snd (do_read F_unguarded7 7 s) <> ver s.
Proof. vm_compute. split; [reflexivity|discriminate]. Qed.

(* and so is excl_ok: a call site that keeps a TEMP_ATTR cache across an edit yields a stale read *)
Definition F_all : facts := {| guarded := fun _ => true; in_temp := fun _ => true |}.
Example bad_exclude_refuted :
  let s := run F_all [Read 2; Edit; Clear [2]] in
  lock s = 0 /\ snd (do_read F_all 2 s) <> ver s.
Proof. vm_compute. split; [reflexivity|discriminate]. Qed.
