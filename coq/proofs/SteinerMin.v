(* C10 / connected_subgraph: the model's connected superset is the SMALLEST one - every connected node set of the forest that
   contains the requested nodes of a fragment contains steiner_comp. *)
From Coq Require Import List ZArith Bool Lia Arith.
Import ListNotations.
From Navis Require Import model.Forest model.Ops model.Subgraph proofs.ForestWF proofs.RerootProofs proofs.SubsetCut proofs.OpsWF
  proofs.SubgraphProofs proofs.DistProofs.
Open Scope Z_scope.

(* a node set is connected in the forest when all its members but one (its top) have their parent in the set *)
Definition connected_set (t : table) (U : list Z) : Prop :=
  exists u0, In u0 U /\ forall u, In u U -> u <> u0 -> exists q, In q t /\ rid q = u /\ 0 <= rpar q /\ In (rpar q) U.

(* the chain above any element of a parent chain is the rest of that chain *)
Lemma Path_suffix t x p : WF t -> Path t x p -> forall y, In y p -> exists pre, p = pre ++ anc t y /\ ~ In y pre.
Proof.
  intros Hwf H. pose proof (Path_NoDup t x p Hwf H) as Hnd. induction H as [r Hr Hneg | r l Hr Hpos Hp IH]; intros y Hy.
  - destruct Hy as [<-|[]]. exists []. split; [|intros []]. cbn [app].
    assert (P : Path t (rid r) [rid r]) by (apply Path_root; assumption). rewrite (anc_Path t _ _ Hwf P). reflexivity.
  - inversion Hnd as [|? ? Hnin Hnd']; subst. destruct Hy as [<-|Hy].
    + exists []. split; [|intros []]. cbn [app].
      assert (P : Path t (rid r) (rid r :: l)) by (apply Path_step; assumption). rewrite (anc_Path t _ _ Hwf P). reflexivity.
    + destruct (IH Hnd' y Hy) as [pre [E Hn]]. exists (rid r :: pre). split; [cbn [app]; rewrite <- E; reflexivity|].
      intros [F|F]; [subst y; contradiction | contradiction].
Qed.

(* climbing from a member of a connected set stays inside the set until its top is reached, and does reach it *)
Lemma climb_in_U t U u0 x p : WF t -> Path t x p ->
  (forall u, In u U -> u <> u0 -> exists q, In q t /\ rid q = u /\ 0 <= rpar q /\ In (rpar q) U) ->
  In x U -> incl (upto u0 p) U /\ In u0 p.
Proof.
  intros Hwf H Hc. induction H as [r Hr Hneg | r l Hr Hpos Hp IH]; intros Hx.
  - destruct (Z.eq_dec (rid r) u0) as [E|N].
    + split; [|left; exact E]. intros v Hv. cbn [upto] in Hv. destruct (rid r =? u0); destruct Hv as [<-|[]]; exact Hx.
    + exfalso. destruct (Hc (rid r) Hx N) as [q [Hq [Eq [Hpq _]]]].
      assert (q = r) by (apply (row_eq_by_id t); [exact (wf_nodup t Hwf) | exact Hq | exact Hr | exact Eq]). subst q. lia.
  - cbn [upto]. destruct (Z.eqb_spec (rid r) u0) as [E|N].
    + split; [|left; exact E]. intros v [<-|[]]. exact Hx.
    + destruct (Hc (rid r) Hx N) as [q [Hq [Eq [Hpq Hin]]]].
      assert (q = r) by (apply (row_eq_by_id t); [exact (wf_nodup t Hwf) | exact Hq | exact Hr | exact Eq]). subst q.
      destruct (IH Hin) as [I1 I2]. split; [|right; exact I2]. intros v [<-|Hv]; [exact Hx | apply I1; exact Hv].
Qed.

Lemma hd_filter_split {A} (f : A -> bool) (l : list A) (d x : A) : filter f l <> [] -> hd d (filter f l) = x ->
  exists pre post, l = pre ++ x :: post /\ f x = true /\ forall y, In y pre -> f y = false.
Proof.
  induction l as [|a l IH]; cbn [filter]; intros Hne Hh; [contradiction|]. destruct (f a) eqn:E.
  - cbn [hd] in Hh. subst x. exists [], l. split; [reflexivity|]. split; [exact E | intros y []].
  - destruct (IH Hne Hh) as [pre [post [E1 [E2 E3]]]]. exists (a :: pre), post. split; [cbn [app]; rewrite E1; reflexivity|].
    split; [exact E2|]. intros y [<-|Hy]; [exact E | apply E3; exact Hy].
Qed.

Lemma upto_app_notin top pre l : ~ In top pre -> upto top (pre ++ l) = pre ++ upto top l.
Proof.
  induction pre as [|a pre IH]; intros Hn; [reflexivity|]. cbn [app upto].
  destruct (Z.eqb_spec a top) as [E|N]; [exfalso; apply Hn; left; exact E|]. rewrite IH; [reflexivity|]. intros H. apply Hn. right. exact H.
Qed.

Lemma nodup_split_unique (a b c d : list Z) x : NoDup (a ++ x :: b) -> a ++ x :: b = c ++ x :: d -> a = c.
Proof.
  revert c. induction a as [|h a IHa]; intros c Hn He.
  - destruct c as [|h' c]; [reflexivity|]. exfalso. cbn [app] in He, Hn. injection He as Eh Et. subst h'.
    apply NoDup_cons_iff in Hn. destruct Hn as [Hni _]. apply Hni. rewrite Et. apply in_or_app. right. left. reflexivity.
  - destruct c as [|h' c].
    + exfalso. cbn [app] in He, Hn. injection He as Eh Et. subst h.
      apply NoDup_cons_iff in Hn. destruct Hn as [Hni _]. apply Hni. apply in_or_app. right. left. reflexivity.
    + cbn [app] in He, Hn. injection He as Eh Et. subst h'. f_equal. apply NoDup_cons_iff in Hn. destruct Hn as [_ Hn]. apply IHa; assumption.
Qed.

Theorem steiner_comp_minimal t Sc s0 rest U : WF t -> Sc = s0 :: rest -> incl Sc (ids t) ->
  common_anc t Sc s0 <> [] ->          (* the requested nodes share a fragment *)
  incl Sc U -> connected_set t U -> incl (steiner_comp t Sc) U.
Proof.
  intros Hwf E Hids Hcommon HScU [u0 [Hu0 Hc]]. subst Sc.
  set (Sc := s0 :: rest) in *. set (top := top_of t Sc s0).
  (* top is the first common ancestor on s0's chain *)
  assert (Hs0 : In s0 (ids t)) by (apply Hids; left; reflexivity).
  pose proof (anc_is_Path t s0 Hwf Hs0) as P0.
  destruct (hd_filter_split (fun y => forallb (fun s => memZ y (anc t s)) Sc) (anc t s0) (-1) top Hcommon eq_refl) as [pre0 [post0 [E0 [Ftop Fpre]]]].
  rewrite forallb_forall in Ftop.
  (* u0 is a common ancestor as well *)
  assert (Hu0_all : forall s, In s Sc -> In u0 (anc t s) /\ incl (upto u0 (anc t s)) U).
  { intros s Hs. pose proof (anc_is_Path t s Hwf (Hids s Hs)) as Ps.
    destruct (climb_in_U t U u0 s (anc t s) Hwf Ps Hc (HScU s Hs)) as [A B]. split; assumption. }
  assert (Hu0_common : forallb (fun s => memZ u0 (anc t s)) Sc = true).
  { apply forallb_forall. intros s Hs. apply memZ_In. apply (Hu0_all s Hs). }
  (* hence u0 lies at or above top: u0 is in the chain of top *)
  assert (Htop_in0 : In top (anc t s0)) by (rewrite E0; apply in_or_app; right; left; reflexivity).
  destruct (Path_suffix t s0 (anc t s0) Hwf P0 top Htop_in0) as [pre [Esuf Hnpre]].
  assert (Hpre_eq : pre = pre0).
  { pose proof (Path_NoDup t s0 _ Hwf P0) as Hnd.
    assert (Hh : exists tl, anc t top = top :: tl).
    { assert (Htid : In top (ids t)) by (apply (Path_incl t s0 _ P0); exact Htop_in0). destruct (Path_head _ _ _ (anc_is_Path t top Hwf Htid)) as [tl Etl]. eauto. }
    destruct Hh as [tl Etl]. rewrite Etl in Esuf. rewrite E0 in Esuf.
    (* two decompositions of a duplicate-free list around the same element *)
    symmetry. apply (nodup_split_unique pre0 post0 pre tl top); [rewrite <- E0; exact Hnd | exact Esuf]. }
  subst pre.
  assert (Hu0_top : In u0 (anc t top)).
  { assert (In u0 (anc t s0)) by (apply (Hu0_all s0); left; reflexivity). rewrite Esuf in H. apply in_app_or in H. destruct H as [H|H]; [|exact H].
    specialize (Fpre u0 H). congruence. }
  (* now every requested node's prefix up to top lies inside its prefix up to u0 *)
  intros v Hv. unfold steiner_comp in Hv. fold Sc in Hv. change (s0 :: rest) with Sc in Hv. apply in_flat_map in Hv. destruct Hv as [s [Hs Hv]]. fold top in Hv.
  destruct (Hu0_all s Hs) as [Hu0s HsU]. apply HsU.
  pose proof (anc_is_Path t s Hwf (Hids s Hs)) as Ps.
  assert (Htop_s : In top (anc t s)) by (apply memZ_In; apply Ftop; exact Hs).
  destruct (Path_suffix t s (anc t s) Hwf Ps top Htop_s) as [pres [Es Hnpres]].
  pose proof (Path_NoDup t s _ Hwf Ps) as Hnds.
  assert (Hu0_notpre : ~ In u0 pres).
  { intros Hin. rewrite Es in Hnds. exact (NoDup_app_disjoint pres (anc t top) u0 Hnds Hin Hu0_top). }
  rewrite Es in Hv |- *. rewrite upto_app_notin in Hv by exact Hnpres. rewrite upto_app_notin by exact Hu0_notpre.
  apply in_app_or in Hv. apply in_or_app. destruct Hv as [Hv|Hv]; [left; exact Hv|]. right.
  assert (Htid : In top (ids t)) by (apply (Path_incl t s _ Ps); exact Htop_s).
  destruct (Path_head _ _ _ (anc_is_Path t top Hwf Htid)) as [tl Etl]. rewrite Etl in Hv |- *.
  cbn [upto] in Hv. rewrite Z.eqb_refl in Hv. destruct Hv as [<-|[]]. apply upto_head.
Qed.
