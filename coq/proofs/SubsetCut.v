From Coq Require Import List ZArith Bool Lia Arith.
Import ListNotations.
From Navis Require Import model.Forest proofs.ForestWF proofs.RerootProofs.
Open Scope Z_scope.

(* ================= subset (C10, C12, C18) ================= *)
Lemma ids_keep_rows S t : ids (keep_rows S t) = filter (fun i => memZ i S) (ids t).
Proof.
  unfold ids, keep_rows. induction t as [|r t IH]; simpl; [reflexivity|].
  destruct (memZ (rid r) S); simpl; rewrite IH; reflexivity.
Qed.

Lemma memZ_filter x (p : Z -> bool) l : memZ x (filter p l) = memZ x l && p x.
Proof.
  induction l as [|y l IH]; simpl; [reflexivity|].
  destruct (p y) eqn:Py; simpl; rewrite IH.
  - destruct (Z.eqb_spec x y) as [->|N]; simpl; [rewrite Py; reflexivity|reflexivity].
  - destruct (Z.eqb_spec x y) as [->|N]; simpl; [rewrite Py; rewrite andb_false_r; reflexivity|reflexivity].
Qed.

(* the node set is exactly requested /\ present, in table order *)
Theorem subset_ids S t : ids (subset S t) = filter (fun i => memZ i S) (ids t).
Proof. unfold subset. rewrite ids_repair. apply ids_keep_rows. Qed.

(* every surviving row keeps its payload; it keeps its parent link iff the parent survives, else becomes a root *)
Theorem subset_rows S t q :
  In q (subset S t) <->
  exists q0, In q0 t /\ memZ (rid q0) S = true /\
             q = (if memZ (rpar q0) (ids t) && memZ (rpar q0) S then q0 else set_par q0 (-1)).
Proof.
  unfold subset, repair. rewrite in_map_iff. split.
  - intros [q0 [E H]]. unfold keep_rows in H. apply filter_In in H. destruct H as [H1 H2].
    exists q0. split; [exact H1|]. split; [exact H2|]. rewrite <- E.
    fold (keep_rows S t). rewrite ids_keep_rows, memZ_filter. reflexivity.
  - intros [q0 [H1 [H2 E]]]. exists q0. split.
    + fold (keep_rows S t). rewrite ids_keep_rows, memZ_filter. symmetry. exact E.
    + unfold keep_rows. apply filter_In. auto.
Qed.

(* ================= descendants ================= *)
Lemma is_desc_self t c r : WF t -> In r t -> rid r = c -> is_desc t c r = true.
Proof.
  intros Hwf Hr E. unfold is_desc. destruct (anc_head t r Hwf Hr) as [l ->]. simpl. rewrite E, Z.eqb_refl. reflexivity.
Qed.

Lemma is_desc_step t c r : WF t -> In r t -> 0 <= rpar r ->
  is_desc t c r = (c =? rid r) || memZ c (anc t (rpar r)).
Proof. intros Hwf Hr Hp. unfold is_desc. rewrite (anc_step t r Hwf Hr Hp). reflexivity. Qed.

Lemma is_desc_root t c r : WF t -> In r t -> rpar r < 0 -> is_desc t c r = (c =? rid r).
Proof.
  intros Hwf Hr Hp. unfold is_desc.
  assert (P : Path t (rid r) [rid r]) by (constructor; assumption).
  rewrite (anc_Path t _ _ Hwf P). simpl. rewrite orb_false_r. reflexivity.
Qed.

(* a node never is a descendant of its own proper descendant: the parent of c is not distal to c *)
Lemma parent_not_desc t r : WF t -> In r t -> 0 <= rpar r -> memZ (rid r) (anc t (rpar r)) = false.
Proof.
  intros Hwf Hr Hp. destruct (memZ (rid r) (anc t (rpar r))) eqn:E; [|reflexivity]. exfalso.
  apply memZ_In in E. assert (Hwf' := Hwf). destruct Hwf' as [Hnd Hnn Hcl [rk Hrk]].
  assert (Hpi : In (rpar r) (ids t)) by (apply Hcl; assumption).
  destruct (In_ids_row _ _ Hpi) as [q [Hq Eq]].
  destruct (Path_total t Hwf q Hq) as [l Hl]. rewrite Eq in Hl.
  rewrite (anc_Path t _ _ Hwf Hl) in E.
  assert (Hle := Path_rank t rk _ _ Hnd Hrk Hl _ E). specialize (Hrk r Hr Hp). lia.
Qed.

(* ================= cut (C10) ================= *)
Lemma desc_ids_In t c i : In i (desc_ids t c) <-> exists r, In r t /\ rid r = i /\ is_desc t c r = true.
Proof.
  unfold desc_ids. rewrite in_map_iff. split.
  - intros [r [E H]]. apply filter_In in H. exists r. tauto.
  - intros [r [H1 [H2 H3]]]. exists r. split; [exact H2|]. apply filter_In. auto.
Qed.

Lemma make_root_ids c t : ids (make_root c t) = ids t.
Proof.
  unfold ids, make_root. rewrite map_map. apply map_ext. intros r. destruct (rid r =? c); reflexivity.
Qed.

(* distal fragment = descendants-or-self of the cut node, proximal = the rest plus the cut node *)
Theorem cut_distal_ids t c : ids (cut_distal c t) = filter (fun i => memZ i (desc_ids t c)) (ids t).
Proof. unfold cut_distal. rewrite make_root_ids. apply subset_ids. Qed.

Theorem cut_proximal_ids t c :
  ids (cut_proximal c t) = filter (fun i => memZ i (c :: map rid (filter (fun r => negb (is_desc t c r)) t))) (ids t).
Proof. unfold cut_proximal. apply subset_ids. Qed.

Lemma memZ_desc_ids t c r : NoDup (ids t) -> In r t -> memZ (rid r) (desc_ids t c) = is_desc t c r.
Proof.
  intros Hnd Hr. destruct (is_desc t c r) eqn:E.
  - apply memZ_In. apply desc_ids_In. exists r. auto.
  - destruct (memZ (rid r) (desc_ids t c)) eqn:M; [|reflexivity]. apply memZ_In in M.
    apply desc_ids_In in M. destruct M as [r' [H1 [H2 H3]]].
    assert (r' = r) by (apply (row_eq_by_id t); assumption). subst. congruence.
Qed.

Lemma memZ_nondesc_ids t c r : NoDup (ids t) -> In r t ->
  memZ (rid r) (map rid (filter (fun r => negb (is_desc t c r)) t)) = negb (is_desc t c r).
Proof.
  intros Hnd Hr. destruct (is_desc t c r) eqn:E; simpl.
  - destruct (memZ (rid r) _) eqn:M; [|reflexivity]. apply memZ_In in M. apply in_map_iff in M.
    destruct M as [r' [H2 H1]]. apply filter_In in H1. destruct H1 as [H1 H3].
    assert (r' = r) by (apply (row_eq_by_id t); assumption). subst. rewrite E in H3. discriminate.
  - apply memZ_In. apply in_map_iff. exists r. split; [reflexivity|]. apply filter_In. rewrite E. auto.
Qed.

(* the two pieces share exactly the cut node and together hold every node *)
Theorem cut_partition t c r : WF t -> In r t ->
  (In (rid r) (ids (cut_distal c t)) \/ In (rid r) (ids (cut_proximal c t))) /\
  (In (rid r) (ids (cut_distal c t)) -> In (rid r) (ids (cut_proximal c t)) -> rid r = c).
Proof.
  intros Hwf Hr. assert (Hnd : NoDup (ids t)) by (destruct Hwf; assumption).
  rewrite cut_distal_ids, cut_proximal_ids. rewrite !filter_In.
  assert (Hi : In (rid r) (ids t)) by (unfold ids; apply in_map; exact Hr).
  rewrite (memZ_desc_ids t c r Hnd Hr). simpl. rewrite (memZ_nondesc_ids t c r Hnd Hr).
  destruct (is_desc t c r) eqn:E; simpl.
  - split; [left; auto|]. intros _ [_ H]. rewrite orb_false_r in H. apply Z.eqb_eq in H. exact H.
  - split; [right; split; [exact Hi|apply orb_true_r]|]. intros [_ H]. discriminate.
Qed.

(* every original edge lies in exactly one piece; the edge above the cut node goes to the proximal piece *)
Theorem cut_edges t c a b : WF t -> In c (ids t) -> In (a, b) (edges t) ->
  (In (a, b) (edges (cut_distal c t)) /\ ~ In (a, b) (edges (cut_proximal c t)))
  \/ (In (a, b) (edges (cut_proximal c t)) /\ ~ In (a, b) (edges (cut_distal c t))).
Proof.
  intros Hwf Hc H. assert (Hwf' := Hwf). destruct Hwf' as [Hnd Hnn Hcl _].
  apply edges_In in H. destruct H as [q [Hq [Ea [Eb Hb]]]].
  assert (Hbi : In b (ids t)) by (rewrite <- Eb; apply (Hcl q); [exact Hq|lia]).
  destruct (In_ids_row _ _ Hbi) as [qb [Hqb Eqb]].
  assert (Dq : is_desc t c q = (c =? a) || is_desc t c qb).
  { rewrite (is_desc_step t c q Hwf Hq ltac:(lia)). rewrite Ea. unfold is_desc. rewrite Eqb, Eb. reflexivity. }
  (* membership of an oriented edge in a subset-built piece *)
  assert (InSub : forall S, In (a, b) (edges (subset S t)) <-> memZ a S = true /\ memZ b S = true).
  { intros S. rewrite edges_In. split.
    - intros [q' [Hq' [E1 [E2 Hp]]]]. apply subset_rows in Hq'. destruct Hq' as [q0 [H0 [HS ->]]].
      destruct (memZ (rpar q0) (ids t) && memZ (rpar q0) S) eqn:M.
      + assert (q0 = q) by (apply (row_eq_by_id t); congruence). subst q0.
        apply andb_prop in M. destruct M as [_ M]. rewrite <- Ea, <- Eb. auto.
      + simpl in E2. lia.
    - intros [HA HB]. exists q. split; [|auto]. apply subset_rows. exists q. split; [exact Hq|]. split; [congruence|].
      rewrite Eb. replace (memZ b (ids t)) with true by (symmetry; apply memZ_In; exact Hbi). rewrite HB. reflexivity. }
  set (PS := c :: map rid (filter (fun r => negb (is_desc t c r)) t)).
  assert (MA : memZ a (desc_ids t c) = is_desc t c q) by (rewrite <- Ea; apply memZ_desc_ids; assumption).
  assert (MB : memZ b (desc_ids t c) = is_desc t c qb) by (rewrite <- Eqb; apply memZ_desc_ids; assumption).
  assert (PA : memZ a PS = (a =? c) || negb (is_desc t c q)).
  { unfold PS. simpl. rewrite <- Ea at 2. rewrite (memZ_nondesc_ids t c q Hnd Hq). reflexivity. }
  assert (PB : memZ b PS = (b =? c) || negb (is_desc t c qb)).
  { unfold PS. simpl. rewrite <- Eqb at 2. rewrite (memZ_nondesc_ids t c qb Hnd Hqb). reflexivity. }
  (* edges of the distal piece: as in the subset, except that the cut node lost its parent *)
  assert (InDist : In (a, b) (edges (cut_distal c t)) <-> a <> c /\ In (a, b) (edges (subset (desc_ids t c) t))).
  { unfold cut_distal, make_root. rewrite !edges_In. split.
    - intros [q' [Hq' [E1 [E2 Hp]]]]. apply in_map_iff in Hq'. destruct Hq' as [q1 [E Hq1]].
      destruct (Z.eqb_spec (rid q1) c) as [Ec|Ec]; subst q'; simpl in *; [lia|].
      split; [congruence|]. exists q1. auto.
    - intros [Hne [q1 [Hq1 [E1 [E2 Hp]]]]]. exists q1. split; [|auto].
      apply in_map_iff. exists q1. split; [|exact Hq1]. destruct (Z.eqb_spec (rid q1) c); [congruence|reflexivity]. }
  unfold cut_proximal. fold PS. rewrite InDist, !InSub, MA, MB, PA, PB.
  destruct (Z.eqb_spec a c) as [Eac|Nac].
  - (* the edge from the cut node to its parent: proximal *)
    right. assert (Dqb : is_desc t c qb = false).
    { unfold is_desc. rewrite Eqb, <- Eb, <- Eac, <- Ea. apply parent_not_desc; [exact Hwf|exact Hq|lia]. }
    rewrite Dqb. simpl. rewrite orb_true_r. split; [auto|]. intros [H _]. congruence.
  - rewrite Dq. replace (c =? a) with false by (symmetry; apply Z.eqb_neq; congruence). simpl.
    destruct (is_desc t c qb) eqn:Dqb; simpl.
    + left. split; [auto|]. intros [H _]. discriminate.
    + right. rewrite orb_true_r. split; [auto|]. intros [_ [_ H]]. discriminate.
Qed.

(* the cut node is the root of the distal piece *)
Theorem cut_distal_root t c q : In q (cut_distal c t) -> rid q = c -> rpar q = -1.
Proof.
  unfold cut_distal, make_root. rewrite in_map_iff. intros [q0 [E H]] Ec.
  destruct (Z.eqb_spec (rid q0) c) as [E0|E0]; subst q; simpl in *; [reflexivity|contradiction].
Qed.
