From Coq Require Import List ZArith Bool Lia Arith.
Import ListNotations.
From Navis Require Import model.Forest model.Ops model.Subgraph proofs.ForestWF proofs.RerootProofs proofs.SubsetCut proofs.OpsWF.
Open Scope Z_scope.

Lemma upto_head top x l : In x (upto top (x :: l)).
Proof. simpl. destruct (x =? top); left; reflexivity. Qed.

Lemma upto_incl top l y : In y (upto top l) -> In y l.
Proof.
  induction l as [|x l IH]; simpl; [tauto|]. destruct (x =? top).
  - intros [H|[]]; auto.
  - intros [H|H]; auto.
Qed.

(* walking up a parent chain inside upto: every element other than top has its parent included *)
Lemma Path_upto t x p top v : Path t x p -> In v (upto top p) -> v <> top ->
  exists q, In q t /\ rid q = v /\ (rpar q < 0 \/ In (rpar q) (upto top p)).
Proof.
  induction 1 as [r Hr Hneg | r l Hr Hpos Hp IH]; intros Hv N.
  - assert (v = rid r). { simpl in Hv. destruct (rid r =? top); destruct Hv as [H|[]]; auto. }
    subst v. exists r. auto.
  - simpl in Hv. simpl. destruct (Z.eqb_spec (rid r) top) as [E|E].
    + destruct Hv as [H|[]]. congruence.
    + destruct Hv as [H|H].
      * subst v. exists r. split; [exact Hr|]. split; [reflexivity|]. right. right.
        destruct (Path_head _ _ _ Hp) as [l' ->]. apply upto_head.
      * destruct (IH H N) as [q [H1 [H2 H3]]]. exists q. split; [exact H1|]. split; [exact H2|].
        destruct H3 as [H3|H3]; [left; exact H3|right; right; exact H3].
Qed.

Lemma dedupZ_In l x : In x (dedupZ l) <-> In x l.
Proof.
  induction l as [|a l IH]; simpl; [tauto|].
  rewrite filter_In, IH, negb_true_iff, Z.eqb_neq. split.
  - intros [H|[H _]]; auto.
  - intros [H|H]; auto. destruct (Z.eq_dec x a); auto.
Qed.

(* every requested node is in the result *)
Theorem steiner_superset t S s : WF t -> In s S -> In s (ids t) -> In s (steiner t S).
Proof.
  intros Hwf Hs Hi. unfold steiner. apply in_flat_map.
  exists (filter (fun s' => root_of t s' =? root_of t s) S). split.
  - unfold group_by_root. apply in_map_iff. exists (root_of t s). split; [reflexivity|].
    apply dedupZ_In. apply in_map. exact Hs.
  - assert (Hin : In s (filter (fun s' => root_of t s' =? root_of t s) S)) by (apply filter_In; split; [exact Hs|apply Z.eqb_refl]).
    unfold steiner_comp. destruct (filter (fun s' => root_of t s' =? root_of t s) S) as [|s0 rest] eqn:E; [contradiction|].
    apply in_flat_map. exists s. split; [exact Hin|].
    destruct (In_ids_row _ _ Hi) as [q [Hq Eq]]. destruct (anc_head t q Hwf Hq) as [l El]. rewrite Eq in El. rewrite El.
    apply upto_head.
Qed.

(* every included node lies on the parent chain of a requested node (nothing outside those paths is added) *)
Theorem steiner_on_paths t S v : In v (steiner t S) -> exists s, In s S /\ In v (anc t s).
Proof.
  unfold steiner. rewrite in_flat_map. intros [Sc [HSc Hv]]. unfold group_by_root in HSc.
  apply in_map_iff in HSc. destruct HSc as [r [<- _]].
  unfold steiner_comp in Hv. destruct (filter (fun s => root_of t s =? r) S) as [|s0 rest] eqn:E; [contradiction|].
  apply in_flat_map in Hv. destruct Hv as [s [Hs Hv]]. exists s. split.
  - rewrite <- E in Hs. apply filter_In in Hs. tauto.
  - eapply upto_incl. exact Hv.
Qed.

(* connectors and tags: exactly those attached to surviving nodes *)
Theorem subset_connectors_spec S t cn c :
  In c (subset_connectors S t cn) <-> In c cn /\ In (snd c) (ids t) /\ memZ (snd c) S = true.
Proof.
  unfold subset_connectors. rewrite filter_In, subset_ids. rewrite memZ_filter, andb_true_iff. split.
  - intros [H1 [H2 H3]]. apply memZ_In in H2. auto.
  - intros [H1 [H2 H3]]. split; [exact H1|]. split; [apply memZ_In; exact H2|exact H3].
Qed.

Theorem subset_tags_spec S t tags k ns :
  In (k, ns) (subset_tags S t tags) ->
  ns <> [] /\ exists ns0, In (k, ns0) tags /\ ns = filter (fun n => memZ n (ids (subset S t))) ns0.
Proof.
  unfold subset_tags. rewrite filter_In. intros [H1 H2]. apply in_map_iff in H1.
  destruct H1 as [[k0 ns0] [E H1]]. simpl in E. inversion E; subst. split.
  - simpl in H2. destruct (filter _ ns0); [discriminate|]. discriminate.
  - exists ns0. auto.
Qed.

(* every piece produced by a sequence of cuts is well formed *)
Lemma cut_in_wf c ps : Forall WF ps -> Forall WF (cut_in c ps).
Proof.
  induction 1 as [|p ps Hp Hps IH]; simpl; [constructor|].
  destruct (memZ c (ids p)).
  - constructor; [apply cut_distal_wf; exact Hp|]. constructor; [apply cut_proximal_wf; exact Hp|exact Hps].
  - constructor; assumption.
Qed.

Theorem cut_many_wf cs t : WF t -> Forall WF (cut_many cs t).
Proof.
  intros Hwf. unfold cut_many. assert (H : Forall WF [t]) by (constructor; [exact Hwf|constructor]).
  revert H. generalize [t]. induction cs as [|c cs IH]; simpl; intros ps H; [exact H|].
  apply IH. apply cut_in_wf. exact H.
Qed.

(* the result is connected: inside one fragment, every included node other than the top has its parent included *)
Theorem steiner_comp_connected t Sc s0 rest v : WF t -> Sc = s0 :: rest -> incl Sc (ids t) ->
  In v (steiner_comp t Sc) -> v <> top_of t Sc s0 ->
  exists q, In q t /\ rid q = v /\ (rpar q < 0 \/ In (rpar q) (steiner_comp t Sc)).
Proof.
  intros Hwf E Hi Hv N. subst Sc. unfold steiner_comp in *. apply in_flat_map in Hv. destruct Hv as [s [Hs Hv]].
  destruct (In_ids_row _ _ (Hi s Hs)) as [qs [Hqs Eqs]].
  destruct (Path_total t Hwf qs Hqs) as [p Hp]. rewrite Eqs in Hp.
  rewrite (anc_Path t _ _ Hwf Hp) in Hv.
  destruct (Path_upto t s p _ v Hp Hv N) as [q [H1 [H2 H3]]]. exists q. split; [exact H1|]. split; [exact H2|].
  destruct H3 as [H3|H3]; [left; exact H3|]. right. apply in_flat_map. exists s. split; [exact Hs|].
  rewrite (anc_Path t _ _ Hwf Hp). exact H3.
Qed.
