From Coq Require Import List ZArith QArith Bool Lia Arith Lqa Sorting.
Import ListNotations.
From Navis Require Import model.Dist model.Nblast gen.Gen_Smat.

(* ---------- digitizing ---------- *)
Definition below (right : bool) (v b : Q) : bool := if right then negb (Qle_bool v b) else Qle_bool b v.

(* for increasing boundaries the selected index k splits them into the k boundaries below v and the rest:
   the cell's half-open interval contains v; values beyond the table end up in the outer bins *)
Theorem digitize_in_interval bounds right v : StronglySorted Qlt bounds ->
  let k := digitize bounds right v in
  (forall b, In b (firstn k bounds) -> below right v b = true) /\
  (forall b, In b (skipn k bounds) -> below right v b = false).
Proof.
  intros Hs. unfold digitize. fold (below right v).
  induction Hs as [|b l Hs IH Hall]; simpl; [split; intros b []|].
  destruct (below right v b) eqn:E; simpl.
  - destruct IH as [I1 I2]. split; [intros c [<-|Hc]; [exact E|apply I1; exact Hc]|exact I2].
  - (* b is not below v: nothing after it is either *)
    assert (Hno : forall c, In c l -> below right v c = false).
    { intros c Hc. rewrite Forall_forall in Hall. specialize (Hall c Hc).
      unfold below in *. destruct right.
      - apply negb_false_iff in E. apply negb_false_iff. apply Qle_bool_iff in E. apply Qle_bool_iff. lra.
      - destruct (Qle_bool c v) eqn:F; [|reflexivity]. apply Qle_bool_iff in F.
        assert (~ (b <= v)%Q) by (intro H; apply Qle_bool_iff in H; congruence). lra. }
    assert (Z0 : filter (below right v) l = []).
    { clear - Hno. induction l as [|c l IHl]; simpl; [reflexivity|]. rewrite (Hno c (or_introl eq_refl)). apply IHl. intros d Hd. apply Hno. right. exact Hd. }
    rewrite Z0. simpl. split; [intros c []|]. intros c [<-|Hc]; [exact E|apply Hno; exact Hc].
Qed.

Lemma digitize_le_length bounds right v : (digitize bounds right v <= length bounds)%nat.
Proof. unfold digitize. induction bounds as [|b l IH]; simpl; [lia|]. destruct (if right then _ else _); simpl; lia. Qed.

(* ---------- normalisation ---------- *)
Theorem self_score_is_one s n : ~ (self_hit s n == 0)%Q -> (normalise true (self_hit s n) (self_hit s n) == 1)%Q.
Proof. intros H. unfold normalise. apply Qmult_inv_r. exact H. Qed.

Lemma qsum_le l c : (forall x, In x l -> x <= c)%Q -> (qsum l <= inject_Z (Z.of_nat (length l)) * c)%Q.
Proof.
  induction l as [|x l IH]; intros H.
  - change (qsum []) with 0%Q. change (inject_Z (Z.of_nat (length (@nil Q)))) with 0%Q. lra.
  - assert (Hx := H x (or_introl eq_refl)). assert (IH' := IH (fun y Hy => H y (or_intror Hy))).
    change (qsum (x :: l)) with (x + qsum l)%Q. change (length (x :: l)) with (S (length l)).
    rewrite Nat2Z.inj_succ. unfold Z.succ. rewrite inject_Z_plus. change (inject_Z 1) with 1%Q.
    set (m := inject_Z (Z.of_nat (length l))) in *. clearbody m. nra.
Qed.

Lemma qsum_repeat c n : (qsum (repeat c n) == inject_Z (Z.of_nat n) * c)%Q.
Proof.
  induction n as [|n IH]; [change (qsum (repeat c 0)) with 0%Q; change (inject_Z (Z.of_nat 0)) with 0%Q; lra|].
  change (repeat c (S n)) with (c :: repeat c n). change (qsum (c :: repeat c n)) with (c + qsum (repeat c n))%Q.
  rewrite IH, Nat2Z.inj_succ. unfold Z.succ. rewrite inject_Z_plus. change (inject_Z 1) with 1%Q.
  set (m := inject_Z (Z.of_nat n)). clearbody m. ring.
Qed.

Lemma map_repeat' {A B} (f : A -> B) x n : map f (repeat x n) = repeat (f x) n.
Proof. induction n as [|n IH]; simpl; [reflexivity|]. rewrite IH. reflexivity. Qed.

(* if no cell exceeds the self-match cell, no normalised score exceeds 1 *)
Theorem normalised_le_one s pts :
  let c := score_point s (0%Q, 1%Q) in
  (0 < c)%Q -> (forall dd, score_point s dd <= c)%Q -> pts <> [] ->
  (normalise true (raw_score s pts) (self_hit s (length pts)) <= 1)%Q.
Proof.
  intros c Hc Hmax Hne. unfold normalise, self_hit, raw_score.
  assert (E : (qsum (map (score_point s) (repeat (0%Q, 1%Q) (length pts))) == inject_Z (Z.of_nat (length pts)) * c)%Q).
  { rewrite map_repeat'. apply qsum_repeat. }
  assert (L : (qsum (map (score_point s) pts) <= inject_Z (Z.of_nat (length pts)) * c)%Q).
  { rewrite <- (map_length (score_point s) pts). apply qsum_le. intros x Hx. apply in_map_iff in Hx. destruct Hx as [dd [<- _]]. apply Hmax. }
  assert (P : (0 < inject_Z (Z.of_nat (length pts)) * c)%Q).
  { apply Qmult_lt_0_compat; [|exact Hc]. destruct pts; [congruence|]. simpl length. rewrite Nat2Z.inj_succ. unfold Z.succ.
    rewrite inject_Z_plus. assert (0 <= inject_Z (Z.of_nat (length pts)))%Q by (change 0%Q with (inject_Z 0); rewrite <- Zle_Qle; lia). change (inject_Z 1) with 1%Q.
    set (m := inject_Z (Z.of_nat (length pts))) in *. clearbody m. lra. }
  rewrite E. apply Qle_shift_div_r; [exact P|]. set (m := inject_Z (Z.of_nat (length pts))) in *. clearbody m. lra.
Qed.

(* ---------- the default score tables (regenerated from the CSV files on every run) ---------- *)
Definition fcwb : smat := {| dist_b := fcwb_dist_bounds; dot_b := fcwb_dot_bounds; sm_right := fcwb_right; sm_cells := fcwb_cells |}.
Definition fcwb_alpha : smat := {| dist_b := fcwb_alpha_dist_bounds; dot_b := fcwb_alpha_dot_bounds; sm_right := fcwb_alpha_right; sm_cells := fcwb_alpha_cells |}.

Definition table_ok (s : smat) : bool :=
  let c := score_point s (0%Q, 1%Q) in
  (* rectangular with the right shape *)
  Nat.eqb (length (sm_cells s)) (S (length (dist_b s)))
  && forallb (fun r => Nat.eqb (length r) (S (length (dot_b s)))) (sm_cells s)
  (* the self-match cell is positive and is the largest cell *)
  && negb (Qle_bool c 0)
  && forallb (fun r => forallb (fun x => Qle_bool x c) r) (sm_cells s).

Lemma fcwb_table_ok : table_ok fcwb = true.
Proof. vm_compute. reflexivity. Qed.

Lemma cell_In cells i j : (i < length cells)%nat -> (j < length (nth i cells []))%nat -> In (cell cells i j) (nth i cells []) /\ In (nth i cells []) cells.
Proof. intros Hi Hj. unfold cell. split; apply nth_In; assumption. Qed.

Lemma table_ok_max s : table_ok s = true -> forall dd, (score_point s dd <= score_point s (0%Q, 1%Q))%Q.
Proof.
  unfold table_ok. rewrite !andb_true_iff. intros [[[H1 H2] H3] H4] dd.
  apply Nat.eqb_eq in H1. rewrite forallb_forall in H2, H4.
  unfold score_point at 1.
  set (i := digitize (dist_b s) (sm_right s) (fst dd)). set (j := digitize (dot_b s) (sm_right s) (snd dd)).
  assert (Hi : (i < length (sm_cells s))%nat) by (unfold i; pose proof (digitize_le_length (dist_b s) (sm_right s) (fst dd)); lia).
  assert (Hr : In (nth i (sm_cells s) []) (sm_cells s)) by (apply nth_In; exact Hi).
  assert (Hj : (j < length (nth i (sm_cells s) []))%nat).
  { specialize (H2 _ Hr). apply Nat.eqb_eq in H2. unfold j. pose proof (digitize_le_length (dot_b s) (sm_right s) (snd dd)). lia. }
  specialize (H4 _ Hr). rewrite forallb_forall in H4. apply Qle_bool_iff. apply H4. unfold cell. apply nth_In. exact Hj.
Qed.

Lemma table_ok_pos s : table_ok s = true -> (0 < score_point s (0%Q, 1%Q))%Q.
Proof.
  unfold table_ok. rewrite !andb_true_iff. intros [[[_ _] H3] _]. apply negb_true_iff in H3.
  destruct (Qlt_le_dec 0 (score_point s (0%Q, 1%Q))) as [L|L]; [exact L|]. apply Qle_bool_iff in L. congruence.
Qed.

(* with the default table (no alpha) normalised scores never exceed 1 *)
Theorem fcwb_normalised_le_one pts : pts <> [] ->
  (normalise true (raw_score fcwb pts) (self_hit fcwb (length pts)) <= 1)%Q.
Proof.
  intros H. apply normalised_le_one; [apply table_ok_pos; exact fcwb_table_ok|apply table_ok_max; exact fcwb_table_ok|exact H].
Qed.

(* with alpha the bound fails: a query point of low alpha matching a target of alpha 1 beats its own self-hit term.
   Inherent in the published algorithm (self hit uses dot = alpha_q); recorded as a known finding, not a defect of the code. *)
Example alpha_can_exceed_one :
  (1 < normalise true (raw_score fcwb_alpha [(0%Q, 1%Q)]) (self_hit_alpha fcwb_alpha [(1#2)%Q]))%Q.
Proof. vm_compute. reflexivity. Qed.

(* ---------- combinations ---------- *)
Theorem combine_mean f r : (combine_scores 1 f r == (f + r) / 2)%Q.
Proof. reflexivity. Qed.
Theorem combine_min f r : (combine_scores 2 f r <= f /\ combine_scores 2 f r <= r)%Q.
Proof. unfold combine_scores, qmin. simpl. destruct (Qle_bool f r) eqn:E; split; try lra.
  - apply Qle_bool_iff in E. exact E.
  - assert (~ (f <= r)%Q) by (intro H; apply Qle_bool_iff in H; congruence). lra. Qed.
Theorem combine_max f r : (f <= combine_scores 3 f r /\ r <= combine_scores 3 f r)%Q.
Proof. unfold combine_scores, qmax2. simpl. destruct (Qle_bool f r) eqn:E; split; try lra.
  - apply Qle_bool_iff in E. exact E.
  - assert (~ (f <= r)%Q) by (intro H; apply Qle_bool_iff in H; congruence). lra. Qed.

(* layout of scores='both': row 2i is query i's forward row, row 2i+1 its reverse row *)
Theorem both_layout_rows {A} (fw : list A) : forall rv i, length fw = length rv ->
  nth_error (both_layout fw rv) (2 * i) = nth_error fw i /\ nth_error (both_layout fw rv) (2 * i + 1) = nth_error rv i.
Proof.
  unfold both_layout. induction fw as [|f fw IH]; intros rv i Hl.
  - destruct rv; [|discriminate]. cbn. destruct i; cbn; split; try reflexivity; destruct (i + (i + 0) + 1)%nat; reflexivity.
  - destruct rv as [|r rv]; [discriminate|]. cbn [combine flat_map fst snd app]. destruct i as [|i].
    + cbn. split; reflexivity.
    + replace (2 * S i)%nat with (S (S (2 * i))) by lia. replace (S (S (2 * i)) + 1)%nat with (S (S (2 * i + 1))) by lia. cbn [nth_error].
      apply IH. cbn in Hl. lia.
Qed.
Theorem both_layout_length {A} (fw rv : list A) : length fw = length rv -> length (both_layout fw rv) = (2 * length fw)%nat.
Proof.
  unfold both_layout. revert rv. induction fw as [|f fw IH]; intros rv Hl; destruct rv as [|r rv]; try discriminate; [reflexivity|].
  cbn [combine flat_map app length]. rewrite IH by (cbn in Hl; lia). lia.
Qed.
