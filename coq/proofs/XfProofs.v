From Coq Require Import List ZArith QArith Bool Lia Arith Field.
Import ListNotations.
From Navis Require Import model.Xf.

(* ---------- affine: the negated transform is the exact inverse ---------- *)
Theorem affine_neg_inverse (t : affine) (p : vec) : ~ (det (lin t) == 0)%Q -> veq (axform (aneg t) (axform t p)) p.
Proof.
  intros Hd. destruct t as [[[a b c] [d e f] [g h i]] [ox oy oz]]. destruct p as [x y z].
  unfold veq, axform, aneg, addv, mulv, dotv, inv; simpl in *. unfold det in *; simpl in *.
  repeat split; field; exact Hd.
Qed.
Theorem affine_inverse_neg (t : affine) (p : vec) : ~ (det (lin t) == 0)%Q -> veq (axform t (axform (aneg t) p)) p.
Proof.
  intros Hd. destruct t as [[[a b c] [d e f] [g h i]] [ox oy oz]]. destruct p as [x y z].
  unfold veq, axform, aneg, addv, mulv, dotv, inv; simpl in *. unfold det in *; simpl in *.
  repeat split; field; exact Hd.
Qed.

(* ---------- sequences ---------- *)
(* a sequence is the composition of its members, applied in order, row by row; NaN rows stay NaN and
   no row influences another (the result at row i is a function of row i alone) *)
Theorem seq_is_composition {P} (fs : list (P -> P)) (rows : list (option P)) :
  seq_xform fs rows = map (row_map (compose_all fs)) rows.
Proof.
  unfold seq_xform, compose_all. revert rows. induction fs as [|f fs IH]; intros rows; simpl.
  - rewrite <- (map_id rows) at 1. apply map_ext. intros [p|]; reflexivity.
  - rewrite IH, map_map. apply map_ext. intros [p|]; reflexivity.
Qed.

Corollary seq_nan_rows_fixed {P} (fs : list (P -> P)) rows i :
  nth_error rows i = Some None -> nth_error (seq_xform fs rows) i = Some None.
Proof. intros H. rewrite seq_is_composition, nth_error_map, H. reflexivity. Qed.

Corollary seq_no_contamination {P} (fs : list (P -> P)) rows rows' i :
  nth_error rows i = nth_error rows' i -> nth_error (seq_xform fs rows) i = nth_error (seq_xform fs rows') i.
Proof. intros H. rewrite !seq_is_composition, !nth_error_map, H. reflexivity. Qed.

(* ---------- bridging paths telescope ----------
   Frames: every template T has a frame map F T in a group (op, e, inv).  A registration from A to B -- used forward, or the
   inverse of a registration from B to A -- maps points as F B o inv (F A).  Then ANY valid path from src to tgt composes to
   F tgt o inv (F src): the direct change of frame, whichever intermediate templates and parallel registrations are used. *)
Section Telescope.
  Context {G : Type} (op : G -> G -> G) (e : G) (ginv : G -> G).
  Context (assoc : forall a b c, op a (op b c) = op (op a b) c)
          (id_l : forall a, op e a = a) (id_r : forall a, op a e = a)
          (inv_l : forall a, op (ginv a) a = e).
  Context (F : Z -> G).
  Definition step_map (a b : Z) : G := op (F b) (ginv (F a)).       (* change of frame a -> b *)
  (* composition along a path: later steps are applied after earlier ones *)
  Fixpoint path_map (p : list Z) : G :=
    match p with
    | a :: ((b :: _) as rest) => op (path_map rest) (step_map a b)
    | _ => e
    end.
  Theorem path_telescopes a p : path_map (a :: p) = op (F (last (a :: p) a)) (ginv (F a)).
  Proof.
    revert a. induction p as [|b p IH]; intros a.
    - simpl. symmetry. rewrite <- (id_r (F a)) at 1. rewrite <- assoc. 
      (* F a o inv (F a): need a right inverse, derived from the left one *)
      assert (inv_r : forall x, op x (ginv x) = e).
      { intros x. rewrite <- (id_l (op x (ginv x))). rewrite <- (inv_l (ginv x)) at 1.
        rewrite <- assoc. rewrite (assoc (ginv x)). rewrite inv_l, id_l. apply inv_l. }
      rewrite id_l. apply inv_r.
    - change (path_map (a :: b :: p)) with (op (path_map (b :: p)) (step_map a b)).
      rewrite IH. unfold step_map. rewrite assoc. rewrite <- (assoc (F (last (b :: p) b))). rewrite inv_l, id_r.
      replace (last (a :: b :: p) a) with (last (b :: p) b); [reflexivity|].
      clear. revert a b. induction p as [|c p IHp]; intros a b; [reflexivity|].
      change (last (b :: c :: p) b) with (last (c :: p) b). change (last (a :: b :: c :: p) a) with (last (c :: p) a).
      clear IHp. revert c. induction p as [|d p IHq]; intros c; [reflexivity|]. apply IHq.
  Qed.
End Telescope.

(* ---------- found paths ---------- *)
Lemma zmem_In x l : zmem x l = true <-> In x l.
Proof.
  unfold zmem. rewrite existsb_exists. split.
  - intros [y [H E]]. apply Z.eqb_eq in E. subst. exact H.
  - intros H. exists x. split; [exact H|apply Z.eqb_refl].
Qed.

(* a path accepted by path_ok starts at the source, ends at the target, honours via and avoid *)
Theorem path_ok_spec es src tgt via avoid p : path_ok es src tgt via avoid p = true ->
  hd (-1)%Z p = src /\ last p (-1)%Z = tgt /\ path_valid es p = true /\
  (forall v, In v via -> In v p) /\ (forall v, In v avoid -> ~ In v p).
Proof.
  unfold path_ok. destruct p as [|h p]; [discriminate|]. rewrite !andb_true_iff.
  intros [[[[[H1 H2] H3] H4] H5] H6]. apply Z.eqb_eq in H1, H2. rewrite forallb_forall in H5, H6.
  repeat split; auto.
  - intros v Hv. apply zmem_In. apply H5. exact Hv.
  - intros v Hv Hin. specialize (H6 v Hv). apply negb_true_iff in H6. apply zmem_In in Hin. congruence.
Qed.

Lemma simple_paths_head fuel es cur tgt visited p : In p (simple_paths fuel es cur tgt visited) -> exists q, p = cur :: q.
Proof.
  destruct fuel as [|f]; simpl; [intros []|]. destruct (cur =? tgt)%Z.
  - intros [<-|[]]. eauto.
  - intros H. apply in_flat_map in H. destruct H as [[[[x y] tid] fw] [_ H]].
    match type of H with context [if ?c then _ else _] => destruct c end; [|contradiction].
    apply in_map_iff in H. destruct H as [q [<- _]]. eauto.
Qed.

(* every path the enumeration returns is a walk over existing edges from cur to tgt *)
Lemma simple_paths_valid fuel es : forall cur tgt visited p, In p (simple_paths fuel es cur tgt visited) ->
  hd (-1)%Z p = cur /\ last p (-1)%Z = tgt /\ path_valid es p = true.
Proof.
  induction fuel as [|f IH]; intros cur tgt visited p H; simpl in H; [contradiction|].
  destruct (Z.eqb_spec cur tgt) as [E|N].
  - destruct H as [<-|[]]. simpl. auto.
  - apply in_flat_map in H. destruct H as [[[[x y] tid] fw] [He H]].
    match type of H with context [if ?c then _ else _] => destruct c eqn:C end; [|contradiction].
    apply in_map_iff in H. destruct H as [q [<- Hq]]. destruct (IH _ _ _ _ Hq) as [A [B Cc]].
    apply andb_prop in C. destruct C as [C1 _]. apply Z.eqb_eq in C1. subst x.
    destruct (simple_paths_head _ _ _ _ _ _ Hq) as [q' ->].
    split; [reflexivity|]. split; [exact B|].
    change (path_valid es (cur :: y :: q')) with (has_edge es cur y && path_valid es (y :: q')). rewrite Cc, andb_true_r.
    unfold has_edge. apply existsb_exists. exists (cur, y, tid, fw). split; [exact He|]. rewrite !Z.eqb_refl. reflexivity.
Qed.

(* ---- completeness of the enumeration: every simple walk from cur to tgt that avoids `visited` and fits the fuel is listed ---- *)
Lemma has_edge_In es a b : has_edge es a b = true -> exists tid fw, In (a, b, tid, fw) es.
Proof.
  unfold has_edge. rewrite existsb_exists. intros [[[[x y] tid] fw] [Hin H]]. apply andb_prop in H. destruct H as [H1 H2].
  apply Z.eqb_eq in H1, H2. subst. eauto.
Qed.

Theorem simple_paths_complete fuel es : forall cur tgt visited p,
  hd (-1)%Z p = cur -> p <> [] -> last p (-1)%Z = tgt -> path_valid es p = true -> NoDup p ->
  (forall v, In v p -> ~ In v visited) -> (length p <= fuel)%nat ->
  In p (simple_paths fuel es cur tgt visited).
Proof.
  induction fuel as [|f IH]; intros cur tgt visited p Hhd Hne Hlast Hval Hnd Hvis Hlen.
  - destruct p; [contradiction | simpl in Hlen; lia].
  - destruct p as [|c q]; [contradiction|]. simpl in Hhd. subst c. cbn [simple_paths].
    destruct (Z.eqb_spec cur tgt) as [E|N].
    + (* a simple walk that starts at its target is the one-node walk *)
      destruct q as [|y q']; [left; reflexivity|]. exfalso.
      assert (Hl : last (cur :: y :: q') (-1)%Z = last (y :: q') (-1)%Z) by reflexivity. rewrite Hl in Hlast.
      assert (Hnin : ~ In cur (y :: q')) by (inversion Hnd; assumption). apply Hnin. rewrite E at 1. rewrite <- Hlast.
      assert (forall (l : list Z) d, l <> [] -> In (last l d) l) as Hin.
      { induction l as [|a l IHl]; intros d Hl0; [contradiction|]. destruct l; [left; reflexivity|]. right. apply IHl. discriminate. }
      apply Hin. discriminate.
    + destruct q as [|y q']; [simpl in Hlast; congruence|].
      change (path_valid es (cur :: y :: q')) with (has_edge es cur y && path_valid es (y :: q')) in Hval.
      apply andb_prop in Hval. destruct Hval as [He Hv]. destruct (has_edge_In es cur y He) as [tid [fw Hin]].
      apply in_flat_map. exists (cur, y, tid, fw). split; [exact Hin|].
      assert (Hnin : ~ In cur (y :: q')) by (inversion Hnd; assumption). assert (Hnd' : NoDup (y :: q')) by (inversion Hnd; assumption).
      assert (Hy : zmem y (cur :: visited) = false).
      { destruct (zmem y (cur :: visited)) eqn:Z; [|reflexivity]. apply zmem_In in Z. destruct Z as [Z|Z].
        - exfalso. apply Hnin. left. symmetry. exact Z.
        - exfalso. apply (Hvis y); [right; left; reflexivity | exact Z]. }
      rewrite Z.eqb_refl, Hy. cbn [andb negb]. apply in_map. apply IH.
      * reflexivity.
      * discriminate.
      * exact Hlast.
      * exact Hv.
      * exact Hnd'.
      * intros v Hv0 [Hc|Hc]; [subst v; contradiction | apply (Hvis v); [right; exact Hv0 | exact Hc]].
      * simpl in Hlen. simpl. lia.
Qed.

(* hence "no admissible path" is decided exactly: admissible_exists is true iff some simple walk of at most nodes+1 nodes is accepted *)
Theorem admissible_exists_iff es nodes src tgt via avoid :
  admissible_exists es nodes src tgt via avoid = true <->
  exists p, (length p <= S nodes)%nat /\ path_ok es src tgt via avoid p = true.
Proof.
  unfold admissible_exists. rewrite existsb_exists. split.
  - intros [p [Hin Hok]]. exists p. split; [|exact Hok].
    assert (forall fuel cur visited q, In q (simple_paths fuel es cur tgt visited) -> (length q <= fuel)%nat) as Hlen.
    { induction fuel as [|f IH]; intros cur visited q H; simpl in H; [contradiction|]. destruct (cur =? tgt)%Z.
      - destruct H as [<-|[]]. simpl. lia.
      - apply in_flat_map in H. destruct H as [[[[x y] tid] fw] [_ H]].
        match type of H with context [if ?c then _ else _] => destruct c end; [|contradiction].
        apply in_map_iff in H. destruct H as [q' [<- Hq]]. specialize (IH _ _ _ Hq). simpl. lia. }
    exact (Hlen _ _ _ _ Hin).
  - intros [p [Hlen Hok]]. exists p. split; [|exact Hok]. unfold path_ok in Hok. destruct p as [|h t]; [discriminate|].
    rewrite !andb_true_iff in Hok. destruct Hok as [[[[[H1 H2] H3] H4] _] _]. apply Z.eqb_eq in H1, H2.
    apply simple_paths_complete; [simpl; exact H1 | discriminate | exact H2 | exact H3 | | intros v _ [] | exact Hlen].
    clear -H4. revert H4. generalize (h :: t). induction l as [|a l IHl]; intros H; [constructor|]. simpl in H. apply andb_prop in H. destruct H as [Ha Hl].
    constructor; [|apply IHl; exact Hl]. intros Hin. apply zmem_In in Hin. rewrite Hin in Ha. discriminate.
Qed.

(* the negated sequence undoes the sequence, whatever the members are, as long as each member's negation undoes that member *)
Theorem neg_seq_inverse {P} (inv : (P -> P) -> (P -> P)) (fs : list (P -> P)) :
  (forall f, In f fs -> forall p, inv f (f p) = p) -> forall p, compose_all (neg_seq inv fs) (compose_all fs p) = p.
Proof.
  unfold neg_seq, compose_all. induction fs as [|f fs IH]; intros H p; [reflexivity|].
  cbn [rev fold_left]. rewrite map_app, fold_left_app. cbn [map fold_left].
  rewrite IH; [|intros g Hg; apply H; right; exact Hg]. apply H. left. reflexivity.
Qed.
(* and the order matters: inverting the members WITHOUT reversing them is not an inverse in general (witness over Z) *)
Example neg_seq_order_matters :
  let f := fun x : Z => (2 * x)%Z in let g := fun x : Z => (x + 3)%Z in
  let fi := fun x : Z => (x / 2)%Z in let gi := fun x : Z => (x - 3)%Z in
  compose_all [gi; fi] (compose_all [f; g] 5%Z) = 5%Z /\ compose_all [fi; gi] (compose_all [f; g] 5%Z) <> 5%Z.
Proof. vm_compute. split; [reflexivity | discriminate]. Qed.
