From Coq Require Import List ZArith QArith Bool Lia Arith Field.
Import ListNotations.
From Navis Require Import model.Xf.

(* ---------- affine: the negated transform is the exact inverse ---------- *)
Theorem affine_neg_inverse (t : affine) (p : vec) : ~ (det (lin t) == 0)%Q -> veq (axform (aneg t) (axform t p)) p.
Proof.
  intros Hd. destruct t as [[[a b c] [d e f] [g h i]] [ox oy oz]]. destruct p as [x y z].
  unfold veq, axform, aneg, addv, mulv, dotv, inv; simpl in *. unfold det in *; simpl in *.
  repeat split; field; exact Hd.
Qed.
Theorem affine_inverse_neg (t : affine) (p : vec) : ~ (det (lin t) == 0)%Q -> veq (axform t (axform (aneg t) p)) p.
Proof.
  intros Hd. destruct t as [[[a b c] [d e f] [g h i]] [ox oy oz]]. destruct p as [x y z].
  unfold veq, axform, aneg, addv, mulv, dotv, inv; simpl in *. unfold det in *; simpl in *.
  repeat split; field; exact Hd.
Qed.

(* ---------- sequences ---------- *)
(* a sequence is the composition of its members, applied in order, row by row; NaN rows stay NaN and
   no row influences another (the result at row i is a function of row i alone) *)
Theorem seq_is_composition {P} (fs : list (P -> P)) (rows : list (option P)) :
  seq_xform fs rows = map (row_map (compose_all fs)) rows.
Proof.
  unfold seq_xform, compose_all. revert rows. induction fs as [|f fs IH]; intros rows; simpl.
  - rewrite <- (map_id rows) at 1. apply map_ext. intros [p|]; reflexivity.
  - rewrite IH, map_map. apply map_ext. intros [p|]; reflexivity.
Qed.

Corollary seq_nan_rows_fixed {P} (fs : list (P -> P)) rows i :
  nth_error rows i = Some None -> nth_error (seq_xform fs rows) i = Some None.
Proof. intros H. rewrite seq_is_composition, nth_error_map, H. reflexivity. Qed.

Corollary seq_no_contamination {P} (fs : list (P -> P)) rows rows' i :
  nth_error rows i = nth_error rows' i -> nth_error (seq_xform fs rows) i = nth_error (seq_xform fs rows') i.
Proof. intros H. rewrite !seq_is_composition, !nth_error_map, H. reflexivity. Qed.

(* ---------- bridging paths telescope ----------
   Frames: every template T has a frame map F T in a group (op, e, inv).  A registration from A to B -- used forward, or the
   inverse of a registration from B to A -- maps points as F B o inv (F A).  Then ANY valid path from src to tgt composes to
   F tgt o inv (F src): the direct change of frame, whichever intermediate templates and parallel registrations are used. *)
Section Telescope.
  Context {G : Type} (op : G -> G -> G) (e : G) (ginv : G -> G).
  Context (assoc : forall a b c, op a (op b c) = op (op a b) c)
          (id_l : forall a, op e a = a) (id_r : forall a, op a e = a)
          (inv_l : forall a, op (ginv a) a = e).
  Context (F : Z -> G).
  Definition step_map (a b : Z) : G := op (F b) (ginv (F a)).       (* change of frame a -> b *)
  (* composition along a path: later steps are applied after earlier ones *)
  Fixpoint path_map (p : list Z) : G :=
    match p with
    | a :: ((b :: _) as rest) => op (path_map rest) (step_map a b)
    | _ => e
    end.
  Theorem path_telescopes a p : path_map (a :: p) = op (F (last (a :: p) a)) (ginv (F a)).
  Proof.
    revert a. induction p as [|b p IH]; intros a.
    - simpl. symmetry. rewrite <- (id_r (F a)) at 1. rewrite <- assoc. 
      (* F a o inv (F a): need a right inverse, derived from the left one *)
      assert (inv_r : forall x, op x (ginv x) = e).
      { intros x. rewrite <- (id_l (op x (ginv x))). rewrite <- (inv_l (ginv x)) at 1.
        rewrite <- assoc. rewrite (assoc (ginv x)). rewrite inv_l, id_l. apply inv_l. }
      rewrite id_l. apply inv_r.
    - change (path_map (a :: b :: p)) with (op (path_map (b :: p)) (step_map a b)).
      rewrite IH. unfold step_map. rewrite assoc. rewrite <- (assoc (F (last (b :: p) b))). rewrite inv_l, id_r.
      replace (last (a :: b :: p) a) with (last (b :: p) b); [reflexivity|].
      clear. revert a b. induction p as [|c p IHp]; intros a b; [reflexivity|].
      change (last (b :: c :: p) b) with (last (c :: p) b). change (last (a :: b :: c :: p) a) with (last (c :: p) a).
      clear IHp. revert c. induction p as [|d p IHq]; intros c; [reflexivity|]. apply IHq.
  Qed.
End Telescope.

(* ---------- found paths ---------- *)
Lemma zmem_In x l : zmem x l = true <-> In x l.
Proof.
  unfold zmem. rewrite existsb_exists. split.
  - intros [y [H E]]. apply Z.eqb_eq in E. subst. exact H.
  - intros H. exists x. split; [exact H|apply Z.eqb_refl].
Qed.

(* a path accepted by path_ok starts at the source, ends at the target, honours via and avoid *)
Theorem path_ok_spec es src tgt via avoid p : path_ok es src tgt via avoid p = true ->
  hd (-1)%Z p = src /\ last p (-1)%Z = tgt /\ path_valid es p = true /\
  (forall v, In v via -> In v p) /\ (forall v, In v avoid -> ~ In v p).
Proof.
  unfold path_ok. destruct p as [|h p]; [discriminate|]. rewrite !andb_true_iff.
  intros [[[[[H1 H2] H3] H4] H5] H6]. apply Z.eqb_eq in H1, H2. rewrite forallb_forall in H5, H6.
  repeat split; auto.
  - intros v Hv. apply zmem_In. apply H5. exact Hv.
  - intros v Hv Hin. specialize (H6 v Hv). apply negb_true_iff in H6. apply zmem_In in Hin. congruence.
Qed.

Lemma simple_paths_head fuel es cur tgt visited p : In p (simple_paths fuel es cur tgt visited) -> exists q, p = cur :: q.
Proof.
  destruct fuel as [|f]; simpl; [intros []|]. destruct (cur =? tgt)%Z.
  - intros [<-|[]]. eauto.
  - intros H. apply in_flat_map in H. destruct H as [[[[x y] tid] fw] [_ H]].
    match type of H with context [if ?c then _ else _] => destruct c end; [|contradiction].
    apply in_map_iff in H. destruct H as [q [<- _]]. eauto.
Qed.

(* every path the enumeration returns is a walk over existing edges from cur to tgt *)
Lemma simple_paths_valid fuel es : forall cur tgt visited p, In p (simple_paths fuel es cur tgt visited) ->
  hd (-1)%Z p = cur /\ last p (-1)%Z = tgt /\ path_valid es p = true.
Proof.
  induction fuel as [|f IH]; intros cur tgt visited p H; simpl in H; [contradiction|].
  destruct (Z.eqb_spec cur tgt) as [E|N].
  - destruct H as [<-|[]]. simpl. auto.
  - apply in_flat_map in H. destruct H as [[[[x y] tid] fw] [He H]].
    match type of H with context [if ?c then _ else _] => destruct c eqn:C end; [|contradiction].
    apply in_map_iff in H. destruct H as [q [<- Hq]]. destruct (IH _ _ _ _ Hq) as [A [B Cc]].
    apply andb_prop in C. destruct C as [C1 _]. apply Z.eqb_eq in C1. subst x.
    destruct (simple_paths_head _ _ _ _ _ _ Hq) as [q' ->].
    split; [reflexivity|]. split; [exact B|].
    change (path_valid es (cur :: y :: q')) with (has_edge es cur y && path_valid es (y :: q')). rewrite Cc, andb_true_r.
    unfold has_edge. apply existsb_exists. exists (cur, y, tid, fw). split; [exact He|]. rewrite !Z.eqb_refl. reflexivity.
Qed.
