From Coq Require Import List ZArith QArith Bool Lia Field.
Import ListNotations.
From Navis Require Import model.Units.

(* scaling preserves every physical quantity: position x units (per axis), for nodes and connectors alike *)
Theorem scale_preserves_physical x k kr : nz3 k -> veq3 (phys (nmul x k kr)) (phys x) /\ veq3 (phys_conn (nmul x k kr)) (phys_conn x).
Proof.
  intros [H1 [H2 H3]]. destruct x as [[nx ny nz] [cx cy cz] r [ux uy uz]]. destruct k as [kx ky kz].
  unfold veq3, phys, phys_conn, nmul, vmul, vdiv; simpl in *. repeat split; field; assumption.
Qed.
Theorem divide_preserves_physical x k kr : nz3 k -> veq3 (phys (ndiv x k kr)) (phys x) /\ veq3 (phys_conn (ndiv x k kr)) (phys_conn x).
Proof.
  intros [H1 [H2 H3]]. destruct x as [[nx ny nz] [cx cy cz] r [ux uy uz]]. destruct k as [kx ky kz].
  unfold veq3, phys, phys_conn, ndiv, vmul, vdiv; simpl in *. repeat split; field; assumption.
Qed.

(* x * k / k restores x: coordinates, connectors, radius and units *)
Theorem mul_div_id x k kr : nz3 k -> ~ kr == 0 ->
  let y := ndiv (nmul x k kr) k kr in
  veq3 (node y) (node x) /\ veq3 (conn y) (conn x) /\ radius y == radius x /\ veq3 (units y) (units x).
Proof.
  intros [H1 [H2 H3]] Hr. destruct x as [[nx ny nz] [cx cy cz] r [ux uy uz]]. destruct k as [kx ky kz].
  unfold veq3, ndiv, nmul, vmul, vdiv; simpl in *. repeat split; field; assumption.
Qed.
Theorem add_sub_id x o : let y := nsub (nadd x o) o in
  veq3 (node y) (node x) /\ veq3 (conn y) (conn x) /\ radius y == radius x /\ veq3 (units y) (units x).
Proof.
  destruct x as [[nx ny nz] [cx cy cz] r [ux uy uz]]. destruct o as [ox oy oz].
  unfold veq3, nsub, nadd, vadd, vsub; simpl. repeat split; try ring; reflexivity.
Qed.
(* connectors move with the nodes: their offset from the node scales / is preserved exactly like the coordinates *)
Theorem connectors_move_with_nodes_add x o : veq3 (vsub (conn (nadd x o)) (node (nadd x o))) (vsub (conn x) (node x)).
Proof.
  destruct x as [[nx ny nz] [cx cy cz] r [ux uy uz]]. destruct o as [ox oy oz].
  unfold veq3, nadd, vadd, vsub; simpl. repeat split; ring.
Qed.
Theorem connectors_move_with_nodes_mul x k kr : veq3 (vsub (conn (nmul x k kr)) (node (nmul x k kr))) (vmul (vsub (conn x) (node x)) k).
Proof.
  destruct x as [[nx ny nz] [cx cy cz] r [ux uy uz]]. destruct k as [kx ky kz].
  unfold veq3, nmul, vmul, vsub; simpl. repeat split; ring.
Qed.
(* radius changes only under scaling *)
Theorem radius_fixed_by_offsets x o : radius (nadd x o) = radius x /\ radius (nsub x o) = radius x.
Proof. split; reflexivity. Qed.

(* convert_units: the requested unit on every axis, physical sizes preserved *)
Theorem convert_units_spec x target : nz3 (units x) -> ~ target == 0 ->
  veq3 (units (convert x target)) (iso target) /\ veq3 (phys (convert x target)) (phys x).
Proof.
  intros [H1 [H2 H3]] Ht. destruct x as [[nx ny nz] [cx cy cz] r [ux uy uz]].
  unfold veq3, convert, phys, nmul, vmul, vdiv, iso; simpl in *. repeat split; field; auto.
Qed.

(* spellings of the same unit are normalised to the same magnitude *)
Theorem spellings_normalise_equal :
  same_unit 0 1 = true /\ same_unit 0 2 = true /\ same_unit 4 5 = true /\ same_unit 5 6 = true /\ same_unit 6 7 = true /\
  same_unit 4 9 = true /\ same_unit 0 3 = false /\ same_unit 4 8 = false.
Proof. vm_compute. repeat split. Qed.
