From Coq Require Import List ZArith Bool Lia Arith Permutation.
Import ListNotations.
From Navis Require Import model.Forest model.Ops proofs.ForestWF proofs.RerootProofs proofs.SubsetCut.
Open Scope Z_scope.

(* ---------- generic: re-pointing rows at -1 or at nodes of smaller rank keeps WF ---------- *)
Lemma map_setpar_wf (t : table) (f : row -> Z) (rk : Z -> nat) :
  NoDup (ids t) -> nonneg_ids t -> 
  (forall r, In r t -> 0 <= f r -> In (f r) (ids t) /\ (rk (f r) < rk (rid r))%nat) ->
  WF (map (fun r => set_par r (f r)) t).
Proof.
  intros Hnd Hnn Hf.
  assert (Hids : ids (map (fun r => set_par r (f r)) t) = ids t).
  { unfold ids. rewrite map_map. apply map_ext. reflexivity. }
  constructor.
  - rewrite Hids. exact Hnd.
  - intros r Hr. apply in_map_iff in Hr. destruct Hr as [q [<- Hq]]. simpl. apply Hnn. exact Hq.
  - intros r Hr Hp. rewrite Hids. apply in_map_iff in Hr. destruct Hr as [q [<- Hq]]. simpl in *.
    apply (Hf q Hq Hp).
  - exists rk. intros r Hr Hp. apply in_map_iff in Hr. destruct Hr as [q [<- Hq]]. simpl in *.
    apply (Hf q Hq Hp).
Qed.

(* ---------- make_root / cut ---------- *)
Lemma make_root_wf c t : WF t -> WF (make_root c t).
Proof.
  intros [Hnd Hnn Hcl [rk Hrk]]. constructor.
  - rewrite make_root_ids. exact Hnd.
  - intros r Hr. unfold make_root in Hr. apply in_map_iff in Hr. destruct Hr as [q [<- Hq]].
    destruct (rid q =? c); simpl; apply Hnn; exact Hq.
  - intros r Hr Hp. rewrite make_root_ids. unfold make_root in Hr. apply in_map_iff in Hr.
    destruct Hr as [q [<- Hq]]. destruct (rid q =? c); simpl in *; [lia|]. apply Hcl; assumption.
  - exists rk. intros r Hr Hp. unfold make_root in Hr. apply in_map_iff in Hr.
    destruct Hr as [q [<- Hq]]. destruct (rid q =? c); simpl in *; [lia|]. apply Hrk; assumption.
Qed.

Theorem cut_distal_wf c t : WF t -> WF (cut_distal c t).
Proof. intros H. unfold cut_distal. apply make_root_wf. apply subset_wf. exact H. Qed.
Theorem cut_proximal_wf c t : WF t -> WF (cut_proximal c t).
Proof. intros H. unfold cut_proximal. apply subset_wf. exact H. Qed.

(* ---------- contraction ---------- *)
Lemma first_in_spec K l : first_in K l = -1 \/ (In (first_in K l) l /\ memZ (first_in K l) K = true).
Proof.
  induction l as [|x l IH]; simpl; [left; reflexivity|].
  destruct (memZ x K) eqn:E; [right; auto|]. destruct IH as [IH|[IH1 IH2]]; [left|right]; auto.
Qed.

Lemma anc_rank t rk r y : WF t -> ranked t rk -> In r t -> 0 <= rpar r -> In y (anc t (rpar r)) -> (rk y < rk (rid r))%nat.
Proof.
  intros Hwf Hrk Hr Hp Hy. assert (Hwf' := Hwf). destruct Hwf' as [Hnd Hnn Hcl _].
  assert (Hpi : In (rpar r) (ids t)) by (apply Hcl; assumption).
  destruct (In_ids_row _ _ Hpi) as [q [Hq Eq]].
  destruct (Path_total t Hwf q Hq) as [l Hl]. rewrite Eq in Hl.
  rewrite (anc_Path t _ _ Hwf Hl) in Hy.
  assert (Hle := Path_rank t rk _ _ Hnd Hrk Hl _ Hy). specialize (Hrk r Hr Hp). lia.
Qed.

Lemma anc_incl t x : WF t -> forall y, In y (anc t x) -> In y (ids t).
Proof.
  intros Hwf y Hy. destruct (in_dec Z.eq_dec x (ids t)) as [Hx|Hx].
  - destruct (In_ids_row _ _ Hx) as [q [Hq Eq]]. destruct (Path_total t Hwf q Hq) as [l Hl]. rewrite Eq in Hl.
    rewrite (anc_Path t _ _ Hwf Hl) in Hy. eapply Path_incl; eassumption.
  - exfalso. unfold anc in Hy. destruct (length t); simpl in Hy; [contradiction|].
    destruct (lookup t x) as [r|] eqn:E; [|contradiction]. apply lookup_In in E. destruct E as [E1 E2].
    apply Hx. rewrite <- E2. unfold ids. apply in_map. exact E1.
Qed.

Theorem contract_wf K t : WF t -> WF (contract K t).
Proof.
  intros Hwf. assert (Hwf' := Hwf). destruct Hwf' as [Hnd Hnn Hcl [rk Hrk]].
  unfold contract. apply (map_setpar_wf _ _ rk).
  - rewrite ids_keep_rows. apply NoDup_filter. exact Hnd.
  - intros r Hr. apply filter_In in Hr. apply Hnn. tauto.
  - intros r Hr Hp. unfold keep_rows in Hr. apply filter_In in Hr. destruct Hr as [Hr HK].
    destruct (Z.ltb_spec (rpar r) 0) as [L|L]; [lia|].
    destruct (first_in_spec K (anc t (rpar r))) as [E|[E1 E2]]; [lia|]. split.
    + rewrite ids_keep_rows. apply filter_In. split; [|exact E2]. apply (anc_incl t (rpar r) Hwf). exact E1.
    + apply (anc_rank t rk r _ Hwf Hrk Hr L E1).
Qed.

(* the new parent is the NEAREST kept proper ancestor: the chain above r splits into a prefix of
   dropped nodes followed by the new parent (or by nothing, and then r becomes a root) *)
Lemma first_in_split K l : exists l1 l2, l = l1 ++ l2 /\ (forall y, In y l1 -> memZ y K = false) /\
  ((l2 = [] /\ first_in K l = -1) \/ (exists l2', l2 = first_in K l :: l2' /\ memZ (first_in K l) K = true)).
Proof.
  induction l as [|x l IH]; simpl.
  - exists [], []. split; [reflexivity|]. split; [intros y []|]. left. auto.
  - destruct (memZ x K) eqn:E.
    + exists [], (x :: l). split; [reflexivity|]. split; [intros y []|]. right. exists l. auto.
    + destruct IH as [l1 [l2 [E1 [H1 H2]]]]. exists (x :: l1), l2. split; [simpl; congruence|].
      split; [|exact H2]. intros y [<-|Hy]; [exact E|apply H1; exact Hy].
Qed.

Theorem contract_parent_nearest K t r : In r t -> memZ (rid r) K = true -> 0 <= rpar r ->
  let p := first_in K (anc t (rpar r)) in
  In (set_par r p) (contract K t) /\
  exists l1 l2, anc t (rpar r) = l1 ++ l2 /\ (forall y, In y l1 -> memZ y K = false) /\
    ((l2 = [] /\ p = -1) \/ (exists l2', l2 = p :: l2' /\ memZ p K = true)).
Proof.
  intros Hr HK Hp p. split.
  - unfold contract. apply in_map_iff. exists r. split.
    + destruct (Z.ltb_spec (rpar r) 0); [lia|reflexivity].
    + apply filter_In. auto.
  - apply first_in_split.
Qed.

Theorem contract_ids K t : ids (contract K t) = filter (fun i => memZ i K) (ids t).
Proof. unfold contract, ids. rewrite map_map. simpl. fold (ids (keep_rows K t)). apply ids_keep_rows. Qed.

(* ---------- insertion ---------- *)
Theorem insert_above_wf c n d t t' : WF t -> insert_above c n d t = Some t' -> WF t'.
Proof.
  intros Hwf. assert (Hwf' := Hwf). destruct Hwf' as [Hnd Hnn Hcl [rk Hrk]].
  unfold insert_above. destruct (lookup t c) as [rc|] eqn:El; [|discriminate].
  destruct ((0 <=? rpar rc) && (0 <=? n) && negb (memZ n (ids t))) eqn:G; [|discriminate].
  intros E. inversion E; subst t'. clear E.
  apply andb_prop in G. destruct G as [G G3]. apply andb_prop in G. destruct G as [G1 G2].
  apply Z.leb_le in G1, G2. apply negb_true_iff in G3.
  assert (Hfresh : ~ In n (ids t)) by (intro H; apply memZ_In in H; congruence).
  apply lookup_In in El. destruct El as [Hrc Ec].
  set (t1 := map (fun r => if rid r =? c then set_par r n else r) t).
  assert (Hids1 : ids t1 = ids t).
  { unfold ids, t1. rewrite map_map. apply map_ext. intros r. destruct (rid r =? c); reflexivity. }
  assert (Hids : ids (t1 ++ [{| rid := n; rpar := rpar rc; rdat := d |}]) = ids t ++ [n]).
  { unfold ids. rewrite map_app. fold (ids t1). rewrite Hids1. reflexivity. }
  constructor.
  - rewrite Hids.
    apply Permutation.Permutation_NoDup with (l := n :: ids t).
    + apply Permutation.Permutation_cons_append.
    + constructor; assumption.
  - intros r Hr. apply in_app_or in Hr. destruct Hr as [Hr|[<-|[]]]; [|simpl; lia].
    apply in_map_iff in Hr. destruct Hr as [q [<- Hq]]. destruct (rid q =? c); simpl; apply Hnn; exact Hq.
  - intros r Hr Hp. rewrite Hids. apply in_or_app. apply in_app_or in Hr. destruct Hr as [Hr|[<-|[]]].
    + apply in_map_iff in Hr. destruct Hr as [q [<- Hq]]. destruct (rid q =? c); simpl in *.
      * right. left. reflexivity.
      * left. apply Hcl; assumption.
    + simpl in *. left. apply Hcl; assumption.
  - exists (fun x => if x =? n then (2 * rk c - 1)%nat else (2 * rk x)%nat).
    intros r Hr Hp. apply in_app_or in Hr. destruct Hr as [Hr|[<-|[]]].
    + apply in_map_iff in Hr. destruct Hr as [q [<- Hq]].
      assert (Hqn : rid q <> n). { intro E. apply Hfresh. rewrite <- E. unfold ids. apply in_map. exact Hq. }
      destruct (Z.eqb_spec (rid q) c) as [Eq|Nq]; simpl in *.
      * rewrite Z.eqb_refl. destruct (Z.eqb_spec (rid q) n); [contradiction|].
        assert (q = rc) by (apply (row_eq_by_id t); congruence). subst q.
        specialize (Hrk rc Hrc G1). rewrite Ec in *. lia.
      * destruct (Z.eqb_spec (rid q) n); [contradiction|].
        assert (Hpn : rpar q <> n). { intro E. apply Hfresh. rewrite <- E. apply Hcl; assumption. }
        destruct (Z.eqb_spec (rpar q) n); [contradiction|]. specialize (Hrk q Hq Hp). lia.
    + simpl in *. rewrite Z.eqb_refl.
      assert (Hpn : rpar rc <> n). { intro E. apply Hfresh. rewrite <- E. apply Hcl; assumption. }
      destruct (Z.eqb_spec (rpar rc) n); [contradiction|]. specialize (Hrk rc Hrc G1). rewrite Ec in Hrk. lia.
Qed.

(* ---------- concatenation of tables with disjoint ids ---------- *)
Lemma disjointb_spec a b : disjointb a b = true -> forall x, In x a -> ~ In x b.
Proof.
  unfold disjointb. rewrite forallb_forall. intros H x Hx Hb. specialize (H x Hx).
  apply negb_true_iff in H. apply memZ_In in Hb. congruence.
Qed.

Theorem concat_wf t1 t2 t' : WF t1 -> WF t2 -> concat t1 t2 = Some t' -> WF t'.
Proof.
  intros [Hnd1 Hnn1 Hcl1 [rk1 Hrk1]] [Hnd2 Hnn2 Hcl2 [rk2 Hrk2]]. unfold concat.
  destruct (disjointb (ids t1) (ids t2)) eqn:D; [|discriminate]. intros E. inversion E; subst t'. clear E.
  assert (Hd := disjointb_spec _ _ D).
  assert (Hids : ids (t1 ++ t2) = ids t1 ++ ids t2) by (unfold ids; apply map_app).
  constructor.
  - rewrite Hids. clear - Hnd1 Hnd2 Hd. induction (ids t1) as [|x l IH]; simpl; [exact Hnd2|].
    inversion Hnd1; subst. constructor.
    + intro H. apply in_app_or in H. destruct H; [contradiction|]. apply (Hd x); [left; reflexivity|assumption].
    + apply IH; [assumption|]. intros y Hy. apply Hd. right. exact Hy.
  - intros r Hr. apply in_app_or in Hr. destruct Hr; [apply Hnn1|apply Hnn2]; assumption.
  - intros r Hr Hp. rewrite Hids. apply in_or_app. apply in_app_or in Hr. destruct Hr; [left; apply Hcl1|right; apply Hcl2]; assumption.
  - exists (fun x => if memZ x (ids t1) then rk1 x else rk2 x). intros r Hr Hp. apply in_app_or in Hr. destruct Hr as [Hr|Hr].
    + assert (A : memZ (rid r) (ids t1) = true) by (apply memZ_In; unfold ids; apply in_map; exact Hr).
      assert (B : memZ (rpar r) (ids t1) = true) by (apply memZ_In; apply Hcl1; assumption).
      rewrite A, B. apply Hrk1; assumption.
    + assert (A : memZ (rid r) (ids t1) = false).
      { destruct (memZ (rid r) (ids t1)) eqn:M; [|reflexivity]. apply memZ_In in M. exfalso. apply (Hd _ M). unfold ids. apply in_map. exact Hr. }
      assert (B : memZ (rpar r) (ids t1) = false).
      { destruct (memZ (rpar r) (ids t1)) eqn:M; [|reflexivity]. apply memZ_In in M. exfalso. apply (Hd _ M). apply Hcl2; assumption. }
      rewrite A, B. apply Hrk2; assumption.
Qed.

(* ---------- relabelling ---------- *)
Lemma NoDup_map_inj {A} (f : A -> Z) l a b : NoDup (map f l) -> In a l -> In b l -> f a = f b -> a = b.
Proof.
  induction l as [|x l IH]; simpl; intros Hnd Ha Hb E; [contradiction|].
  inversion Hnd as [|? ? Hn Hd]; subst.
  destruct Ha as [->|Ha]; destruct Hb as [->|Hb]; auto.
  - exfalso. apply Hn. rewrite E. apply in_map. exact Hb.
  - exfalso. apply Hn. rewrite <- E. apply in_map. exact Ha.
Qed.

Lemma ids_relabel_rows m t : ids (relabel_rows m t) = map (assoc m) (ids t).
Proof. unfold ids, relabel_rows. rewrite !map_map. reflexivity. Qed.

Theorem relabel_wf m t t' : WF t -> relabel m t = Some t' -> WF t'.
Proof.
  intros [Hnd Hnn Hcl [rk Hrk]]. unfold relabel.
  destruct (nodupb (ids (relabel_rows m t)) && forallb (fun r => 0 <=? rid r) (relabel_rows m t)) eqn:G; [|discriminate].
  intros E. inversion E; subst t'. clear E. apply andb_prop in G. destruct G as [G1 G2].
  apply nodupb_NoDup in G1. rewrite forallb_forall in G2.
  set (pre := fun y => match find (fun q => assoc m (rid q) =? y) t with Some q => rid q | None => 0 end).
  assert (Hpre : forall q, In q t -> pre (assoc m (rid q)) = rid q).
  { intros q Hq. unfold pre. destruct (find (fun q0 => assoc m (rid q0) =? assoc m (rid q)) t) as [q2|] eqn:F.
    - apply find_some in F. destruct F as [F1 F2]. apply Z.eqb_eq in F2.
      rewrite ids_relabel_rows in G1.
      apply (NoDup_map_inj (assoc m) (ids t)); auto; unfold ids; apply in_map; assumption.
    - exfalso. apply (find_none _ _ F q) in Hq. rewrite Z.eqb_refl in Hq. discriminate. }
  constructor.
  - exact G1.
  - intros r Hr. apply Z.leb_le. apply G2. exact Hr.
  - intros r Hr Hp. rewrite ids_relabel_rows. unfold relabel_rows in Hr. apply in_map_iff in Hr.
    destruct Hr as [q [<- Hq]]. simpl in *. destruct (Z.ltb_spec (rpar q) 0) as [L|L]; [lia|].
    apply in_map. apply Hcl; assumption.
  - exists (fun y => rk (pre y)). intros r Hr Hp. unfold relabel_rows in Hr. apply in_map_iff in Hr.
    destruct Hr as [q [<- Hq]]. simpl in *. destruct (Z.ltb_spec (rpar q) 0) as [L|L]; [lia|].
    rewrite (Hpre q Hq).
    assert (Hpi : In (rpar q) (ids t)) by (apply Hcl; assumption).
    destruct (In_ids_row _ _ Hpi) as [qp [Hqp Eqp]]. rewrite <- Eqp. rewrite (Hpre qp Hqp). rewrite Eqp.
    apply Hrk; assumption.
Qed.

(* ---------- joining two fragments (heal / stitch step) ---------- *)
Theorem join_wf a b t t' : WF t -> join a b t = Some t' -> WF t'.
Proof.
  intros Hwf. unfold join.
  destruct (memZ a (ids t) && memZ b (ids t) && negb (memZ b (anc (reroot b t) a))) eqn:G; [|discriminate].
  intros E. inversion E; subst t'. clear E.
  apply andb_prop in G. destruct G as [G G3]. apply andb_prop in G. destruct G as [G1 G2].
  apply memZ_In in G1, G2. apply negb_true_iff in G3.
  destruct (In_ids_row _ _ G2) as [rb [Hrb Eb]].
  assert (Hwf1 : WF (reroot b t)) by (rewrite <- Eb; apply reroot_wf; assumption).
  set (t1 := reroot b t) in *.
  assert (Hids1 : ids t1 = ids t) by (unfold t1, reroot; apply ids_reroot_rows).
  assert (Hwf1' := Hwf1). destruct Hwf1' as [Hnd Hnn Hcl [rk Hrk]].
  unfold set_parent_of.
  assert (Hids2 : ids (map (fun r => if rid r =? b then set_par r a else r) t1) = ids t1).
  { unfold ids. rewrite map_map. apply map_ext. intros r. destruct (rid r =? b); reflexivity. }
  constructor.
  - rewrite Hids2. exact Hnd.
  - intros r Hr. apply in_map_iff in Hr. destruct Hr as [q [<- Hq]]. destruct (rid q =? b); simpl; apply Hnn; exact Hq.
  - intros r Hr Hp. rewrite Hids2. apply in_map_iff in Hr. destruct Hr as [q [<- Hq]].
    destruct (rid q =? b); simpl in *; [rewrite Hids1; exact G1|apply Hcl; assumption].
  - exists (fun x => if memZ b (anc t1 x) then (rk x + rk a + 1)%nat else rk x).
    intros r Hr Hp. apply in_map_iff in Hr. destruct Hr as [q [<- Hq]].
    destruct (Z.eqb_spec (rid q) b) as [Eq|Nq]; simpl in *.
    + rewrite G3. destruct (anc_head t1 q Hwf1 Hq) as [l El]. rewrite El. simpl.
      rewrite <- Eq, Z.eqb_refl. simpl. lia.
    + assert (S := is_desc_step t1 b q Hwf1 Hq Hp). unfold is_desc in S. rewrite S.
      destruct (Z.eqb_spec b (rid q)); [congruence|]. simpl.
      specialize (Hrk q Hq Hp). destruct (memZ b (anc t1 (rpar q))); lia.
Qed.

(* ================= the C01 history theorem ================= *)
Theorem step_wf t o t' : WF t -> step t o = Some t' -> WF t'.
Proof.
  intros Hwf. destruct o as [ks|K|r|c|c|c n d|m|t2|a b|]; simpl.
  - intros E; inversion E; subst. apply subset_wf. exact Hwf.
  - intros E; inversion E; subst. apply contract_wf. exact Hwf.
  - destruct (memZ r (ids t)) eqn:M; [|discriminate]. intros E; inversion E; subst.
    apply memZ_In in M. destruct (In_ids_row _ _ M) as [q [Hq <-]]. apply reroot_wf; assumption.
  - destruct (memZ c (ids t)); [|discriminate]. intros E; inversion E; subst. apply cut_distal_wf. exact Hwf.
  - destruct (memZ c (ids t)); [|discriminate]. intros E; inversion E; subst. apply cut_proximal_wf. exact Hwf.
  - apply insert_above_wf. exact Hwf.
  - apply relabel_wf. exact Hwf.
  - destruct (wfb t2) eqn:W; [|discriminate]. apply concat_wf; [exact Hwf|apply wfb_sound; exact W].
  - apply join_wf. exact Hwf.
  - intros E; inversion E; subst. exact Hwf.
Qed.

Theorem run_wf ops t : WF t -> WF (run ops t).
Proof.
  unfold run. revert t. induction ops as [|o ops IH]; simpl; intros t Hwf; [exact Hwf|].
  apply IH. unfold step'. destruct (step t o) as [t'|] eqn:E; [|exact Hwf]. eapply step_wf; eassumption.
Qed.

(* non-vacuity: a 9-node forest with 3 roots, unsorted sparse ids *)
Definition example_forest : table :=
  mk [(40, 7); (7, -1); (3, 7); (12, 3); (5, 3); (100, -1); (2, 100); (61, -1); (9, 12)].
Example example_forest_wf : WF example_forest.
Proof. apply wfb_sound. vm_compute. reflexivity. Qed.
Example example_history_nontrivial :
  out (run [OReroot 12; OCutProximal 3; OInsert 9 77 0; OJoin 9 61; OContract [12; 9; 61; 3]] example_forest)
  = [(3, 12); (12, -1); (61, 9); (9, 12)].
Proof. vm_compute. reflexivity. Qed.
