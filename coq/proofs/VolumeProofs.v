From Coq Require Import List ZArith QArith Bool Lia Lqa.
Import ListNotations.
From Navis Require Import model.Volume.
Open Scope Q_scope.

(* IN and OUT are complementary at every point: together they partition the points *)
Theorem in_out_partition s pts : map negb (keep_in s pts) = keep_out s pts.
Proof. unfold keep_in, keep_out. rewrite map_map. reflexivity. Qed.
Theorem in_out_exclusive s pts i b1 b2 : nth_error (keep_in s pts) i = Some b1 -> nth_error (keep_out s pts) i = Some b2 -> b1 = negb b2.
Proof.
  rewrite <- in_out_partition, nth_error_map. intros H. rewrite H. simpl. intros E. inversion E. rewrite negb_involutive. reflexivity.
Qed.

(* each volume is answered independently under its own name *)
Theorem volumes_independent vs pts name s : In (name, s) vs -> In (name, keep_in s pts) (in_volumes vs pts).
Proof. intros H. unfold in_volumes. apply in_map_iff. exists (name, s). auto. Qed.
Theorem volumes_names vs pts : map fst (in_volumes vs pts) = map fst vs.
Proof. unfold in_volumes. rewrite map_map. reflexivity. Qed.

(* membership in a box is membership of every coordinate in its interval *)
Theorem in_box_spec b p : in_box b p = true <->
  (qx (lo b) <= qx p <= qx (hi b) /\ qy (lo b) <= qy p <= qy (hi b) /\ qz (lo b) <= qz p <= qz (hi b)).
Proof. unfold in_box. rewrite !andb_true_iff, !Qle_bool_iff. tauto. Qed.

(* snapping returns a truly nearest point *)
Lemma argmin_invariant q : forall pts allp best k,
  (best < k)%nat -> length allp = (k + length pts)%nat ->
  (exists pb, nth_error allp best = Some pb /\ forall j pj, (j < k)%nat -> nth_error allp j = Some pj -> d2 q pb <= d2 q pj) ->
  (forall i, nth_error pts i = nth_error allp (k + i)) ->
  forall pb0, nth_error allp best = Some pb0 ->
  let r := argmin_from q best (d2 q pb0) k pts in
  exists pr, nth_error allp r = Some pr /\ forall j pj, nth_error allp j = Some pj -> d2 q pr <= d2 q pj.
Proof.
  induction pts as [|p rest IH]; intros allp best k Hbk Hlen [pb [Hpb Hmin]] Hsuf pb0 Hpb0; simpl.
  - rewrite Hpb0 in Hpb. inversion Hpb; subst pb. exists pb0. split; [exact Hpb0|]. intros j pj Hj. apply (Hmin j pj); [|exact Hj].
    assert (j < length allp)%nat by (apply nth_error_Some; congruence). simpl in Hlen. lia.
  - rewrite Hpb0 in Hpb. inversion Hpb; subst pb.
    assert (Hk : nth_error allp k = Some p) by (rewrite <- (Nat.add_0_r k); rewrite <- Hsuf; reflexivity).
    destruct (Qle_bool (d2 q pb0) (d2 q p)) eqn:E.
    + apply Qle_bool_iff in E. apply (IH allp best (S k)); [lia|simpl in Hlen; lia| | |exact Hpb0].
      * exists pb0. split; [exact Hpb0|]. intros j pj Hj Hnj. destruct (Nat.eq_dec j k) as [->|N].
        -- rewrite Hk in Hnj. inversion Hnj; subst. exact E.
        -- apply (Hmin j pj); [lia|exact Hnj].
      * intros i. replace (S k + i)%nat with (k + S i)%nat by lia. apply (Hsuf (S i)).
    + assert (L : d2 q p < d2 q pb0) by (apply Qnot_le_lt; intro H; apply Qle_bool_iff in H; congruence).
      apply (IH allp k (S k)); [lia|simpl in Hlen; lia| | |exact Hk].
      * exists p. split; [exact Hk|]. intros j pj Hj Hnj. destruct (Nat.eq_dec j k) as [->|N].
        -- rewrite Hk in Hnj. inversion Hnj; subst. apply Qle_refl.
        -- specialize (Hmin j pj ltac:(lia) Hnj). lra.
      * intros i. replace (S k + i)%nat with (k + S i)%nat by lia. apply (Hsuf (S i)).
Qed.

Theorem snap_is_nearest q pts k : nearest q pts = Some k ->
  exists pk, nth_error pts k = Some pk /\ forall j pj, nth_error pts j = Some pj -> d2 q pk <= d2 q pj.
Proof.
  unfold nearest. destruct pts as [|p rest]; [discriminate|]. intros E. inversion E; subst. clear E.
  apply (argmin_invariant q rest (p :: rest) 0%nat 1%nat); auto.
  - exists p. split; [reflexivity|]. intros j pj Hj Hnj. assert (j = 0)%nat by lia. subst. simpl in Hnj. inversion Hnj; subst. apply Qle_refl.
Qed.

(* the checker applied to implementation answers accepts exactly the nearest points (ties allowed) *)
Theorem is_nearest_b_spec q pts k : is_nearest_b q pts k = true <->
  exists pk, nth_error pts k = Some pk /\ forall p, In p pts -> d2 q pk <= d2 q p.
Proof.
  unfold is_nearest_b. destruct (nth_error pts k) as [pk|]; split.
  - intros H. exists pk. split; [reflexivity|]. rewrite forallb_forall in H. intros p Hp. apply Qle_bool_iff. apply H. exact Hp.
  - intros [pk' [E H]]. inversion E; subst. apply forallb_forall. intros p Hp. apply Qle_bool_iff. apply H. exact Hp.
  - discriminate.
  - intros [pk [E _]]. discriminate.
Qed.
