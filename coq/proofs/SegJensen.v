(* C17: the segregation index lies in [0, 1] - for ANY entropy function H that is non-negative and concave on [0, 1]
   (the binary entropy -p ln p - (1-p) ln (1-p) navis uses is such a function; logarithms are not rational, so the statement is
   parametric in H, like the metric statements of proofs/Metric.v).  Finite Jensen inequality by induction over the compartments. *)
From Coq Require Import List ZArith QArith Bool Lia Lqa Field.
Import ListNotations.
From Navis Require Import model.Forest model.Dist model.Prune model.Strahler model.Flow.
Open Scope Q_scope.

Definition H_ext (H : Q -> Q) : Prop := forall x y, x == y -> H x == H y.
Definition H_nonneg (H : Q -> Q) : Prop := forall x, 0 <= x <= 1 -> 0 <= H x.
Definition H_concave (H : Q -> Q) : Prop :=
  forall a b l, 0 <= a <= 1 -> 0 <= b <= 1 -> 0 <= l <= 1 -> l * H a + (1 - l) * H b <= H (l * a + (1 - l) * b).

Definition cnt (c : Z * Z) : Z := (fst c + snd c)%Z.
Definition Ntot (comps : list (Z * Z)) : Z := zsum (map cnt comps).
Definition Ptot (comps : list (Z * Z)) : Z := zsum (map fst comps).
Definition Qtot (comps : list (Z * Z)) : Z := zsum (map snd comps).
(* un-normalised weighted entropy *)
Definition U (H : Q -> Q) (comps : list (Z * Z)) : Q := qsum (map (fun c => inject_Z (cnt c) * H (frac (fst c) (snd c))) comps).
Definition nonneg_counts (comps : list (Z * Z)) : Prop := forall c, In c comps -> (0 <= fst c)%Z /\ (0 <= snd c)%Z.

Lemma frac_unit a b : (0 <= a)%Z -> (0 <= b)%Z -> 0 <= frac a b <= 1.
Proof.
  intros Ha Hb. unfold frac. destruct (Z.eqb_spec (a + b) 0) as [E|N]; [lra|].
  assert (Hp : 0 < inject_Z (a + b)) by (change 0 with (inject_Z 0); rewrite <- Zlt_Qlt; lia).
  assert (Ha' : 0 <= inject_Z a) by (change 0 with (inject_Z 0); rewrite <- Zle_Qle; lia).
  assert (Hab : inject_Z a <= inject_Z (a + b)) by (rewrite <- Zle_Qle; lia).
  split; [apply Qle_shift_div_l; [exact Hp | lra] | apply Qle_shift_div_r; [exact Hp | lra]].
Qed.

Lemma tot_split comps : (Ntot comps = Ptot comps + Qtot comps)%Z.
Proof. unfold Ntot, Ptot, Qtot, cnt. induction comps as [|c r IH]; cbn [map zsum fold_right]; [reflexivity|]. unfold zsum in *. cbn [fold_right]. lia. Qed.
Lemma tots_nonneg comps : nonneg_counts comps -> (0 <= Ptot comps)%Z /\ (0 <= Qtot comps)%Z.
Proof.
  intros Hn. unfold Ptot, Qtot, zsum. induction comps as [|c r IH]; cbn [map fold_right]; [lia|].
  destruct (Hn c (or_introl eq_refl)). destruct IH; [intros d Hd; apply Hn; right; exact Hd|]. lia.
Qed.

(* two compartments (counts n1 = a1+b1, n2 = a2+b2) against their union *)
Lemma jensen_two H a1 b1 a2 b2 : H_ext H -> H_concave H -> (0 <= a1)%Z -> (0 <= b1)%Z -> (0 <= a2)%Z -> (0 <= b2)%Z ->
  inject_Z (a1 + b1) * H (frac a1 b1) + inject_Z (a2 + b2) * H (frac a2 b2) <= inject_Z ((a1 + b1) + (a2 + b2)) * H (frac (a1 + a2) (b1 + b2)).
Proof.
  intros Hext Hc A1 B1 A2 B2.
  destruct (Z.eq_dec (a1 + b1) 0) as [E1|N1].
  - assert (a1 = 0%Z) by lia. assert (b1 = 0%Z) by lia. subst a1 b1. cbn [Z.add].
    change (inject_Z 0) with 0. rewrite Qmult_0_l, Qplus_0_l. lra.
  - destruct (Z.eq_dec (a2 + b2) 0) as [E2|N2].
    + assert (a2 = 0%Z) by lia. assert (b2 = 0%Z) by lia. subst a2 b2. rewrite !Z.add_0_r.
      change (inject_Z (0 + 0)) with 0. rewrite Qmult_0_l, Qplus_0_r. lra.
    + set (n1 := inject_Z (a1 + b1)). set (n2 := inject_Z (a2 + b2)).
      assert (P1 : 0 < n1) by (unfold n1; change 0 with (inject_Z 0); rewrite <- Zlt_Qlt; lia).
      assert (P2 : 0 < n2) by (unfold n2; change 0 with (inject_Z 0); rewrite <- Zlt_Qlt; lia).
      assert (En : inject_Z ((a1 + b1) + (a2 + b2)) == n1 + n2) by (unfold n1, n2; rewrite inject_Z_plus; reflexivity).
      pose proof (frac_unit a1 b1 A1 B1) as F1. pose proof (frac_unit a2 b2 A2 B2) as F2.
      set (l := n1 / (n1 + n2)).
      assert (Hl : 0 <= l <= 1).
      { unfold l. split; [apply Qle_shift_div_l; lra | apply Qle_shift_div_r; lra]. }
      pose proof (Hc (frac a1 b1) (frac a2 b2) l F1 F2 Hl) as J.
      assert (Earg : l * frac a1 b1 + (1 - l) * frac a2 b2 == frac (a1 + a2) (b1 + b2)).
      { unfold frac. destruct (Z.eqb_spec (a1 + b1) 0); [contradiction|]. destruct (Z.eqb_spec (a2 + b2) 0); [contradiction|].
        destruct (Z.eqb_spec (a1 + a2 + (b1 + b2)) 0); [lia|].
        replace (a1 + a2 + (b1 + b2))%Z with ((a1 + b1) + (a2 + b2))%Z by lia. rewrite En. fold n1 n2. unfold l.
        rewrite (inject_Z_plus a1 a2). field. lra. }
      rewrite (Hext _ _ Earg) in J. rewrite En.
      assert (Es : l * H (frac a1 b1) + (1 - l) * H (frac a2 b2) == (n1 * H (frac a1 b1) + n2 * H (frac a2 b2)) / (n1 + n2)) by (unfold l; field; lra).
      rewrite Es in J. set (X := n1 * H (frac a1 b1) + n2 * H (frac a2 b2)) in *. set (Y := H (frac (a1 + a2) (b1 + b2))) in *.
      assert (EX : X == X / (n1 + n2) * (n1 + n2)) by (field; lra).
      assert (LE : X / (n1 + n2) * (n1 + n2) <= Y * (n1 + n2)) by (apply Qmult_le_compat_r; [exact J | lra]).
      lra.
Qed.

(* finite Jensen: the weighted entropies of the compartments never exceed the entropy of the pooled mixture *)
Theorem jensen_compartments H comps : H_ext H -> H_concave H -> nonneg_counts comps ->
  U H comps <= inject_Z (Ntot comps) * H (frac (Ptot comps) (Qtot comps)).
Proof.
  intros Hext Hc Hn. induction comps as [|c r IH].
  - unfold U, Ntot, Ptot, Qtot, zsum, qsum. cbn [map fold_right]. change (inject_Z 0) with 0. rewrite Qmult_0_l. apply Qle_refl.
  - assert (Hnr : nonneg_counts r) by (intros d Hd; apply Hn; right; exact Hd). specialize (IH Hnr).
    destruct (Hn c (or_introl eq_refl)) as [A B]. destruct (tots_nonneg r Hnr) as [PA PB].
    unfold U in *. cbn [map qsum fold_right].
    assert (E1 : Ntot (c :: r) = (cnt c + Ntot r)%Z) by reflexivity.
    assert (E2 : Ptot (c :: r) = (fst c + Ptot r)%Z) by reflexivity.
    assert (E3 : Qtot (c :: r) = (snd c + Qtot r)%Z) by reflexivity.
    rewrite E1, E2, E3. pose proof (jensen_two H (fst c) (snd c) (Ptot r) (Qtot r) Hext Hc A B PA PB) as J.
    rewrite <- (tot_split r) in J. unfold cnt in *. unfold qsum in *. lra.
Qed.

Lemma U_nonneg H comps : H_nonneg H -> nonneg_counts comps -> 0 <= U H comps.
Proof.
  intros Hp Hn. unfold U, qsum. induction comps as [|c r IH]; cbn [map fold_right]; [lra|].
  destruct (Hn c (or_introl eq_refl)) as [A B].
  assert (0 <= inject_Z (cnt c)) by (unfold cnt; change 0 with (inject_Z 0); rewrite <- Zle_Qle; lia).
  pose proof (Hp _ (frac_unit _ _ A B)). assert (0 <= fold_right Qplus 0 (map (fun c0 => inject_Z (cnt c0) * H (frac (fst c0) (snd c0))) r)) by (apply IH; intros d Hd; apply Hn; right; exact Hd).
  nra.
Qed.

Lemma seg_entropy_U H comps : seg_entropy H comps == U H comps / inject_Z (Ntot comps).
Proof.
  unfold seg_entropy, U, Ntot, cnt. set (N := inject_Z (zsum (map (fun c => (fst c + snd c)%Z) comps))). clearbody N.
  unfold Dist.qsum, qsum. induction comps as [|c r IH]; cbn [map fold_right]; [unfold Qdiv; ring|]. rewrite IH. unfold Qdiv. ring.
Qed.

(* 0 <= weighted compartment entropy <= entropy of the pooled mixture, hence the index 1 - e/n lies in [0, 1] *)
Theorem seg_entropy_bounds H comps : H_ext H -> H_nonneg H -> H_concave H -> nonneg_counts comps -> (0 < Ntot comps)%Z ->
  0 <= seg_entropy H comps /\ seg_entropy H comps <= seg_norm H comps.
Proof.
  intros Hext Hp Hc Hn HN. rewrite seg_entropy_U.
  assert (PN : 0 < inject_Z (Ntot comps)) by (change 0 with (inject_Z 0); rewrite <- Zlt_Qlt; exact HN).
  split.
  - apply Qle_shift_div_l; [exact PN|]. pose proof (U_nonneg H comps Hp Hn). lra.
  - apply Qle_shift_div_r; [exact PN|]. unfold seg_norm. fold (Ptot comps) (Qtot comps).
    pose proof (jensen_compartments H comps Hext Hc Hn). lra.
Qed.
Theorem segregation_index_in_unit H comps : H_ext H -> H_nonneg H -> H_concave H -> nonneg_counts comps -> (0 < Ntot comps)%Z ->
  0 < seg_norm H comps -> 0 <= 1 - seg_entropy H comps / seg_norm H comps <= 1.
Proof.
  intros Hext Hp Hc Hn HN Hnorm. destruct (seg_entropy_bounds H comps Hext Hp Hc Hn HN) as [L R].
  assert (0 <= seg_entropy H comps / seg_norm H comps) by (apply Qle_shift_div_l; [exact Hnorm | lra]).
  assert (seg_entropy H comps / seg_norm H comps <= 1) by (apply Qle_shift_div_r; [exact Hnorm | lra]).
  lra.
Qed.
