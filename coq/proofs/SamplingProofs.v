From Coq Require Import List ZArith QArith Bool Lia Arith Lqa.
Import ListNotations.
From Navis Require Import model.Forest model.Ops model.Dist model.Sampling
  proofs.ForestWF proofs.RerootProofs proofs.SubsetCut proofs.OpsWF.
Open Scope Z_scope.

(* ---------- downsampling ---------- *)
Theorem downsample_wf t factor preserve : WF t -> WF (downsample t factor preserve).
Proof. intros H. apply contract_wf. exact H. Qed.

(* kept nodes are original nodes, with their payload (coordinates, radius) untouched *)
Theorem downsample_rows_are_original t factor preserve q : In q (downsample t factor preserve) ->
  exists q0, In q0 t /\ rid q = rid q0 /\ rdat q = rdat q0.
Proof.
  unfold downsample, contract. rewrite in_map_iff. intros [q0 [<- H]]. apply filter_In in H. exists q0. simpl. tauto.
Qed.

(* roots, leafs, branch points, preserved nodes (and the soma, passed in `preserve`) always survive *)
Theorem downsample_keeps_fix_points t factor preserve r : In r t ->
  label t r <> 3 \/ In (rid r) preserve -> In (rid r) (ids (downsample t factor preserve)).
Proof.
  intros Hr Hfx. unfold downsample. rewrite contract_ids. apply filter_In. split; [unfold ids; apply in_map; exact Hr|].
  apply memZ_In. unfold kept_nodes. apply in_or_app. left. unfold fix_points. apply in_map. apply filter_In. split; [exact Hr|].
  destruct Hfx as [H|H].
  - destruct (Z.eqb_spec (label t r) 3); [contradiction|reflexivity].
  - apply memZ_In in H. rewrite H. apply orb_true_r.
Qed.

(* every kept node is linked to its NEAREST kept ancestor *)
Theorem downsample_parent_nearest t factor preserve r : In r t ->
  memZ (rid r) (kept_nodes t factor preserve) = true -> 0 <= rpar r ->
  let K := kept_nodes t factor preserve in let p := first_in K (anc t (rpar r)) in
  In (set_par r p) (downsample t factor preserve) /\
  exists l1 l2, anc t (rpar r) = l1 ++ l2 /\ (forall y, In y l1 -> memZ y K = false) /\
    ((l2 = [] /\ p = -1) \/ (exists l2', l2 = p :: l2' /\ memZ p K = true)).
Proof. intros Hr HK Hp. apply contract_parent_nearest; assumption. Qed.

(* the walk never skips more than `factor` consecutive nodes: if the first k+1 nodes above a kept node are
   no fx points, the (k+1)-th one is kept *)
Lemma walk_keep_hits fx k : forall cnt pre x rest, (cnt + length pre = k)%nat ->
  (forall y, In y pre -> memZ y fx = false) -> memZ x fx = false ->
  In x (walk_keep fx (Some k) cnt (pre ++ x :: rest)).
Proof.
  intros cnt pre. revert cnt. induction pre as [|y pre IH]; intros cnt x rest Hc Hpre Hx; simpl.
  - rewrite Hx. simpl in Hc. replace (Nat.eqb cnt k) with true by (symmetry; apply Nat.eqb_eq; lia). left. reflexivity.
  - rewrite (Hpre y (or_introl eq_refl)). simpl in Hc.
    replace (Nat.eqb cnt k) with false by (symmetry; apply Nat.eqb_neq; lia).
    apply IH; [lia| |exact Hx]. intros z Hz. apply Hpre. right. exact Hz.
Qed.

Theorem walk_gap_le_factor fx k l pre x rest : l = pre ++ x :: rest -> length pre = k ->
  (forall y, In y pre -> memZ y fx = false) -> memZ x fx = false ->
  In x (walk_keep fx (Some k) 0 l).
Proof. intros -> Hl Hpre Hx. apply walk_keep_hits; auto. Qed.

(* with factor = infinity nothing but fx points is kept *)
Theorem walk_keep_inf fx cnt l : walk_keep fx None cnt l = [].
Proof. induction l as [|x l IH]; simpl; [reflexivity|]. destruct (memZ x fx); [reflexivity|exact IH]. Qed.

(* ---------- resampling ---------- *)
Theorem n_samples_ge_2 L res : 2 <= n_samples L res.
Proof. unfold n_samples. destruct (Qle_bool res L); lia. Qed.

(* a sampled point is a convex combination of two consecutive original nodes: it lies ON the original cable *)
Theorem locate_fraction_in_unit dist d : forall k,
  (forall a b pre post, dist = pre ++ a :: b :: post -> a <= b)%Q ->
  (match dist with a :: _ => a <= d | [] => True end)%Q ->
  (0 <= snd (locate dist d k) <= 1)%Q.
Proof.
  induction dist as [|a dist IH]; intros k Hmono Hlo; simpl; [split; [apply Qle_refl|discriminate]|].
  destruct dist as [|b rest]; [simpl; split; [apply Qle_refl|discriminate]|].
  destruct (Qle_bool d b) eqn:E.
  - simpl. destruct (Qeq_bool a b) eqn:Eab; [split; [apply Qle_refl|discriminate]|].
    apply Qle_bool_iff in E. assert (Hab : (a <= b)%Q) by (apply (Hmono a b [] rest); reflexivity).
    assert (Hne : ~ (a == b)%Q) by (intro H; apply Qeq_bool_iff in H; congruence).
    assert (Hlt : (0 < b - a)%Q).
    { unfold Qminus. apply (proj1 (Qlt_minus_iff a b)). apply Qle_lteq in Hab. destruct Hab as [H|H]; [exact H|contradiction]. }
    split.
    + apply Qle_shift_div_l; [exact Hlt|]. rewrite Qmult_0_l. apply (Qplus_le_l _ _ a). ring_simplify. exact Hlo.
    + apply Qle_shift_div_r; [exact Hlt|]. rewrite Qmult_1_l. apply (Qplus_le_l _ _ a). ring_simplify. exact E.
  - destruct rest as [|c rest']; [simpl; split; [discriminate|apply Qle_refl]|].
    apply IH.
    + intros a0 b0 pre post Hd. apply (Hmono a0 b0 (a :: pre) post). simpl. rewrite Hd. reflexivity.
    + assert (Hnle : ~ (d <= b)%Q) by (intro H; apply Qle_bool_iff in H; congruence).
      apply Qnot_le_lt in Hnle. apply Qlt_le_weak. exact Hnle.
Qed.

Theorem lerp_between t a b : (0 <= t <= 1)%Q -> (a <= b)%Q -> (a <= lerp t a b <= b)%Q.
Proof.
  intros [H0 H1] Hab. unfold lerp.
  assert (P1 : (0 <= t * (b - a))%Q) by (apply Qmult_le_0_compat; lra).
  assert (P2 : (0 <= (1 - t) * (b - a))%Q) by (apply Qmult_le_0_compat; lra).
  split; nra.
Qed.

(* the topology of a resampled skeleton (end points kept, fresh interior nodes) is a well-formed forest *)
Lemma insert_many_wf c fresh t : WF t -> WF (insert_many c fresh t).
Proof.
  revert t. induction fresh as [|n rest IH]; intros t H; simpl; [exact H|]. apply IH.
  unfold step'. destruct (step t (OInsert c n 0)) as [t'|] eqn:E; [eapply step_wf; eassumption|exact H].
Qed.

Theorem resample_topology_wf t ends plan : WF t -> WF (resample_topology t ends plan).
Proof.
  intros H. unfold resample_topology. assert (H0 : WF (contract ends t)) by (apply contract_wf; exact H).
  revert H0. generalize (contract ends t). induction plan as [|p plan IH]; intros t0 H0; simpl; [exact H0|].
  apply IH. apply insert_many_wf. exact H0.
Qed.
